(* Algorithm level: the read APIs of proto/generic AS CODED on the pinned tree, transcribed statement
   by statement including their defects, and parameterised by the set of recorded defects that are
   repaired ([fixes]: a flag set = the corresponding fix commit is applied; all flags off = the pinned
   tree). Check07 uses this only to decide whether a deviation from the spec (ProtoGeneric.plookup) is
   EXACTLY what a tree with some of the recorded defects does; expected values never come from here.
     getByPath (value.go)           : gbp          flags 701 702 703 704 710
     Field/FieldByName/Index/GetBy* : a_chain      flags 703 705
     GetMany (Fields/Indexes/Gets)  : a_getmany    flags 703 707
     PathNode.Load / Node.Children  : a_load       flags 706 711 (708 has no repair: as coded)
     Value.Interface                : a_interface  flags 703 709 *)
From Coq Require Import ZArith List Bool.
From DG Require Import CaseFormat ProtoWireRef ProtoMsg ProtoGeneric.
Import ListNotations.
Local Open Scope Z_scope.

Record fixes := mk_fixes { f701 : bool; f702 : bool; f703 : bool; f704 : bool; f705 : bool;
                           f706 : bool; f707 : bool; f709 : bool; f710 : bool; f711 : bool }.
Definition no_fixes : fixes := mk_fixes false false false false false false false false false false.

Definition at_ (buf : list Z) (rd : Z) : list Z := skipn (Z.to_nat rd) buf.
Definition slice (buf : list Z) (s e : Z) : list Z := firstn (Z.to_nat (e - s)) (at_ buf s).

(* protowire.ConsumeVarint at the cursor *)
Definition cvar (buf : list Z) (rd : Z) : option (Z * Z) :=
  let '(v, n) := varint_dec (at_ buf rd) in if n <? 0 then None else Some (v, n).

(* ConsumeTag / ConsumeTagWithoutMove: (number, wire type, tag length) *)
Definition ctag (buf : list Z) (rd : Z) : option (Z * Z * Z) :=
  match cvar buf rd with
  | None => None
  | Some (v, n) => if (v / 8 >? 2147483647) || (v / 8 <? 1) then None else Some (v / 8, v mod 8, n)
  end.

(* BinaryProtocol.Skip: wire types 3,4,6,7 fall through the switch with a nil error.
   SkipBytesType compares the declared length with what is left before using it (repo commit 283e275; the pinned
   tree computed all := int(v) + n unchecked and next(all) panicked with "invalid size" for v >= 2^63: SkPanic is
   kept in the result type for that history but no longer produced) *)
Inductive skres := SkOk (rd : Z) | SkErr | SkPanic.
Definition askip (buf : list Z) (rd wt : Z) : skres :=
  if wt =? 0 then match cvar buf rd with Some (_, n) => SkOk (rd + n) | None => SkErr end
  else if wt =? 5 then (if rd + 4 <=? plen buf then SkOk (rd + 4) else SkErr)
  else if wt =? 1 then (if rd + 8 <=? plen buf then SkOk (rd + 8) else SkErr)
  else if wt =? 2 then
    match cvar buf rd with
    | Some (v, n) =>
      if v >? plen buf - rd - n then SkErr else SkOk (rd + v + n)
    | None => SkErr
    end
  else SkOk rd.

Definition aread_length (buf : list Z) (rd : Z) : option (Z * Z) :=
  match cvar buf rd with Some (v, n) => Some (to_s 64 v, rd + n) | None => None end.

(* ReadString: (bytes, new cursor) *)
Definition aread_string (buf : list Z) (rd : Z) : option (list Z * Z) :=
  match cvar buf rd with
  | Some (m, n) =>
    if m >? plen buf - rd - n then None
    else Some (firstn (Z.to_nat m) (at_ buf (rd + n)), rd + n + m)
  | None => None
  end.

(* ReadInt(t) as a Go int; kinds outside its switch are an error (fixed32 / fixed64 are read since repo commit b0cbc62) *)
Definition aread_int (buf : list Z) (rd kk : Z) : option (Z * Z) :=
  if (kk =? 5) || (kk =? 17) || (kk =? 3) || (kk =? 18) || (kk =? 13) || (kk =? 4) then
    match cvar buf rd with Some (u, n) => Some (to_s 64 (scalar_of_u kk u), rd + n) | None => None end
  else if kk =? 15 then
    (if rd + 4 <=? plen buf then Some (to_s 32 (le_dec 4 (at_ buf rd)), rd + 4) else None)
  else if kk =? 16 then
    (if rd + 8 <=? plen buf then Some (to_s 64 (le_dec 8 (at_ buf rd)), rd + 8) else None)
  else if kk =? 7 then
    (if rd + 4 <=? plen buf then Some (le_dec 4 (at_ buf rd), rd + 4) else None)
  else if kk =? 6 then
    (if rd + 8 <=? plen buf then Some (to_s 64 (le_dec 8 (at_ buf rd)), rd + 8) else None)
  else None.

(* Type.IsInt *)
Definition kind_is_int (k : Z) : bool :=
  (k =? 5) || (k =? 3) || (k =? 15) || (k =? 16) || (k =? 18) || (k =? 17) || (k =? 13) || (k =? 4) || (k =? 7) || (k =? 6).

(* TypeDescriptor.IsPacked(): a LIST of a numeric element type that is not declared [packed = false]
   (repo commit 80a31e9; label 1 of the case format gives LRepeated (type_numeric t), label 2 LRepeated false).
   The iterators of Node.Index / Indexes / List still decide by the element TYPE only (a_index, list_next callers). *)
Definition desc_packed (lbl : flabel) (t : ftype) : bool :=
  match lbl with LRepeated p => p && type_numeric t | _ => false end.
Definition elem_wt (t : ftype) : Z := wt_of_kind (kind_of_type t).

(* ------------------------------------------------------------------ SkipAllElements *)
Inductive sares := SaOk (rd size : Z) | SaErr | SaPanic.

(* pinned tree: every packed element is read with ReadVarint; fixed (703): skipped by the element wire type and
   the run must end exactly at the end of the payload *)
Fixpoint skip_all_packed (fuel : nat) (buf : list Z) (rd lim ewt cnt : Z) : sares :=
  match fuel with
  | O => SaErr
  | S f =>
    if rd <? lim then
      match askip buf rd ewt with
      | SkOk rd' => skip_all_packed f buf rd' lim ewt (cnt + 1)
      | SkErr => SaErr
      | SkPanic => SaPanic
      end
    else SaOk rd cnt
  end.
Fixpoint skip_all_unpacked (fuel : nat) (buf : list Z) (rd fnum cnt : Z) : sares :=
  match fuel with
  | O => SaErr
  | S f =>
    if rd <? plen buf then
      match ctag buf rd with
      | None => SaErr
      | Some (num, ewt, n) =>
        if negb (num =? fnum) then SaOk rd cnt
        else match askip buf (rd + n) ewt with
             | SkOk rd' => skip_all_unpacked f buf rd' fnum (cnt + 1)
             | SkErr => SaErr
             | SkPanic => SaPanic
             end
      end
    else SaOk rd cnt
  end.
Definition skip_all_elements (fx : fixes) (buf : list Z) (rd fnum : Z) (packed : bool) (ewt : Z) : sares :=
  if packed then
    match ctag buf rd with
    | None => SaErr
    | Some (_, _, n) =>
      match aread_length buf (rd + n) with
      | None => SaErr
      | Some (len, rd0) =>
        if f703 fx then
          if (len <? 0) || (rd0 + len >? plen buf) then SaErr
          else match skip_all_packed (S (length buf)) buf rd0 (rd0 + len) ewt 0 with
               | SaOk rd' c => if rd' =? rd0 + len then SaOk rd' c else SaErr
               | r => r
               end
        else skip_all_packed (S (length buf)) buf rd0 (rd0 + len) 0 0
      end
    end
  else skip_all_unpacked (S (length buf)) buf rd fnum 0.

(* ------------------------------------------------------------------ getByPath *)
(* outcome of a search function: found (returned offset, cursor) / errNotFound / an error that is a
   generic.Node / any other error (err.(Node) panics unless 710 is fixed) / a panic inside (invalid size) *)
Inductive sres := SFound (start rd : Z) | SNotFound | SErrNode | SErrRaw | SPanic.

Fixpoint search_field_id (fuel : nat) (buf : list Z) (rd id lim : Z) : sres :=
  match fuel with
  | O => SErrRaw
  | S f =>
    if rd <? lim then
      match ctag buf rd with
      | None => SErrRaw
      | Some (num, wt, n) =>
        if num =? id then SFound rd rd
        else match askip buf (rd + n) wt with
             | SkErr => SErrNode
             | SkPanic => SPanic
             | SkOk rd' => search_field_id f buf rd' id lim
             end
      end
    else SNotFound
  end.

Fixpoint search_index_packed (fuel : nat) (fx : fixes) (buf : list Z) (rd lim idx ewt cnt : Z) : sres :=
  match fuel with
  | O => SErrRaw
  | S f =>
    if (rd <? lim) && (cnt <? idx) then
      match askip buf rd ewt with
      | SkErr => SErrNode
      | SkPanic => SPanic
      | SkOk rd' => search_index_packed f fx buf rd' lim idx ewt (cnt + 1)
      end
    else if f701 fx && (rd >=? lim) then SNotFound
    else if cnt <? idx then SNotFound else SFound rd rd
  end.

(* exists (only consulted when 701 is fixed): after skipping an element, does another one follow? *)
Fixpoint search_index_unpacked (fuel : nat) (fx : fixes) (buf : list Z) (rd idx ewt fnum cnt result : Z) (ex : bool) : sres :=
  let finish (rd cnt result : Z) (ex : bool) :=
    if f701 fx && negb ex then SNotFound
    else if cnt <? idx then SNotFound else SFound result rd in
  match fuel with
  | O => SErrRaw
  | S f =>
    if (rd <? plen buf) && (cnt <? idx) then
      match askip buf rd ewt with
      | SkErr => SErrNode
      | SkPanic => SPanic
      | SkOk rd1 =>
        let cnt1 := cnt + 1 in
        if rd1 <? plen buf then
          match ctag buf rd1 with
          | None => SErrRaw
          | Some (num, _, n) =>
            if negb (num =? fnum) then finish rd1 cnt1 result false
            else let rd2 := if cnt1 <? idx then rd1 + n else rd1 in
                 search_index_unpacked f fx buf rd2 idx ewt fnum cnt1 (rd2 + n) true
          end
        else finish rd1 cnt1 result false
      end
    else finish rd cnt result ex
  end.

Definition search_index (fx : fixes) (buf : list Z) (rd idx ewt : Z) (packed : bool) (fnum : Z) : sres :=
  if f701 fx && (idx <? 0) then SNotFound
  else if packed then
    match aread_length buf rd with
    | None => SErrRaw
    | Some (len, rd0) => search_index_packed (S (length buf)) fx buf rd0 (rd0 + len) idx ewt 0
    end
  else
    (* 702 fixed: for index 0 the cursor steps back onto the element tag (the returned offset stays behind it) *)
    let rd' := if f702 fx && (idx =? 0) then rd - plen (varint_enc (fnum * 8 + ewt)) else rd in
    search_index_unpacked (S (length buf)) fx buf rd' idx ewt fnum 0 rd true.

(* searchStrKey / searchIntKey share the loop; [rdkey] reads the key and says whether it matches *)
Fixpoint search_key (fuel : nat) (buf : list Z) (rdkey : Z -> option (bool * Z)) (rd fnum : Z) : sres :=
  match fuel with
  | O => SErrRaw
  | S f =>
    if rd <? plen buf then
      match aread_length buf rd with
      | None => SErrRaw
      | Some (_, rd1) =>
        match ctag buf rd1 with
        | None => SErrRaw
        | Some (_, _, n1) =>
          match rdkey (rd1 + n1) with
          | None => SErrRaw
          | Some (true, rd2) => SFound rd2 rd2
          | Some (false, rd2) =>
            match ctag buf rd2 with
            | None => SErrRaw
            | Some (_, vwt, n2) =>
              match askip buf (rd2 + n2) vwt with
              | SkErr => SErrNode
              | SkPanic => SPanic
              | SkOk rd3 =>
                if rd3 >=? plen buf then SNotFound
                else match ctag buf rd3 with
                     | None => SErrRaw
                     | Some (num, _, n3) =>
                       if negb (num =? fnum) then SNotFound
                       else search_key f buf rdkey (rd3 + n3) fnum
                     end
              end
            end
          end
        end
      end
    else SNotFound
  end.

Inductive gout :=
| GFoundA (ty : Z) (raw : list Z) (size : Z)
| GNotFoundA       (* errNotFoundLast *)
| GErrA            (* some error value *)
| GPanicA
| GUnmodelled.     (* a situation this transcription does not cover (ill-typed paths, unknown fields in the bytes) *)

(* the part after the path loop *)
Definition gbp_final (fx : fixes) (buf : list Z) (lbl : flabel) (t : ftype) (num : Z) (tt start rd : Z) : gout :=
  if (tt =? T_LIST) || (tt =? T_MAP) then
    match skip_all_elements fx buf rd num (desc_packed lbl t) (elem_wt t) with
    | SaErr => if f710 fx then GErrA else GPanicA
    | SaPanic => GPanicA
    | SaOk rd' size => GFoundA tt (slice buf start rd') size
    end
  else
    let after_tag :=
      if desc_packed lbl t then Some (start, rd)
      else match ctag buf rd with Some (_, _, n) => Some (rd + n, rd + n) | None => None end in
    match after_tag with
    | None => GErrA
    | Some (start', rd1) =>
      match askip buf rd1 (elem_wt t) with
      | SkErr => GErrA
      | SkPanic => GPanicA
      | SkOk rd2 => if rd2 <? start' then GUnmodelled else GFoundA tt (slice buf start' rd2) 0
      end
    end.

Fixpoint gbp_loop (fx : fixes) (S : schema) (buf : list Z) (p : list pstep) (rd : Z) (isroot : bool)
         (lbl : flabel) (t : ftype) (num : Z) {struct p} : gout :=
  match p with
  | [] => GUnmodelled
  | s :: p' =>
    let last := is_nil p' in
    let after (buf : list Z) (r : sres) (lbl' : flabel) (t' : ftype) (num' tt : Z) : gout :=
      match r with
      | SFound start rd1 =>
        if last then gbp_final fx buf lbl' t' num' tt start rd1
        else match ctag buf rd1 with
             | None => GErrA
             | Some (_, _, n) => gbp_loop fx S buf p' (rd1 + n) false lbl' t' num'
             end
      | SNotFound => if last then GNotFoundA else GErrA
      | SErrNode => GErrA
      | SErrRaw => if f710 fx then GErrA else GPanicA
      | SPanic => GPanicA
      end in
    match s with
    | PField _ | PName _ =>
      match (if isroot then Some (plen buf, rd) else aread_length buf rd) with
      | None => GErrA
      | Some (mlen, rd0) =>
        (* 704 fixed: the read buffer is narrowed to the message of the field step *)
        let buf' := if f704 fx && (0 <=? rd0 + mlen) && (rd0 + mlen <? plen buf) then firstn (Z.to_nat (rd0 + mlen)) buf else buf in
        match lbl, t with
        | LMap _, _ => GUnmodelled
        | _, TScalar _ => GUnmodelled
        | _, TMsg name =>
          match find_msg S name with
          | None => GUnmodelled
          | Some md =>
            match s, step_field md s with
            | PField n, None =>
              match search_field_id (Datatypes.S (length buf')) buf' rd0 n (rd0 + mlen) with
              | SFound _ _ => GUnmodelled
              | r => after buf' r lbl t num K_MESSAGE
              end
            | _, Some fd =>
              after buf' (search_field_id (Datatypes.S (length buf')) buf' rd0 (fd_num fd) (rd0 + mlen))
                    (fd_label fd) (fd_type fd) (fd_num fd) (node_type (fd_label fd) (fd_type fd))
            | _, None => GErrA      (* field name not in the descriptor *)
            end
          end
        end
      end
    | PIndex i =>
      match lbl with
      | LRepeated _ =>
        after buf (search_index fx buf rd i (elem_wt t) (desc_packed lbl t) num) lbl t num (kind_of_type t)
      | _ => GUnmodelled
      end
    | PStrKey k =>
      match lbl with
      | LMap _ =>
        after buf (search_key (Datatypes.S (length buf)) buf
                 (fun r => match aread_string buf r with
                           | Some (b, r') => Some (bytes_eqb b k, r')
                           | None => None
                           end) rd num)
              LSingular t 0 (kind_of_type t)
      | _ => GUnmodelled
      end
    | PIntKey k =>
      match lbl with
      | LMap kk =>
        after buf (search_key (Datatypes.S (length buf)) buf
                 (fun r => match aread_int buf r kk with
                           | Some (x, r') => Some (x =? k, r')
                           | None => None
                           end) rd num)
              LSingular t 0 (kind_of_type t)
      | _ => GUnmodelled
      end
    end
  end.

Definition gbp (fx : fixes) (S : schema) (root : list Z) (buf : list Z) (p : list pstep) : gout :=
  match p with
  | [] => GFoundA K_MESSAGE buf 0
  | _ => gbp_loop fx S buf p 0 true LSingular (TMsg root) 0
  end.

(* ------------------------------------------------------------------ nodes and the single-step APIs *)
(* a Value: node type, raw bytes, element count (0 = lazily loaded), IsRoot, and its descriptor *)
Record anode := mk_anode { an_t : Z; an_raw : list Z; an_size : Z; an_root : bool;
                           an_lbl : flabel; an_ty : ftype; an_num : Z }.
Inductive ares :=
| ANode (n : anode)
| ABroken (t : Z)      (* a node with a negative length: Raw() panics *)
| ANotFound | AErr | APanic | AUnmod.

Definition msg_of (n : anode) (S : schema) : option mdesc :=
  match an_ty n with TMsg name => find_msg S name | TScalar _ => None end.

(* Node.Field / Value.FieldByName: iterate the fields of the message node *)
Fixpoint a_field_loop (fuel : nat) (fx : fixes) (raw : list Z) (rd : Z) (fd : fdesc) : ares :=
  match fuel with
  | O => AErr
  | S f =>
    if rd <? plen raw then
      match ctag raw rd with
      | None => AErr
      | Some (num, wt, n) =>
        match askip raw (rd + n) wt with
        | SkErr => AErr
        | SkPanic => APanic
        | SkOk e =>
          if num =? fd_num fd then
            match fd_label fd with
            | LSingular =>
              if wt =? elem_wt (fd_type fd)
              then ANode (mk_anode (kind_of_type (fd_type fd)) (slice raw (rd + n) e) 0 false LSingular (fd_type fd) (fd_num fd))
              else AErr
            | lbl =>
              match skip_all_elements fx raw rd (fd_num fd) (desc_packed lbl (fd_type fd)) (elem_wt (fd_type fd)) with
              | SaOk e' _ => ANode (mk_anode (node_type lbl (fd_type fd)) (slice raw rd e') 0 false lbl (fd_type fd) (fd_num fd))
              | SaErr => AErr
              | SaPanic => APanic
              end
            end
          else a_field_loop f fx raw e fd
        end
      end
    else ANotFound
  end.

Definition a_field (fx : fixes) (S : schema) (n : anode) (s : pstep) : ares :=
  if negb (an_t n =? K_MESSAGE) then AErr else
  match an_lbl n, msg_of n S with
  | LSingular, Some md =>
    match step_field md s with
    | None => AErr
    | Some fd =>
      match (if an_root n then Some (0, 0) else aread_length (an_raw n) 0) with
      | None => AErr
      | Some (_, rd) => a_field_loop (Datatypes.S (length (an_raw n))) fx (an_raw n) rd fd
      end
    end
  | _, _ => AUnmod
  end.

(* listIterator.Next: (start, end, cursor after) or an error / panic *)
Inductive itres := ItOk (s e rd : Z) | ItErrTag | ItErrSkip (s : Z) | ItPanic.
Definition list_next (raw : list Z) (rd ewt : Z) (packed : bool) : itres :=
  let go (start : Z) :=
    match askip raw start ewt with
    | SkOk e => ItOk start e e
    | SkErr => ItErrSkip start
    | SkPanic => ItPanic
    end in
  if packed then go rd
  else match ctag raw rd with Some (_, _, n) => go (rd + n) | None => ItErrTag end.

Fixpoint list_advance (fuel : nat) (raw : list Z) (rd ewt : Z) (packed : bool) (j idx : Z) : option (option (Z * Z)) :=
  (* Some (Some (rd, k)) after skipping; Some None = iterator error; None = panic *)
  match fuel with
  | O => Some None
  | S f =>
    if (rd <? plen raw) && (j <? idx) then
      match list_next raw rd ewt packed with
      | ItOk _ _ rd' => list_advance f raw rd' ewt packed (j + 1) idx
      | ItPanic => None
      | _ => Some None
      end
    else Some (Some (rd, j))
  end.

Definition a_index (fx : fixes) (n : anode) (idx : Z) : ares :=
  if negb (an_t n =? T_LIST) then AErr else
  if f705 fx && (idx <? 0) then AErr else
  let raw := an_raw n in
  match ctag raw 0 with
  | None => AErr
  | Some (_, wt0, _) =>
    if negb (wt0 =? 2) then AErr else
    let et := kind_of_type (an_ty n) in
    let ewt := elem_wt (an_ty n) in
    let packed := type_numeric (an_ty n) in
    if (an_size n >? 0) && (idx >=? an_size n) then AErr else
    let start0 :=
      if packed then
        match ctag raw 0 with
        | Some (_, _, tn) => match aread_length raw tn with Some (_, r) => Some r | None => None end
        | None => None
        end
      else Some 0 in
    match start0 with
    | None => AErr
    | Some rd0 =>
      match list_advance (S (length raw)) raw rd0 ewt packed 0 idx with
      | None => APanic
      | Some None => AErr
      | Some (Some (rd, k)) =>
        if (idx >? k) || (f705 fx && negb (rd <? plen raw)) then AErr
        else
          let elem (s e : Z) := ANode (mk_anode et (slice raw s e) 0 false LSingular (an_ty n) 0) in
          match list_next raw rd ewt packed with
          | ItOk s e _ => elem s e
          | ItErrTag => elem 0 0                     (* Next() returned the zero offsets: an empty node *)
          | ItErrSkip s => if s =? 0 then elem 0 0 else ABroken et
          | ItPanic => APanic
          end
      end
    end
  end.

(* mapIterator.NextStr / NextInt: (key matches, value start, value end, cursor) *)
Inductive pairres := PrOk (key : mkey) (s e rd : Z) | PrErr | PrPanic.
Definition pair_next (raw : list Z) (rd kk vwt : Z) : pairres :=
  match ctag raw rd with
  | None => PrErr
  | Some (_, _, n0) =>
    match aread_length raw (rd + n0) with
    | None => PrErr
    | Some (_, rd1) =>
      match ctag raw rd1 with
      | None => PrErr
      | Some (_, kwt, n1) =>
        if negb (kwt =? wt_of_kind kk) then PrErr else
        let key :=
          if kk =? 9 then match aread_string raw (rd1 + n1) with Some (b, r) => Some (KStr b, r) | None => None end
          else match aread_int raw (rd1 + n1) kk with Some (x, r) => Some (KInt kk x, r) | None => None end in
        match key with
        | None => PrErr
        | Some (k, rd2) =>
          match ctag raw rd2 with
          | None => PrErr
          | Some (_, ewt, n2) =>
            if negb (ewt =? vwt) then PrErr else
            match askip raw (rd2 + n2) vwt with
            | SkOk e => PrOk k (rd2 + n2) e e
            | SkErr => PrErr
            | SkPanic => PrPanic
            end
          end
        end
      end
    end
  end.

Definition key_is (s : pstep) (k : mkey) : bool :=
  match s, k with
  | PStrKey a, KStr b => bytes_eqb a b
  | PIntKey i, KInt _ x => x =? i          (* x is already the Go int image *)
  | _, _ => false
  end.

Fixpoint a_getkey_loop (fuel : nat) (raw : list Z) (rd kk vwt : Z) (s : pstep) (vt : ftype) : ares :=
  match fuel with
  | O => AErr
  | S f =>
    if rd <? plen raw then
      match pair_next raw rd kk vwt with
      | PrErr => AErr
      | PrPanic => APanic
      | PrOk k vs ve rd' =>
        if key_is s k then ANode (mk_anode (kind_of_type vt) (slice raw vs ve) 0 false LSingular vt 0)
        else a_getkey_loop f raw rd' kk vwt s vt
      end
    else ANotFound
  end.

Definition a_getkey (n : anode) (s : pstep) : ares :=
  if negb (an_t n =? T_MAP) then AErr else
  match an_lbl n with
  | LMap kk =>
    let kind_ok := match s with PStrKey _ => kk =? 9 | PIntKey _ => kind_is_int kk | _ => false end in
    if negb kind_ok then AErr else
    match ctag (an_raw n) 0 with
    | None => AErr
    | Some (_, wt0, _) =>
      if negb (wt0 =? 2) then AErr
      else a_getkey_loop (S (length (an_raw n))) (an_raw n) 0 kk (elem_wt (an_ty n)) s (an_ty n)
    end
  | _ => AUnmod
  end.

Definition a_step (fx : fixes) (S : schema) (n : anode) (s : pstep) : ares :=
  match s with
  | PField _ | PName _ => a_field fx S n s
  | PIndex i => a_index fx n i
  | PStrKey _ | PIntKey _ => a_getkey n s
  end.

(* the harness chains the single-step APIs and stops at the first error value *)
Fixpoint a_chain (fx : fixes) (S : schema) (n : anode) (p : list pstep) : ares :=
  match p with
  | [] => ANode n
  | s :: p' =>
    match a_step fx S n s with
    | ANode n' => a_chain fx S n' p'
    | ABroken t => match p' with [] => ABroken t | _ => AUnmod end
    | r => r
    end
  end.

Definition root_node (root : list Z) (buf : list Z) : anode :=
  mk_anode K_MESSAGE buf 0 true LSingular (TMsg root) 0.

(* ------------------------------------------------------------------ GetMany *)
(* result per requested path: Some node bytes / None (left untouched); or the whole call fails *)
Inductive mres := MOk (l : list (option (Z * list Z))) | MErr | MPanic | MUnmod.

Fixpoint set_first {A} (p : nat -> bool) (x : A) (i : nat) (l : list (option A)) : list (option A) * bool :=
  match l with
  | [] => ([], false)
  | y :: r => if p i then (Some x :: r, true)
              else let '(r', b) := set_first p x (Datatypes.S i) r in (y :: r', b)
  end.

Definition req_matches (reqs : list pstep) (f : pstep -> bool) (i : nat) : bool :=
  match nth_error reqs i with Some s => f s | None => false end.

Fixpoint a_fields_loop (fuel : nat) (fx : fixes) (md : mdesc) (raw : list Z) (rd : Z) (reqs : list pstep)
         (acc : list (option (Z * list Z))) (count need : Z) : mres :=
  match fuel with
  | O => MErr
  | S f =>
    if (rd <? plen raw) && (count <? need) then
      match ctag raw rd with
      | None => MErr
      | Some (num, wt, n) =>
        match askip raw (rd + n) wt with
        | SkErr => MErr
        | SkPanic => MPanic
        | SkOk e =>
          match find_field md num with
          | None => MPanic                                  (* f.Type() on a nil descriptor *)
          | Some fd =>
            let hit :=
              match fd_label fd with
              | LSingular => Some (kind_of_type (fd_type fd), slice raw (rd + n) e, e)
              | lbl =>
                match skip_all_elements fx raw rd num (desc_packed lbl (fd_type fd)) (elem_wt (fd_type fd)) with
                | SaOk e' _ => Some (node_type lbl (fd_type fd), slice raw rd e', e')
                | _ => None
                end
              end in
            match hit with
            | None => MErr
            | Some (ty, bytes, e') =>
              let '(acc', b) := set_first (req_matches reqs (fun s => match s with PField k => k =? num | _ => false end))
                                          (ty, bytes) O acc in
              a_fields_loop f fx md raw e' reqs acc' (if b then count + 1 else count) need
            end
          end
        end
      end
    else MOk acc
  end.

Fixpoint a_indexes_loop (fuel : nat) (raw : list Z) (rd ewt : Z) (packed : bool) (et size : Z) (reqs : list pstep)
         (acc : list (option (Z * list Z))) (i count need : Z) : mres :=
  match fuel with
  | O => MErr
  | S f =>
    if (rd <? plen raw) && (count <? need) then
      match list_next raw rd ewt packed with
      | ItOk s e rd' =>
        let '(acc', b) := set_first (req_matches reqs (fun st => match st with PIndex k => negb (k >=? size) && (k =? i) | _ => false end))
                                    (et, slice raw s e) O acc in
        a_indexes_loop f raw rd' ewt packed et size reqs acc' (i + 1) (if b then count + 1 else count) need
      | ItPanic => MPanic
      | _ => MErr
      end
    else MOk acc
  end.

(* Node.Gets as coded: a NEW pair is read for every requested key and compared with that key only;
   fixed (707): one pair per round, compared with every key *)
Fixpoint a_gets_inner (raw : list Z) (kk vwt et : Z) (reqs : list pstep) (j : nat) (rd : Z)
         (acc : list (option (Z * list Z))) : option (option (Z * list (option (Z * list Z)) * bool)) :=
  (* None = panic; Some None = error; Some (Some (rd, acc, found)) *)
  match reqs with
  | [] => Some (Some (rd, acc, false))
  | s :: reqs' =>
    match s with
    | PStrKey _ | PIntKey _ =>
      let kind_ok := match s with PStrKey _ => kk =? 9 | _ => kind_is_int kk end in
      if negb kind_ok then Some None else
      match pair_next raw rd kk vwt with
      | PrErr => Some None
      | PrPanic => None
      | PrOk k vs ve rd' =>
        if key_is s k then
          let '(acc', _) := set_first (fun i => Nat.eqb i j) (et, slice raw vs ve) O acc in
          Some (Some (rd', acc', true))
        else a_gets_inner raw kk vwt et reqs' (Datatypes.S j) rd' acc
      end
    | _ => a_gets_inner raw kk vwt et reqs' (Datatypes.S j) rd acc
    end
  end.

Fixpoint a_gets_loop (fuel : nat) (fx : fixes) (raw : list Z) (kk vwt et : Z) (reqs : list pstep) (rd : Z)
         (acc : list (option (Z * list Z))) (count need : Z) : mres :=
  match fuel with
  | O => MErr
  | S f =>
    if (rd <? plen raw) && (count <? need) then
      if f707 fx then
        match pair_next raw rd kk vwt with
        | PrErr => MErr
        | PrPanic => MPanic
        | PrOk k vs ve rd' =>
          let '(acc', b) := set_first (req_matches reqs (fun s => key_is s k)) (et, slice raw vs ve) O acc in
          a_gets_loop f fx raw kk vwt et reqs rd' acc' (if b then count + 1 else count) need
        end
      else
        match a_gets_inner raw kk vwt et reqs O rd acc with
        | None => MPanic
        | Some None => MErr
        | Some (Some (rd', acc', b)) =>
          if rd' =? rd then MOk acc'        (* no key step among the requests: the Go loop would spin; not generated *)
          else a_gets_loop f fx raw kk vwt et reqs rd' acc' (if b then count + 1 else count) need
        end
    else MOk acc
  end.

Definition a_getmany (fx : fixes) (S : schema) (n : anode) (reqs : list pstep) : mres :=
  let acc0 := map (fun _ => @None (Z * list Z)) reqs in
  let need := plen reqs in
  let raw := an_raw n in
  match reqs with
  | [] => MOk []
  | PField _ :: _ =>
    if negb (an_t n =? K_MESSAGE) then MErr else
    match msg_of n S with
    | None => MUnmod
    | Some md =>
      match (if an_root n then Some (0, 0) else aread_length raw 0) with
      | None => MErr
      | Some (_, rd) => a_fields_loop (Datatypes.S (length raw)) fx md raw rd reqs acc0 0 need
      end
    end
  | PIndex _ :: _ =>
    if negb (an_t n =? T_LIST) then MErr else
    match ctag raw 0 with
    | None => MErr
    | Some (_, wt0, tn) =>
      if negb (wt0 =? 2) then MErr else
      let packed := type_numeric (an_ty n) in
      let rd0 := if packed then match aread_length raw tn with Some (_, r) => Some r | None => None end else Some 0 in
      match rd0 with
      | None => MErr
      | Some rd => a_indexes_loop (Datatypes.S (length raw)) raw rd (elem_wt (an_ty n)) packed (kind_of_type (an_ty n))
                                  (an_size n) reqs acc0 0 0 need
      end
    end
  | PStrKey _ :: _ | PIntKey _ :: _ =>
    if negb (an_t n =? T_MAP) then MErr else
    match an_lbl n, ctag raw 0 with
    | LMap kk, Some (_, wt0, _) =>
      if negb (wt0 =? 2) then MErr
      else a_gets_loop (Datatypes.S (length raw)) fx raw kk (elem_wt (an_ty n)) (kind_of_type (an_ty n)) reqs 0 acc0 0 need
    | LMap _, None => MErr
    | _, _ => MUnmod
    end
  | PName _ :: _ => MErr
  end.

(* ------------------------------------------------------------------ PathNode.Load / Node.Children *)
Inductive atree := ATree (step : pstep) (t : Z) (raw : list Z) (kids : list atree).
Inductive tres := TOk (kids : list atree) (rd : Z) | TErr | TPanic | TUnmod.

(* the "skip the remaining records with the same number" loop of handleChild / handleUnknownChild *)
Fixpoint same_number_run (fuel : nat) (buf : list Z) (rd fnum : Z) : skres :=
  match fuel with
  | O => SkErr
  | S f =>
    if rd <? plen buf then
      match ctag buf rd with
      | None => SkErr
      | Some (num, wt, n) =>
        if negb (num =? fnum) then SkOk rd
        else match askip buf (rd + n) wt with
             | SkOk rd' => same_number_run f buf rd' fnum
             | r => r
             end
      end
    else SkOk rd
  end.

Section Scan.
  Variable fx : fixes.
  Variable S : schema.
  Variable recurse : bool.
  (* scanChildren at the next smaller nesting fuel: node type, descriptor, buffer, cursor, messageLen *)
  Variable scan : Z -> flabel -> ftype -> Z -> list Z -> Z -> Z -> tres.

  (* handleChild: the child described by (lbl,t,num) starts at rd (its tag of length tagL just consumed);
     parent_list = the parent node is a LIST (the child is then an element) *)
  Definition handle_child (buf : list Z) (rd tagL : Z) (lbl : flabel) (t : ftype) (num : Z) (step : pstep)
    : option (atree * Z) + Z :=       (* inl (Some (child, cursor)) | inl None = error | inr 0 panic | inr 1 unmodelled *)
    let tt := node_type lbl t in
    let islm := (tt =? T_LIST) || (tt =? T_MAP) in
    let start := if islm then rd - tagL else rd in
    let skipt := if islm then 2 else elem_wt t in
    if start <? 0 then inl None else
    match askip buf rd skipt with
    | SkErr => inl None
    | SkPanic => inr 0
    | SkOk rd1 =>
      let run := if ((tt =? T_LIST) && negb (desc_packed lbl t)) || (tt =? T_MAP)
                 then same_number_run (Datatypes.S (length buf)) buf rd1 num else SkOk rd1 in
      match run with
      | SkErr => inl None
      | SkPanic => inr 0
      | SkOk rd2 =>
        let bytes := slice buf start rd2 in
        if recurse && ((tt =? K_MESSAGE) || islm) then
          (* 711 fixed: the recursive scan gets the child's bytes only, not the rest of the parent buffer *)
          let sub := if f711 fx then slice buf start rd2 else at_ buf start in
          let go (mlen rd0 : Z) :=
            match scan tt lbl t num sub rd0 mlen with
            | TOk kids srd => inl (Some (ATree step tt bytes kids, start + srd))
            | TErr => inl None
            | TPanic => inr 0
            | TUnmod => inr 1
            end in
          if tt =? K_MESSAGE then
            match aread_length sub 0 with
            | None => inl None
            | Some (mlen, rd0) =>
              if (if f706 fx then mlen <? 0 else mlen <=? 0) then inl None else go mlen rd0
            end
          else go 0 0
        else inl (Some (ATree step tt bytes [], rd2))
      end
    end.

  (* handleUnknownChild *)
  Definition handle_unknown (buf : list Z) (rd tagL num wt : Z) : option (atree * Z) + Z :=
    match askip buf rd wt with
    | SkErr => inl None
    | SkPanic => inr 0
    | SkOk rd1 =>
      match same_number_run (Datatypes.S (length buf)) buf rd1 num with
      | SkErr => inl None
      | SkPanic => inr 0
      | SkOk rd2 => inl (Some (ATree (PField num) 0 (slice buf (rd - tagL) rd2) [], rd2))
      end
    end.

  Definition lift (r : option (atree * Z) + Z) (k : atree -> Z -> tres) : tres :=
    match r with
    | inl (Some (c, rd)) => k c rd
    | inl None => TErr
    | inr 0 => TPanic
    | inr _ => TUnmod
    end.
  Definition tcons (c : atree) (r : tres) : tres :=
    match r with TOk l rd => TOk (c :: l) rd | e => e end.

  Fixpoint scan_msg (fuel : nat) (md : mdesc) (buf : list Z) (rd lim : Z) : tres :=
    match fuel with
    | O => TErr
    | Datatypes.S f =>
      if rd <? lim then
        match ctag buf rd with
        | None => TErr
        | Some (num, wt, n) =>
          match find_field md num with
          | Some fd => lift (handle_child buf (rd + n) n (fd_label fd) (fd_type fd) (fd_num fd) (PField num))
                            (fun c rd' => tcons c (scan_msg f md buf rd' lim))
          | None => lift (handle_unknown buf (rd + n) n num wt)
                         (fun c rd' => tcons c (scan_msg f md buf rd' lim))
          end
        end
      else TOk [] rd
    end.

  Fixpoint scan_packed (fuel : nat) (t : ftype) (buf : list Z) (rd lim llen i : Z) : tres :=
    match fuel with
    | O => TErr
    | Datatypes.S f =>
      if rd <? lim then
        lift (handle_child buf rd llen LSingular t 0 (PIndex i))
             (fun c rd' => tcons c (scan_packed f t buf rd' lim llen (i + 1)))
      else TOk [] rd
    end.

  Fixpoint scan_unpacked (fuel : nat) (t : ftype) (buf : list Z) (rd fnum i : Z) : tres :=
    match fuel with
    | O => TErr
    | Datatypes.S f =>
      if rd <? plen buf then
        match ctag buf rd with
        | None => TErr
        | Some (num, _, n) =>
          if negb (num =? fnum) then TOk [] rd
          else lift (handle_child buf (rd + n) n LSingular t 0 (PIndex i))
                    (fun c rd' => tcons c (scan_unpacked f t buf rd' fnum (i + 1)))
        end
      else TOk [] rd
    end.

  Fixpoint scan_map (fuel : nat) (kk : Z) (t : ftype) (buf : list Z) (rd fnum : Z) : tres :=
    match fuel with
    | O => TErr
    | Datatypes.S f =>
      if rd <? plen buf then
        match ctag buf rd with
        | None => TErr
        | Some (num, _, n) =>
          if negb (num =? fnum) then TOk [] rd else
          match aread_length buf (rd + n) with
          | None => TErr
          | Some (plen_, rd1) =>
            if plen_ <=? 0 then TErr else
            match ctag buf rd1 with
            | None => TErr
            | Some (_, _, n1) =>
              let key :=
                if kk =? 9 then match aread_string buf (rd1 + n1) with Some (b, r) => Some (PStrKey b, r) | None => None end
                else if kind_is_int kk then match aread_int buf (rd1 + n1) kk with Some (x, r) => Some (PIntKey x, r) | None => None end
                else None in
              match key with
              | None => TErr
              | Some (kstep, rd2) =>
                match ctag buf rd2 with
                | None => TErr
                | Some (_, _, n2) =>
                  lift (handle_child buf (rd2 + n2) n2 LSingular t 0 kstep)
                       (fun c rd' => tcons c (scan_map f kk t buf rd' fnum))
                end
              end
            end
          end
        end
      else TOk [] rd
    end.

  (* scanChildren: dispatch on the NODE type *)
  Definition scan_children (tt : Z) (lbl : flabel) (t : ftype) (num : Z) (buf : list Z) (rd mlen : Z) : tres :=
    let fuel := Datatypes.S (length buf) in
    if tt =? K_MESSAGE then
      match t with
      | TMsg name => match find_msg S name with
                     | Some md => scan_msg fuel md buf rd (rd + mlen)
                     | None => TUnmod
                     end
      | TScalar _ => TUnmod
      end
    else if tt =? T_LIST then
      if type_numeric t then
        match ctag buf rd with
        | None => TErr
        | Some (_, _, n) =>
          match aread_length buf (rd + n) with
          | None => TErr
          | Some (llen, rd0) => scan_packed fuel t buf rd0 (rd0 + llen) llen 0
          end
        end
      else scan_unpacked fuel t buf rd num 0
    else if tt =? T_MAP then
      match lbl with LMap kk => scan_map fuel kk t buf rd num | _ => TUnmod end
    else TErr.
End Scan.

Fixpoint a_scan (fuel : nat) (fx : fixes) (S : schema) (recurse : bool)
         (tt : Z) (lbl : flabel) (t : ftype) (num : Z) (buf : list Z) (rd mlen : Z) : tres :=
  match fuel with
  | O => TErr
  | Datatypes.S f => scan_children fx S recurse (a_scan f fx S recurse) tt lbl t num buf rd mlen
  end.

(* PathNode.Load(recurse, opts, desc) on a node: scanChildren from offset 0 with messageLen = len(raw) *)
Definition a_load (fx : fixes) (S : schema) (recurse : bool) (n : anode) : tres :=
  a_scan (Datatypes.S (length (an_raw n))) fx S recurse (an_t n) (an_lbl n) (an_ty n) (an_num n) (an_raw n) 0 (plen (an_raw n)).

Definition step_eqb (a b : pstep) : bool :=
  match a, b with
  | PField x, PField y => x =? y
  | PIndex x, PIndex y => x =? y
  | PIntKey x, PIntKey y => x =? y
  | PStrKey x, PStrKey y => bytes_eqb x y
  | _, _ => false
  end.
Fixpoint find_kid (s : pstep) (l : list atree) : option atree :=
  match l with
  | [] => None
  | ATree st t raw kids :: r => if step_eqb st s then Some (ATree st t raw kids) else find_kid s r
  end.
Fixpoint walk_tree (l : list atree) (p : list pstep) : option (Z * list Z) :=
  match p with
  | [] => None
  | s :: p' =>
    match find_kid s l with
    | None => None
    | Some (ATree _ t raw kids) => match p' with [] => Some (t, raw) | _ => walk_tree kids p' end
    end
  end.

(* ------------------------------------------------------------------ Value.Interface *)
Inductive ires := IOk (g : gval) | IErr | IPanic | IUnmod.

Definition upsert_z {B} (k : Z) (v : B) (l : list (Z * B)) : list (Z * B) :=
  (fix go (l : list (Z * B)) := match l with
     | [] => [(k, v)]
     | (k', v') :: r => if k' =? k then (k, v) :: r else (k', v') :: go r end) l.
Definition upsert_b {B} (k : list Z) (v : B) (l : list (list Z * B)) : list (list Z * B) :=
  (fix go (l : list (list Z * B)) := match l with
     | [] => [(k, v)]
     | (k', v') :: r => if bytes_eqb k' k then (k, v) :: r else (k', v') :: go r end) l.

Definition scalar_interface (fx : fixes) (k : Z) (raw : list Z) : ires :=
  let u := match cvar raw 0 with Some (v, _) => v | None => 0 end in
  if is_signed_kind k && negb (k =? 15) && negb (k =? 16) then IOk (GInt (scalar_of_u k u))
  else if k =? 15 then IOk (GInt (to_s 32 (le_dec 4 raw)))
  else if k =? 16 then IOk (GInt (to_s 64 (le_dec 8 raw)))
  else if (k =? 13) || (k =? 4) then IOk (GUint (scalar_of_u k u))
  else if k =? 7 then IOk (GUint (le_dec 4 raw))
  else if k =? 6 then IOk (GUint (le_dec 8 raw))
  else if k =? 1 then IOk (GF64 (le_dec 8 raw))
  else if k =? 2 then (if f709 fx then IOk (GF32 (le_dec 4 raw)) else IErr)
  else if k =? 8 then IOk (GBool (if u =? 0 then 0 else 1))
  else if k =? 9 then IOk (GStr (match aread_string raw 0 with Some (b, _) => b | None => [] end))
  else if k =? 12 then IOk (GBin (match aread_string raw 0 with Some (b, _) => b | None => [] end))
  else IErr.

Section Iface.
  Variable fx : fixes.
  Variable S : schema.
  Variable rec : anode -> ires.

  Fixpoint if_msg (fuel : nat) (md : mdesc) (raw : list Z) (rd : Z) (acc : list (Z * gval)) : ires :=
    match fuel with
    | O => IErr
    | Datatypes.S f =>
      if rd <? plen raw then
        match ctag raw rd with
        | None => IErr
        | Some (num, wt, n) =>
          match askip raw (rd + n) wt with
          | SkErr => IErr
          | SkPanic => IPanic
          | SkOk e =>
            match find_field md num with
            | None => IErr
            | Some fd =>
              let sub :=
                match fd_label fd with
                | LSingular => Some (mk_anode (kind_of_type (fd_type fd)) (slice raw (rd + n) e) 0 false LSingular (fd_type fd) num, e)
                | lbl =>
                  match skip_all_elements fx raw rd num (desc_packed lbl (fd_type fd)) (elem_wt (fd_type fd)) with
                  | SaOk e' _ => Some (mk_anode (node_type lbl (fd_type fd)) (slice raw rd e') 0 false lbl (fd_type fd) num, e')
                  | SaErr => None
                  | SaPanic => None
                  end
                end in
              match sub with
              | None => IErr
              | Some (nd, e') =>
                match rec nd with
                | IOk g => if_msg f md raw e' (upsert_z num g acc)
                | r => r
                end
              end
            end
          end
        end
      else IOk (GMapI acc)
    end.

  Fixpoint if_list (fuel : nat) (raw : list Z) (rd ewt : Z) (packed : bool) (t : ftype) (acc : list gval) : ires :=
    match fuel with
    | O => IErr
    | Datatypes.S f =>
      if rd <? plen raw then
        match list_next raw rd ewt packed with
        | ItOk s e rd' =>
          match rec (mk_anode (kind_of_type t) (slice raw s e) 0 false LSingular t 0) with
          | IOk g => if_list f raw rd' ewt packed t (acc ++ [g])
          | r => r
          end
        | ItPanic => IPanic
        | _ => IErr
        end
      else IOk (GList acc)
    end.

  Fixpoint if_map (fuel : nat) (raw : list Z) (rd kk vwt : Z) (t : ftype) (si : list (list Z * gval)) (ii : list (Z * gval)) : ires :=
    match fuel with
    | O => IErr
    | Datatypes.S f =>
      if rd <? plen raw then
        match pair_next raw rd kk vwt with
        | PrErr => IErr
        | PrPanic => IPanic
        | PrOk k vs ve rd' =>
          match rec (mk_anode (kind_of_type t) (slice raw vs ve) 0 false LSingular t 0) with
          | IOk g =>
            match k with
            | KStr b => if_map f raw rd' kk vwt t (upsert_b b g si) ii
            | KInt _ x => if_map f raw rd' kk vwt t si (upsert_z x g ii)
            end
          | r => r
          end
        end
      else IOk (if kk =? 9 then GMapS si else GMapI ii)
    end.

  Definition interface_node (n : anode) : ires :=
    let raw := an_raw n in
    let fuel := Datatypes.S (length raw) in
    if an_t n =? K_MESSAGE then
      match msg_of n S with
      | None => IUnmod
      | Some md =>
        match (if an_root n then Some (0, 0) else aread_length raw 0) with
        | None => IErr
        | Some (_, rd) => if_msg fuel md raw rd []
        end
      end
    else if an_t n =? T_LIST then
      match ctag raw 0 with
      | None => IErr
      | Some (_, wt0, tn) =>
        if negb (wt0 =? 2) then IErr else
        let packed := type_numeric (an_ty n) in
        match (if packed then match aread_length raw tn with Some (_, r) => Some r | None => None end else Some 0) with
        | None => IErr
        | Some rd => if_list fuel raw rd (elem_wt (an_ty n)) packed (an_ty n) []
        end
      end
    else if an_t n =? T_MAP then
      match an_lbl n with
      | LMap kk =>
        if negb ((kk =? 9) || kind_is_int kk) then IErr else
        match ctag raw 0 with
        | None => IErr
        | Some (_, wt0, _) => if negb (wt0 =? 2) then IErr else if_map fuel raw 0 kk (elem_wt (an_ty n)) (an_ty n) [] []
        end
      | _ => IUnmod
      end
    else scalar_interface fx (an_t n) raw.
End Iface.

Fixpoint a_interface (fuel : nat) (fx : fixes) (S : schema) (n : anode) : ires :=
  match fuel with
  | O => IErr
  | Datatypes.S f => interface_node fx S (a_interface f fx S) n
  end.
