(* Algorithm level: Value.getByPath of proto/generic/value.go AS CODED on the pinned tree
   (searchFieldId / searchIndex / searchStrKey / searchIntKey / SkipAllElements / final slice),
   transcribed statement by statement, including its defects. It is used by Check07 only to decide
   whether a deviation from the spec (ProtoGeneric.plookup) is EXACTLY what the code is known to do
   (known findings); expected values never come from here. *)
From Coq Require Import ZArith List Bool.
From DG Require Import CaseFormat ProtoWireRef ProtoMsg ProtoGeneric.
Import ListNotations.
Local Open Scope Z_scope.

Definition at_ (buf : list Z) (rd : Z) : list Z := skipn (Z.to_nat rd) buf.

(* protowire.ConsumeVarint at the cursor *)
Definition cvar (buf : list Z) (rd : Z) : option (Z * Z) :=
  let '(v, n) := varint_dec (at_ buf rd) in if n <? 0 then None else Some (v, n).

(* ConsumeTag / ConsumeTagWithoutMove: (number, wire type, tag length) *)
Definition ctag (buf : list Z) (rd : Z) : option (Z * Z * Z) :=
  match cvar buf rd with
  | None => None
  | Some (v, n) => if (v / 8 >? 2147483647) || (v / 8 <? 1) then None else Some (v / 8, v mod 8, n)
  end.

(* BinaryProtocol.Skip: wire types 3,4,6,7 fall through the switch with a nil error.
   SkipBytesType computes all := int(v) + n unchecked and next(all) panics ("invalid size") when all <= 0 *)
Inductive skres := SkOk (rd : Z) | SkErr | SkPanic.
Definition askip (buf : list Z) (rd wt : Z) : skres :=
  if wt =? 0 then match cvar buf rd with Some (_, n) => SkOk (rd + n) | None => SkErr end
  else if wt =? 5 then (if rd + 4 <=? plen buf then SkOk (rd + 4) else SkErr)
  else if wt =? 1 then (if rd + 8 <=? plen buf then SkOk (rd + 8) else SkErr)
  else if wt =? 2 then
    match cvar buf rd with
    | Some (v, n) =>
      let all := to_s 64 v + n in
      if all <=? 0 then SkPanic
      else if rd + all <=? plen buf then SkOk (rd + all) else SkErr
    | None => SkErr
    end
  else SkOk rd.

Definition aread_length (buf : list Z) (rd : Z) : option (Z * Z) :=
  match cvar buf rd with Some (v, n) => Some (v, rd + n) | None => None end.

(* ReadString: (bytes, new cursor) *)
Definition aread_string (buf : list Z) (rd : Z) : option (list Z * Z) :=
  match cvar buf rd with
  | Some (m, n) =>
    if m >? plen buf - rd - n then None
    else Some (firstn (Z.to_nat m) (at_ buf (rd + n)), rd + n + m)
  | None => None
  end.

(* ReadInt(t) as a Go int; kinds outside its switch are an error *)
Definition aread_int (buf : list Z) (rd kk : Z) : option (Z * Z) :=
  if (kk =? 5) || (kk =? 17) || (kk =? 3) || (kk =? 18) || (kk =? 13) || (kk =? 4) then
    match cvar buf rd with Some (u, n) => Some (to_s 64 (scalar_of_u kk u), rd + n) | None => None end
  else if kk =? 15 then
    (if rd + 4 <=? plen buf then Some (to_s 32 (le_dec 4 (at_ buf rd)), rd + 4) else None)
  else if kk =? 16 then
    (if rd + 8 <=? plen buf then Some (to_s 64 (le_dec 8 (at_ buf rd)), rd + 8) else None)
  else None.

(* outcome of a search function: found (returned offset, cursor) / errNotFound / an error that is a
   generic.Node / any other error (the caller's err.(Node) then panics) *)
Inductive sres := SFound (start rd : Z) | SNotFound | SErrNode | SErrRaw | SPanic.

Fixpoint search_field_id (fuel : nat) (buf : list Z) (rd id lim : Z) : sres :=
  match fuel with
  | O => SErrRaw
  | S f =>
    if rd <? lim then
      match ctag buf rd with
      | None => SErrRaw
      | Some (num, wt, n) =>
        if num =? id then SFound rd rd
        else match askip buf (rd + n) wt with
             | SkErr => SErrNode
             | SkPanic => SPanic
             | SkOk rd' => search_field_id f buf rd' id lim
             end
      end
    else SNotFound
  end.

Fixpoint search_index_packed (fuel : nat) (buf : list Z) (rd lim idx ewt cnt : Z) : sres :=
  match fuel with
  | O => SErrRaw
  | S f =>
    if (rd <? lim) && (cnt <? idx) then
      match askip buf rd ewt with
      | SkErr => SErrNode
      | SkPanic => SPanic
      | SkOk rd' => search_index_packed f buf rd' lim idx ewt (cnt + 1)
      end
    else if cnt <? idx then SNotFound else SFound rd rd
  end.

Fixpoint search_index_unpacked (fuel : nat) (buf : list Z) (rd idx ewt fnum cnt result : Z) : sres :=
  let finish (rd cnt result : Z) := if cnt <? idx then SNotFound else SFound result rd in
  match fuel with
  | O => SErrRaw
  | S f =>
    if (rd <? plen buf) && (cnt <? idx) then
      match askip buf rd ewt with
      | SkErr => SErrNode
      | SkPanic => SPanic
      | SkOk rd1 =>
        let cnt1 := cnt + 1 in
        if rd1 <? plen buf then
          match ctag buf rd1 with
          | None => SErrRaw
          | Some (num, _, n) =>
            if negb (num =? fnum) then finish rd1 cnt1 result
            else let rd2 := if cnt1 <? idx then rd1 + n else rd1 in
                 search_index_unpacked f buf rd2 idx ewt fnum cnt1 (rd2 + n)
          end
        else finish rd1 cnt1 result
      end
    else finish rd cnt result
  end.

Definition search_index (buf : list Z) (rd idx ewt : Z) (packed : bool) (fnum : Z) : sres :=
  if packed then
    match aread_length buf rd with
    | None => SErrRaw
    | Some (len, rd0) => search_index_packed (S (length buf)) buf rd0 (rd0 + len) idx ewt 0
    end
  else search_index_unpacked (S (length buf)) buf rd idx ewt fnum 0 rd.

(* searchStrKey / searchIntKey share the loop; [rdkey] reads the key and says whether it matches *)
Fixpoint search_key (fuel : nat) (buf : list Z) (rdkey : Z -> option (bool * Z)) (rd fnum : Z) : sres :=
  match fuel with
  | O => SErrRaw
  | S f =>
    if rd <? plen buf then
      match aread_length buf rd with
      | None => SErrRaw
      | Some (_, rd1) =>
        match ctag buf rd1 with
        | None => SErrRaw
        | Some (_, _, n1) =>
          match rdkey (rd1 + n1) with
          | None => SErrRaw
          | Some (true, rd2) => SFound rd2 rd2
          | Some (false, rd2) =>
            match ctag buf rd2 with
            | None => SErrRaw
            | Some (_, vwt, n2) =>
              match askip buf (rd2 + n2) vwt with
              | SkErr => SErrNode
              | SkPanic => SPanic
              | SkOk rd3 =>
                if rd3 >=? plen buf then SNotFound
                else match ctag buf rd3 with
                     | None => SErrRaw
                     | Some (num, _, n3) =>
                       if negb (num =? fnum) then SNotFound
                       else search_key f buf rdkey (rd3 + n3) fnum
                     end
              end
            end
          end
        end
      end
    else SNotFound
  end.

(* SkipAllElements: the packed branch reads every element with ReadVarint whatever the element kind *)
Fixpoint skip_all_packed (fuel : nat) (buf : list Z) (rd lim : Z) : option Z :=
  match fuel with
  | O => None
  | S f =>
    if rd <? lim then
      match cvar buf rd with Some (_, n) => skip_all_packed f buf (rd + n) lim | None => None end
    else Some rd
  end.
Fixpoint skip_all_unpacked (fuel : nat) (buf : list Z) (rd fnum : Z) : option Z :=
  match fuel with
  | O => None
  | S f =>
    if rd <? plen buf then
      match ctag buf rd with
      | None => None
      | Some (num, ewt, n) =>
        if negb (num =? fnum) then Some rd
        else match askip buf (rd + n) ewt with
             | SkOk rd' => skip_all_unpacked f buf rd' fnum
             | _ => None
             end
      end
    else Some rd
  end.
Definition skip_all_elements (buf : list Z) (rd fnum : Z) (packed : bool) : option Z :=
  if packed then
    match ctag buf rd with
    | None => None
    | Some (_, _, n) =>
      match aread_length buf (rd + n) with
      | None => None
      | Some (len, rd0) => skip_all_packed (S (length buf)) buf rd0 (rd0 + len)
      end
    end
  else skip_all_unpacked (S (length buf)) buf rd fnum.

Inductive gout :=
| GFoundA (ty : Z) (raw : list Z)
| GNotFoundA       (* errNotFoundLast *)
| GErrA            (* some error value *)
| GPanicA          (* err.(Node) on an error that is not a Node *)
| GUnmodelled.     (* a situation this transcription does not cover (ill-typed paths, unknown fields in the bytes) *)

Definition slice (buf : list Z) (s e : Z) : list Z := firstn (Z.to_nat (e - s)) (at_ buf s).

(* TypeDescriptor.IsPacked(): decided by the element TYPE only *)
Definition desc_packed (lbl : flabel) (t : ftype) : bool :=
  match lbl with LRepeated _ => type_numeric t | _ => false end.

(* the part after the path loop *)
Definition gbp_final (buf : list Z) (lbl : flabel) (t : ftype) (num : Z) (tt start rd : Z) : gout :=
  if (tt =? T_LIST) || (tt =? T_MAP) then
    match skip_all_elements buf rd num (desc_packed lbl t) with
    | None => GPanicA
    | Some rd' => GFoundA tt (slice buf start rd')
    end
  else
    let after_tag :=
      if desc_packed lbl t then Some (start, rd)
      else match ctag buf rd with Some (_, _, n) => Some (rd + n, rd + n) | None => None end in
    match after_tag with
    | None => GErrA
    | Some (start', rd1) =>
      match askip buf rd1 (wt_of_kind (kind_of_type t)) with
      | SkErr => GErrA
      | SkPanic => GPanicA
      | SkOk rd2 => if rd2 <? start' then GUnmodelled else GFoundA tt (slice buf start' rd2)
      end
    end.

Fixpoint gbp_loop (S : schema) (buf : list Z) (p : list pstep) (rd : Z) (isroot : bool)
         (lbl : flabel) (t : ftype) (num : Z) {struct p} : gout :=
  match p with
  | [] => GUnmodelled
  | s :: p' =>
    let last := is_nil p' in
    (* what to do with the search result, given the descriptor after the step and tt when found *)
    let after (r : sres) (lbl' : flabel) (t' : ftype) (num' tt : Z) : gout :=
      match r with
      | SFound start rd1 =>
        if last then gbp_final buf lbl' t' num' tt start rd1
        else match ctag buf rd1 with
             | None => GErrA
             | Some (_, _, n) => gbp_loop S buf p' (rd1 + n) false lbl' t' num'
             end
      | SNotFound => if last then GNotFoundA else GErrA
      | SErrNode => GErrA
      | SErrRaw => GPanicA
      | SPanic => GPanicA
      end in
    match s with
    | PField _ | PName _ =>
      match (if isroot then Some (plen buf, rd) else aread_length buf rd) with
      | None => GErrA
      | Some (mlen, rd0) =>
        match lbl, t with
        | LMap _, _ => GUnmodelled
        | _, TScalar _ => GUnmodelled
        | _, TMsg name =>
          match find_msg S name with
          | None => GUnmodelled
          | Some md =>
            match s, step_field md s with
            | PField n, None =>
              match search_field_id (Datatypes.S (length buf)) buf rd0 n (rd0 + mlen) with
              | SFound _ _ => GUnmodelled
              | r => after r lbl t num K_MESSAGE
              end
            | _, Some fd =>
              after (search_field_id (Datatypes.S (length buf)) buf rd0 (fd_num fd) (rd0 + mlen))
                    (fd_label fd) (fd_type fd) (fd_num fd) (node_type (fd_label fd) (fd_type fd))
            | _, None => GErrA      (* field name not in the descriptor *)
            end
          end
        end
      end
    | PIndex i =>
      match lbl with
      | LRepeated _ =>
        after (search_index buf rd i (wt_of_kind (kind_of_type t)) (type_numeric t) num)
              lbl t num (kind_of_type t)
      | _ => GUnmodelled
      end
    | PStrKey k =>
      match lbl with
      | LMap _ =>
        after (search_key (Datatypes.S (length buf)) buf
                 (fun r => match aread_string buf r with
                           | Some (b, r') => Some (bytes_eqb b k, r')
                           | None => None
                           end) rd num)
              LSingular t 0 (kind_of_type t)
      | _ => GUnmodelled
      end
    | PIntKey k =>
      match lbl with
      | LMap kk =>
        after (search_key (Datatypes.S (length buf)) buf
                 (fun r => match aread_int buf r kk with
                           | Some (x, r') => Some (x =? k, r')
                           | None => None
                           end) rd num)
              LSingular t 0 (kind_of_type t)
      | _ => GUnmodelled
      end
    end
  end.

Definition gbp (S : schema) (root : list Z) (buf : list Z) (p : list pstep) : gout :=
  match p with
  | [] => GFoundA K_MESSAGE buf
  | _ => gbp_loop S buf p 0 true LSingular (TMsg root) 0
  end.
