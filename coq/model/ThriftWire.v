(* Thrift binary protocol: values, encoder, decoder, skip (mirrors thrift/binary_skip.go SkipGo).
   Model only — proofs are in proofs/ThriftWireProofs.v. *)
From Coq Require Import ZArith List Bool.
From DG Require Import ProtoWireRef.
Import ListNotations.
Local Open Scope Z_scope.

Definition T_STOP := 0.  Definition T_BOOL := 2.  Definition T_BYTE := 3.  Definition T_DOUBLE := 4.
Definition T_I16 := 6.   Definition T_I32 := 8.   Definition T_I64 := 10.  Definition T_STRING := 11.
Definition T_STRUCT := 12. Definition T_MAP := 13. Definition T_SET := 14. Definition T_LIST := 15.

Inductive tval :=
| VBool (raw : Z)                       (* the raw byte is kept *)
| VByte (z : Z) | VI16 (z : Z) | VI32 (z : Z) | VI64 (z : Z)   (* signed values *)
| VDouble (bits : Z)                    (* IEEE bits, unsigned *)
| VString (s : list Z)
| VStruct (fields : list (Z * tval))    (* (field id, value), wire order *)
| VMap (kt vt : Z) (entries : list (tval * tval))
| VSet (et : Z) (elems : list tval)
| VList (et : Z) (elems : list tval).

Definition type_of (v : tval) : Z :=
  match v with
  | VBool _ => T_BOOL | VByte _ => T_BYTE | VI16 _ => T_I16 | VI32 _ => T_I32 | VI64 _ => T_I64
  | VDouble _ => T_DOUBLE | VString _ => T_STRING | VStruct _ => T_STRUCT
  | VMap _ _ _ => T_MAP | VSet _ _ => T_SET | VList _ _ => T_LIST
  end.

(* fixed sizes as in thrift.typeSize: >0 fixed, -1 variable, 0 unknown *)
Definition fixed_size (t : Z) : Z :=
  if (t =? T_BOOL) || (t =? T_BYTE) then 1 else if t =? T_I16 then 2 else if t =? T_I32 then 4
  else if (t =? T_I64) || (t =? T_DOUBLE) then 8
  else if (t =? 0) || (t =? 1) || (t =? T_STRING) || (t =? T_STRUCT) || (t =? T_MAP) || (t =? T_SET) || (t =? T_LIST) || (t =? 16) || (t =? 17) then -1
  else 0.

(* big-endian two's complement integers of n bytes *)
Definition enc_int (n : nat) (z : Z) : list Z := rev (le_enc n (z mod 256 ^ Z.of_nat n)).
Definition dec_uint (bs : list Z) : Z := le_dec (length bs) (rev bs).
Definition dec_int (bs : list Z) : Z := to_s (8 * Z.of_nat (length bs)) (dec_uint bs).

Definition zlen {A} (l : list A) : Z := Z.of_nat (length l).

Fixpoint encode (v : tval) : list Z :=
  match v with
  | VBool b => [b]
  | VByte z => enc_int 1 z
  | VI16 z => enc_int 2 z
  | VI32 z => enc_int 4 z
  | VI64 z => enc_int 8 z
  | VDouble z => enc_int 8 z
  | VString s => enc_int 4 (zlen s) ++ s
  | VStruct fs => flat_map (fun f => type_of (snd f) :: enc_int 2 (fst f) ++ encode (snd f)) fs ++ [0]
  | VMap kt vt es => kt :: vt :: enc_int 4 (zlen es) ++ flat_map (fun e => encode (fst e) ++ encode (snd e)) es
  | VSet et es => et :: enc_int 4 (zlen es) ++ flat_map encode es
  | VList et es => et :: enc_int 4 (zlen es) ++ flat_map encode es
  end.

(* ---- well-formedness (boolean) ---- *)
Definition in_sb (k : Z) (z : Z) : bool := (- 2 ^ (k - 1) <=? z) && (z <? 2 ^ (k - 1)).
Definition is_container (t : Z) : bool := (t =? T_STRUCT) || (t =? T_MAP) || (t =? T_SET) || (t =? T_LIST).
Definition valid_type (t : Z) : bool :=
  (t =? T_BOOL) || (t =? T_BYTE) || (t =? T_DOUBLE) || (t =? T_I16) || (t =? T_I32) || (t =? T_I64) || (t =? T_STRING) || is_container t.

Fixpoint wf (v : tval) : bool :=
  match v with
  | VBool b => byte_okb b
  | VByte z => in_sb 8 z
  | VI16 z => in_sb 16 z
  | VI32 z => in_sb 32 z
  | VI64 z => in_sb 64 z
  | VDouble z => (0 <=? z) && (z <? 2 ^ 64)
  | VString s => bytes_okb s && (zlen s <? 2 ^ 31)
  | VStruct fs => forallb (fun f => in_sb 16 (fst f) && wf (snd f)) fs
  | VMap kt vt es => byte_okb kt && byte_okb vt && (zlen es <? 2 ^ 31) &&
                     ((zlen es =? 0) || (valid_type kt && valid_type vt)) &&
                     forallb (fun e => (type_of (fst e) =? kt) && (type_of (snd e) =? vt) && wf (fst e) && wf (snd e)) es
  | VSet et es => byte_okb et && (zlen es <? 2 ^ 31) && ((zlen es =? 0) || valid_type et) && forallb (fun e => (type_of e =? et) && wf e) es
  | VList et es => byte_okb et && (zlen es <? 2 ^ 31) && ((zlen es =? 0) || valid_type et) && forallb (fun e => (type_of e =? et) && wf e) es
  end.

Fixpoint depth (v : tval) : nat :=
  match v with
  | VStruct fs => S (fold_right (fun f m => Nat.max (depth (snd f)) m) O fs)
  | VMap _ _ es => S (fold_right (fun e m => Nat.max (Nat.max (depth (fst e)) (depth (snd e))) m) O es)
  | VSet _ es => S (fold_right (fun e m => Nat.max (depth e) m) O es)
  | VList _ es => S (fold_right (fun e m => Nat.max (depth e) m) O es)
  | _ => 1%nat
  end.

(* ---- decoder ---- *)
Definition take (n : nat) (bs : list Z) : option (list Z * list Z) :=
  if (n <=? length bs)%nat then Some (firstn n bs, skipn n bs) else None.

Definition dec_scalar (t : Z) (bs : list Z) : option (tval * list Z) :=
  if t =? T_BOOL then match bs with b :: r => Some (VBool b, r) | [] => None end
  else if t =? T_BYTE then match take 1 bs with Some (x, r) => Some (VByte (dec_int x), r) | None => None end
  else if t =? T_I16 then match take 2 bs with Some (x, r) => Some (VI16 (dec_int x), r) | None => None end
  else if t =? T_I32 then match take 4 bs with Some (x, r) => Some (VI32 (dec_int x), r) | None => None end
  else if t =? T_I64 then match take 8 bs with Some (x, r) => Some (VI64 (dec_int x), r) | None => None end
  else if t =? T_DOUBLE then match take 8 bs with Some (x, r) => Some (VDouble (dec_uint x), r) | None => None end
  else if t =? T_STRING then
    match take 4 bs with
    | Some (x, r) => let n := dec_int x in
        if n <? 0 then None else match take (Z.to_nat n) r with Some (s, r') => Some (VString s, r') | None => None end
    | None => None
    end
  else None.

Definition is_scalar (t : Z) : bool :=
  (t =? T_BOOL) || (t =? T_BYTE) || (t =? T_DOUBLE) || (t =? T_I16) || (t =? T_I32) || (t =? T_I64) || (t =? T_STRING).

Section Loops.
  Variable dec : Z -> list Z -> option (tval * list Z).

  (* struct fields until STOP; fuel = number of bytes + 1 (each field consumes at least 3 bytes) *)
  Fixpoint dec_fields (fuel : nat) (bs : list Z) : option (list (Z * tval) * list Z) :=
    match fuel with
    | O => None
    | S f =>
      match bs with
      | [] => None
      | t :: r =>
        if t =? 0 then Some ([], r)
        else match take 2 r with
             | None => None
             | Some (idb, r2) =>
               match dec t r2 with
               | None => None
               | Some (x, r3) =>
                 match dec_fields f r3 with
                 | None => None
                 | Some (fs, r4) => Some ((dec_int idb, x) :: fs, r4)
                 end
               end
             end
      end
    end.

  (* n elements of type t; recursion on the element count as a nat bounded by the input length *)
  Fixpoint dec_elems (n : nat) (t : Z) (bs : list Z) : option (list tval * list Z) :=
    match n with
    | O => Some ([], bs)
    | S n' =>
      match dec t bs with
      | None => None
      | Some (x, r) =>
        match dec_elems n' t r with
        | None => None
        | Some (xs, r') => Some (x :: xs, r')
        end
      end
    end.

  Fixpoint dec_pairs (n : nat) (kt vt : Z) (bs : list Z) : option (list (tval * tval) * list Z) :=
    match n with
    | O => Some ([], bs)
    | S n' =>
      match dec kt bs with
      | None => None
      | Some (k, r) =>
        match dec vt r with
        | None => None
        | Some (x, r2) =>
          match dec_pairs n' kt vt r2 with
          | None => None
          | Some (es, r3) => Some ((k, x) :: es, r3)
          end
        end
      end
    end.
End Loops.

(* count field: signed int32, must be >= 0; and (to keep the element loop bounded by the input) every
   element takes at least one byte, so a count above the remaining length cannot succeed *)
Definition dec_count (bs : list Z) : option (nat * list Z) :=
  match take 4 bs with
  | None => None
  | Some (x, r) => let n := dec_int x in
      if n <? 0 then None else if (n >? zlen r) then None else Some (Z.to_nat n, r)
  end.

Fixpoint decode (d : nat) (t : Z) (bs : list Z) {struct d} : option (tval * list Z) :=
  if is_scalar t then dec_scalar t bs else
  match d with
  | O => None
  | S d' =>
    if t =? T_STRUCT then
      match dec_fields (decode d') (S (length bs)) bs with
      | Some (fs, r) => Some (VStruct fs, r)
      | None => None
      end
    else if t =? T_MAP then
      match bs with
      | kt :: vt :: r =>
        match dec_count r with
        | Some (n, r2) => match dec_pairs (decode d') n kt vt r2 with Some (es, r3) => Some (VMap kt vt es, r3) | None => None end
        | None => None
        end
      | _ => None
      end
    else if (t =? T_SET) || (t =? T_LIST) then
      match bs with
      | et :: r =>
        match dec_count r with
        | Some (n, r2) =>
          match dec_elems (decode d') n et r2 with
          | Some (es, r3) => Some ((if t =? T_SET then VSet et es else VList et es), r3)
          | None => None
          end
        | None => None
        end
      | _ => None
      end
    else None
  end.

(* top-level decode: depth fuel from the input length (nesting cannot exceed the number of bytes) *)
Definition decode_all (t : Z) (bs : list Z) : option tval :=
  match decode (S (length bs)) t bs with
  | Some (v, []) => Some v
  | _ => None
  end.

(* ---- skip: mirrors BinaryProtocol.SkipGo ---- *)
Definition drop (n : Z) (bs : list Z) : option (list Z) :=
  if n <? 0 then None else if n >? zlen bs then None else Some (skipn (Z.to_nat n) bs).

Definition skipstr (bs : list Z) : option (list Z) :=
  match take 4 bs with
  | None => None
  | Some (x, r) => let n := dec_int x in if n <? 0 then None else drop n r
  end.

Section SkipLoops.
  Variable skp : Z -> list Z -> option (list Z).   (* SkipGo at depth-1 *)

  Fixpoint skip_fields (fuel : nat) (bs : list Z) : option (list Z) :=
    match fuel with
    | O => None
    | S f =>
      match bs with
      | [] => None
      | t :: r =>
        if t =? 0 then Some r
        else match drop 2 r with
             | None => None
             | Some r2 =>
               let n := fixed_size t in
               match (if n >? 0 then drop n r2 else skp t r2) with
               | None => None
               | Some r3 => skip_fields f r3
               end
             end
      end
    end.

  Definition skip_one (t : Z) (bs : list Z) : option (list Z) :=
    let n := fixed_size t in
    if n >? 0 then drop n bs else if t =? T_STRING then skipstr bs else skp t bs.

  Fixpoint skip_elems (n : nat) (t : Z) (bs : list Z) : option (list Z) :=
    match n with
    | O => Some bs
    | S n' => match skip_one t bs with None => None | Some r => skip_elems n' t r end
    end.

  Fixpoint skip_pairs (n : nat) (kt vt : Z) (bs : list Z) : option (list Z) :=
    match n with
    | O => Some bs
    | S n' =>
      match skip_one kt bs with
      | None => None
      | Some r => match skip_one vt r with None => None | Some r2 => skip_pairs n' kt vt r2 end
      end
    end.
End SkipLoops.

(* counts in skip are NOT clamped by the code; the loops run [count] times or fail earlier.
   The model bounds the loop by min(count, remaining bytes + 1): an element that succeeds consumes >= 1 byte. *)
Definition skip_count (bs : list Z) : option (Z * list Z) :=
  match take 4 bs with
  | None => None
  | Some (x, r) => let n := dec_int x in if n <? 0 then None else Some (n, r)
  end.

Fixpoint skip (d : nat) (t : Z) (bs : list Z) {struct d} : option (list Z) :=
  match d with
  | O => None                                  (* maxDepth <= 0 *)
  | S d' =>
    let n := fixed_size t in
    if n >? 0 then drop n bs
    else if t =? T_STRING then skipstr bs
    else if t =? T_STRUCT then skip_fields (skip d') (S (length bs)) bs
    else if t =? T_MAP then
      match bs with
      | kt :: vt :: r =>
        match skip_count r with
        | None => None
        | Some (sz, r2) =>
          let ks := fixed_size kt in let vs := fixed_size vt in
          if (ks >? 0) && (vs >? 0) then drop (sz * (ks + vs)) r2
          else if sz >? zlen r2 then None   (* every non-fixed pair takes >= 1 byte: the loop must fail *)
          else skip_pairs (skip d') (Z.to_nat sz) kt vt r2
        end
      | _ => None
      end
    else if (t =? T_SET) || (t =? T_LIST) then
      match bs with
      | et :: r =>
        match skip_count r with
        | None => None
        | Some (sz, r2) =>
          let es := fixed_size et in
          if es >? 0 then drop (sz * es) r2
          else if sz >? zlen r2 then None
          else skip_elems (skip d') (Z.to_nat sz) et r2
        end
      | _ => None
      end
    else None
  end.

Definition max_skip_depth : nat := 1023.
Definition skip_go (t : Z) (bs : list Z) : option (list Z) := skip max_skip_depth t bs.
