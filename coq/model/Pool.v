(* C12 — the buffer-pool discipline of dynamicgo as a state machine.

   Buffers (backing arrays) have identities (nat). A state records
     pool   : the free pool (what sync.Pool holds),
     owned  : buffers reachable from values handed to callers (results of earlier calls, and the callers' own
              inputs / the descriptors' own storage: they are "owned" from the start),
     work   : per call and per slot the buffer the call is currently working on,
     mem    : per buffer its logical content (the first len bytes) and the junk behind it (what an earlier user
              left in the backing array: "memory from pool maybe dirty", thrift/utils.go:93),
     obs    : what each call observed / returned so far (newest first).
   Operations carry the call id, so a history (list op) is an interleaving, at operation granularity, of any
   number of calls. `Get` takes ANY element of the pool (sync.Pool gives no order) or allocates; the junk of the
   buffer it hands out is supplied by the history (adversarial). `CopyOut` is what the code does before Free*;
   `ReturnDirect`, `PutKeep` and `Borrow` are what a BUGGY api would do (result aliases the working buffer; Free
   while still in use / two pools sharing an array; working directly on storage owned by somebody else, e.g. the
   descriptor's Requires() bitmap). The theorems (proofs/PoolProofs.v, props/Properties_C12.v) are about all
   histories made of the disciplined operations; the three buggy ones each have a `_refuted` example.

   What the model cannot show (stated in DESIGN §5 C12): data races proper (Go memory model, scheduler) and real
   pointer aliasing. Those are explored at run time (harness/c12.go under -race, tools/props/C12_hook.py).

   ------------------------------------------------------------------------------------------------------------
   Pool sites of the code (read on the pinned tree) and the script each public API follows. Slot numbers are the
   `s` of the operations below. "leak" = the object is simply not returned to the pool on that exit (garbage
   collected; never aliased): confirmed by reading, harmless for this property.

   pool / object                where                                  reset on Put / Get
   bufPool *[]byte              conv/api.go:111-127                    FreeBytes: len:=0 (api.go:125); content dirty
   thrift bpPool *BinaryProtocol thrift/binary.go:73-107               Reset: Read:=0, Buf:=Buf[:0] (binary.go:117-120)
   proto  bpPool *BinaryProtocol proto/binary/binary.go:49-57,115-134  Reset (binary.go:99-102)
   bitmapPool *RequiresBitmap   thrift/utils.go:38-43,94-103           len:=0, memory NOT cleared (utils.go:93,100)
   j2tStackPool *J2TStateMachine internal/native/types/types.go:313-338 SP:=0, Reqs/Key/Field caches len:=0; VT, JT dirty
                                (finding 1203: GrowReqCache/GrowKeyCache, types.go:382-394, reallocate a cache while states of the running call
                                 keep RAW pointers into the old array, native/thrift.c:239 - in the model `Grow` makes the old array garbage,
                                 which is only sound if nobody uses it any more; the garbage collector recycles it: harness case 1205)
   tsmPool *TStateMachine       internal/native/types/types.go:426-441 nothing reset (pure scratch stack)
   stackPool *StateMachine      internal/native/types/types.go:185-197 nothing reset
   vuPool *visitorUserNode      conv/j2p/decode.go:31-78               reset(): sp, p:=nil, stk entries, descs, opts
   thrift pnsPool *pnSlice      thrift/generic/node.go:950-956,998-1033 ps.b:=nil; ps.a keeps stale copies (never read before overwrite: copy(ps.a, pathes))
   proto pnsPool *pnSlice       proto/generic/value.go:24-30,1068-1128 same
   thrift pathNodePool          thrift/generic/path.go:293-310         Path, Node zeroed, Next:=Next[:0] (children array kept)
   proto pathNodePool           proto/generic/path.go:209-257          same
   proto bytesPool []byte       proto/generic/value.go:31-45           len:=0; Put of a NON-pointer slice (allocates a header per Put; no aliasing)
   jsonPairsPool                http/http.go:127-132                   unused (only referenced in comments, http.go:169-180)

   api                          script (slot: pool)                                              result copied out / freed
   j2t BinaryConv.Do            Get(0:bufPool) conv.go:57; [Get(1:j2tStack) impl_amd64.go:41 .. Put(1) :64]*; work;
                                ok: CopyOut(0) conv.go:75-76; Put(0) conv.go:79
                                err in do: Put(0) conv.go:79 (no CopyOut: tbytes stays nil)
                                err http-mapping precondition: Drop(0) conv.go:65,69          (leak)
                                empty body + http mapping: Get(2:bitmap) impl.go:52; Put(2) impl.go:73; error exits impl.go:57,71 Drop(2) (leak)
   j2t BinaryConv.DoInto        no pooled result buffer (caller's buf); j2tStack as above        conv.go:84-99
   j2t HTTPConv.Do              Get(0) http_conv.go:77; ok: CopyOut(0) :87-90; Put(0) :92; err: Drop(0) :81 (leak)
   t2j BinaryConv.Do            Get(0:bufPool) conv.go:51; per struct level Get(2:bitmap) impl.go:91,260 + overwrite (CopyTo, utils.go:82-90)
                                + Update (Set) + Read (handleUnsets) + Put(2) impl.go:181,329; every error exit inside a
                                struct level Drop(2) (impl.go:100,109,112,122,134,163,168,178 and 267-326: leak);
                                ok: CopyOut(0) conv.go:69-70; Put(0) conv.go:73; err: Put(0); http precondition: Drop(0) conv.go:59,63
   t2j HTTPConv.Do              Get(0) http_conv.go:82; ok: CopyOut(0) :89-91, Put(0) :93; err: Drop(0) :86 (leak, "explicit leak")
   t2j *.DoInto                 caller's buffer; HTTPConv.DoInto hands the CALLER's buffer to resp.SetRawBody (documented WARN, http_conv.go:98)
   p2j BinaryConv.Do            Get(0) conv.go:29; ok: CopyOut(0) :48-49; Put(0) :52; err: Put(0); http precondition: Drop(0) :38,42
   j2p BinaryConv.Do            Get(0:bufPool) conv.go:27; Get(3:vuPool) impl.go:29; Get(1:proto bpPool) impl.go:31; work on 1;
                                Put(3) impl.go:34 (vu.p:=nil: the protocol object is dropped, NOT recycled);
                                Move(0 := 1) impl.go:38 ( *out = data : the bufPool cell now refers to the bpPool array,
                                its old array and the BinaryProtocol struct become garbage); CopyOut(0) conv.go:46-47; Put(0) conv.go:50.
                                err: Drop(1) impl.go:36; Put(0).   A "fix" of the leak by FreeBinaryProtocol(vu.p) before the
                                Move would be PutKeep(1): one array in two pools (j2p_leak_fix_refuted).
   j2p BinaryConv.DoInto        Get(3); Get(1); work; Put(3); the caller's *buf is REPLACED by the bpPool array which is never
                                recycled (Move): the result is owned by the caller alone. impl.go:27-39
   thrift Value.MarshalTo       Get(0:bpPool) value.go:436; per struct level bitmap Get(2)/Put(2) value.go:460,529 (error exits Drop(2));
                                ok: CopyOut(0) value.go:446-447; Put(0) :448; err: Drop(0) value.go:441,444 (leak)
   thrift PathNode.Marshal      Get(0:bpPool) path.go:611; ok: CopyOut(0) :614-615; Put(0) :617 (also on error)
   proto Value.MarshalTo        Get(0) value.go:835; ok: CopyOut(0) :843-844; Put(0) :845; err: Drop(0) :841 (leak)
   proto PathNode.Marshal       Get(0) path.go:640; CopyOut(0) :644-645; Put(0) :647 (also on error)
   proto Value.SetByPath        updateByteLen: Get(0:bytesPool) value.go:539; Read; Put(0) :584; `continue` at :557 Drop(0) (leak). Write API.
   thrift/proto Node.SetMany    Get(0:pnsPool); overwrite; Put(0)  (node.go:998-1033 / value.go:1068-1128). Write API.
   apiNoBodyStruct.Request      Get(0:bpPool) annotation/http_mapping.go:317; CopyOut(0) :340-341; Put(0) :342
   BinaryProtocol.SkipNative    Get(0:tsmPool) binary_skip_amd64.go:37; Put(0) :43; error exit :40 Drop(0) (leak)
   generic.NewNode{Any,List,Set,Map,Struct}  thrift/generic/node.go:83-205: pooled protocol OBJECT over a fresh make()d array; the Node returned
                                IS that array = HandOver(0); the object is dropped (leak), never Recycle()d. NewNodeString/Binary/Int* build on
                                a plain make() without a protocol. (seeded C12-8: `defer p.Recycle()` + lost borrowed mark = ReturnDirect; Put)
   j2t HTTPConv.Do (result)     http_conv.go:84-90: tbytes := make(top+body+bottom) = CopyOut; h.top / h.bottom are exact-size arrays owned by the
                                converter (thrift/binary.go GetBinaryMessageHeaderAndFooter). (seeded C12-9: append(h.top, body...) with spare
                                capacity = Borrow of the converter's array + ReturnDirect)
   NewBinaryProtocol(buf)       thrift/binary.go:84-88 / proto binary.go:115-119: takes a pooled OBJECT and points it at the CALLER's
     + Recycle()                buffer = Borrow(0, caller's buffer); Recycle (binary.go:104-107) then is Put(0) of a buffer that is
                                owned by the caller: the caller's input ends up in the pool (finding 1201/1202, borrow_recycle_refuted).
   ReadBinary/ReadString(false) thrift/binary.go:794-819, 767-791: zero-copy VIEW of the protocol's buffer = of the caller's input
                                (documented by the copy flag); cap of the []byte view is 0, so append cannot write through it. No pool involved.
   generic Value/Node reads     GetByPath, Raw, Children, PathNode.Load: views into the caller's input, no pooled buffer
   descriptors                  StructDescriptor.Requires() returns the descriptor's own slice (descriptor.go:228-230); every user copies
                                it into a pooled bitmap first (CopyTo): t2j impl.go:92,261; j2t impl.go:53; value.go:461; the native j2t copies it
                                into J2TStateMachine.ReqsCache. Working on it directly would be Borrow (borrow_refuted).
*)
From Coq Require Import ZArith List Bool Arith Lia.
Import ListNotations.

Definition buf := nat.

Record bufdata := mkBuf { logical : list Z; junk : list Z }.

Record state := mkState {
  next : nat;                         (* every buffer id >= next is unallocated *)
  pool : list buf;
  owned : list buf;
  work : nat -> nat -> option buf;    (* call -> slot -> buffer *)
  mem : buf -> bufdata;
  obs : list (nat * list Z)           (* (call, bytes) observed or returned; newest first *)
}.

Inductive op :=
| Get (c s : nat) (k : option nat) (dirty : list Z)  (* from the pool (k-th element, any) or fresh; junk := dirty *)
| Append (c s : nat) (bs : list Z)                   (* work: append *)
| Update (c s : nat) (i : nat) (v : Z)               (* work: in-place write below len (bitmap Set, size patching) *)
| Overwrite (c s : nat) (bs : list Z)                (* work: len := |bs| and every byte below it is written (RequiresBitmap.CopyTo,
                                                        utils.go:82-90; copy(ps.a, pathes) in SetMany): the dirty bytes that the new
                                                        length exposes are all overwritten before anything reads them *)
| Grow (c s : nat) (dirty : list Z)                  (* reallocation: fresh array, logical content copied, old array garbage *)
| Move (c s s' : nat)                                (* slot s := buffer of slot s'; slot s' cleared ( *out = data, holder dropped) *)
| Read (c s : nat)                                   (* the call observes the logical content *)
| CopyOut (c s : nat)                                (* result := fresh copy of the logical content, owned by the caller *)
| Put (c s : nat)                                    (* len := 0, buffer enters the pool, slot cleared *)
| Drop (c s : nat)                                   (* leak: slot cleared, buffer neither pooled nor owned *)
| HandOver (c s : nat)                               (* the working buffer itself becomes the result and the call forgets it
                                                        (slot cleared, so it can never be Put): generic.NewNode*, j2p.DoInto *)
(* what a buggy api would do *)
| ReturnDirect (c s : nat)                           (* result aliases the working buffer *)
| PutKeep (c s : nat)                                (* Put, but the call keeps using the buffer *)
| Borrow (c s : nat) (b : buf).                      (* work directly on a buffer somebody else owns *)

Definition call_of (o : op) : nat :=
  match o with
  | Get c _ _ _ | Append c _ _ | Update c _ _ _ | Overwrite c _ _ | Grow c _ _ | Move c _ _ | Read c _ | CopyOut c _ | Put c _ | Drop c _ | HandOver c _
  | ReturnDirect c _ | PutKeep c _ | Borrow c _ _ => c
  end.

Definition disciplinedb (o : op) : bool :=
  match o with ReturnDirect _ _ | PutKeep _ _ | Borrow _ _ _ => false | _ => true end.
Definition disciplined (o : op) : Prop := disciplinedb o = true.

Definition key_eqb (c s c' s' : nat) : bool := (c' =? c) && (s' =? s).
Definition upd_work (w : nat -> nat -> option buf) (c s : nat) (v : option buf) : nat -> nat -> option buf :=
  fun c' s' => if key_eqb c s c' s' then v else w c' s'.
Definition upd_mem (m : buf -> bufdata) (b : buf) (d : bufdata) : buf -> bufdata :=
  fun b' => if b' =? b then d else m b'.

(* take the i-th element out of the pool *)
Fixpoint take (i : nat) (l : list buf) : option (buf * list buf) :=
  match l, i with
  | [], _ => None
  | x :: r, O => Some (x, r)
  | x :: r, S j => match take j r with Some (y, r') => Some (y, x :: r') | None => None end
  end.

Fixpoint set_nth (i : nat) (v : Z) (l : list Z) : list Z :=
  match l, i with
  | [], _ => []
  | _ :: r, O => v :: r
  | x :: r, S j => x :: set_nth j v r
  end.

Definition memb (b : buf) (l : list buf) : bool := existsb (Nat.eqb b) l.

Definition step (st : state) (o : op) : state :=
  match o with
  | Get c s k dirty =>
      match (match k with Some i => take i (pool st) | None => None end) with
      | Some (b, rest) =>
          mkState (next st) rest (owned st) (upd_work (work st) c s (Some b))
                  (upd_mem (mem st) b (mkBuf (logical (mem st b)) dirty)) (obs st)
      | None =>
          let b := next st in
          mkState (S b) (pool st) (owned st) (upd_work (work st) c s (Some b))
                  (upd_mem (mem st) b (mkBuf [] dirty)) (obs st)
      end
  | Append c s bs =>
      match work st c s with
      | Some b => mkState (next st) (pool st) (owned st) (work st)
                          (upd_mem (mem st) b (mkBuf (logical (mem st b) ++ bs) (skipn (length bs) (junk (mem st b))))) (obs st)
      | None => st
      end
  | Update c s i v =>
      match work st c s with
      | Some b => mkState (next st) (pool st) (owned st) (work st)
                          (upd_mem (mem st) b (mkBuf (set_nth i v (logical (mem st b))) (junk (mem st b)))) (obs st)
      | None => st
      end
  | Overwrite c s bs =>
      match work st c s with
      | Some b => mkState (next st) (pool st) (owned st) (work st)
                          (upd_mem (mem st) b (mkBuf bs (skipn (length bs) (logical (mem st b) ++ junk (mem st b))))) (obs st)
      | None => st
      end
  | Grow c s dirty =>
      match work st c s with
      | Some b => let b' := next st in
                  mkState (S b') (pool st) (owned st) (upd_work (work st) c s (Some b'))
                          (upd_mem (mem st) b' (mkBuf (logical (mem st b)) dirty)) (obs st)
      | None => st
      end
  | Move c s s' =>
      match work st c s' with
      | Some b' => mkState (next st) (pool st) (owned st) (upd_work (upd_work (work st) c s' None) c s (Some b')) (mem st) (obs st)
      | None => st
      end
  | Read c s =>
      match work st c s with
      | Some b => mkState (next st) (pool st) (owned st) (work st) (mem st) ((c, logical (mem st b)) :: obs st)
      | None => st
      end
  | CopyOut c s =>
      match work st c s with
      | Some b => let r := next st in
                  mkState (S r) (pool st) (r :: owned st) (work st)
                          (upd_mem (mem st) r (mkBuf (logical (mem st b)) [])) ((c, logical (mem st b)) :: obs st)
      | None => st
      end
  | Put c s =>
      match work st c s with
      | Some b => mkState (next st) (b :: pool st) (owned st) (upd_work (work st) c s None)
                          (upd_mem (mem st) b (mkBuf [] (logical (mem st b) ++ junk (mem st b)))) (obs st)
      | None => st
      end
  | Drop c s =>
      mkState (next st) (pool st) (owned st) (upd_work (work st) c s None) (mem st) (obs st)
  | HandOver c s =>
      match work st c s with
      | Some b => mkState (next st) (pool st) (b :: owned st) (upd_work (work st) c s None) (mem st) ((c, logical (mem st b)) :: obs st)
      | None => st
      end
  | ReturnDirect c s =>
      match work st c s with
      | Some b => mkState (next st) (pool st) (b :: owned st) (work st) (mem st) ((c, logical (mem st b)) :: obs st)
      | None => st
      end
  | PutKeep c s =>
      match work st c s with
      | Some b => mkState (next st) (b :: pool st) (owned st) (work st)
                          (upd_mem (mem st) b (mkBuf [] (logical (mem st b) ++ junk (mem st b)))) (obs st)
      | None => st
      end
  | Borrow c s b =>
      if memb b (owned st)
      then mkState (next st) (pool st) (owned st) (upd_work (work st) c s (Some b)) (mem st) (obs st)
      else st
  end.

Definition run (st : state) (h : list op) : state := fold_left step h st.

Definition init : state := mkState 0 [] [] (fun _ _ => None) (fun _ => mkBuf [] []) [].

(* buffers an operation writes when executed in st (junk included) *)
Definition writes (st : state) (o : op) : list buf :=
  match o with
  | Get c s k _ =>
      match (match k with Some i => take i (pool st) | None => None end) with
      | Some (b, _) => [b]
      | None => [next st]
      end
  | Append c s _ | Update c s _ _ | Overwrite c s _ | Put c s | PutKeep c s => match work st c s with Some b => [b] | None => [] end
  | Grow c s _ | CopyOut c s => match work st c s with Some _ => [next st] | None => [] end
  | _ => []
  end.

(* what call c observed / returned, oldest first *)
Definition obs_of (c : nat) (st : state) : list (list Z) :=
  rev (map snd (filter (fun x => fst x =? c) (obs st))).

(* the operations of call c in a history *)
Definition proj (c : nat) (h : list op) : list op := filter (fun o => call_of o =? c) h.

(* -------- the same calls WITHOUT buffers: per (call, slot) a byte string; no pool, no junk, no identities -------- *)

Record pstate := mkP { pw : nat -> nat -> option (list Z); pobs : list (nat * list Z) }.

Definition upd_pw (w : nat -> nat -> option (list Z)) (c s : nat) (v : option (list Z)) : nat -> nat -> option (list Z) :=
  fun c' s' => if key_eqb c s c' s' then v else w c' s'.

Definition pstep (ps : pstate) (o : op) : pstate :=
  match o with
  | Get c s _ _ => mkP (upd_pw (pw ps) c s (Some [])) (pobs ps)
  | Append c s bs => match pw ps c s with Some l => mkP (upd_pw (pw ps) c s (Some (l ++ bs))) (pobs ps) | None => ps end
  | Update c s i v => match pw ps c s with Some l => mkP (upd_pw (pw ps) c s (Some (set_nth i v l))) (pobs ps) | None => ps end
  | Overwrite c s bs => match pw ps c s with Some _ => mkP (upd_pw (pw ps) c s (Some bs)) (pobs ps) | None => ps end
  | Grow c s _ => ps
  | Move c s s' => match pw ps c s' with Some l => mkP (upd_pw (upd_pw (pw ps) c s' None) c s (Some l)) (pobs ps) | None => ps end
  | Read c s | CopyOut c s => match pw ps c s with Some l => mkP (pw ps) ((c, l) :: pobs ps) | None => ps end
  | Put c s => match pw ps c s with Some _ => mkP (upd_pw (pw ps) c s None) (pobs ps) | None => ps end
  | Drop c s => mkP (upd_pw (pw ps) c s None) (pobs ps)
  | HandOver c s => match pw ps c s with Some l => mkP (upd_pw (pw ps) c s None) ((c, l) :: pobs ps) | None => ps end
  | _ => ps
  end.

Definition prun (ps : pstate) (h : list op) : pstate := fold_left pstep h ps.
Definition pinit : pstate := mkP (fun _ _ => None) [].
Definition pobs_of (c : nat) (ps : pstate) : list (list Z) :=
  rev (map snd (filter (fun x => fst x =? c) (pobs ps))).

(* forget which pool element was taken and what junk it carried *)
Definition erase (o : op) : op :=
  match o with
  | Get c s _ _ => Get c s None []
  | Grow c s _ => Grow c s []
  | _ => o
  end.

(* the result of a call, as a function of its own operations only *)
Definition pure_result (c : nat) (ops : list op) : list (list Z) := pobs_of c (prun pinit (map erase ops)).

(* -------- scripts: the pool-relevant skeleton of each api, every exit a branch -------- *)

Inductive shape := HGet (s : nat) | HMove (s s' : nat) | HCopyOut (s : nat) | HPut (s : nat) | HDrop (s : nat) | HHandOver (s : nat)
                 | HReturnDirect (s : nat) | HPutKeep (s : nat) | HBorrow (s : nat).

(* work operations (Append, Update, Overwrite, Grow, Read) may occur anywhere: they are not part of the skeleton *)
Definition shape_of (o : op) : option shape :=
  match o with
  | Get _ s _ _ => Some (HGet s) | Move _ s s' => Some (HMove s s') | CopyOut _ s => Some (HCopyOut s)
  | Put _ s => Some (HPut s) | Drop _ s => Some (HDrop s) | HandOver _ s => Some (HHandOver s)
  | ReturnDirect _ s => Some (HReturnDirect s) | PutKeep _ s => Some (HPutKeep s) | Borrow _ s _ => Some (HBorrow s)
  | _ => None
  end.

Definition shape_ok (h : shape) : bool :=
  match h with HReturnDirect _ | HPutKeep _ | HBorrow _ => false | _ => true end.

Fixpoint skeleton (ops : list op) : list shape :=
  match ops with
  | [] => []
  | o :: r => match shape_of o with Some h => h :: skeleton r | None => skeleton r end
  end.

Definition script := list shape.

Definition shape_eqb (a b : shape) : bool :=
  match a, b with
  | HGet s, HGet t | HCopyOut s, HCopyOut t | HPut s, HPut t | HDrop s, HDrop t | HHandOver s, HHandOver t
  | HReturnDirect s, HReturnDirect t | HPutKeep s, HPutKeep t | HBorrow s, HBorrow t => s =? t
  | HMove s s', HMove t t' => (s =? t) && (s' =? t')
  | _, _ => false
  end.

Fixpoint is_prefix (a b : list shape) : bool :=
  match a, b with
  | [], _ => true
  | x :: a', y :: b' => shape_eqb x y && is_prefix a' b'
  | _ :: _, [] => false
  end.

(* a call follows a script set when its skeleton is a prefix (the call may still be running) of one of the scripts *)
Definition follows1 (scripts : list script) (ops : list op) : Prop :=
  exists sc, In sc scripts /\ is_prefix (skeleton ops) sc = true.
Definition follows (scripts : list script) (h : list op) : Prop := forall c, follows1 scripts (proj c h).

(* slot 0: result buffer (bufPool / bpPool); 1: inner protocol or state machine; 2, 4, ..: bitmaps; 3: visitor node.
   Nested struct levels take and return one bitmap each: the scripts list up to two levels, deeper nesting repeats the
   Get/Put pair in further slots (the theorems are about ALL disciplined histories; the table documents the code). *)
Definition conv_do_ok : script := [HGet 0; HGet 1; HPut 1; HCopyOut 0; HPut 0].                 (* j2t.Do success *)
Definition conv_do_err : script := [HGet 0; HGet 1; HPut 1; HPut 0].                             (* error in do(): freed, nothing returned *)
Definition conv_do_precond : script := [HGet 0; HDrop 0].                                        (* http precondition: leak *)
Definition conv_do_plain_ok : script := [HGet 0; HCopyOut 0; HPut 0].                            (* p2j.Do, PathNode.Marshal, apiNoBodyStruct *)
Definition conv_do_plain_err : script := [HGet 0; HPut 0].
Definition t2j_do_ok : script := [HGet 0; HGet 2; HPut 2; HCopyOut 0; HPut 0].
Definition t2j_do_ok2 : script := [HGet 0; HGet 2; HGet 4; HPut 4; HPut 2; HCopyOut 0; HPut 0]. (* nested struct level: second bitmap in slot 4 *)
Definition t2j_do_err_leak : script := [HGet 0; HGet 2; HDrop 2; HPut 0].                        (* error inside a struct level: bitmap leaked *)
Definition http_do_err : script := [HGet 0; HDrop 0].                                            (* HTTPConv.Do error: leak *)
Definition j2p_do_ok : script := [HGet 0; HGet 3; HGet 1; HPut 3; HMove 0 1; HCopyOut 0; HPut 0].
Definition j2p_do_err : script := [HGet 0; HGet 3; HGet 1; HPut 3; HDrop 1; HPut 0].
Definition j2p_dointo : script := [HGet 3; HGet 1; HPut 3; HMove 0 1].                           (* result = the never-recycled array *)
Definition marshalto_ok : script := [HGet 0; HGet 2; HPut 2; HCopyOut 0; HPut 0].
Definition marshalto_err : script := [HGet 0; HGet 2; HDrop 2; HDrop 0].                         (* both leaked *)
Definition scratch_ok : script := [HGet 0; HPut 0].                                              (* SkipNative, SetMany, updateByteLen *)
Definition scratch_leak : script := [HGet 0; HDrop 0].

(* generic.NewNodeAny/List/Set/Map/Struct (thrift/generic/node.go:83-205): a pooled protocol OBJECT is pointed at a FRESH
   array (make), the value is written, the node that is returned IS that array; the protocol object is dropped, never
   recycled: the array belongs to the caller alone. (Slot 0 holds the fresh array; Get with no pool choice allocates.) *)
Definition newnode_ok : script := [HGet 0; HHandOver 0].
(* j2t.HTTPConv.Do (conv/j2t/http_conv.go:77-93): pooled buffer, result = fresh array top++body++bottom, Put *)
Definition httpconv_do_ok : script := [HGet 0; HGet 1; HPut 1; HCopyOut 0; HPut 0].

Definition api_scripts : list script :=
  [conv_do_ok; conv_do_err; conv_do_precond; conv_do_plain_ok; conv_do_plain_err; t2j_do_ok; t2j_do_ok2; t2j_do_err_leak;
   http_do_err; j2p_do_ok; j2p_do_err; j2p_dointo; marshalto_ok; marshalto_err; scratch_ok; scratch_leak; newnode_ok; httpconv_do_ok].

Definition scripts_ok (scripts : list script) : bool := forallb (forallb shape_ok) scripts.

(* what buggy apis would look like *)
Definition buggy_newnode_recycle : script := [HGet 0; HReturnDirect 0; HPut 0].                  (* NewNode* with `defer p.Recycle()` on a protocol that lost its borrowed mark *)
Definition buggy_marshalto_alias : script := [HGet 0; HBorrow 6; HReturnDirect 6; HPut 0].  (* MarshalTo returns the source value's own bytes when nothing was cut *)
Definition buggy_httpconv_append : script := [HGet 0; HBorrow 5; HReturnDirect 5; HPut 0].       (* result = append(h.top, body...) into the converter's own header array *)
Definition buggy_return_direct : script := [HGet 0; HReturnDirect 0; HPut 0].                    (* t2j.Do without the copy *)
Definition buggy_j2p_leak_fix : script := [HGet 0; HGet 3; HGet 1; HPut 3; HPutKeep 1; HMove 0 1; HCopyOut 0; HPut 0].
Definition buggy_borrow : script := [HBorrow 2].                                                 (* Set() on desc.Requires() itself *)
Definition buggy_borrow_recycle : script := [HBorrow 0; HPut 0].                                 (* NewBinaryProtocol(input) ... Recycle() *)
