(* Thrift DOM, value level WITH cleared slots: what a history of tree edits means for the value a node denotes.
   A container node is abstracted to its slots: (key, Some child value) or (key, None) for a cleared slot.
   [aslots_step] is the edit on slots exactly as PathNode does it: a set replaces the FIRST slot with the key — also a
   cleared one, which is thereby revived IN PLACE —, appends when there is none (never by index); a clear empties the slot.
   [vget]/[ventries] read a struct / map value as a finite map (field id / key -> value): the property only demands "the
   well-formed encoding of the edited tree", i.e. struct fields and map entries up to order.
   Model only; proofs in proofs/ThriftDomHistoryProofs.v. *)
From Coq Require Import ZArith List Bool.
From DG Require Import ProtoWireRef ThriftWire CaseFormat ThriftGeneric ThriftDom.
Import ListNotations.
Local Open Scope Z_scope.

Definition aslots := list (pkey * option tval).

Definition slots_of (kids : list (pkey * dom)) : aslots := map (fun kd => (fst kd, val_of_dom (snd kd))) kids.

Definition live_of (s : aslots) : list (pkey * tval) :=
  flat_map (fun ks => match snd ks with Some v => [(fst ks, v)] | None => [] end) s.

(* the value a container node with these slots denotes (same equations as val_of_dom) *)
Definition val_of_slots (t et kt : Z) (s : aslots) : option tval :=
  let vs := live_of s in
  if t =? T_STRUCT then Some (VStruct (map (fun kv => (to_s 16 (key_l (fst kv)), snd kv)) vs))
  else if t =? T_LIST then Some (VList et (map snd vs))
  else if t =? T_SET then Some (VSet et (map snd vs))
  else if t =? T_MAP then Some (VMap kt et (map (fun kv => (val_of_key kt (fst kv), snd kv)) vs))
  else None.

Definition aslots_step (s : aslots) (o : top) : aslots :=
  match o with
  | OGet _ => s
  | OSet k x => if has_kid k s then upd_kid k (fun _ => Some x) s
                else if is_index_key k then s else s ++ [(k, Some x)]
  | OClear k => upd_kid k (fun _ => None) s
  end.

(* the same step on the children of a tree node *)
Definition kids_step (kids : list (pkey * dom)) (o : top) : list (pkey * dom) :=
  match o with
  | OGet _ => kids
  | OSet k x => set_kids k x kids
  | OClear k => upd_kid k (fun _ => DEmpty) kids
  end.

(* ---- struct / map values as finite maps ---- *)
Definition ventries (v : tval) : list (pkey * tval) :=
  match v with
  | VStruct fs => map (fun f => (KField (fid (fst f)), snd f)) fs
  | VMap _ _ es => map (fun e => (key_of_val (fst e), snd e)) es
  | _ => []
  end.

Definition vget (v : tval) (k : pkey) : option tval := find_kid k (ventries v).

(* remove the first entry with the key *)
Fixpoint del_kid {A} (k : pkey) (l : list (pkey * A)) : list (pkey * A) :=
  match l with [] => [] | kc :: r => if key_eqb (fst kc) k then r else kc :: del_kid k r end.

(* ast_step seen on the entries: replace or append, remove *)
Definition estep (l : list (pkey * tval)) (o : top) : list (pkey * tval) :=
  match o with
  | OGet _ => l
  | OSet k x => if has_kid k l then upd_kid k (fun _ => x) l else l ++ [(k, x)]
  | OClear k => del_kid k l
  end.

(* what a lookup of key k sees after a step, at value level *)
Definition vstep (cur : option tval) (o : top) (k : pkey) : option tval :=
  match o with
  | OSet k' x => if key_eqb k' k then Some x else cur
  | OClear k' => if key_eqb k' k then None else cur
  | OGet _ => cur
  end.

(* keys in canonical form for the container kind (what Load stores and what the typed API calls produce) *)
Definition int_key_range (kt n : Z) : bool :=
  if kt =? T_BYTE then (0 <=? n) && (n <? 256)
  else if kt =? T_I16 then in_sb 16 n else if kt =? T_I32 then in_sb 32 n else if kt =? T_I64 then in_sb 64 n else false.

Definition key_typed (t kt : Z) (k : pkey) : Prop :=
  if t =? T_STRUCT then match k with KField id => 0 <= id < 65536 | _ => False end
  else if t =? T_MAP then
    match k with
    | KStr s => kt = T_STRING /\ bytes_okb s = true /\ zlen s < 2 ^ 31
    | KInt n => int_key_range kt n = true
    | KBin b => kt <> T_STRING /\ is_int_type kt = false /\
                exists kv, wf kv = true /\ type_of kv = kt /\ b = encode kv
    | _ => False
    end
  else match k with KIndex _ => True | _ => False end.

(* a stored value fits the container *)
Definition val_typed (t et : Z) (x : tval) : Prop := wf x = true /\ (t = T_STRUCT \/ type_of x = et).

Definition op_typed (t et kt : Z) (o : top) : Prop :=
  match o with
  | OSet k x => key_typed t kt k /\ val_typed t et x
  | OClear k => key_typed t kt k
  | OGet _ => True
  end.

Definition slots_wf (t et kt : Z) (s : aslots) : Prop :=
  Forall (fun ks => key_typed t kt (fst ks) /\ match snd ks with Some x => val_typed t et x | None => True end) s.

(* header types of a list / set / map node *)
Definition hdr_typed (t et kt : Z) : Prop :=
  is_container t = true /\ (t = T_STRUCT \/ valid_type et = true) /\ (t = T_MAP -> valid_type kt = true).
