(* Thrift DOM: ERROR nodes inside a tree (the result of a FAILED lookup stored unchecked as a child through
   SetField / SetByStr / SetByInt / Next[i].Node = ...).  Model only; proofs in proofs/ThriftDomErrProofs.v. *)
From Coq Require Import ZArith List Bool.
From DG Require Import ProtoWireRef ThriftWire CaseFormat ThriftGeneric ThriftDom.
Import ListNotations.
Local Open Scope Z_scope.

(* an error node as a child of a typed tree: Node{t: ERROR, l: code}; it denotes no value *)
Definition derr (code : Z) : dom := DNode T_ERROR code 0 [] [].

(* storing it under key k: exactly like a set (first slot with the key, else append; never append by index) *)
Definition err_kids (k : pkey) (code : Z) (kids : list (pkey * dom)) : list (pkey * dom) :=
  if has_kid k kids then upd_kid k (fun _ => derr code) kids
  else if is_index_key k then kids
  else kids ++ [(k, derr code)].

Definition dom_set_err (d : dom) (k : pkey) (code : Z) : dom :=
  match open_node d with
  | Some (t, et, kt, raw, kids) =>
    match err_kids k code kids with
    | [] => d
    | ks => DNode t et kt raw ks
    end
  | None => d
  end.

(* does marshal meet an ERROR node?  It looks at the node itself and, for a container with children, at every child that
   is not skipped as empty (cleared); children of scalar-typed or empty nodes are never visited *)
Fixpoint has_error (x : tree) : bool :=
  match x with
  | T t _ _ _ next =>
    (t =? T_ERROR) ||
    (is_container t && existsb (fun kc => negb (t_empty (snd kc)) && has_error (snd kc)) next)
  end.

(* no OTHER reason for marshal to fail: map children carry keys of the map's key kind, nodes with children are containers
   or scalars *)
Fixpoint marshal_shape (x : tree) : bool :=
  match x with
  | T t _ kt _ next =>
    match next with
    | [] => true
    | _ =>
      if is_container t then
        forallb (fun kc => t_empty (snd kc) ||
                           ((if t =? T_MAP then match key_bytes kt (fst kc) with Some _ => true | None => false end else true)
                            && marshal_shape (snd kc))) next
      else (t =? T_ERROR) || scalar_marshal_type t
    end
  end.
