(* C19: 1931 the Write{List,Map}BeginWithSizePos + ModifyI32 pair against model/ThriftSizePos.v (theorems in
   proofs/ThriftSizePosProofs.v); 1932 retention of values read in copy mode (the source buffer is overwritten after the read). *)
From Coq Require Import ZArith List Bool.
From DG Require Import CaseFormat ProtoWireRef ThriftWire ThriftAnyDesc ThriftSizePos Check19d.
Import ListNotations.
Local Open Scope Z_scope.

(* 1931. fields: bytes already in the buffer, kind (0 list, 1 map), key type, element type, provisional count, bytes appended behind
   the header, new count, position handed to ModifyI32, position the writer returned, code of ModifyI32 (0 nil, 1 error, 3 panic),
   final buffer *)
Definition check_1931 (fs : list field) : verdict :=
  match fs with
  | [FB pre; FZ kind; FZ kt; FZ et; FZ prov; FB elems; FZ n; FZ pos; FZ rpos; FZ code; FB buf] =>
    let '(b0, p0) := if kind =? 0 then list_begin_pos pre et prov else map_begin_pos pre kt et prov in
    let r := modify_i32 pos n (b0 ++ elems) in
    vand (expect 1 (rpos =? p0) [FZ p0])
         (vand (expect 2 (snd r =? code) [FZ (snd r)]) (expect 3 (bytes_eqb (fst r) buf) [FB (fst r)]))
  | _ => VBad 99 []
  end.

(* 1932. fields: api (0 ReadBinary, 1 ReadString, 2 ReadAnyWithDesc, 3 ReadAny), copy flag, retained (the value is unchanged after the
   source buffer was overwritten), descriptor (api 2, else empty), useFieldName, value read.. *)
Definition check_1932 (fs : list field) : verdict :=
  match fs with
  | FZ api :: FZ copy :: FZ kept :: FB db :: FZ bn :: rest =>
    if negb (copy =? 0) && (kept =? 0) then
      (* a copy-mode result must not alias the buffer *)
      if api =? 2 then
        match parse_adesc (S (length db)) db, parse_gval (S (length rest)) rest with
        | Some (d, []), Some (g, []) => if alias_keys c19d_fuel (negb (bn =? 0)) d g then VKnown 1924 else VBad 1 []
        | _, _ => VBad 99 []
        end
      else VBad 1 []
    else VOk                               (* a no-copy result may alias *)
  | _ => VBad 99 []
  end.
