(* Correspondence checks for C19 (Thrift protocol codec). *)
From Coq Require Import ZArith List Bool.
From DG Require Import CaseFormat ProtoWireRef ThriftWire ThriftGeneric ThriftEdit ThriftEnvelope Gen_thrift.
Import ListNotations.
Local Open Scope Z_scope.

Definition scalar_of (t v : Z) : option tval :=
  if t =? T_BOOL then Some (VBool v) else if t =? T_BYTE then Some (VByte v) else if t =? T_I16 then Some (VI16 v)
  else if t =? T_I32 then Some (VI32 v) else if t =? T_I64 then Some (VI64 v) else if t =? T_DOUBLE then Some (VDouble v) else None.

Definition scalar_image (x : tval) : Z :=
  match x with VBool b => (if b =? 1 then 1 else 0) | VByte z => z | VI16 z => z | VI32 z => z | VI64 z => z | VDouble z => z | _ => -1 end.

(* 1901: scalar write then read. fields: type, value (signed / bits / 0-1), written bytes, read-back value, read err *)
Definition check_1901 (fs : list field) : verdict :=
  match fs with
  | [FZ t; FZ v; FB w; FZ rb; FZ err] =>
    match scalar_of t v with
    | None => VBad 98 []
    | Some x =>
      if negb (wf x) then VSkip else
      vand (expect 1 (bytes_eqb w (encode x)) [FB (encode x)])
     (vand (expect 2 ((err =? 0) && (rb =? v)) [FZ v])
           (* the model's decoder reads the same value from the implementation's bytes *)
           (match decode_all t w with
            | Some y => expect 3 (scalar_image y =? v) [FZ (scalar_image y)]
            | None => VBad 4 []
            end))
    end
  | _ => VBad 99 []
  end.

(* 1902: string / binary write then read. fields: payload, written (WriteString), written (WriteBinary), read-back string, read-back binary, errs *)
Definition check_1902 (fs : list field) : verdict :=
  match fs with
  | [FB s; FB w1; FB w2; FB r1; FB r2; FZ err] =>
    let e := encode (VString s) in
    vand (expect 1 (bytes_eqb w1 e && bytes_eqb w2 e) [FB e])
         (expect 2 ((err =? 0) && bytes_eqb r1 s && bytes_eqb r2 s) [FB s])
  | _ => VBad 99 []
  end.

(* every container type byte is a valid type, even in empty containers (SkipNative rejects unknown element types of empty containers) *)
Fixpoint strict (v : tval) : bool :=
  match v with
  | VStruct fs => forallb (fun f => strict (snd f)) fs
  | VMap kt vt es => valid_type kt && valid_type vt && forallb (fun e => strict (fst e) && strict (snd e)) es
  | VSet et es => valid_type et && forallb strict es
  | VList et es => valid_type et && forallb strict es
  | _ => true
  end.

(* 1903: skip. fields: type, bytes, SkipGo err, SkipGo consumed, SkipNative err, SkipNative consumed, typeSize[t] from the code *)
Definition check_1903 (fs : list field) : verdict :=
  match fs with
  | [FZ t; FB bs; FZ e1; FZ n1; FZ e2; FZ n2; FZ ts] =>
    vand (expect 5 ((t <? 0) || (t >? 255) || (typeSize t =? ts)) [FZ (typeSize t)])
    match skip_go t bs with
    | Some r =>
      let n := zlen bs - zlen r in
      vand (expect 1 ((e1 =? 0) && (n1 =? n)) [FZ 0; FZ n])
           (* SkipNative is compared on well-formed values only (its behaviour on malformed input belongs to C18/C06) *)
           (match decode (S (length bs)) t bs with
            | Some (v, _) => if wf v && strict v then expect 2 ((e2 =? 0) && (n2 =? n)) [FZ 0; FZ n] else VOk
            | None => VOk
            end)
    | None => vand (expect 3 (e1 =? 1) [FZ 1])
                   (* both skippers fail on input the model rejects (finding 1901 fixed: SkipNative used to return nil) *)
                   (* a value that is only too DEEP for SkipGo (limit 1023) but skippable with an unbounded depth budget:
                      the native skipper's own stack holds 1024 levels, so it may still succeed there — the depth-limit
                      boundary is not part of C19 (it is compared under C18) *)
                   (match skip (S (length bs)) t bs with
                    | Some _ => if e2 =? 0 then VDrift 41 else VOk
                    | None => expect 4 (negb (e2 =? 0)) [FZ 1]
                    end)
    end
  | _ => VBad 99 []
  end.

(* 1904: envelope. fields: name, type, seq, id, body, wrapped, header, footer, unwrap: err, name, type, seq, id, body *)
Definition check_1904 (fs : list field) : verdict :=
  match fs with
  | [FB name; FZ ty; FZ seq; FZ id; FB body; FB w; FB h; FB f; FZ uerr; FB uname; FZ uty; FZ useq; FZ uid; FB ubody] =>
    let mw := wrap body name ty id seq in
    vand (expect 1 (bytes_eqb w mw) [FB mw])
   (vand (expect 2 (bytes_eqb h (env_header name ty id seq) && bytes_eqb f env_footer) [FB (env_header name ty id seq); FB env_footer])
    match unwrap w with
    | Some (n', t', s', i', b') =>
      vand (expect 3 ((uerr =? 0) && bytes_eqb uname n' && (uty =? t') && (useq =? s') && (uid =? i') && bytes_eqb ubody b') [FB n'; FZ t'; FZ s'; FZ i'; FB b'])
           (expect 4 (bytes_eqb uname name && (uty =? ty) && (useq =? seq) && (uid =? id) && bytes_eqb ubody body) [])
    | None => expect 5 (uerr =? 1) [FZ 1]
    end)
  | _ => VBad 99 []
  end.

(* 1905: unwrap on arbitrary bytes. fields: bytes, err, name, type, seq, id, body *)
Definition check_1905 (fs : list field) : verdict :=
  match fs with
  | [FB bs; FZ uerr; FB uname; FZ uty; FZ useq; FZ uid; FB ubody] =>
    match unwrap bs with
    | Some (n', t', s', i', b') =>
      expect 1 ((uerr =? 0) && bytes_eqb uname n' && (uty =? t') && (useq =? s') && (uid =? i') && bytes_eqb ubody b') [FB n'; FZ t'; FZ s'; FZ i'; FB b']
    | None => expect 2 (uerr =? 1) [FZ 1]
    end
  | _ => VBad 99 []
  end.

(* 1906: WriteAny / ReadAny on generic Go values. fields: type, expected bytes (harness encoder), WriteAny err, WriteAny bytes,
   ReadAny err, re-written bytes (WriteAny (ReadAny b1)), values deep-equal flag *)
Definition check_1906 (fs : list field) : verdict :=
  match fs with
  | [FZ t; FB exp; FZ werr; FB b1; FZ rerr; FB b2; FZ same] =>
    match decode_all t exp with
    | None => VSkip
    | Some v =>
      if negb (wf v) then VSkip else
      if negb (werr =? 0) then VBad 1 [] else
      match decode_all t b1 with
      | None => VBad 2 [FB (encode v)]
      | Some v1 =>
        vand (expect 3 (tval_eqb (canon v1) (canon v)) [FB (encode (canon v))])
        (if negb (rerr =? 0) then VBad 4 [] else
         match decode_all t b2 with
         | None => VBad 5 []
         | Some v2 => vand (expect 6 (tval_eqb (canon v2) (canon v1)) [FB (encode (canon v1))]) (expect 7 (same =? 1) [])
         end)
      end
    end
  | _ => VBad 99 []
  end.
