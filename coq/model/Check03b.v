(* Correspondence check 304 for C03 at algorithm level: the byte walk [t2j_walk_gen] of model/T2JBytes.v (proved to refine
   the spec json_of: proofs/T2JBytesProofs.v) is run on the case's thrift bytes and its TEXT is compared with the text of
   t2j.BinaryConv.Do — byte for byte, except at double lexemes, where the walk writes a marker carrying the bits and the
   implementation's lexeme is judged by value (lex_is_f64: dec2f64 and the rounding spec, as check 301 does).
   The walk models api.js_conv value mapping, WriteDefaultField / WriteRequireField, the response-base extraction and
   ConvertException at the root ([t2j_walk_rootx]): no case is skipped for its options.  WriteOptionalField (bit 11) has no
   effect on a descriptor built without SetOptionalBitmap: the walk ignores it and the implementation must agree.
   Bytes that are not the encoding of a well-formed conforming value (truncations, garbage: the walk runs on them all the
   same) are outside C03: a disagreement there is drift. *)
From Coq Require Import ZArith List Bool.
From DG Require Import CaseFormat ProtoWireRef ThriftWire Json Num Base64 T2J T2JUnset T2JBytes Check03.
Import ListNotations.
Local Open Scope Z_scope.

Fixpoint desc_has_jsconv (d : tdesc) : bool :=
  match d with
  | DStruct fs => existsb (fun f => f_jsconv (fst f) || desc_has_jsconv (snd f)) fs
  | DMap k v => desc_has_jsconv k || desc_has_jsconv v
  | DList _ e => desc_has_jsconv e
  | _ => false
  end.

Definition root_is_struct (d : tdesc) : bool := match d with DStruct _ => true | _ => false end.
Definition root_has_base (d : tdesc) : bool :=
  match d with DStruct fs => existsb (fun f => f_respbase (fst f)) fs | _ => false end.

(* the response-base fields of the root are structs *)
Definition base_is_structb (d : tdesc) : bool :=
  match d with
  | DStruct fs => forallb (fun f => negb (f_respbase (fst f)) || (desc_type (snd f) =? T_STRUCT)) fs
  | _ => true
  end.

(* w: result of the marker walk; exact: the walk's own text (computed only for the replay detail);
   dom: the bytes are the encoding of a well-formed conforming value (the theorem's domain);
   same_doc: the implementation's text still parses to a document denoting the spec tree (computed only on a text mismatch):
   another spelling of the right value is not a violation of C03, it is reported as drift 44 *)
Definition judge_304 (w : option wres) (exact : unit -> list field) (same_doc : unit -> bool)
                     (ec : Z) (out : list Z) (dom : bool) : verdict :=
  if ec =? 3 then (if dom then VBad 8 [] else VDrift 48) else
  let cmp (want : Z) (m : list Z) :=
    if negb (ec =? want) then (if dom then VBad 42 (exact tt) else VDrift 42)
    else if text_agrees (S (length m)) m out then VOk
    else if negb dom then VDrift 43
    else if same_doc tt then VDrift 44
    else VBad 43 (exact tt) in
  match w with
  | None => if (ec =? 0) || (ec =? 2) then (if dom then VBad 41 [] else VDrift 41) else VOk
  | Some (WText m) => cmp 0 m           (* a document with a nil error *)
  | Some (WExc m) => cmp 2 m            (* ConvertException: the text of the returned (non-dynamicgo) error *)
  end.

(* 304: fields = options, descriptor shape..., thrift bytes, error class (0 nil, 1 dynamicgo error, 2 other error = exception text,
   3 panic), output text (error text for class 2) *)
Definition check_304 (fs : list field) : verdict :=
  match fs with
  | FZ o :: rest =>
    match parse_desc (S (length rest)) rest with
    | Some (d, [FB tb; FZ ec; FB out]) =>
      if negb (desc_wf d && base_is_structb d) then VSkip else
      let ow := o mod 2048 in                     (* bits 0..10: what the walk reads (bit 11, WriteOptionalField, has no effect) *)
      let n := S (length tb) in                    (* nesting cannot exceed the number of bytes *)
      let dv :=
        match skip_go (desc_type d) tb with        (* walk the bytes with the bounded skip first: decode is only run on complete values *)
        | Some _ => match decode n (desc_type d) tb with
                    | Some (v, _) => if wf v && conforms v d && (Nat.leb (depth v) max_skip_depth) then Some v else None
                    | None => None
                    end
        | None => None
        end in
      judge_304 (t2j_walk_rootx fd_mark ow n d tb)
                (fun _ => match t2j_walk_rootx f64_exact_lexeme ow n d tb with Some (WText t) | Some (WExc t) => [FB t] | None => [] end)
                (fun _ => match dv with
                          | Some v => match fst (t2j_specw ow d v), json_parse out with
                                      | TOk e, Some j | TExc e, Some j => jmatch e j
                                      | _, _ => false
                                      end
                          | None => false
                          end)
                ec out (match dv with Some _ => true | None => false end)
    | _ => VBad 99 []
    end
  | _ => VBad 99 []
  end.
