(* Spec of the generic Protobuf reads (proto/generic): path lookup on the typed AST, the observables
   a found element must show (node type, raw bytes), and the Go value Interface() must return.
   Model only - lemmas are in proofs/ProtoGenericProofs.v. *)
From Coq Require Import ZArith List Bool.
From DG Require Import CaseFormat ProtoWireRef ProtoMsg.
Import ListNotations.
Local Open Scope Z_scope.

Inductive pstep :=
| PField (n : Z)            (* field number *)
| PName (s : list Z)        (* field name or JSON name *)
| PIndex (i : Z)            (* list index *)
| PStrKey (s : list Z)      (* string map key *)
| PIntKey (k : Z).          (* integer map key, as a Go int *)

(* a found position: label and type of the value, number of the field it lives in, the value *)
Inductive lres :=
| LFound (lbl : flabel) (t : ftype) (num : Z) (v : pval)
| LNotFound (last : bool)   (* absent element; last = the absent step is the final step of the path *)
| LUndeclared               (* a field step that the schema does not declare *)
| LErr.                     (* the step does not fit the shape of the value *)

(* integer keys are compared as Go ints (64-bit two's complement) *)
Definition key_matches (i : Z) (k : mkey) : bool :=
  match k with KInt _ v => to_s 64 v =? to_s 64 i | KStr _ => false end.

Definition step_field (md : mdesc) (s : pstep) : option fdesc :=
  match s with
  | PField n => find_field md n
  | PName nm => find_field_name md nm
  | _ => None
  end.
Definition is_field_step (s : pstep) : bool := match s with PField _ | PName _ => true | _ => false end.

Fixpoint plookup (S : schema) (lbl : flabel) (t : ftype) (num : Z) (v : pval) (p : list pstep) {struct p} : lres :=
  match p with
  | [] => LFound lbl t num v
  | s :: p' =>
    match lbl, v with
    | LSingular, VMsg fs =>
      if negb (is_field_step s) then LErr else
      match t with
      | TMsg name =>
        match find_msg S name with
        | Some md =>
          match step_field md s with
          | None => LUndeclared
          | Some fd =>
            match assoc_z (fd_num fd) fs with
            | Some x => plookup S (fd_label fd) (fd_type fd) (fd_num fd) x p'
            | None => LNotFound (is_nil p')
            end
          end
        | None => LErr
        end
      | TScalar _ => LErr
      end
    | LRepeated _, VList _ vs =>
      match s with
      | PIndex i =>
        if i <? 0 then LNotFound (is_nil p')
        else match nth_error vs (Z.to_nat i) with
             | Some x => plookup S LSingular t num x p'
             | None => LNotFound (is_nil p')
             end
      | _ => LErr
      end
    | LMap kk, VMap kvs =>
      match s with
      | PStrKey k =>
        if kk =? 9
        then match assoc_key (KStr k) kvs with
             | Some x => plookup S LSingular t num x p'
             | None => LNotFound (is_nil p')
             end
        else LErr
      | PIntKey i =>
        if kk =? 9 then LErr
        else match find (fun kx => key_matches i (fst kx)) kvs with
             | Some kx => plookup S LSingular t num (snd kx) p'
             | None => LNotFound (is_nil p')
             end
      | _ => LErr
      end
    | _, _ => LErr
    end
  end.

Definition plookup_root (S : schema) (root : list Z) (m : pmsg) (p : list pstep) : lres :=
  plookup S LSingular (TMsg root) 0 (VMsg m) p.

(* ---- observables of a found element *)
Definition T_LIST := 19.
Definition T_MAP := 20.
Definition node_type (lbl : flabel) (t : ftype) : Z :=
  match lbl with LSingular => kind_of_type t | LRepeated _ => T_LIST | LMap _ => T_MAP end.
(* Node bytes: scalars / strings / messages without the tag (length prefix included);
   LIST / MAP nodes from the first record's tag to the end of the last record *)
Definition node_raw (lbl : flabel) (num : Z) (v : pval) : list Z :=
  match lbl with LSingular => encode_elem v | _ => wenc (wfld num v) end.

(* ---- Go values returned by Interface() *)
Inductive gval :=
| GNil | GInt (z : Z) | GUint (z : Z) | GF64 (bits : Z) | GF32 (bits : Z) | GBool (b : Z)
| GStr (s : list Z) | GBin (b : list Z)
| GList (l : list gval)
| GMapI (l : list (Z * gval))          (* map[int] / map[FieldNumber] *)
| GMapS (l : list (list Z * gval))     (* map[string] *)
| GOther.

Definition is_signed_kind (k : Z) : bool := (k =? 3) || (k =? 5) || (k =? 15) || (k =? 16) || (k =? 17) || (k =? 18) || (k =? 14).
Definition is_unsigned_kind (k : Z) : bool := (k =? 4) || (k =? 13) || (k =? 6) || (k =? 7).

Fixpoint to_gval (v : pval) : gval :=
  match v with
  | VScalar k x =>
    if is_signed_kind k then GInt x
    else if is_unsigned_kind k then GUint x
    else if k =? 1 then GF64 x
    else if k =? 2 then GF32 x
    else if k =? 8 then GBool x
    else GOther
  | VBytes k b => if k =? 9 then GStr b else GBin b
  | VMsg fs => GMapI (map (fun nv => (fst nv, to_gval (snd nv))) fs)
  | VList _ vs => GList (map to_gval vs)
  | VMap kvs =>
    match kvs with
    | (KStr _, _) :: _ =>
      GMapS (map (fun kx => (match fst kx with KStr s => s | KInt _ _ => [] end, to_gval (snd kx))) kvs)
    | _ => GMapI (map (fun kx => (match fst kx with KInt _ i => to_s 64 i | KStr _ => 0 end, to_gval (snd kx))) kvs)
    end
  end.

Fixpoint assoc_b {B} (k : list Z) (l : list (list Z * B)) : option B :=
  match l with [] => None | (m, x) :: r => if bytes_eqb m k then Some x else assoc_b k r end.

(* equality up to map order *)
Fixpoint gval_eqv (a b : gval) {struct a} : bool :=
  match a, b with
  | GNil, GNil => true
  | GInt x, GInt y | GUint x, GUint y | GF64 x, GF64 y | GF32 x, GF32 y | GBool x, GBool y => x =? y
  | GStr x, GStr y | GBin x, GBin y => bytes_eqb x y
  | GList xs, GList ys =>
    (fix go (l m : list gval) {struct l} : bool :=
       match l, m with
       | [], [] => true
       | x :: l', y :: m' => gval_eqv x y && go l' m'
       | _, _ => false
       end) xs ys
  | GMapI xs, GMapI ys =>
    (length xs =? length ys)%nat &&
    forallb (fun kx => match assoc_z (fst kx) ys with Some y => gval_eqv (snd kx) y | None => false end) xs
  | GMapS xs, GMapS ys =>
    (length xs =? length ys)%nat &&
    forallb (fun kx => match assoc_b (fst kx) ys with Some y => gval_eqv (snd kx) y | None => false end) xs
  | _, _ => false
  end.

(* ---- structural facts used by the checker's selectors *)
(* does v contain an empty message (anywhere, v itself included)? *)
Fixpoint has_empty_msg (v : pval) : bool :=
  match v with
  | VMsg [] => true
  | VMsg fs => existsb (fun nv => has_empty_msg (snd nv)) fs
  | VList _ vs => existsb has_empty_msg vs
  | VMap kvs => existsb (fun kx => has_empty_msg (snd kx)) kvs
  | _ => false
  end.
