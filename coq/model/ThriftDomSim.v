(* Code-faithful simulation of PathNode storage INCLUDING memory reuse (thrift/generic/path.go).
   A [pn] is a PathNode with its physical children array: Next = (len, arr) with cap = length arr; slots at and
   above len keep whatever an earlier load left there.  The simulation is used by Check05 to decide whether a
   deviation from the specification (ThriftDom) is EXACTLY what a recorded defect produces; each defect has a
   switch (q_xxx): switch on = what the code does today, off = what the proposed repair does.
   No theorem is stated about this file; it is tied to the code by the differential check only. *)
From Coq Require Import ZArith List Bool.
From DG Require Import ProtoWireRef ThriftWire CaseFormat ThriftGeneric ThriftDom.
Import ListNotations.
Local Open Scope Z_scope.

Inductive pn := PN (key : pkey) (t et kt : Z) (raw : list Z) (cnt : Z) (len : Z) (arr : list pn).
Definition pn0 : pn := PN KNone 0 0 0 [] 0 0 [].

Definition pn_key (p : pn) := match p with PN k _ _ _ _ _ _ _ => k end.
Definition pn_t (p : pn) := match p with PN _ t _ _ _ _ _ _ => t end.
Definition pn_kt (p : pn) := match p with PN _ _ _ kt _ _ _ _ => kt end.
Definition pn_raw (p : pn) := match p with PN _ _ _ _ r _ _ _ => r end.
Definition pn_cnt (p : pn) := match p with PN _ _ _ _ _ c _ _ => c end.
Definition pn_len (p : pn) := match p with PN _ _ _ _ _ _ l _ => l end.
Definition pn_arr (p : pn) := match p with PN _ _ _ _ _ _ _ a => a end.

Definition set_node (p : pn) (t et kt : Z) (raw : list Z) (cnt : Z) : pn :=
  match p with PN k _ _ _ _ _ len arr => PN k t et kt raw cnt len arr end.
Definition set_key (p : pn) (k : pkey) : pn := match p with PN _ t et kt raw cnt len arr => PN k t et kt raw cnt len arr end.
Definition set_next (p : pn) (len : Z) (arr : list pn) : pn :=
  match p with PN k t et kt raw cnt _ _ => PN k t et kt raw cnt len arr end.
Definition set_etkt (p : pn) (et kt : Z) : pn := match p with PN k t _ _ raw cnt len arr => PN k t et kt raw cnt len arr end.
(* Path = Path{}; Node = Node{} (the children array is kept for reuse) *)
Definition clear_slot (p : pn) : pn := match p with PN _ _ _ _ _ _ len arr => PN KNone 0 0 0 [] 0 len arr end.

(* Node.len(): the count in the container header the node points at *)
Definition hdr_cnt (t : Z) (bs : list Z) : Z :=
  if (t =? T_LIST) || (t =? T_SET) then dec_int (firstn 4 (skipn 1 bs))
  else if t =? T_MAP then dec_int (firstn 4 (skipn 2 bs)) else -1.
(* NewNode(t, bs) / Node.slice *)
Definition node_of_bytes (p : pn) (t : Z) (bs : list Z) : pn := set_node p t (hdr_et t bs) (hdr_kt t bs) bs (hdr_cnt t bs).

Record sopts := {
  o_byid : bool; o_byhash : bool; o_ns : bool;
  q_nowrap : bool;     (* 501 probe pointer does not wrap *)
  q_dirty : bool;      (* 502 reused slots are not cleared (hash window, by-id / hash holes, children of lazily loaded slots) *)
  q_oob : bool;        (* 503 Field/SetField index Next[id] without a bounds check *)
  q_setfield : bool;   (* 504 SetField fast path: `<=` threshold, no path written, no id check *)
  q_nsempty : bool;    (* 505 NotScanParentNode leaves an empty nested container without raw bytes *)
  q_div0 : bool;       (* 506 hash fast path divides by N = 0 *)
  o_hs : list (list Z * Z)   (* runtime string hashes observed by the harness *)
}.

Inductive res (A : Type) := ROk (a : A) | RErr | RPanic | RUB.
Arguments ROk {A} _. Arguments RErr {A}. Arguments RPanic {A}. Arguments RUB {A}.
Definition rbind {A B} (r : res A) (f : A -> res B) : res B :=
  match r with ROk a => f a | RErr => RErr | RPanic => RPanic | RUB => RUB end.
Notation "'do' x <- r ; k" := (rbind r (fun x => k)) (at level 200, x pattern, r at level 100, k at level 200).

Fixpoint str_hash (hs : list (list Z * Z)) (s : list Z) : Z :=
  match hs with [] => 1 | e :: r => if bytes_eqb (fst e) s then snd e else str_hash r s end.
Definition int_hash (k : Z) : Z := k mod 2 ^ 64.

Definition is_knone (k : pkey) : bool := match k with KNone => true | _ => false end.
Definition aget (arr : list pn) (i : Z) : option pn := if i <? 0 then None else nth_error arr (Z.to_nat i).
Definition aset (arr : list pn) (i : Z) (x : pn) : list pn := set_nth (Z.to_nat i) x arr.
Fixpoint map_range (f : pn -> pn) (lo hi : Z) (i : Z) (l : list pn) : list pn :=
  match l with [] => [] | x :: r => (if (lo <=? i) && (i <? hi) then f x else x) :: map_range f lo hi (i + 1) r end.

(* guardPathNodeSlice(&con, l): a fresh array of capacity l+16 holding the first len elements *)
Definition guard (arr : list pn) (len l : Z) : list pn :=
  if l >=? zlen arr then firstn (Z.to_nat len) arr ++ repeat pn0 (Z.to_nat (l + 16 - len)) else arr.

(* seekIntHash: index wraps, pointer does not; reading behind the allocation is undefined *)
Fixpoint seek_ptr (fuel : nat) (arr : list pn) (N idx ptr : Z) : res Z :=
  match fuel with
  | O => RUB
  | S f => match aget arr ptr with
           | None => RUB
           | Some s => if is_knone (pn_key s) then ROk idx else seek_ptr f arr N ((idx + 1) mod N) (ptr + 1)
           end
  end.
(* repaired: probe by index with wrap-around, at most N probes *)
Fixpoint seek_idx (fuel : nat) (arr : list pn) (N idx : Z) : res Z :=
  match fuel with
  | O => ROk idx
  | S f => match aget arr idx with
           | None => RUB
           | Some s => if is_knone (pn_key s) then ROk idx else seek_idx f arr N ((idx + 1) mod N)
           end
  end.
Definition seek_slot (o : sopts) (arr : list pn) (N h : Z) : res Z :=
  if q_nowrap o then seek_ptr (S (length arr)) arr N (h mod N) (h mod N) else seek_idx (Z.to_nat N) arr N (h mod N).

Section Scan.
  Variable o : sopts.
  Variable rec : bool.
  Variable scanr : pn -> list Z -> res (pn * list Z).    (* scanChildren one level down *)

  (* handleChild: slot l of (arr, len); returns the array, the new length and the remaining bytes *)
  Definition handle (arr : list pn) (len l : Z) (et : Z) (bs : list Z) : res (list pn * Z * list Z) :=
    if l <? 0 then RPanic else
    let arr1 := guard arr len l in
    let arr2 := if (l >=? len) && negb (q_dirty o) then map_range clear_slot len l 0 arr1 else arr1 in
    let len1 := if l >=? len then l + 1 else len in
    match aget arr2 l with
    | None => RPanic
    | Some v =>
      if rec && is_container et && o_ns o then
        do (v2, rest) <- scanr (set_node v et 0 0 [] (hdr_cnt et bs)) bs;
        let v3 := if negb (q_nsempty o) && (pn_len v2 =? 0)
                  then node_of_bytes v2 et (firstn (length bs - length rest) bs) else v2 in
        ROk (aset arr2 l v3, len1, rest)
      else
        match skip_go et bs with
        | None => RErr
        | Some rest =>
          let v1 := node_of_bytes v et (firstn (length bs - length rest) bs) in
          if rec && is_container et then
            do (v2, rest') <- scanr v1 bs;
            ROk (aset arr2 l v2, len1, rest')
          else
            let v2 := if q_dirty o then v1 else set_next v1 0 (pn_arr v1) in
            ROk (aset arr2 l v2, len1, rest)
        end
    end.

  Definition key_at (arr : list pn) (l : Z) (k : pkey) : list pn :=
    match aget arr l with Some v => aset arr l (set_key v k) | None => arr end.

  Fixpoint sfields (fuel : nat) (arr : list pn) (len l tp : Z) (bs : list Z) : res (list pn * Z * list Z) :=
    match fuel with
    | O => RErr
    | S f =>
      match bs with
      | [] => RErr
      | t :: r =>
        if t =? 0 then ROk (arr, len, r) else
        match take 2 r with
        | None => RErr
        | Some (idb, r2) =>
          let id := fid (dec_int idb) in
          let l1 := if o_byid o then (if id <? 256 then id else tp) else l in
          let tp1 := if o_byid o && negb (id <? 256) then tp + 1 else tp in
          do (arr', len', rest) <- handle arr len l1 t r2;
          sfields f (key_at arr' l1 (KField id)) len' (l1 + 1) tp1 rest
        end
      end
    end.

  Fixpoint selems (n : nat) (i : Z) (arr : list pn) (len l : Z) (et : Z) (bs : list Z) : res (list pn * Z * list Z) :=
    match n with
    | O => ROk (arr, len, bs)
    | S n' =>
      do (arr', len', rest) <- handle arr len l et bs;
      selems n' (i + 1) (key_at arr' l (KIndex i)) len' (l + 1) et rest
    end.

  (* N = 0: sequential storage; N > 0: hash table of N slots *)
  Fixpoint spairs (n : nat) (N : Z) (arr : list pn) (len l : Z) (kt et : Z) (bs : list Z) : res (list pn * Z * list Z) :=
    match n with
    | O => ROk (arr, len, bs)
    | S n' =>
      match read_key kt bs with
      | None => RErr
      | Some (k, r) =>
        do l1 <- (if N =? 0 then ROk l
                  else seek_slot o arr N (match k with KStr s => str_hash (o_hs o) s | KInt z => int_hash z | _ => 0 end));
        do (arr', len', rest) <- handle arr len l1 et r;
        spairs n' N (key_at arr' l1 k) len' (l1 + 1) kt et rest
      end
    end.
End Scan.

(* scanChildren *)
Fixpoint sscan (d : nat) (o : sopts) (rec : bool) (self : pn) (bs : list Z) {struct d} : res (pn * list Z) :=
  match d with
  | O => RErr
  | S d' =>
    let sr := sscan d' o rec in
    let t := pn_t self in
    if t =? T_STRUCT then
      do (arr, len, rest) <- sfields o rec sr (S (length bs)) (pn_arr self) 0 0 256 bs;
      ROk (set_next self len arr, rest)
    else if (t =? T_LIST) || (t =? T_SET) then
      match bs with
      | et :: r =>
        match dec_count r with
        | Some (n, r2) =>
          do (arr, len, rest) <- selems o rec sr n 0 (pn_arr self) 0 0 et r2;
          ROk (set_next (set_etkt self et (pn_kt self)) len arr, rest)
        | None => RErr
        end
      | [] => RErr
      end
    else if t =? T_MAP then
      match bs with
      | kt :: et :: r =>
        if valid_type kt && valid_type et then
          match dec_count r with
          | Some (n, r2) =>
            let sz := Z.of_nat n in
            let hashed := o_byhash o && (sz >? 16) && ((kt =? T_STRING) || is_int_type kt) in
            let N := if hashed then 2 * sz else 0 in
            let arr0 := if hashed then guard (pn_arr self) 0 (N - 1) else pn_arr self in
            let arr1 := if hashed && negb (q_dirty o) then map_range clear_slot 0 N 0 arr0 else arr0 in
            let len0 := if hashed && negb (q_dirty o) then N else 0 in
            do (arr, len, rest) <- spairs o rec sr n N arr1 len0 0 kt et r2;
            ROk (set_next (set_etkt self et kt) len arr, rest)
          | None => RErr
          end
        else RErr
      | _ => RErr
      end
    else RErr
  end.

(* PathNode.Load: self.Node is kept, Next is rebuilt from Next[:0] *)
Definition sim_load (o : sopts) (rec : bool) (self : pn) : res pn :=
  let bs := pn_raw self in
  do (p, _) <- sscan (S (length bs)) o rec self bs; ROk p.

(* ---------------- lookups ---------------- *)
Inductive lk := LFound (i : Z) | LNil | LErrNode.

Fixpoint lin_find (p : pkey -> bool) (i : Z) (n : nat) (arr : list pn) : option Z :=
  match n, arr with
  | S n', x :: r => if p (pn_key x) then Some i else lin_find p (i + 1) n' r
  | _, _ => None
  end.

Definition is_kfield (id : Z) (k : pkey) : bool := match k with KField i => i =? id | _ => false end.
Definition is_kstr (s : list Z) (k : pkey) : bool := match k with KStr x => bytes_eqb x s | _ => false end.
Definition is_kint (n : Z) (k : pkey) : bool := match k with KInt x => x =? n | _ => false end.

(* slow path of Field/SetField: slots from 256 on, then the slots below *)
Definition field_slow (self : pn) (id : Z) : option Z :=
  let len := pn_len self in let arr := pn_arr self in
  match lin_find (is_kfield id) 256 (Z.to_nat (len - 256)) (skipn 256 arr) with
  | Some i => Some i
  | None => lin_find (is_kfield id) 0 (Z.to_nat (Z.min len 256)) arr
  end.

Definition sim_field (o : sopts) (self : pn) (id : Z) : res lk :=
  if negb (pn_t self =? T_STRUCT) then ROk LErrNode else
  let slow := match field_slow self id with Some i => LFound i | None => LNil end in
  if o_byid o && (id <=? 256) then
    if id >=? pn_len self then (if q_oob o then RPanic else ROk slow)
    else match aget (pn_arr self) id with
         | Some v => if negb (is_knone (pn_key v)) && (fid (key_l (pn_key v)) =? id) then ROk (LFound id) else ROk slow
         | None => RPanic
         end
  else ROk slow.

Fixpoint probe_ptr (fuel : nat) (arr : list pn) (samekind hit : pkey -> bool) (ptr : Z) : res (option Z) :=
  match fuel with
  | O => RUB
  | S f => match aget arr ptr with
           | None => RUB
           | Some s => if samekind (pn_key s) then (if hit (pn_key s) then ROk (Some ptr) else probe_ptr f arr samekind hit (ptr + 1))
                       else ROk None
           end
  end.
Fixpoint probe_idx (fuel : nat) (arr : list pn) (samekind hit : pkey -> bool) (N idx : Z) : res (option Z) :=
  match fuel with
  | O => ROk None
  | S f => match aget arr idx with
           | None => RUB
           | Some s => if samekind (pn_key s) then (if hit (pn_key s) then ROk (Some idx) else probe_idx f arr samekind hit N ((idx + 1) mod N))
                       else ROk None
           end
  end.

Definition kind_str (k : pkey) : bool := match k with KStr _ => true | _ => false end.
Definition kind_int (k : pkey) : bool := match k with KInt _ => true | _ => false end.

Definition map_lookup (o : sopts) (self : pn) (samekind hit : pkey -> bool) (h : Z) : res lk :=
  let len := pn_len self in let arr := pn_arr self in
  let lin := match lin_find hit 0 (Z.to_nat len) arr with Some i => LFound i | None => LNil end in
  if o_byhash o then
    let N := 2 * pn_cnt self in
    if (if q_nowrap o then zlen arr >=? N else len >=? N) then
      if N <=? 0 then (if q_div0 o then RPanic else ROk lin)
      else
        do r <- (if q_nowrap o then probe_ptr (S (length arr)) arr samekind hit (h mod N)
                 else probe_idx (Z.to_nat N) arr samekind hit N (h mod N));
        match r with Some i => ROk (LFound i) | None => ROk lin end
    else ROk lin
  else ROk lin.

Definition sim_get_str (o : sopts) (self : pn) (s : list Z) : res lk :=
  if negb (pn_t self =? T_MAP) then ROk LErrNode else if negb (pn_kt self =? T_STRING) then ROk LErrNode
  else map_lookup o self kind_str (is_kstr s) (str_hash (o_hs o) s).
Definition sim_get_int (o : sopts) (self : pn) (n : Z) : res lk :=
  if negb (pn_t self =? T_MAP) then ROk LErrNode else if negb (is_int_type (pn_kt self)) then ROk LErrNode
  else map_lookup o self kind_int (fun k => match k with KInt x => int_hash x =? int_hash n | _ => false end) (int_hash n).

(* ---------------- edits ---------------- *)
(* append(self.Next, PathNode{Path: k, Node: val}); newcap is the capacity the harness observed afterwards *)
Definition sim_append (self : pn) (k : pkey) (t : Z) (vb : list Z) (newcap : Z) : pn :=
  let len := pn_len self in let arr := pn_arr self in
  let x := set_key (node_of_bytes pn0 t vb) k in
  if len <? zlen arr then set_next self (len + 1) (aset arr len x)
  else set_next self (len + 1) (firstn (Z.to_nat len) arr ++ x :: repeat pn0 (Z.to_nat (newcap - len - 1))).

Definition put_node (self : pn) (i : Z) (t : Z) (vb : list Z) : pn :=
  match aget (pn_arr self) i with
  | Some v => set_next self (pn_len self) (aset (pn_arr self) i (node_of_bytes v t vb))
  | None => self
  end.

Inductive setres := SetOk (p : pn) (exist : bool) | SetErr.

Definition sim_set_field (o : sopts) (self : pn) (id : Z) (t : Z) (vb : list Z) (newcap : Z) : res setres :=
  if negb (pn_t self =? T_STRUCT) then ROk SetErr else
  let slow := match field_slow self id with
              | Some i => SetOk (put_node self i t vb) true
              | None => SetOk (sim_append self (KField id) t vb newcap) false
              end in
  if q_setfield o then
    if o_byid o && (id <=? 256) then
      if id >=? pn_len self then (if q_oob o then RPanic else ROk slow)
      else match aget (pn_arr self) id with
           | Some v => ROk (SetOk (put_node self id t vb) (negb (is_knone (pn_key v))))
           | None => RPanic
           end
    else ROk slow
  else
    if o_byid o && (id <? 256) && (id <? pn_len self) then
      match aget (pn_arr self) id with
      | Some v =>
        if is_kfield id (pn_key v) then ROk (SetOk (put_node self id t vb) true)
        else if is_knone (pn_key v) then
          ROk (SetOk (set_next self (pn_len self)
                               (aset (pn_arr self) id (set_next (set_key (node_of_bytes v t vb) (KField id)) 0 (pn_arr v)))) false)
        else ROk slow
      | None => RPanic
      end
    else if o_byid o && (id <=? 256) && (id >=? pn_len self) && q_oob o then RPanic
    else ROk slow.

Definition sim_set_map (self : pn) (r : res lk) (k : pkey) (t : Z) (vb : list Z) (newcap : Z) : res setres :=
  do l <- r;
  match l with
  | LErrNode => ROk SetErr
  | LFound i => ROk (SetOk (put_node self i t vb) true)
  | LNil => ROk (SetOk (sim_append self k t vb newcap) false)
  end.

(* the tree PathNode.marshal sees *)
Fixpoint view (p : pn) : tree :=
  match p with
  | PN _ t et kt raw _ len arr =>
    T t et kt raw ((fix go (l : list pn) (n : nat) {struct l} : list (pkey * tree) :=
                      match l, n with
                      | c :: r, S n' => (pn_key c, view c) :: go r n'
                      | _, _ => []
                      end) arr (Z.to_nat len))
  end.
