(* thrift/binary.go WriteAny / ReadAny / GoType2ThriftType (the descriptor-FREE pair) transcribed AS CODED, on the Go
   values and conventions of ThriftAnyDesc.v (association lists in iteration order, writer status 0 nil / 1 error /
   2 outside the model / 3 panic).
     - WriteAny takes the element / key / value types of a container header from the Go type of the FIRST element it
       sees (GoType2ThriftType); for map[string] and map[interface{}] that element is found by a separate `range` whose
       start is independent of the loop that writes the entries: the model answers 2 (outside) unless all entries
       agree on those types. An empty slice / map is an error; a nil element panics (reflect.TypeOf(nil).Kind()).
     - a slice is written as a set iff sliceAsSet, but the element type of a slice of slices is always LIST.
   Model only - theorems in proofs/ThriftAnyFreeProofs.v. *)
From Coq Require Import ZArith List Bool.
From DG Require Import CaseFormat ProtoWireRef ThriftWire ThriftGeneric ThriftEnvelope ThriftAnyDesc.
From DG Require P2J.
Import ListNotations.
Local Open Scope Z_scope.

(* GoType2ThriftType: a type code, -1 errUnsupportedType, -3 panic (nil) *)
Fixpoint go_type (g : gval) : Z :=
  match g with
  | GNil => -3
  | GBool _ => T_BOOL
  | GInt t _ =>
    if (t =? GT_I8) || (t =? GT_U8) then T_BYTE
    else if (t =? GT_I16) || (t =? GT_U16) then T_I16
    else if (t =? GT_I32) || (t =? GT_U32) then T_I32
    else if (t =? GT_I64) || (t =? GT_U64) || (t =? GT_INT) || (t =? GT_UINT) then T_I64
    else -1
  | GF32 _ => -1
  | GF64 _ => T_DOUBLE
  | GStr _ | GBytes _ => T_STRING
  | GList _ => T_LIST
  | GMapS _ | GMapI _ _ | GMapA _ => T_MAP
  | GStructN _ => T_STRUCT
  | GPtr g' => go_type g'
  end.

(* the Go key types of the integer-keyed maps WriteAny accepts: byte int int8 int16 int32 int64 *)
Definition free_intmap_ok (t : Z) : bool := ((1 <=? t) && (t <=? 5)) || (t =? GT_U8).

Definition all_same (l : list Z) : bool := match l with [] => true | x :: r => forallb (Z.eqb x) r end.
(* status of a header type: 0 fine, 1 error, 3 panic *)
Definition ty_status (t : Z) : Z := if t =? -3 then 3 else if t <? 0 then 1 else 0.

Section FreeWriter.
  (* sliceAsSet selects WriteSetBegin instead of WriteListBegin: the same bytes, so the model has no such parameter *)

  Section Loops.
    Variable rec : list Z -> gval -> wst.

    Fixpoint wf_elems (b : list Z) (vs : list gval) : wst :=
      match vs with
      | [] => (b, 0)
      | v :: r => wbind (rec b v) (fun b' => wf_elems b' r)
      end.
    Fixpoint wf_entries {K} (wk : K -> list Z -> wst) (b : list Z) (es : list (K * gval)) : wst :=
      match es with
      | [] => (b, 0)
      | kv :: r => wbind (wk (fst kv) b) (fun b1 => wbind (rec b1 (snd kv)) (fun b2 => wf_entries wk b2 r))
      end.
    Definition wf_key (k : gval) (b : list Z) : wst :=
      match k with
      | GPtr g => if ptr_target_ok g then rec b g else rec b k
      | _ => rec b k
      end.
    Fixpoint wf_fields (b : list Z) (ms : list (Z * gval)) : wst :=
      match ms with
      | [] => (b, 0)
      | m :: r =>
        let ft := go_type (snd m) in
        if negb (ty_status ft =? 0) then (b, ty_status ft)
        else wbind (rec (b ++ ft :: enc_int 2 (fst m)) (snd m)) (fun b2 => wf_fields b2 r)
      end.
  End Loops.

  Fixpoint write_free (fuel : nat) (b : list Z) (g : gval) : wst :=
    match fuel with
    | O => (b, 2)
    | S f =>
      match g with
      | GBool v => (b ++ [if v then 1 else 0], 0)
      | GInt t z =>
        if (t =? GT_U8) || (t =? GT_I8) then (b ++ [z mod 256], 0)
        else if t =? GT_I16 then (b ++ enc_int 2 z, 0)
        else if t =? GT_I32 then (b ++ enc_int 4 z, 0)
        else if (t =? GT_I64) || (t =? GT_INT) then (b ++ enc_int 8 z, 0)
        else (b, 1)
      | GF64 x => (b ++ enc_int 8 x, 0)
      | GF32 x => (b ++ enc_int 8 (P2J.widen32 x), 0)
      | GStr s | GBytes s => (b ++ str_bytes s, 0)
      | GList vs =>
        match vs with
        | [] => (b, 1)
        | v0 :: _ =>
          let et := go_type v0 in
          if negb (ty_status et =? 0) then (b, ty_status et)
          else wf_elems (write_free f) (b ++ et :: enc_int 4 (zlen vs)) vs
        end
      | GMapS es =>
        match es with
        | [] => (b, 1)
        | e0 :: _ =>
          if negb (all_same (map (fun e => go_type (snd e)) es)) then (b, 2) else
          let et := go_type (snd e0) in
          if negb (ty_status et =? 0) then (b, ty_status et)
          else wf_entries (write_free f) (fun s b' => (b' ++ str_bytes s, 0)) (b ++ T_STRING :: et :: enc_int 4 (zlen es)) es
        end
      | GMapI t es =>
        if negb (free_intmap_ok t) then (b, 1) else
        match es with
        | [] => (b, 1)
        | e0 :: _ =>
          let kt := go_type (GInt t 0) in
          let et := go_type (snd e0) in
          if negb (ty_status et =? 0) then (b, ty_status et)
          else wf_entries (write_free f) (fun k b' => write_free f b' (GInt t k)) (b ++ kt :: et :: enc_int 4 (zlen es)) es
        end
      | GMapA es =>
        match es with
        | [] => (b, 1)
        | e0 :: _ =>
          if negb (all_same (map (fun e => go_type (fst e)) es) && all_same (map (fun e => go_type (snd e)) es)) then (b, 2) else
          let kt := go_type (fst e0) in
          let et := go_type (snd e0) in
          if negb (ty_status kt =? 0) then (b, ty_status kt)
          else if negb (ty_status et =? 0) then (b, ty_status et)
          else wf_entries (write_free f) (wf_key (write_free f)) (b ++ kt :: et :: enc_int 4 (zlen es)) es
        end
      | GStructN ms => wbind (wf_fields (write_free f) b ms) wstop
      | GNil | GPtr _ => (b, 1)
      end
    end.

  (* the Type WriteAny returns beside a nil error *)
  Definition write_free_type (g : gval) : Z :=
    match g with
    | GList _ => T_LIST
    | GF32 _ => T_DOUBLE
    | _ => go_type g
    end.
End FreeWriter.

(* ---------------------------------------------------------------- reader *)
Section FreeReader.
  Variables strbin i8 raw : bool.          (* strAsBinary, byteAsInt8; raw as in ThriftAnyDesc *)

  Section Loops.
    Variable rec : Z -> list Z -> option (gval * list Z).

    Fixpoint rf_elems (n : nat) (t : Z) (bs : list Z) : option (list gval * list Z) :=
      match n with
      | O => Some ([], bs)
      | S n' =>
        match rec t bs with
        | None => None
        | Some (x, r) => match rf_elems n' t r with Some (xs, r') => Some (x :: xs, r') | None => None end
        end
      end.
    Fixpoint rf_pairs {K} (rk : list Z -> option (K * list Z)) (n : nat) (vt : Z) (bs : list Z)
      : option (list (K * gval) * list Z) :=
      match n with
      | O => Some ([], bs)
      | S n' =>
        match rk bs with
        | None => None
        | Some (k, r) =>
          match rec vt r with
          | None => None
          | Some (x, r2) => match rf_pairs rk n' vt r2 with Some (es, r3) => Some ((k, x) :: es, r3) | None => None end
          end
        end
      end.
    Fixpoint rf_fields (fuel : nat) (bs : list Z) : option (list (Z * gval) * list Z) :=
      match fuel with
      | O => None
      | S f =>
        match bs with
        | [] => None
        | t :: r =>
          if negb (type_valid t) then None
          else if t =? 0 then Some ([], r)
          else match take 2 r with
               | None => None
               | Some (idb, r2) =>
                 match rec t r2 with
                 | None => None
                 | Some (x, r3) =>
                   match rf_fields f r3 with
                   | Some (l, r4) => Some ((dec_int idb mod 65536, x) :: l, r4)
                   | None => None
                   end
                 end
               end
        end
      end.
  End Loops.

  Definition rf_key (rd : Z -> list Z -> option (gval * list Z)) (kt : Z) (bs : list Z) : option (gval * list Z) :=
    match rd kt bs with Some (g, r) => Some (wrap_key g, r) | None => None end.

  Fixpoint read_free (fuel : nat) (t : Z) (bs : list Z) : option (gval * list Z) :=
    match fuel with
    | O => None
    | S f =>
      if (t =? T_BOOL) || (t =? T_BYTE) || (t =? T_I16) || (t =? T_I32) || (t =? T_I64) || (t =? T_DOUBLE) then
        read_scalar (negb i8) t bs
      else if t =? T_STRING then
        match read_strbytes bs with
        | Some (s, r) => Some ((if strbin then GBytes s else GStr s), r)
        | None => None
        end
      else if (t =? T_LIST) || (t =? T_SET) then
        match bs with
        | [] => None
        | et :: r =>
          if negb (type_valid et) then None else
          match read_count r with
          | None => None
          | Some (n, r2) =>
            if n >? zlen r2 then None
            else match rf_elems (read_free f) (Z.to_nat n) et r2 with
                 | Some (l, r3) => Some (GList l, r3)
                 | None => None
                 end
          end
        end
      else if t =? T_MAP then
        match bs with
        | kt :: vt :: r =>
          if negb (type_valid kt) then None else
          if negb (type_valid vt) then None else
          match read_count r with
          | None => None
          | Some (n, r2) =>
            if n >? zlen r2 then None
            else if kt =? T_STRING then
              match rf_pairs (read_free f) read_strbytes (Z.to_nat n) vt r2 with
              | Some (l, r3) => Some (GMapS (mk_map raw bytes_eqb l), r3)
              | None => None
              end
            else if is_int_type kt then
              match rf_pairs (read_free f) (read_int_key kt) (Z.to_nat n) vt r2 with
              | Some (l, r3) => Some (GMapI GT_INT (mk_map raw Z.eqb l), r3)
              | None => None
              end
            else
              match rf_pairs (read_free f) (rf_key (read_free f) kt) (Z.to_nat n) vt r2 with
              | Some (l, r3) => Some (GMapA (mk_map raw gkey_eqb l), r3)
              | None => None
              end
          end
        | _ => None
        end
      else if t =? T_STRUCT then
        match rf_fields (read_free f) (S (length bs)) bs with
        | Some (l, r) => Some (GStructN (mk_map raw Z.eqb l), r)
        | None => None
        end
      else None
    end.
End FreeReader.

(* ReadAny(typ, strAsBinary, byteAsInt8) *)
Definition read_any_free (strbin i8 : bool) (fuel : nat) (t : Z) (bs : list Z) : option (gval * list Z) :=
  read_free strbin i8 false fuel t bs.

(* ---------------------------------------------------------------- the Go value ReadAny answers for a wire value *)
Section GvalFree.
  Variables strbin i8 : bool.
  Fixpoint gval_free (v : tval) : gval :=
    match v with
    | VBool raw => GBool (raw =? 1)
    | VByte z => if i8 then GInt GT_I8 z else GInt GT_U8 (z mod 256)
    | VI16 z => GInt GT_I16 z
    | VI32 z => GInt GT_I32 z
    | VI64 z => GInt GT_I64 z
    | VDouble b => GF64 b
    | VString s => if strbin then GBytes s else GStr s
    | VList _ es => GList (map gval_free es)
    | VSet _ es => GList (map gval_free es)
    | VMap kt _ es =>
      if kt =? T_STRING then GMapS (map (fun e => (gstr_key (fst e), gval_free (snd e))) es)
      else if is_int_type kt then GMapI GT_INT (map (fun e => (gint_key (fst e), gval_free (snd e))) es)
      else GMapA (map (fun e => (wrap_key (gval_free (fst e)), gval_free (snd e))) es)
    | VStruct fs => GStructN (map (fun f => (fst f mod 65536, gval_free (snd f))) fs)
    end.
End GvalFree.

(* every container header carries a Thrift type (also when the container is empty) *)
Fixpoint hdrs_ok (v : tval) : bool :=
  match v with
  | VStruct fs => forallb (fun f => hdrs_ok (snd f)) fs
  | VMap kt vt es => valid_type kt && valid_type vt && forallb (fun e => hdrs_ok (fst e) && hdrs_ok (snd e)) es
  | VSet et es => valid_type et && forallb hdrs_ok es
  | VList et es => valid_type et && forallb hdrs_ok es
  | _ => true
  end.

(* the values WriteAny writes in the standard encoding when handed what ReadAny answers for them: no empty container
   (WriteAny refuses them), no set below the top (the header element type of a slice of slices is always LIST; sliceAsSet
   itself changes no byte: WriteSetBegin and WriteListBegin write the same header), integer-keyed maps only with I64 keys
   (ReadAny answers map[int], whose keys WriteAny writes as I64) *)
Fixpoint free_ok (v : tval) : bool :=
  match v with
  | VStruct fs => forallb (fun f => free_ok (snd f)) fs
  | VMap kt _ es =>
    negb (zlen es =? 0) && (negb (is_int_type kt) || (kt =? T_I64)) && forallb (fun e => free_ok (fst e) && free_ok (snd e)) es
  | VSet _ _ => false
  | VList _ es => negb (zlen es =? 0) && forallb free_ok es
  | _ => true
  end.
