(* C17 — HTTP mapping AS CODED: transcription of the Go functions (and of the two C loops the native converter contributes)
   with their variables, loops, break / continue / return structure and mutable state.  Model only — the refinement proofs
   (this transcription = the decision table of HttpMap.v) are in proofs/HttpMapCodedProofs.v.

   transcribed                                                         here
   ------------------------------------------------------------------  -----------------------------------------
   http/http.go  GetQuery GetParam GetHeader GetCookie GetPostForm     Get*            (request = one association list per source)
                 GetMapBody GetBody GetUri
                 HTTPResponse.SetStatusCode SetHeader SetCookie        Set*            (response state record)
                 SetRawBody
   thrift/annotation.go  mapAnnotations (order of HTTPMappings())      map_annotations (finding 1714: mapper output last)
   thrift/annotation/http_mapping.go  api*.Request / Response /        hm_Request, hm_Response, hm_Encoding
                 Encoding, apiNoBodyStruct.Request
   conv/j2t/impl.go  tryGetValueFromHttp, writeStringValue,            tryGetValueFromHttp, writeStringValue,
                 handleHttpMappings, do (empty body)                   handleHttpMappings, do_nobody
   thrift/utils.go  RequiresBitmap.Set / IsSet / HandleRequires        bm_set, HandleRequires
   conv/j2t/impl_fallback.go  doRecurse, case STRUCT                   portable_struct
   native/thrift.c  J2T_VAL '{' (ERR_HM), j2t_key skip test,           native_struct
                 j2t_write_unset_fields (field cache), ERR_HM_END
   conv/j2t/impl_amd64.go  handleUnmatchedFields (FieldCache reset)    handleUnmatchedFields
   conv/t2j/impl.go  writeHttpValue, the http branch of do/doRecurse,  writeHttpValue, t2j_field, handleUnsets_field
                 handleUnsets

   Byte level is abstracted exactly as in HttpMap.v: the output buffer is the list of (field id, value) written so far, the
   text/JSON -> value converters are Section variables, a Go string that holds Thrift bytes (api.no_body_struct) is [SThrift]. *)
From Coq Require Import ZArith List Bool.
From DG Require Import ThriftWire Json Num HttpMap.
Import ListNotations.
Local Open Scope Z_scope.

(* ---- thrift/annotation.go mapAnnotations: annotations without a mapper first, then the output of the mappers.  Of the http kinds
        only api.body has a mapper (apiBodyMapper), so HTTPMappings() lists api.body last (finding 1714).  [repaired = true] is the
        order a position-preserving mapAnnotations gives: the listed one. ---- *)
Definition map_annotations (repaired : bool) (anns : list ann) : list ann :=
  if repaired then anns
  else filter (fun a => negb (a_kind a =? K_BODY)) anns ++ filter (fun a => a_kind a =? K_BODY) anns.

(* ---- Go strings returned by HttpMapping.Request ---- *)
Inductive gstr := SText_ (s : list Z) | SThrift (v : tval).
Definition gstr_empty (s : gstr) : bool := match s with SText_ [] => true | _ => false end.    (* val == "" *)

(* the error of HttpMapping.Request, as far as the callers look at it *)
Inductive rerr := E_NotFound | E_NotImplemented | E_Plain | E_Convert.
Inductive rres := ROk_ (v : gstr) | RErr_ (e : rerr).

Definition ENC_JSON := 0.  Definition ENC_THRIFT := 1.  Definition ENC_TEXT := 2.

(* RequiresBitmap: Set(id, Required | Default) marks the bit, Set(id, Optional) clears it *)
Definition bitmap := Z -> bool.
Definition bm_set (bm : bitmap) (id : Z) (b : bool) : bitmap := fun i => if i =? id then b else bm i.

(* StructDescriptor.HttpMappingFields(): the fields with http annotations, in declaration order *)
Definition HttpMappingFields (fs : list fdesc) : list fdesc := filter (fun f => nonempty (f_anns f)) fs.
Definition FieldById (fs : list fdesc) (id : Z) : option fdesc := find (fun f => f_id f =? id) fs.
Definition FieldByKey (fs : list fdesc) (k : list Z) : option fdesc := find (fun f => zlist_eqb (f_name f) k) fs.

(* outcome of a function that returns `error` and appends to the buffer *)
Inductive wres := WOk (w : list (Z * tval)) | WErr (cls : Z).

Section Coded.
  Variable o : hopts.
  Variable rq : request.
  Variable conv_text : tdesc -> list Z -> option tval.
  Variable conv_json : tdesc -> json -> option tval.

  (* ---- http/http.go getters ---- *)
  Definition GetQuery (k : list Z) : list Z := assoc k (rq_query rq).
  Definition GetParam (k : list Z) : list Z := assoc k (rq_path rq).
  Definition GetHeader (k : list Z) : list Z := assoc k (rq_header rq).
  Definition GetCookie (k : list Z) : list Z := assoc k (rq_cookie rq).
  Definition GetPostForm (k : list Z) : list Z := assoc k (rq_form rq).
  Definition GetMapBody (k : list Z) : list Z := assoc k (rq_bodymap rq).
  Definition GetBody : list Z := rq_raw rq.
  Definition GetUri : list Z := rq_uri rq.

  Definition not_found_or (v : list Z) : rres := match v with [] => RErr_ E_NotFound | _ => ROk_ (SText_ v) end.

  (* ---- the inner loop shared by handleHttpMappings and apiNoBodyStruct.Request:
          var ok bool; var val string; [var httpEnc]      <- declared by the CALLER, per field
          for _, hm := range f.HTTPMappings() {
              v, err := hm.Request(ctx, req, f)
              if err == nil { httpEnc = hm.Encoding(); ok = true; val = v; break }
              if err is ErrConvert { return err }
          }                                                                                         ---- *)
  Inductive loop_out := LDone (ok : bool) (val : gstr) (enc : Z) | LAbort.

  Section WithRequest.
    Variable Request : ann -> fdesc -> rres.
    Definition Encoding (a : ann) : Z := if a_kind a =? K_NO_BODY_STRUCT then ENC_THRIFT else ENC_JSON.

    Fixpoint source_loop (f : fdesc) (hms : list ann) (ok : bool) (val : gstr) (enc : Z) : loop_out :=
      match hms with
      | [] => LDone ok val enc
      | hm :: rest =>
        match Request hm f with
        | ROk_ v => LDone true v (Encoding hm)                      (* break *)
        | RErr_ E_Convert => LAbort                                  (* return err *)
        | RErr_ _ => source_loop f rest ok val enc                   (* next mapping *)
        end
      end.

    (* apiNoBodyStruct.Request, after the type test: the loop over the nested struct's http-mapped fields.
       p.Buf is the list of nested (id, value); ok / val are declared INSIDE the loop body (fresh for every nested field). *)
    Fixpoint nbs_fields_loop (gs : list fdesc) (buf : list (Z * tval)) : option (list (Z * tval)) :=
      match gs with
      | [] => Some buf                                               (* p.WriteStructEnd() *)
      | g :: rest =>
        let ok := false in let val := SText_ [] in                   (* var ok bool; var val string *)
        match source_loop g (f_anns g) ok val ENC_JSON with
        | LAbort => None                                             (* p.Recycle(); return "", err *)
        | LDone ok val _ =>
          (* p.WriteFieldBegin(...) *)
          if negb ok || gstr_empty val then nbs_fields_loop rest (buf ++ [(f_id g, zero_of (f_ty g))])   (* WriteDefaultOrEmpty *)
          else match (match val with SText_ s => conv_text (f_ty g) s | SThrift _ => None end) with      (* WriteStringWithDesc *)
               | Some x => nbs_fields_loop rest (buf ++ [(f_id g, x)])
               | None => None                                        (* return "", ErrConvert *)
               end
        end
      end.
  End WithRequest.

  (* ---- thrift/annotation/http_mapping.go: Request of every mapper (Make's switch on the annotation type).
          api.no_body_struct calls Request of the nested fields' mappers: recursion on the nesting depth (fuel). ---- *)
  Fixpoint hm_Request (fuel : nat) (a : ann) (f : fdesc) : rres :=
    let k := a_kind a in
    if k =? K_QUERY then not_found_or (GetQuery (a_key a))
    else if k =? K_PATH then not_found_or (GetParam (a_key a))
    else if k =? K_HEADER then not_found_or (GetHeader (a_key a))
    else if k =? K_COOKIE then not_found_or (GetCookie (a_key a))
    else if k =? K_FORM then not_found_or (GetPostForm (a_key a))
    else if k =? K_BODY then not_found_or (GetMapBody (a_key a))
    else if k =? K_RAW_BODY then ROk_ (SText_ GetBody)
    else if k =? K_RAW_URI then ROk_ (SText_ GetUri)
    else if k =? K_HTTP_CODE then RErr_ E_NotImplemented
    else if k =? K_NO_BODY_STRUCT then
      match f_ty f with
      | TStruct gs =>
        match fuel with
        | O => RErr_ E_Convert
        | S n => match nbs_fields_loop (hm_Request n) (HttpMappingFields gs) [] with
                 | Some buf => ROk_ (SThrift (VStruct buf))
                 | None => RErr_ E_Convert
                 end
        end
      | _ => RErr_ E_Plain                                           (* "apiNoBodyStruct only support STRUCT type" *)
      end
    else RErr_ E_NotImplemented.

  (* ---- conv/j2t/impl.go tryGetValueFromHttp ---- *)
  Definition tryGetValueFromHttp (key : list Z) : list Z * Z :=
    let v := GetParam key in if nonempty v then (v, ENC_JSON) else
    let v := GetQuery key in if nonempty v then (v, ENC_JSON) else
    let v := GetHeader key in if nonempty v then (v, ENC_JSON) else
    let v := GetCookie key in if nonempty v then (v, ENC_JSON) else
    let v := GetMapBody key in if nonempty v then (v, ENC_JSON) else
    ([], ENC_TEXT).

  Section Level.
    (* a STRUCT value: [rec_member] for a member of the document being converted (same state machine, one level deeper),
       [rec_doc] for doImpl(val, f.Type(), ..., top = false) on the JSON text of an http value (a new document) *)
    Variable rec_member : list fdesc -> json -> fres.
    Variable rec_doc : list fdesc -> json -> fres.

    (* the converter proper on one JSON value (a STRUCT goes through the http-mapping machinery again) *)
    Definition conv_with (rec : list fdesc -> json -> fres) (t : tdesc) (j : json) : fres :=
      match t with
      | TStruct fs => rec fs j
      | _ => match conv_json t j with Some v => FValue v | None => FError E_CONV end
      end.

    (* ---- conv/j2t/impl.go writeStringValue ---- *)
    Definition writeStringValue (f : fdesc) (val : gstr) (enc : Z) : wres :=
      if gstr_empty val then
        if negb (o_wr o) && (f_req f =? R_REQUIRED) then WErr E_MISS
        else if negb (o_wo o) && (f_req f =? R_OPTIONAL) then WOk []
        else if negb (o_wd o) && (f_req f =? R_DEFAULT) then WOk []
        else WOk [(f_id f, zero_of (f_ty f))]                        (* WriteFieldBegin; WriteDefaultOrEmpty *)
      else
        match val with
        | SThrift v => if enc =? ENC_THRIFT then WOk [(f_id f, v)] else WErr E_CONV
        | SText_ s =>
          if enc =? ENC_THRIFT then WErr E_CONV                      (* never: only api.no_body_struct has this encoding *)
          else if (enc =? ENC_TEXT) || negb (is_complex (f_ty f)) || negb (is_json_string s) then
            match conv_text (f_ty f) s with Some v => WOk [(f_id f, v)] | None => WErr E_CONV end
          else (* enc == EncodingJSON *)
            match json_parse s with
            | Some j => match conv_with rec_doc (f_ty f) j with
                        | FValue v => WOk [(f_id f, v)]
                        | FAbsent => WOk []
                        | FError c => WErr c      (* newError(ErrConvert, ..., err) WRAPS the inner error; the class is read off the chain *)
                        end
            | None => WErr E_CONV
            end
        end.

    (* ---- conv/j2t/impl.go handleHttpMappings: state = (requires bitmap, buffer) ---- *)
    Inductive hstate := HSt (bm : bitmap) (buf : list (Z * tval)) | HFail (cls : Z).

    Definition hhm_field (fuel : nat) (nobody : bool) (f : fdesc) (bm : bitmap) (buf : list (Z * tval)) : hstate :=
      let ok := false in let val := SText_ [] in let httpEnc := ENC_JSON in      (* var ok bool; var val string; var httpEnc *)
      match source_loop (hm_Request fuel) f (f_anns f) ok val httpEnc with
      | LAbort => HFail E_CONV
      | LDone ok val httpEnc =>
        let write (bm : bitmap) :=
          let bm := bm_set bm (f_id f) false in                      (* reqs.Set(f.ID(), OptionalRequireness) *)
          match writeStringValue f val httpEnc with
          | WOk w => HSt bm (buf ++ w)
          | WErr c => HFail c
          end in
        if negb ok then
          if nobody then
            if (f_req f =? R_REQUIRED) && negb (o_wr o) then HFail E_NOTFOUND
            else if negb (o_wd o) && (f_req f =? R_DEFAULT) then HSt bm buf          (* continue *)
            else if negb (o_wo o) && (f_req f =? R_OPTIONAL) then HSt bm buf         (* continue *)
            else write bm
          else if o_rhf o then HSt (bm_set bm (f_id f) true) buf                     (* reqs.Set(id, Required); continue *)
          else write bm
        else write bm
      end.

    Fixpoint hhm_loop (fuel : nat) (nobody : bool) (hfs : list fdesc) (bm : bitmap) (buf : list (Z * tval)) : hstate :=
      match hfs with
      | [] => HSt bm buf
      | f :: rest => match hhm_field fuel nobody f bm buf with
                     | HSt bm' buf' => hhm_loop fuel nobody rest bm' buf'
                     | HFail c => HFail c
                     end
      end.
    Definition handleHttpMappings (fuel : nat) (nobody : bool) (fs : list fdesc) (bm : bitmap) (buf : list (Z * tval)) : hstate :=
      hhm_loop fuel nobody (HttpMappingFields fs) bm buf.

    (* ---- thrift/utils.go HandleRequires: the marked fields in id order ---- *)
    Definition HandleRequires_field (writeRequired writeDefault writeOptional : bool) (handler : fdesc -> wres) (f : fdesc) : wres :=
      if (f_req f =? R_REQUIRED) && negb writeRequired then WErr E_MISS
      else if ((f_req f =? R_DEFAULT) && negb writeDefault) || ((f_req f =? R_OPTIONAL) && negb writeOptional) then WOk []
      else handler f.

    Fixpoint wres_loop (step : fdesc -> wres) (l : list fdesc) (buf : list (Z * tval)) : wres :=
      match l with
      | [] => WOk buf
      | f :: rest => match step f with WOk w => wres_loop step rest (buf ++ w) | WErr c => WErr c end
      end.

    Definition marked_fields (fs : list fdesc) (bm : bitmap) : list fdesc := filter (fun f => bm (f_id f)) (sort_by_id fs).

    Definition HandleRequires (fs : list fdesc) (bm : bitmap) (wr wd wo : bool) (handler : fdesc -> wres) (buf : list (Z * tval)) : wres :=
      wres_loop (HandleRequires_field wr wd wo handler) (marked_fields fs bm) buf.

    (* the requires bitmap of a struct descriptor (no SetOptionalBitmap): required and default fields are marked *)
    Definition Requires (fs : list fdesc) : bitmap :=
      fun i => match FieldById fs i with Some f => negb (f_req f =? R_OPTIONAL) | None => false end.

    (* ---- conv/j2t/impl.go do, len(src) == 0 ---- *)
    Definition do_nobody (fuel : nat) (fs : list fdesc) : wres :=
      match handleHttpMappings fuel true fs (Requires fs) [] with
      | HFail c => WErr c
      | HSt bm buf =>
        let rhf := o_rhf o in
        HandleRequires fs bm rhf rhf rhf
          (fun f => let '(val, enc) := tryGetValueFromHttp (f_name f) in writeStringValue f (SText_ val) enc) buf
      end.

    (* ---- the member loop both converters share (portable: doRecurse; native: j2t_key + J2T_ELEM):
            unknown key: skipped; http-mapped field whose bit is clear: value skipped; else the value is converted and the bit cleared.
            A null member writes nothing (domain of the model: no null members). ---- *)
    Fixpoint members_loop (fs : list fdesc) (ms : list (list Z * json)) (bm : bitmap) (buf : list (Z * tval)) : hstate :=
      match ms with
      | [] => HSt bm buf
      | (k, j) :: rest =>
        match FieldByKey fs k with
        | None => members_loop fs rest bm buf
        | Some ft =>
          if nonempty (f_anns ft) && negb (bm (f_id ft)) then members_loop fs rest bm buf          (* skip http-mapped value *)
          else match conv_with rec_member (f_ty ft) j with
               | FError c => HFail c
               | FValue v => members_loop fs rest (bm_set bm (f_id ft) false) (buf ++ [(f_id ft, v)])
               | FAbsent => members_loop fs rest (bm_set bm (f_id ft) false) buf
               end
        end
      end.

    (* ---- conv/j2t/impl_fallback.go doRecurse, case V_OBJECT / STRUCT (depth == 0 <-> root) ---- *)
    Definition portable_struct (fuel : nat) (root : bool) (fs : list fdesc) (ms : list (list Z * json)) : wres :=
      let bm := Requires fs in                                                             (* desc.Struct().Requires().CopyTo(bm) *)
      match handleHttpMappings fuel false fs bm [] with
      | HFail c => WErr c
      | HSt bm buf =>
        match members_loop fs ms bm buf with
        | HFail c => WErr c
        | HSt bm buf =>
          let traceback := o_tb o && root in
          HandleRequires fs bm (o_wr o || o_tb o) (o_wd o || traceback) (o_wo o || traceback)
            (fun f =>
               let '(val, enc) := if o_tb o && (root || (f_req f =? R_REQUIRED)) then tryGetValueFromHttp (f_name f) else ([], ENC_JSON) in
               writeStringValue f (SText_ val) enc) buf
        end
      end.

    (* ---- native: native/thrift.c j2t_write_unset_fields + conv/j2t/impl_amd64.go handleUnmatchedFields.
            F_TRACE_BACK = ReadHttpValueFallback || TracebackRequredOrRootFields (toFlags, http mapping on).
            docroot: self->sp == 1; top: the `top` argument of doNative. State: the buffer and fsm.FieldCache. ---- *)
    Definition f_trace_back : bool := o_rhf o || o_tb o.

    (* one marked field: pushed into the field cache, or an error, or written / left out directly *)
    Inductive ures := UCache | UDirect (w : wres).
    Definition write_unset_field (docroot : bool) (f : fdesc) : ures :=
      if f_trace_back && ((f_req f =? R_REQUIRED) || docroot) then UCache
      else if negb (o_wr o) && (f_req f =? R_REQUIRED) then UDirect (WErr E_MISS)
      else if (o_wr o && (f_req f =? R_REQUIRED)) || (o_wd o && (f_req f =? R_DEFAULT)) || (o_wo o && (f_req f =? R_OPTIONAL))
           then UDirect (WOk [(f_id f, zero_of (f_ty f))])
      else UDirect (WOk []).

    Fixpoint write_unset_fields (docroot : bool) (l : list fdesc) (buf : list (Z * tval)) (cache : list Z) : (list (Z * tval) * list Z) + Z :=
      match l with
      | [] => inl (buf, cache)
      | f :: rest =>
        match write_unset_field docroot f with
        | UCache => write_unset_fields docroot rest buf (cache ++ [f_id f])
        | UDirect (WOk w) => write_unset_fields docroot rest (buf ++ w) cache
        | UDirect (WErr c) => inr c
        end
      end.

    (* handleUnmatchedFields: for _, id := range fsm.FieldCache { ... }; fsm.FieldCache = fsm.FieldCache[:0] *)
    Fixpoint unmatched_loop (top : bool) (fs : list fdesc) (cache : list Z) (buf : list (Z * tval)) : wres :=
      match cache with
      | [] => WOk buf
      | id :: rest =>
        match FieldById fs id with
        | None => unmatched_loop top fs rest buf                                           (* unknown id: continue *)
        | Some f =>
          let '(val, enc) := if o_tb o && (top || (f_req f =? R_REQUIRED)) then tryGetValueFromHttp (f_name f) else ([], ENC_JSON) in
          match writeStringValue f (SText_ val) enc with
          | WOk w => unmatched_loop top fs rest (buf ++ w)
          | WErr c => WErr c
          end
        end
      end.
    (* returns the buffer and the field cache as it is AFTER the hand-back: cleared *)
    Definition handleUnmatchedFields (top : bool) (fs : list fdesc) (cache : list Z) (buf : list (Z * tval)) : (wres * list Z) :=
      (unmatched_loop top fs cache buf, []).

    Definition native_struct (fuel : nat) (docroot top : bool) (fs : list fdesc) (ms : list (list Z * json)) (cache : list Z) : (wres * list Z) :=
      let bm := Requires fs in
      (* J2T_VAL '{': ERR_HM when the struct has http-mapped fields, served by handleHttpMappings *)
      match (if nonempty (HttpMappingFields fs) then handleHttpMappings fuel false fs bm [] else HSt bm []) with
      | HFail c => (WErr c, cache)
      | HSt bm buf =>
        match members_loop fs ms bm buf with
        | HFail c => (WErr c, cache)
        | HSt bm buf =>
          match write_unset_fields docroot (marked_fields fs bm) buf cache with
          | inr c => (WErr c, cache)
          | inl (buf, cache) =>
            if nonempty cache then handleUnmatchedFields top fs cache buf                  (* ERR_HM_END *)
            else (WOk buf, cache)
          end
        end
      end.
  End Level.

  Definition wres_to_fres (w : wres) : fres := match w with WOk l => FValue (VStruct l) | WErr c => FError c end.
  Definition wres_to_hres (w : wres) : hres := match w with WOk l => HOk l | WErr c => HErr c end.

  (* nested structs by fuel.  impl: false = portable (doRecurse: depth > 0 for every nested struct), true = native (J2T FSM + Go
     handlers): a member struct is one level deeper in the same document (sp > 1, same `top`); a nested doImpl starts a new document
     (sp == 1, top = false) with a fresh state machine.  Structs of one document share fsm.FieldCache; every hand-back leaves it
     empty (handleUnmatchedFields), and a struct only fills it at its own closing brace, so it is empty whenever a struct starts. *)
  Fixpoint coded_struct (impl : bool) (fuel : nat) (docroot top : bool) (fs : list fdesc) (j : json) : fres :=
    match fuel with
    | O => FError E_CONV
    | S n =>
      match j with
      | JObj ms =>
        if impl then wres_to_fres (fst (native_struct (coded_struct impl n false top) (coded_struct impl n true false) n docroot top fs ms []))
        else wres_to_fres (portable_struct (coded_struct impl n false top) (coded_struct impl n true false) n false fs ms)
      | _ => FError E_CONV
      end
    end.

  (* BinaryConv.do *)
  Definition coded_j2t (impl : bool) (fuel : nat) (fs : list fdesc) (body : option json) : hres :=
    match body with
    | None => wres_to_hres (do_nobody (coded_struct impl fuel true false) fuel fs)
    | Some (JObj ms) =>
      if impl then wres_to_hres (fst (native_struct (coded_struct impl fuel false true) (coded_struct impl fuel true false) fuel true true fs ms []))
      else wres_to_hres (portable_struct (coded_struct impl fuel false true) (coded_struct impl fuel true false) fuel true fs ms)
    | Some _ => HErr E_CONV
    end.
End Coded.

(* ================================================================ response side ================================ *)

(* http/http.go HTTPResponse: what the setters do to the response *)
Record response := mkResp {
  rs_status : option Z;
  rs_header : kv;                 (* Header.Set: one value per key, the last one *)
  rs_cookies : kv;                (* Header.Add("Set-Cookie", name=value): every call adds a line, nothing is replaced *)
  rs_body : option (list Z) }.
Definition resp0 := mkResp None [] [] None.

Definition SetStatusCode (r : response) (c : Z) : response := mkResp (Some c) (rs_header r) (rs_cookies r) (rs_body r).
Definition SetHeader (r : response) (k v : list Z) : response :=
  mkResp (rs_status r) (filter (fun p => negb (zlist_eqb (fst p) k)) (rs_header r) ++ [(k, v)]) (rs_cookies r) (rs_body r).
Definition SetCookie (r : response) (k v : list Z) : response := mkResp (rs_status r) (rs_header r) (rs_cookies r ++ [(k, v)]) (rs_body r).
Definition SetRawBody (r : response) (b : list Z) : response := mkResp (rs_status r) (rs_header r) (rs_cookies r) (Some b).

(* thrift/annotation/http_mapping.go: Response of every mapper; None = error *)
Definition hm_Response (a : ann) (r : response) (val : list Z) : option response :=
  let k := a_kind a in
  if k =? K_HEADER then Some (SetHeader r (a_key a) val)
  else if k =? K_COOKIE then Some (SetCookie r (a_key a) val)
  else if k =? K_HTTP_CODE then match atoi val with Some i => Some (SetStatusCode r i) | None => None end
  else if k =? K_RAW_BODY then Some (SetRawBody r val)
  else if k =? K_RAW_URI then Some r
  else None.

(* conv/t2j/impl.go writeHttpValue: the value is read once per encoding and cached (thriftVal / jsonVal / textVal); here the text is
   given (all response mappers of the generated IDLs use one encoding).
       for _, hm := range field.HTTPMappings() {
           ... val ...
           if e := hm.Response(ctx, resp, field, val); e == nil { ok = true; break } else if !OmitHttpMappingErrors { return false, e }
       }
       return                                                                                                            *)
Inductive wh_out := WH (ok : bool) (r : response) | WHErr.
Fixpoint writeHttpValue (o : hopts) (hms : list ann) (r : response) (val : list Z) : wh_out :=
  match hms with
  | [] => WH false r
  | hm :: rest =>
    match hm_Response hm r val with
    | Some r' => WH true r'                                          (* ok = true; break *)
    | None => if o_omit o then writeHttpValue o rest r val else WHErr
    end
  end.

(* the http branch of do / doRecurse for a PRESENT field:
       if resp != nil && EnableHttpMapping && field.HTTPMappings() != nil {
           ok, err := writeHttpValue(...); if err != nil { return err }
           if !WriteHttpValueFallback || ok { continue }
       }
       ... write the member to the JSON body                                                                             *)
Inductive t2j_out := TJ (in_body : bool) (r : response) | TJErr.
Definition t2j_field (o : hopts) (f : fdesc) (r : response) (val : list Z) : t2j_out :=
  match f_anns f with
  | [] => TJ true r
  | hms => match writeHttpValue o hms r val with
           | WHErr => TJErr
           | WH ok r' => if negb (o_whf o) || ok then TJ false r' else TJ true r'
           end
  end.

(* handleUnsets (an owed ABSENT field, after HandleRequires let it through), with the `resp != nil` guard of 06edf0f:
       var ok = false
       if hms := field.HTTPMappings(); resp != nil && EnableHttpMapping && hms != nil { ok, err = writeHttpValue(default) ... }
       if ok { return nil }
       ... write the member with its default to the JSON body                                                            *)
Definition handleUnsets_field (o : hopts) (have_resp : bool) (f : fdesc) (r : response) (zero_text : list Z) : t2j_out :=
  match f_anns f with
  | [] => TJ true r
  | hms => if negb have_resp then TJ true r else
           match writeHttpValue o hms r zero_text with
           | WHErr => TJErr
           | WH ok r' => if ok then TJ false r' else TJ true r'
           end
  end.
