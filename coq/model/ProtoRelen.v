(* C10, algorithm level: proto/generic/value.go updateByteLen (l.529-596) and the splice of
   Node.replace / Node.replaceMany (node.go l.103-133, 180-210) over plain byte lists.

   After SetByPath / UnsetByPath replaced the byte span of the target, the buffer still carries the
   OLD length varints of every enclosing length-delimited field.  updateByteLen walks the address
   chain (tag offsets recorded by getByPath, one per path level) inside-out; at every level that is
   a length-delimited ancestor it re-reads tag and length at that offset, adds the running
   difference, re-encodes the length (1->2 bytes, 2->1, ... or REMOVES tag and length when the new
   length is 0), splices it and adds the width change to the running difference.

   [relen]        the algorithm applied at EVERY address of the chain (what the property needs);
   [relen_coded]  the loop exactly as coded: which levels are touched depends on the type of the
                  NEXT path step (previousType), on isPacked, and on the `continue` of the in-place
                  branch, which skips the previousType update.
   Model only - theorems in proofs/ProtoRelenProofs.v. *)
From Coq Require Import ZArith List Bool.
From DG Require Import ProtoWireRef.
Import ListNotations.
Local Open Scope Z_scope.

Definition blen {A} (l : list A) : Z := Z.of_nat (length l).

(* Node.replace: buf[:s] ++ x ++ buf[e:] *)
Definition splice (b : list Z) (s e : nat) (x : list Z) : list Z := firstn s b ++ x ++ skipn e b.

(* copy(buf[s:s+len x], x): overwrite in place, the length of b is unchanged *)
Definition overwrite (b : list Z) (s : nat) (x : list Z) : list Z :=
  firstn s b ++ x ++ skipn (s + length x) b.

(* one iteration body of updateByteLen at tag offset [addr] with running difference [diff]:
   returns the new buffer, the new difference and whether the in-place branch (`continue`) was taken *)
Definition relen_step (b : list Z) (diff : Z) (addr : nat) : list Z * Z * bool :=
  let buf := skipn addr b in
  let '(_, tagOff) := varint_dec buf in                       (* protowire.ConsumeVarint(buf) *)
  let '(len, lenOff) := varint_dec (skipn (Z.to_nat tagOff) buf) in
  let newLength := len + diff in
  let newBytes := if newLength =? 0 then [] else varint_enc (newLength mod 2 ^ 64) in   (* uint64(newLength) *)
  let subLen := blen newBytes - lenOff in
  if subLen =? 0 then
    (overwrite b (addr + Z.to_nat tagOff) newBytes, diff, true)
  else
    let head := if newLength =? 0 then addr else (addr + Z.to_nat tagOff)%nat in
    let subLen' := if newLength =? 0 then subLen - tagOff else subLen in
    (firstn head b ++ newBytes ++ skipn (addr + Z.to_nat tagOff + Z.to_nat lenOff) b, diff + subLen', false).

(* every address of the chain, inside-out *)
Definition relen (b : list Z) (diff : Z) (addrs : list nat) : list Z * Z :=
  fold_left (fun st a => let '(b', d', _) := relen_step (fst st) (snd st) a in (b', d')) addrs (b, diff).

(* ---- as coded.  Path step classes: 0 = field id / name, 1 = list index, 2 = map key. *)
Definition PT_FIELD := 0.  Definition PT_INDEX := 1.  Definition PT_KEY := 2.
(* previousType: 0 UNKNOWN, 1 MESSAGE, 2 LIST, 3 MAP *)
Definition prev_of_pt (pt : Z) : Z := if pt =? PT_KEY then 3 else if pt =? PT_INDEX then 2 else 1.

Record rstate := mk_rstate { rs_buf : list Z; rs_diff : Z; rs_prev : Z; rs_packed : bool }.

(* one loop iteration for the level (address, path type), i from len-1 down to 0 *)
Definition relen_coded_step (st : rstate) (lv : nat * Z) : rstate :=
  let '(addr, pt) := lv in
  if (rs_prev st =? 1) || ((rs_prev st =? 2) && rs_packed st) then
    let '(b', d', inplace) := relen_step (rs_buf st) (rs_diff st) addr in
    if inplace then mk_rstate b' d' (rs_prev st) (rs_packed st)          (* continue: previousType NOT updated *)
    else mk_rstate b' d' (prev_of_pt pt) false                           (* isPacked = false *)
  else mk_rstate (rs_buf st) (rs_diff st) (prev_of_pt pt) (rs_packed st).

(* levels inside-out: the first one is the target's own level (never touched: previousType = UNKNOWN) *)
Definition relen_coded (b : list Z) (diff : Z) (isPacked : bool) (levels : list (nat * Z)) : list Z :=
  rs_buf (fold_left relen_coded_step levels (mk_rstate b diff 0 isPacked)).

(* ---- Node.replaceMany: the spans (start, end, new bytes) sorted by start address are copied out
   left to right; offset = end of the previous span *)
Fixpoint replace_many_from (b : list Z) (offset : nat) (spans : list (nat * nat * list Z)) : list Z :=
  match spans with
  | [] => skipn offset b
  | (s, e, x) :: r => firstn (s - offset) (skipn offset b) ++ x ++ replace_many_from b e r
  end.
Definition replace_many (b : list Z) (spans : list (nat * nat * list Z)) : list Z := replace_many_from b 0 spans.

(* insertion sort by start address (sort.Sort on pnSlice.Less; stability is irrelevant for disjoint spans) *)
Fixpoint span_insert (x : nat * nat * list Z) (l : list (nat * nat * list Z)) :=
  match l with
  | [] => [x]
  | y :: r => if (fst (fst x) <=? fst (fst y))%nat then x :: l else y :: span_insert x r
  end.
Definition span_sort (l : list (nat * nat * list Z)) := fold_right span_insert [] l.

(* ---- the shape the theorems talk about: a frame is one enclosing length-delimited field,
   (bytes of the earlier siblings inside its payload, its tag bytes, bytes of the later siblings) *)
Definition frame := (list Z * list Z * list Z)%type.
Definition fr_pre (f : frame) := fst (fst f).
Definition fr_tag (f : frame) := snd (fst f).
Definition fr_post (f : frame) := snd f.
Definition fr_body (f : frame) (x : list Z) : list Z := fr_pre f ++ x ++ fr_post f.

(* exact encoding of the field around the payload part x *)
Definition encE1 (f : frame) (x : list Z) : list Z :=
  fr_tag f ++ varint_enc (blen (fr_body f x)) ++ fr_body f x.
(* what updateByteLen produces: a field whose payload became empty disappears with its tag *)
Definition encR1 (f : frame) (x : list Z) : list Z :=
  match fr_body f x with [] => [] | _ => encE1 f x end.
(* the field with the length of the OLD content xo around the NEW content xn (state after Node.replace) *)
Definition encS1 (f : frame) (xo xn : list Z) : list Z :=
  fr_tag f ++ varint_enc (blen (fr_body f xo)) ++ fr_body f xn.

(* frames listed inside-out *)
Fixpoint wrapE (fr : list frame) (x : list Z) : list Z :=
  match fr with [] => x | f :: outer => wrapE outer (encE1 f x) end.
Fixpoint wrapR (fr : list frame) (x : list Z) : list Z :=
  match fr with [] => x | f :: outer => wrapR outer (encR1 f x) end.
Fixpoint wrapS (fr : list frame) (xo xn : list Z) : list Z :=
  match fr with [] => xn | f :: outer => wrapS outer (encE1 f xo) (encS1 f xo xn) end.
(* bytes in front of the hole *)
Fixpoint ctxA (fr : list frame) (xo : list Z) : list Z :=
  match fr with
  | [] => []
  | f :: outer => ctxA outer (encE1 f xo) ++ fr_tag f ++ varint_enc (blen (fr_body f xo)) ++ fr_pre f
  end.
Fixpoint ctxB (fr : list frame) (xo : list Z) : list Z :=
  match fr with
  | [] => []
  | f :: outer => fr_post f ++ ctxB outer (encE1 f xo)
  end.
(* tag offsets of the frames, inside-out, relative to the start of wrapE fr xo *)
Fixpoint frame_addrs (fr : list frame) (xo : list Z) : list nat :=
  match fr with
  | [] => []
  | f :: outer => length (ctxA outer (encE1 f xo)) :: frame_addrs outer (encE1 f xo)
  end.

(* side conditions: tags are varints of uint64 numbers, all lengths below 2^64 *)
Definition frame_ok (f : frame) : Prop := exists t, 0 <= t < 2 ^ 64 /\ fr_tag f = varint_enc t.
Fixpoint frames_ok (fr : list frame) (xo xn : list Z) : Prop :=
  match fr with
  | [] => True
  | f :: outer => frame_ok f /\ blen (fr_body f xo) < 2 ^ 64 /\ blen (fr_body f xn) < 2 ^ 64 /\
                  frames_ok outer (encE1 f xo) (encR1 f xn)
  end.
(* no payload becomes empty: then nothing is removed *)
Fixpoint frames_nonempty (fr : list frame) (xn : list Z) : Prop :=
  match fr with
  | [] => True
  | f :: outer => fr_body f xn <> [] /\ frames_nonempty outer (encE1 f xn)
  end.
