(* Spec-level edits on the decoded Thrift AST (what SetByPath / UnsetByPath mean). *)
From Coq Require Import ZArith List Bool.
From DG Require Import ProtoWireRef ThriftWire CaseFormat ThriftGeneric.
Import ListNotations.
Local Open Scope Z_scope.

Inductive ures (A : Type) := UAbsent | UFail | UOk (a : A) (existed : bool).
Arguments UAbsent {A}. Arguments UFail {A}. Arguments UOk {A} _ _.

Section Upd.
  Variable k : tval -> option (tval * bool).   (* what happens to the addressed child *)

  Fixpoint upd_fields (id : Z) (fs : list (Z * tval)) : ures (list (Z * tval)) :=
    match fs with
    | [] => UAbsent
    | f :: r =>
      if fst f =? id then match k (snd f) with Some (x', ex) => UOk ((fst f, x') :: r) ex | None => UFail end
      else match upd_fields id r with UOk r' ex => UOk (f :: r') ex | UAbsent => UAbsent | UFail => UFail end
    end.

  Fixpoint upd_nth (n : nat) (es : list tval) : ures (list tval) :=
    match es with
    | [] => UAbsent
    | x :: r =>
      match n with
      | O => match k x with Some (x', ex) => UOk (x' :: r) ex | None => UFail end
      | S n' => match upd_nth n' r with UOk r' ex => UOk (x :: r') ex | UAbsent => UAbsent | UFail => UFail end
      end
    end.

  Fixpoint upd_key (p : tval -> bool) (es : list (tval * tval)) : ures (list (tval * tval)) :=
    match es with
    | [] => UAbsent
    | e :: r =>
      if p (fst e) then match k (snd e) with Some (x', ex) => UOk ((fst e, x') :: r) ex | None => UFail end
      else match upd_key p r with UOk r' ex => UOk (e :: r') ex | UAbsent => UAbsent | UFail => UFail end
    end.
End Upd.

(* the key VALUE a path step denotes for a map with key type kt *)
Definition key_of_step (kt : Z) (s : pstep) : option tval :=
  match s with
  | PStrKey b => if kt =? T_STRING then Some (VString b) else None
  | PIntKey n =>
      if kt =? T_BYTE then Some (VByte (to_s 8 n)) else if kt =? T_I16 then Some (VI16 (to_s 16 n))
      else if kt =? T_I32 then Some (VI32 (to_s 32 n)) else if kt =? T_I64 then Some (VI64 (to_s 64 n)) else None
  | PBinKey b =>
      (* skip first: it bounds every declared length by the remaining input with Z comparisons, so that random key bytes
         (a 4-byte "string length" of 10^9) never reach the decoder's unary length arithmetic *)
      match skip_go kt b with
      | Some [] => match decode (S (length b)) kt b with Some (kv, []) => Some kv | _ => None end
      | _ => None
      end
  | _ => None
  end.

Definition key_pred (kt : Z) (s : pstep) : option (tval -> bool) :=
  match s with
  | PStrKey b => if kt =? T_STRING then Some (str_key_is b) else None
  | PIntKey n => if is_int_type kt then Some (int_key_is n) else None
  | PBinKey b => Some (bin_key_is b)
  | _ => None
  end.

Definition ins {A} (front : bool) (a : A) (l : list A) : list A := if front then a :: l else l ++ [a].

(* set: Some (new value, existed) or None = error (value unchanged) *)
Fixpoint ast_set (front : bool) (p : list pstep) (x : tval) (v : tval) {struct p} : option (tval * bool) :=
  match p with
  | [] => if type_of v =? type_of x then Some (x, true) else None
  | s :: p' =>
    let k := ast_set front p' x in
    let last := match p' with [] => true | _ => false end in
    match s, v with
    | PField id, VStruct fs =>
      match upd_fields k id fs with
      | UOk fs' ex => Some (VStruct fs', ex)
      | UFail => None
      | UAbsent => if last then Some (VStruct (ins front (id, x) fs), false) else None
      end
    | PIndex i, VList et es =>
      if i <? 0 then None else
      match upd_nth k (Z.to_nat i) es with
      | UOk es' ex => Some (VList et es', ex)
      | UFail => None
      | UAbsent => if last then Some (VList et (ins front x es), false) else None
      end
    | PIndex i, VSet et es =>
      if i <? 0 then None else
      match upd_nth k (Z.to_nat i) es with
      | UOk es' ex => Some (VSet et es', ex)
      | UFail => None
      | UAbsent => if last then Some (VSet et (ins front x es), false) else None
      end
    | _, VMap kt vt es =>
      match key_pred kt s with
      | None => None
      | Some pr =>
        match upd_key k pr es with
        | UOk es' ex => Some (VMap kt vt es', ex)
        | UFail => None
        | UAbsent => if last then match key_of_step kt s with Some kv => Some (VMap kt vt (ins front (kv, x) es), false) | None => None end else None
        end
      end
    | _, _ => None
    end
  end.

(* unset: removing the addressed element; absent (anywhere) = unchanged; wrong kind = error *)
Inductive dres := DOk (v : tval) (removed : bool) | DErr.

Fixpoint del_field (id : Z) (fs : list (Z * tval)) : option (list (Z * tval)) :=
  match fs with [] => None | f :: r => if fst f =? id then Some r else match del_field id r with Some r' => Some (f :: r') | None => None end end.
Fixpoint del_nth (n : nat) (es : list tval) : option (list tval) :=
  match es with [] => None | x :: r => match n with O => Some r | S n' => match del_nth n' r with Some r' => Some (x :: r') | None => None end end end.
Fixpoint del_key (p : tval -> bool) (es : list (tval * tval)) : option (list (tval * tval)) :=
  match es with [] => None | e :: r => if p (fst e) then Some r else match del_key p r with Some r' => Some (e :: r') | None => None end end.

Fixpoint ast_unset (p : list pstep) (v : tval) {struct p} : dres :=
  match p with
  | [] => DErr
  | [s] =>
    match s, v with
    | PField id, VStruct fs => match del_field id fs with Some fs' => DOk (VStruct fs') true | None => DOk v false end
    | PIndex i, VList et es => if i <? 0 then DErr else match del_nth (Z.to_nat i) es with Some es' => DOk (VList et es') true | None => DOk v false end
    | PIndex i, VSet et es => if i <? 0 then DErr else match del_nth (Z.to_nat i) es with Some es' => DOk (VSet et es') true | None => DOk v false end
    | _, VMap kt vt es =>
      match key_of_step kt s with
      | None => DErr
      | Some kv => match del_key (bin_key_is (encode kv)) es with Some es' => DOk (VMap kt vt es') true | None => DOk v false end
      end
    | _, _ => DErr
    end
  | s :: p' =>
    let k := fun child => match ast_unset p' child with DOk c' r => Some (c', r) | DErr => None end in
    match s, v with
    | PField id, VStruct fs =>
      match upd_fields k id fs with UOk fs' r => DOk (VStruct fs') r | UFail => DErr | UAbsent => DOk v false end
    | PIndex i, VList et es =>
      if i <? 0 then DErr else match upd_nth k (Z.to_nat i) es with UOk es' r => DOk (VList et es') r | UFail => DErr | UAbsent => DOk v false end
    | PIndex i, VSet et es =>
      if i <? 0 then DErr else match upd_nth k (Z.to_nat i) es with UOk es' r => DOk (VSet et es') r | UFail => DErr | UAbsent => DOk v false end
    | _, VMap kt vt es =>
      match key_pred kt s with
      | None => DErr
      | Some pr => match upd_key k pr es with UOk es' r => DOk (VMap kt vt es') r | UFail => DErr | UAbsent => DOk v false end
      end
    | _, _ => DErr
    end
  end.

(* structural equality of values *)
Fixpoint tval_eqb (a b : tval) {struct a} : bool :=
  match a, b with
  | VBool x, VBool y => x =? y
  | VByte x, VByte y => x =? y
  | VI16 x, VI16 y => x =? y
  | VI32 x, VI32 y => x =? y
  | VI64 x, VI64 y => x =? y
  | VDouble x, VDouble y => x =? y
  | VString x, VString y => bytes_eqb x y
  | VStruct fa, VStruct fb =>
      (fix go (l1 l2 : list (Z * tval)) : bool :=
         match l1, l2 with
         | [], [] => true
         | f1 :: r1, f2 :: r2 => (fst f1 =? fst f2) && tval_eqb (snd f1) (snd f2) && go r1 r2
         | _, _ => false
         end) fa fb
  | VMap k1 v1 ea, VMap k2 v2 eb =>
      (k1 =? k2) && (v1 =? v2) &&
      (fix go (l1 l2 : list (tval * tval)) : bool :=
         match l1, l2 with
         | [], [] => true
         | e1 :: r1, e2 :: r2 => tval_eqb (fst e1) (fst e2) && tval_eqb (snd e1) (snd e2) && go r1 r2
         | _, _ => false
         end) ea eb
  | VSet t1 ea, VSet t2 eb =>
      (t1 =? t2) && (fix go (l1 l2 : list tval) : bool :=
         match l1, l2 with [], [] => true | e1 :: r1, e2 :: r2 => tval_eqb e1 e2 && go r1 r2 | _, _ => false end) ea eb
  | VList t1 ea, VList t2 eb =>
      (t1 =? t2) && (fix go (l1 l2 : list tval) : bool :=
         match l1, l2 with [], [] => true | e1 :: r1, e2 :: r2 => tval_eqb e1 e2 && go r1 r2 | _, _ => false end) ea eb
  | _, _ => false
  end.

(* ---------------- reusable history step (used by Check04 and by the history theorems) ---------------- *)
Inductive eop := OSet (p : list pstep) (x : tval) | OUnset (p : list pstep).

(* a failed operation leaves the value unchanged *)
Definition ast_step (front : bool) (v : tval) (o : eop) : tval :=
  match o with
  | OSet p x => match ast_set front p x v with Some (v', _) => v' | None => v end
  | OUnset p => match ast_unset p v with DOk v' _ => v' | DErr => v end
  end.

(* all intermediate states of a history *)
Fixpoint ast_states (front : bool) (v : tval) (ops : list eop) : list tval :=
  match ops with
  | [] => []
  | o :: r => let v' := ast_step front v o in v' :: ast_states front v' r
  end.

(* API contract of an INSERTION (SetByPath on an absent last step): the new element has the type the
   container declares, a field id is an int16, the raw key is a well-formed key of the map's key type,
   and the count stays below 2^31 *)
Definition ins_ok (s : pstep) (x : tval) (v : tval) : bool :=
  match s, v with
  | PField id, VStruct _ => in_sb 16 id
  | PIndex _, VList et es => (type_of x =? et) && (zlen es + 1 <? 2 ^ 31)
  | PIndex _, VSet et es => (type_of x =? et) && (zlen es + 1 <? 2 ^ 31)
  | _, VMap kt vt es =>
      (type_of x =? vt) && (zlen es + 1 <? 2 ^ 31) &&
      match key_of_step kt s with Some kv => (type_of kv =? kt) && wf kv | None => true end
  | _, _ => true
  end.

Fixpoint set_compat (p : list pstep) (x v : tval) : bool :=
  match p with
  | [] => true
  | s :: p' =>
    match lookup1 v s with
    | LFound c _ => set_compat p' x c
    | LNotFound => match p' with [] => ins_ok s x v | _ => true end
    | LErr => true
    end
  end.

Definition op_compat (v : tval) (o : eop) : bool :=
  match o with OSet p x => wf x && set_compat p x v | OUnset _ => true end.

Fixpoint history_ok (front : bool) (v : tval) (ops : list eop) : bool :=
  match ops with
  | [] => true
  | o :: r => op_compat v o && history_ok front (ast_step front v o) r
  end.
