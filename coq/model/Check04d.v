(* C04 check 404: Node.SetMany at algorithm level.  The byte-level transcription (ThriftEditMany.set_many_bytes: getMany, the
   not-found pass with its in-place count patches, the sort of the PathNodes by address, replaceMany's single pass) runs on the
   container's BYTES and must give exactly the implementation's bytes and error class; inside the domain of
   C04_set_many_refines (set_many_spec = Some _) it is also re-compared with the AST-level specification.
   Case (same fields as 402): type, container bytes, n, (step, sub type, sub bytes)*, err (0 nil, 1 error, 3 panic), result
   bytes, flags. *)
From Coq Require Import ZArith List Bool.
From DG Require Import CaseFormat ProtoWireRef ThriftWire ThriftGeneric ThriftEdit ThriftEditBytes ThriftEditMany Check01 Check04b.
Import ListNotations.
Local Open Scope Z_scope.

Definition mreq_of (it : pstep * Z * list Z) : mreq := it.

Definition spec_agrees_many (t : Z) (bs : list Z) (raw_items : list (pstep * Z * list Z)) : bool :=
  match decode_all t bs, decode_items raw_items with
  | Some v, Some items =>
      if wf v && (depth v <=? max_skip_depth)%nat then
        match set_many_spec v items with
        | Some v2 => match set_many_bytes t bs raw_items with MOk r => bytes_eqb r (encode v2) | _ => false end
        | None => true
        end
      else true
  | _, _ => true
  end.

Definition check_404 (fs : list field) : verdict :=
  match fs with
  | FZ t :: FB bs :: FZ n :: rest =>
    if (n <? 0) || (n >? 1000) then VBad 99 [] else
    match parse_many (Z.to_nat n) rest with
    | Some (raw_items, [FZ err; FB res; FZ flags]) =>
      match skip_go t bs with
      | Some [] =>
        if negb (spec_agrees_many t bs raw_items) then VBad 50 [] else
        match set_many_bytes t bs raw_items with
        | MOk r =>
            if (err =? 0) && bytes_eqb res r then VOk
            else if (err =? 0) && match set_many_bytes t bs (rev raw_items) with MOk r2 => bytes_eqb res r2 | _ => false end
                 then VDrift 2          (* the insertions in another order: left open by the property *)
            else VBad 200 [FZ 0; FB r]
        | MErr => expect 100 ((err =? 1) && bytes_eqb res bs) [FZ 1; FB bs]
        | MUndef => VSkip               (* duplicate requests for one child / a request without raw bytes: outside any contract *)
        end
      | _ => VSkip
      end
    | _ => VBad 99 []
    end
  | _ => VBad 99 []
  end.
