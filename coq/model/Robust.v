(* C06 — decoders over ARBITRARY bytes, re-stated as explicit-cursor machines.
   No well-formedness hypothesis on the input. Every byte the algorithm looks at is fetched with
   [nth_error] at an absolute index (logged in the read trace [tr]); a fetch outside the buffer is the
   distinct result [OverRead]; running out of loop/recursion fuel is the distinct result [OutOfFuel];
   a Go run-time panic the code can reach (negative size handed to next(), slice bounds) is [Panic].
   The state carries the cursor, an allocation-cost counter (what the code passes to make()), and the
   deepest nesting level entered.  Model only — proofs are in proofs/RobustProofs.v.

   Mirrors: thrift/binary_skip.go (SkipGo, skipn, skipstr, next_nopanic), thrift/binary.go (ReadAny,
   Read*Begin, ReadString, ReadMessageBegin/UnwrapBody), proto/protowire/decode.go (ConsumeVarint),
   proto/binary/binary.go (ConsumeTag, next), proto/binary/binary_skip.go (Skip, SkipBytesType),
   conv/p2j/impl.go (top-level unknown-field loop; packed-list loop). *)
From Coq Require Import ZArith List Bool.
From DG Require Import ProtoWireRef ThriftWire ThriftEnvelope.
Import ListNotations.
Local Open Scope Z_scope.

Record st := mkst { cur : Z; cost : Z; deep : Z; tr : list Z }.

Inductive out :=
| Ok (s : st)
| Er (e : Z) (s : st)
| OverRead (i : Z)
| Panic (s : st)
| OutOfFuel.

Definition E_EOF : Z := 1.      (* io.EOF: not enough bytes *)
Definition E_SIZE : Z := 2.     (* errInvalidDataSize *)
Definition E_DEPTH : Z := 3.    (* errExceedDepthLimit *)
Definition E_TYPE : Z := 4.     (* errInvalidDataType / errUnsupportedType *)
Definition E_VERSION : Z := 5.  (* errInvalidVersion *)
Definition E_VARINT : Z := 6.   (* protowire negative length code (-1 truncated, -3 overflow) *)
Definition E_FIELD : Z := 7.    (* field number out of range *)

Definition st0 : st := mkst 0 0 0 [].
Definition adv (n : Z) (s : st) : st := mkst (cur s + n) (cost s) (deep s) (tr s).
Definition charge (c : Z) (s : st) : st := mkst (cur s) (cost s + c) (deep s) (tr s).
Definition enter (lvl : Z) (s : st) : st := mkst (cur s) (cost s) (Z.max (deep s) lvl) (tr s).
Definition logrd (i : Z) (s : st) : st := mkst (cur s) (cost s) (deep s) (i :: tr s).

(* the only way to look at the input *)
Definition rd1 (bs : list Z) (i : Z) : option Z := if i <? 0 then None else nth_error bs (Z.to_nat i).

(* big-endian fetch of n bytes at absolute index i; every index goes through rd1 and is logged *)
Fixpoint fetch (bs : list Z) (n : nat) (i acc : Z) (s : st) : option (Z * st) :=
  match n with
  | O => Some (acc, s)
  | S n' => match rd1 bs i with
            | None => None
            | Some b => fetch bs n' (i + 1) (acc * 256 + b) (logrd i s)
            end
  end.

Section Machines.
Variable bs : list Z.

(* b[off .. off+n) of the slice that starts at the cursor (no bounds check of its own: the Go code's
   preceding length test is what has to make it safe) *)
Definition get (n : nat) (off : Z) (s : st) (k : Z -> st -> out) : out :=
  match fetch bs n (cur s + off) 0 s with
  | None => OverRead (cur s + off)
  | Some (v, s') => k v s'
  end.

(* next(n) / next_nopanic(n) followed by a big-endian decode of the n bytes *)
Definition next_be (n : nat) (s : st) (k : Z -> st -> out) : out :=
  if cur s + Z.of_nat n >? zlen bs then Er E_EOF s
  else get n 0 s (fun v s' => k v (adv (Z.of_nat n) s')).

(* skipn: bounds test only, nothing is read *)
Definition skipn_m (n : Z) (s : st) : out :=
  if cur s + n >? zlen bs then Er E_EOF s else Ok (adv n s).

(* skipstr: the length is int(uint32) — never negative on 64-bit, the `sz < 0` test is dead code *)
Definition skipstr_m (s : st) : out :=
  if cur s + 4 >? zlen bs then Er E_EOF s
  else get 4 0 s (fun sz s' =>
    if sz <? 0 then Er E_SIZE s'
    else if cur s' + 4 + sz >? zlen bs then Er E_EOF s'
    else Ok (adv (4 + sz) s')).

(* ------------------------------------------------------------------ Thrift SkipGo *)

Definition skip_limit : Z := 1023.   (* thrift.MaxSkipDepth *)

Inductive stask :=
| KVal (t d : Z)                (* SkipGo(t, d) *)
| KFields (d : Z)               (* the STRUCT loop of SkipGo(_, d) *)
| KElems (n et d : Z)           (* n remaining iterations of the SET/LIST loop *)
| KPairs (n kt vt d : Z).       (* n remaining iterations of the MAP loop *)

Definition seq_out (o : out) (k : st -> out) : out := match o with Ok s => k s | _ => o end.

Fixpoint srun (fuel : nat) (k : stask) (s : st) : out :=
  match fuel with
  | O => OutOfFuel
  | S f =>
    match k with
    | KVal t d =>
      if d <=? 0 then Er E_DEPTH s else
      let s := enter (skip_limit - d + 1) s in
      let n := fixed_size t in
      if n >? 0 then skipn_m n s
      else if t =? T_STRING then skipstr_m s
      else if t =? T_STRUCT then srun f (KFields d) s
      else if t =? T_MAP then
        if cur s + 6 >? zlen bs then Er E_EOF s else
        get 1 0 s (fun kt s => get 1 1 s (fun vt s => get 4 2 s (fun szu s =>
          let s := adv 6 s in
          let sz := to_s 32 szu in
          if sz <? 0 then Er E_SIZE s else
          let ks := fixed_size kt in let vs := fixed_size vt in
          if (ks >? 0) && (vs >? 0) then skipn_m (sz * (ks + vs)) s
          else srun f (KPairs sz kt vt d) s)))
      else if (t =? T_SET) || (t =? T_LIST) then
        if cur s + 5 >? zlen bs then Er E_EOF s else
        get 1 0 s (fun et s => get 4 1 s (fun szu s =>
          let s := adv 5 s in
          let sz := to_s 32 szu in
          if sz <? 0 then Er E_SIZE s else
          let es := fixed_size et in
          if es >? 0 then skipn_m (sz * es) s
          else srun f (KElems sz et d) s))
      else Er E_SIZE s
    | KFields d =>
      if cur s + 1 >? zlen bs then Er E_EOF s else
      get 1 0 s (fun tp s =>
        let s := adv 1 s in
        if tp =? 0 then Ok s else
        seq_out (skipn_m 2 s) (fun s =>
          let n := fixed_size tp in
          seq_out (if n >? 0 then skipn_m n s else srun f (KVal tp (d - 1)) s)
                  (fun s => srun f (KFields d) s)))
    | KElems n et d =>
      if n <=? 0 then Ok s else
      seq_out (if et =? T_STRING then skipstr_m s else srun f (KVal et (d - 1)) s)
              (fun s => srun f (KElems (n - 1) et d) s)
    | KPairs n kt vt d =>
      if n <=? 0 then Ok s else
      let one (t : Z) (s : st) :=
        let z := fixed_size t in
        if z >? 0 then skipn_m z s else if t =? T_STRING then skipstr_m s else srun f (KVal t (d - 1)) s in
      seq_out (one kt s) (fun s => seq_out (one vt s) (fun s => srun f (KPairs (n - 1) kt vt d) s))
    end
  end.

(* ------------------------------------------------------------------ Thrift ReadAny-style reader *)

(* nominal allocation costs in bytes (what reaches make()/mallocgc for one unit) *)
Definition C_BOX : Z := 8.        (* boxing an int16/32/64/double into interface{} *)
Definition C_STR : Z := 16.       (* boxing a string / []byte header *)
Definition C_SLOT : Z := 16.      (* one interface{} slot of make([]interface{}, 0, n) *)
Definition C_SLICE : Z := 24.     (* boxing the slice header *)
Definition C_MAPENT : Z := 48.    (* one entry of make(map[K]interface{}, n) *)
Definition C_MAPHDR : Z := 48.    (* hmap *)

Inductive rtask :=
| RVal (t d : Z) | RFields (d : Z) | RElems (n et d : Z) | RPairs (n kt vt d : Z).

Section Reader.
Variable clamp : bool.   (* false: capacity = declared count (as coded); true: min(declared, remaining bytes) *)
Variable lim : Z.        (* nesting limit of the reader; the code has none (use lim > |bs|) *)

Definition hint (per n : Z) (s : st) : Z :=
  per * (if clamp then Z.min n (zlen bs - cur s) else n).

(* ReadString(false)/ReadBinary(false): length test against the remaining input, no copy *)
Definition rstring (s : st) : out :=
  next_be 4 s (fun szu s =>
    let sz := to_s 32 szu in
    if (sz <? 0) || (sz >? zlen bs - cur s) then Er E_SIZE s
    else Ok (charge C_STR (adv sz s))).

Definition is_int_t (t : Z) : bool := (t =? T_BYTE) || (t =? T_I16) || (t =? T_I32) || (t =? T_I64).

Fixpoint rrun (fuel : nat) (k : rtask) (s : st) : out :=
  match fuel with
  | O => OutOfFuel
  | S f =>
    match k with
    | RVal t d =>
      if d <=? 0 then Er E_DEPTH s else
      let s := enter (lim - d + 1) s in
      if (t =? T_BOOL) || (t =? T_BYTE) then next_be 1 s (fun _ s => Ok s)
      else if t =? T_I16 then next_be 2 s (fun _ s => Ok (charge C_BOX s))
      else if t =? T_I32 then next_be 4 s (fun _ s => Ok (charge C_BOX s))
      else if (t =? T_I64) || (t =? T_DOUBLE) then next_be 8 s (fun _ s => Ok (charge C_BOX s))
      else if t =? T_STRING then rstring s
      else if (t =? T_LIST) || (t =? T_SET) then
        next_be 1 s (fun et s =>
          if negb (type_valid et) then Er E_TYPE s else
          next_be 4 s (fun szu s =>
            let sz := to_s 32 szu in
            if sz <? 0 then Er E_SIZE s else
            rrun f (RElems sz et d) (charge (C_SLICE + hint C_SLOT sz s) s)))
      else if t =? T_MAP then
        next_be 1 s (fun kt s =>
          if negb (type_valid kt) then Er E_TYPE s else
          next_be 1 s (fun vt s =>
            if negb (type_valid vt) then Er E_TYPE s else
            next_be 4 s (fun szu s =>
              let sz := to_s 32 szu in
              if sz <? 0 then Er E_SIZE s else
              rrun f (RPairs sz kt vt d) (charge (C_MAPHDR + hint C_MAPENT sz s) s))))
      else if t =? T_STRUCT then rrun f (RFields d) (charge C_MAPHDR s)
      else Er E_TYPE s
    | RFields d =>
      next_be 1 s (fun tp s =>
        if negb (type_valid tp) then Er E_TYPE s else
        if tp =? 0 then Ok s else
        next_be 2 s (fun _ s =>
          seq_out (rrun f (RVal tp (d - 1)) s) (fun s => rrun f (RFields d) (charge (2 * C_MAPENT) s))))
    | RElems n et d =>
      if n <=? 0 then Ok s else
      seq_out (rrun f (RVal et (d - 1)) s) (fun s => rrun f (RElems (n - 1) et d) s)
    | RPairs n kt vt d =>
      if n <=? 0 then Ok s else
      let key (s : st) :=
        if kt =? T_STRING then rstring s
        else if kt =? T_BYTE then next_be 1 s (fun _ s => Ok s)
        else if kt =? T_I16 then next_be 2 s (fun _ s => Ok s)
        else if kt =? T_I32 then next_be 4 s (fun _ s => Ok s)
        else if kt =? T_I64 then next_be 8 s (fun _ s => Ok s)
        else rrun f (RVal kt (d - 1)) s in
      seq_out (key s) (fun s => seq_out (rrun f (RVal vt (d - 1)) s) (fun s => rrun f (RPairs (n - 1) kt vt d) s))
    end
  end.
End Reader.

(* ------------------------------------------------------------------ Thrift message envelope *)

(* ReadMessageBegin + ReadFieldBegin + the footer test of UnwrapBody. On Ok the cursor is the start of
   the body; the body is bs[cur .. |bs|-1) (empty for a STOP field). *)
Definition envelope (s : st) : out :=
  if cur s + 4 >? zlen bs then Er E_VERSION s else
  get 4 0 s (fun vu s =>
    let s := adv 4 s in
    let size := to_s 32 vu in
    if size >? 0 then Er E_VERSION s else
    if negb (Z.land (size mod 2 ^ 64) VERSION_MASK =? VERSION_1) then Er E_VERSION s else
    (* ReadString(false) *)
    if cur s + 4 >? zlen bs then Er E_VERSION s else
    get 4 0 s (fun lu s =>
      let s := adv 4 s in
      let n := to_s 32 lu in
      if (n <? 0) || (n >? zlen bs - cur s) then Er E_VERSION s else
      let s := adv n s in
      (* seq id *)
      if cur s + 4 >? zlen bs then Er E_VERSION s else
      get 4 0 s (fun _ s =>
        let s := adv 4 s in
        (* ReadFieldBegin *)
        if cur s + 1 >? zlen bs then Er E_EOF s else
        get 1 0 s (fun ft s =>
          let s := adv 1 s in
          if negb (type_valid ft) then Er E_TYPE s else
          if ft =? 0 then Ok s else
          if cur s + 2 >? zlen bs then Er E_EOF s else
          get 2 0 s (fun _ s =>
            let s := adv 2 s in
            if cur s >? zlen bs - 1 then Er E_EOF s else Ok s))))).

(* ------------------------------------------------------------------ protobuf wire *)

(* ConsumeVarint(b[cur:]): up to 10 bytes, each guarded by `len(b) <= i`; the cursor does not move.
   k counts the bytes that may still carry a continuation bit (9 at the start). *)
Inductive vres := VOk (v n : Z) (s : st) | VErr (code : Z) (s : st) | VOver (i : Z).

Fixpoint vloop (k : nat) (i shift acc : Z) (s : st) : vres :=
  if zlen bs - cur s <=? i then VErr (-1) s else
  match fetch bs 1 (cur s + i) 0 s with
  | None => VOver (cur s + i)
  | Some (y, s') =>
    match k with
    | O => if y <? 2 then VOk (acc + y * 2 ^ shift) (i + 1) s' else VErr (-3) s'
    | S k' => if y <? 128 then VOk (acc + y * 2 ^ shift) (i + 1) s'
              else vloop k' (i + 1) (shift + 7) (acc + (y - 128) * 2 ^ shift) s'
    end
  end.
Definition cvarint (s : st) : vres := vloop 9 0 0 0 s.

(* Read{Varint,Length,...}: ConsumeVarint then next(n) *)
Definition rvarint (s : st) (k : Z -> st -> out) : out :=
  match cvarint s with
  | VOver i => OverRead i
  | VErr _ s' => Er E_VARINT s'
  | VOk v n s' => if cur s' + n >? zlen bs then Er E_EOF s' else k v (adv n s')
  end.

(* ConsumeTag: (field number, wire type); the cursor has moved past the tag even when the number is rejected *)
Definition ptag (s : st) (k : Z -> Z -> st -> out) : out :=
  rvarint s (fun v s =>
    if v / 8 >? 2147483647 then Er E_FIELD s
    else if v / 8 <? 1 then Er E_FIELD s
    else k (v / 8) (v mod 8) s).

(* proto/binary Skip(wireType).  coded = true mirrors SkipBytesType as written:
   all := int(v) + n; next(all) panics for all <= 0 and slices with a wrapped end index;
   coded = false is the same algorithm with the length compared against the remaining input first. *)
Definition pskip (coded : bool) (wt : Z) (s : st) : out :=
  if wt =? 0 then rvarint s (fun _ s => Ok s)
  else if wt =? 5 then skipn_m 4 s
  else if wt =? 1 then skipn_m 8 s
  else if wt =? 2 then
    match cvarint s with
    | VOver i => OverRead i
    | VErr _ s' => Er E_VARINT s'
    | VOk v n s' =>
      if coded then
        let all := to_s 64 (to_s 64 v + n) in
        if all <=? 0 then Panic s' else
        let d := to_s 64 (cur s' + all) in
        if d >? zlen bs then Er E_EOF s'
        else if d <? cur s' then Panic s'
        else Ok (adv all s')
      else
        (* v is a uint64 in the code; the `v <? 0` test is dead for real bytes (0..255) and only
           there because the list elements of the model are unconstrained integers *)
        if (v <? 0) || (v >? zlen bs - cur s' - n) then Er E_EOF s' else Ok (adv (n + v) s')
    end
  else Ok s.   (* group / unknown wire types: nothing is consumed, nil is returned *)

(* for p.Read < len(buf) { ConsumeTag; Skip }  — the unknown-field loop of p2j.do / a schema-less walk *)
Fixpoint pfields (coded : bool) (fuel : nat) (s : st) : out :=
  match fuel with
  | O => OutOfFuel
  | S f =>
    if cur s >=? zlen bs then Ok s else
    ptag s (fun _ wt s => seq_out (pskip coded wt s) (fun s => pfields coded f s))
  end.

(* packed repeated varints: ReadLength, then `for p.Read < start+len { ReadVarint }`.
   ignore_err = false: ReadList / SkipAllElements (the element error ends the loop);
   ignore_err = true : conv/p2j unmarshalList as coded (the element error is dropped, the cursor stays). *)
Fixpoint ploop (ignore_err : bool) (fuel : nat) (stop : Z) (s : st) : out :=
  match fuel with
  | O => OutOfFuel
  | S f =>
    if cur s >=? stop then Ok s else
    match rvarint s (fun _ s => Ok s) with
    | Ok s' => ploop ignore_err f stop s'
    | Er e s' => if ignore_err then ploop ignore_err f stop s else Er e s'
    | o => o
    end
  end.
Definition ppacked (ignore_err : bool) (fuel : nat) (s : st) : out :=
  rvarint s (fun len s => ploop ignore_err fuel (cur s + to_s 64 len) s).

End Machines.

(* ------------------------------------------------------------------ entry points *)

Definition fuel_for (bs : list Z) : nat := (length bs + Z.to_nat skip_limit + 1)%nat.

Definition skip_go_m (t : Z) (bs : list Z) : out := srun bs (fuel_for bs) (KVal t skip_limit) st0.

(* as coded: declared counts, no nesting limit (a limit above |bs| can never trigger) *)
Definition read_any_coded (t : Z) (bs : list Z) : out :=
  rrun bs false (zlen bs + 1) (fuel_for bs) (RVal t (zlen bs + 1)) st0.
(* repaired: capacity hints clamped to the remaining input, nesting limited like Skip *)
Definition read_any_clamped (t : Z) (bs : list Z) : out :=
  rrun bs true skip_limit (fuel_for bs) (RVal t skip_limit) st0.

Definition out_cost (o : out) : Z := match o with Ok s | Er _ s | Panic s => cost s | _ => 0 end.
Definition cost_as_coded (bs : list Z) : Z := out_cost (read_any_coded T_LIST bs).
Definition cost_clamped (t : Z) (bs : list Z) : Z := out_cost (read_any_clamped t bs).

Definition unwrap_m (bs : list Z) : out := envelope bs st0.
Definition pskip_m (coded : bool) (wt : Z) (bs : list Z) : out := pskip bs coded wt st0.
Definition pfields_m (coded : bool) (bs : list Z) : out := pfields bs coded (fuel_for bs) st0.
Definition ppacked_m (ignore_err : bool) (bs : list Z) : out := ppacked bs ignore_err (fuel_for bs) st0.
