(* JSON -> Thrift at ALGORITHM level: the walk of the PORTABLE converter conv/j2t/impl_fallback.go doRecurse over the raw JSON
   text, AS CODED, with the token functions of internal/json/decode.go it calls (SkipBlank, Peek, DecodeValue, decodeInt64,
   decodeFloat64, skipString, SkipValue = skipString / skipPair / skipNumber / decodeNull / decodeTrue / decodeFalse), the string
   decoding it uses (encoding/json.unquoteBytes through json.Unquote since /repo 09a5c2b; base64.StdEncoding.DecodeString;
   strconv.ParseInt / ParseFloat) and the thrift.BinaryProtocol writes (field header, STOP, list / map header with the 4-byte
   count patched afterwards, WriteInt's casts, WriteEmpty) incl. the requires bitmap and WriteRequireField / WriteDefaultField /
   WriteOptionalField at the end of an object.  Model only — proofs are in proofs/J2TWalkProofs.v ([j2t_walk_refines_spec]).

   Representation:
   * the cursor (s, ret) is the SUFFIX of the text that is still unread; positions are only used by the code to slice the text
     and to build error messages (never compared);
   * fuel: [walk (S f) bs] is used with length bs <= f; every nesting level and every loop iteration consumes at least one byte,
     so the loops and the recursion below run on f (W_FUEL is never reached from [j2t_walk]);
   * p.Buf is represented by the bytes a call APPENDS (the loops collect the chunks of their iterations, newest first): unwinding (`p.Buf = p.Buf[:ks]` after a null value) is dropping the bytes
     appended since ks, ModifyI32(back, size) is filling the count of the header this call wrote;
   * error class as the harness observes it (meta.ErrCode behaviour): 1 unknown field, 2 dismatched type, 3 missing required
     field, 4 anything else (syntax, strconv / base64 errors, unsupported key type, the escaping errNull of a top-level null).

   Peculiarities of the code that are reproduced (not judged here):
   * (fixed by /repo 11a56b9, finding 212: a JSON string for a descriptor that takes none used to fall out of the V_STRING switch and
     the surrounding loop converted the NEXT value; it is a type mismatch now);
   * skipString accepts a string literal that is cut off by the end of the text (its last byte is dropped as if it were the quote);
   * numbers: leading zeros (007), "-.5", "1." are accepted (strconv syntax); an integer literal beyond int64 is read as a float;
     a float that overflows is read as 0 (the ErrRange of ParseFloat is ignored in DecodeValue); WriteInt casts without range check;
   * unquoteBytes: \' is an escape, a lone surrogate escape and invalid UTF-8 (in a literal that contains a backslash) become U+FFFD;
     literals without a backslash are copied raw (no validation at all);
   * base64.StdEncoding ignores CR and LF and the unused low bits of the last character;
   * String2Int64: "" is 0; integers by ParseInt ("+5", "007" accepted, "1e2" not), doubles by ParseFloat;
   * no nesting limit (Go recursion), no validation of skipped unknown values beyond bracket counting.

   NOT modelled ([WUnmod]): EnableHttpMapping, EnableValueMapping on an api.js_conv field, IDL default values, SetOptionalBitmap;
   the spellings only strconv.ParseFloat knows (inf, nan, hex floats, underscores) in String2Int64 strings / double map keys. *)
From Coq Require Import ZArith List Bool.
From DG Require Import ProtoWireRef ThriftWire Json Num Base64 J2T.
Import ListNotations.
Local Open Scope Z_scope.

Record wopts := mkWopts {
  w_du : bool; w_s2i : bool; w_nob64 : bool; w_vm : bool;         (* DisallowUnknownField String2Int64 NoBase64Binary EnableValueMapping *)
  w_wreq : bool; w_wdef : bool; w_wopt : bool                      (* WriteRequireField WriteDefaultField WriteOptionalField *)
}.
Definition jopts_of (o : wopts) : jopts := mkOpts (w_du o) (w_s2i o) (w_nob64 o) (w_vm o).

Inductive wres :=
| WOk (out : list Z) (rest : list Z)      (* bytes appended, unread text *)
| WNull (rest : list Z)                   (* errNull: the value was the literal null *)
| WErr (c : Z)
| WUnmod.                                 (* outside the modelled fragment *)

Definition W_UNKNOWN := 1. Definition W_DISMATCH := 2. Definition W_MISSREQ := 3. Definition W_OTHER := 4. Definition W_FUEL := 99.

(* ---- internal/json: SkipBlank, Peek ---- *)
Definition skip_blank (bs : list Z) : option (list Z) :=          (* None = -ERR_EOF *)
  match skip_ws bs with [] => None | r => Some r end.

Inductive ptok := PObj | PArr | PComma | PColon | PEndArr | PEndObj | PNull | PString | PTrue | PFalse | PNumber.
(* the token at the first non-blank byte, and the text FROM that byte *)
Definition peek (bs : list Z) : option (ptok * list Z) :=
  match skip_blank bs with
  | None => None
  | Some [] => None
  | Some ((c :: _) as r) =>
    if c =? 123 then Some (PObj, r) else if c =? 91 then Some (PArr, r) else if c =? 44 then Some (PComma, r)
    else if c =? 58 then Some (PColon, r) else if c =? 93 then Some (PEndArr, r) else if c =? 125 then Some (PEndObj, r)
    else if c =? 110 then Some (PNull, r) else if c =? 34 then Some (PString, r) else if c =? 116 then Some (PTrue, r)
    else if c =? 102 then Some (PFalse, r)
    else if (c =? 45) || (c =? 43) || is_digit c then Some (PNumber, r) else None
  end.

(* ---- literals ---- *)
Definition decode_lit (lit bs : list Z) : option (list Z) :=     (* bs starts at the first byte of the literal; too short = ERR_EOF *)
  match_lit lit bs.

(* ---- skipString: bs starts AT the opening quote.  Result: the literal s[pos:ret] (from the quote to ret), whether a backslash
   was seen (ep >= 0), the rest.  A literal cut off by the end of the text is returned as it stands (as coded). ---- *)
Fixpoint scan_str (bs : list Z) : option (list Z * bool * list Z) :=
  match bs with
  | [] => Some ([], false, [])                               (* sp == se: not an error *)
  | c :: r =>
    if c =? 92 then
      match r with
      | [] => None                                            (* sp += 2 runs past the end: ERR_EOF *)
      | x :: r2 => match scan_str r2 with Some (l, _, t) => Some (c :: x :: l, true, t) | None => None end
      end
    else if c =? 34 then Some ([c], false, r)
    else match scan_str r with Some (l, e, t) => Some (c :: l, e, t) | None => None end
  end.
Definition skip_string (bs : list Z) : option (list Z * bool * list Z) :=
  match bs with
  | q :: ((_ :: _) as r) => match scan_str r with Some (l, e, t) => Some (q :: l, e, t) | None => None end
  | _ => None                                                  (* pos + 1 >= len(src) *)
  end.
(* s[v.Iv : ret-1] *)
Definition lit_middle (lit : list Z) : list Z := removelast (tl lit).

(* ---- encoding/json.unquoteBytes ---- *)
(* length of the well-formed UTF-8 sequence at the head of bs whose first byte c >= 0x80 (utf8.DecodeRune), 0 if none *)
Definition utf8_seq (bs : list Z) : nat :=
  match bs with
  | c :: c2 :: r =>
    if (194 <=? c) && (c <=? 223) then (if is_cont c2 then 2%nat else 0%nat) else
    match r with
    | c3 :: r3 =>
      if (224 <=? c) && (c <=? 239) then
        (if (if c =? 224 then (160 <=? c2) && (c2 <=? 191) else if c =? 237 then (128 <=? c2) && (c2 <=? 159) else is_cont c2) && is_cont c3
         then 3%nat else 0%nat)
      else
      match r3 with
      | c4 :: _ =>
        if (240 <=? c) && (c <=? 244) then
          (if (if c =? 240 then (144 <=? c2) && (c2 <=? 191) else if c =? 244 then (128 <=? c2) && (c2 <=? 143) else is_cont c2)
              && is_cont c3 && is_cont c4 then 4%nat else 0%nat)
        else 0%nat
      | [] => 0%nat
      end
    | [] => 0%nat
    end
  | _ => 0%nat
  end.

Definition rune_error : list Z := [239; 191; 189].     (* U+FFFD *)
Definition app_opt (pre : list Z) (x : option (list Z)) : option (list Z) :=
  match x with Some t => Some (pre ++ t) | None => None end.

Definition getu4 (bs : list Z) : option (Z * list Z) :=   (* bs = \uXXXX... *)
  match bs with
  | b :: u :: r => if (b =? 92) && (u =? 117) then hex4 r else None
  | _ => None
  end.

Fixpoint unq_body (fuel : nat) (s : list Z) : option (list Z) :=
  match fuel with
  | O => None
  | S f =>
    match s with
    | [] => Some []
    | c :: r =>
      if c =? 92 then
        match r with
        | [] => None
        | e :: r2 =>
          if e =? 117 then
            match getu4 s with
            | None => None
            | Some (rr, r3) =>
              if (55296 <=? rr) && (rr <=? 57343) then
                match getu4 r3 with
                | Some (rr1, r4) =>
                  if is_hi_sur rr && is_lo_sur rr1
                  then app_opt (utf8_enc (65536 + (rr - 55296) * 1024 + (rr1 - 56320))) (unq_body f r4)
                  else app_opt rune_error (unq_body f r3)
                | None => app_opt rune_error (unq_body f r3)
                end
              else app_opt (utf8_enc rr) (unq_body f r3)
            end
          else if (e =? 34) || (e =? 92) || (e =? 47) || (e =? 39) then app_opt [e] (unq_body f r2)
          else if e =? 98 then app_opt [8] (unq_body f r2) else if e =? 102 then app_opt [12] (unq_body f r2)
          else if e =? 110 then app_opt [10] (unq_body f r2) else if e =? 114 then app_opt [13] (unq_body f r2)
          else if e =? 116 then app_opt [9] (unq_body f r2)
          else None
        end
      else if (c =? 34) || (c <? 32) then None
      else if c <? 128 then app_opt [c] (unq_body f r)
      else match utf8_seq s with
           | O => app_opt rune_error (unq_body f r)
           | n => app_opt (firstn n s) (unq_body f (skipn n s))
           end
    end
  end.

(* the literal must start and end with the quote *)
Definition go_unquote (lit : list Z) : option (list Z) :=
  match lit with
  | q :: ((_ :: _) as r) =>
    if (q =? 34) && (last r 0 =? 34) then unq_body (S (length r)) (removelast r) else None
  | _ => None
  end.

(* ---- base64.StdEncoding.DecodeString: CR and LF are ignored anywhere ---- *)
Definition go_b64 (s : list Z) : option (list Z) :=
  b64_decode (filter (fun c => negb ((c =? 13) || (c =? 10))) s).

(* ---- strconv ---- *)
Definition in_i64 (z : Z) : bool := in_sb 64 z.

(* ParseInt(s, 10, 64): optional sign, one or more digits; None = syntax or range error *)
Definition go_parse_int (s : list Z) : option Z :=
  let '(neg, r0) := match s with c :: r => if c =? 45 then (true, r) else if c =? 43 then (false, r) else (false, s) | [] => (false, s) end in
  match span_digits r0 with
  | ([], _) => None
  | (ds, []) => let v := digits_val ds 0 in let z := if neg then - v else v in if in_i64 z then Some z else None
  | (_, _ :: _) => None
  end.

(* the decimal floating-point syntax of strconv.ParseFloat (readFloat, base 10, no underscores):
   [+-] digits [. digits] | [+-] . digits, then [eE [+-] digits]; the whole string.  Result: the exact decimal. *)
Definition go_float_dec (s : list Z) : option (bool * Z * Z) :=
  let '(neg, r0) := match s with c :: r => if c =? 45 then (true, r) else if c =? 43 then (false, r) else (false, s) | [] => (false, s) end in
  let '(ip, r1) := span_digits r0 in
  let '(fp, r2) := match r1 with c :: r => if c =? 46 then span_digits r else ([], r1) | [] => ([], r1) end in
  match ip ++ fp with
  | [] => None
  | _ =>
    match r2 with
    | [] => Some (neg, digits_val (ip ++ fp) 0, - Z.of_nat (length fp))
    | c :: r3 =>
      if is_e c then
        let '(eneg, r4) := match r3 with c2 :: r => if c2 =? 45 then (true, r) else if c2 =? 43 then (false, r) else (false, r3) | [] => (false, r3) end in
        match span_digits r4 with
        | ([], _) => None
        | (es, []) => let ev := digits_val es 0 in Some (neg, digits_val (ip ++ fp) 0, (if eneg then - ev else ev) - Z.of_nat (length fp))
        | (_, _ :: _) => None
        end
      else None
    end
  end.

Inductive pfres := PFOk (bits : Z) | PFRange | PFSyntax | PFUnmod.
Definition is_dec_float_char (c : Z) : bool := is_digit c || (c =? 43) || (c =? 45) || (c =? 46) || is_e c.
Definition is_alnum_ (c : Z) : bool :=
  is_digit c || ((65 <=? c) && (c <=? 90)) || ((97 <=? c) && (c <=? 122)) || (c =? 95) || (c =? 43) || (c =? 45) || (c =? 46).
Definition go_parse_float (s : list Z) : pfres :=
  if forallb is_dec_float_char s then
    match go_float_dec s with
    | None => PFSyntax
    | Some d => let b := dec2f64 d in if f64_is_finite b then PFOk b else PFRange
    end
  else if forallb is_alnum_ s && nonempty s then PFUnmod          (* inf, nan, hex floats, underscores: left to strconv *)
  else PFSyntax.

(* float64(int64): round to nearest even *)
Definition i64_to_f64 (z : Z) : Z := if z =? 0 then 0 else dec2f64 (z <? 0, Z.abs z, 0).

(* ---- decodeInt64 / decodeFloat64 / DecodeValue ---- *)
Inductive tok := TkNull | TkTrue | TkFalse | TkInt (iv : Z) | TkDbl (bits : Z) | TkStr (lit : list Z) (esc : bool) | TkObj | TkArr.

Fixpoint span_numchars (bs : list Z) : list Z * list Z :=
  match bs with
  | c :: r => if is_dec_float_char c then let (l, t) := span_numchars r in (c :: l, t) else ([], bs)
  | [] => ([], [])
  end.

(* bs starts at the first byte of the number ('-', '+' or a digit) *)
(* decodeFloat64: p = text after the optional '-' (sgn) *)
Definition decode_float (sgn p : list Z) : option (tok * list Z) :=
  let '(l, t) := span_numchars p in
  match go_float_dec (sgn ++ l) with
  | None => None
  | Some d => let b := dec2f64 d in Some (TkDbl (if f64_is_finite b then b else 0), t)      (* ErrRange: v = 0 is used *)
  end.

(* bs starts at the first byte of the number ('-', '+' or a digit) *)
Definition decode_number (bs : list Z) : option (tok * list Z) :=
  let '(sgn, p) := match bs with c :: r => if c =? 45 then ([c], r) else ([], bs) | [] => ([], bs) end in
  match p with
  | [] => None                                                   (* "-" at the end: ERR_EOF *)
  | _ =>
    let '(ds, r) := span_digits p in
    if (match r with c :: _ => (c =? 46) || is_e c | [] => false end) then decode_float sgn p else
    match ds with
    | [] => None                                                 (* ParseInt("") / ParseInt("-"): ERR_INVALID_CHAR *)
    | _ => let v := digits_val ds 0 in
           let z := match sgn with [] => v | _ => - v end in
           if in_i64 z then Some (TkInt z, r) else decode_float sgn p
    end
  end.

Definition decode_value (bs : list Z) : option (tok * list Z) :=
  match skip_blank bs with
  | None => None
  | Some [] => None
  | Some ((c :: r) as p) =>
    if c =? 110 then match decode_lit lit_null p with Some t => Some (TkNull, t) | None => None end
    else if c =? 34 then match skip_string p with Some (l, e, t) => Some (TkStr l e, t) | None => None end
    else if c =? 123 then Some (TkObj, r)
    else if c =? 91 then Some (TkArr, r)
    else if c =? 116 then match decode_lit lit_true p with Some t => Some (TkTrue, t) | None => None end
    else if c =? 102 then match decode_lit lit_false p with Some t => Some (TkFalse, t) | None => None end
    else if (c =? 45) || (c =? 43) || is_digit c then decode_number p
    else None
  end.

(* ---- SkipValue ---- *)
(* skipPair: bs starts AFTER the opening bracket; nbrace >= 1 *)
Fixpoint skip_pair (l rc : Z) (nbrace : nat) (inq : bool) (bs : list Z) : option (list Z) :=
  match bs with
  | [] => None
  | c :: r =>
    if c =? 92 then match r with _ :: r2 => skip_pair l rc nbrace inq r2 | [] => None end
    else if c =? 34 then skip_pair l rc nbrace (negb inq) r
    else if (c =? l) && negb inq then skip_pair l rc (S nbrace) inq r
    else if (c =? rc) && negb inq then
      match nbrace with
      | 1%nat => Some r
      | S n => skip_pair l rc n inq r
      | O => None
      end
    else skip_pair l rc nbrace inq r
  end.

(* skipNumber: the state machine as coded; bs after the optional '-' *)
Fixpoint skip_num (first : bool) (pointer exponent lastdig needdig : bool) (prev : Z) (bs : list Z) : option (list Z) :=
  match bs with
  | [] => if needdig then None else Some []
  | c :: r =>
    if is_digit c then skip_num false pointer exponent true false c r
    else if needdig then None
    else if c =? 46 then
      if negb lastdig || pointer || first then None else skip_num false true exponent false true c r
    else if is_e c then
      if negb lastdig || exponent then None
      else match r with [] => None | _ => skip_num false pointer true false false c r end
    else if (c =? 45) || (c =? 43) then
      if is_e prev then skip_num false pointer exponent false true c r else None
    else Some bs
  end.
Definition skip_number (bs : list Z) : option (list Z) :=
  match bs with
  | [] => None
  | c :: r => if c =? 45 then skip_num true false false false true c r else skip_num true false false false true 0 bs
  end.

Definition skip_value (bs : list Z) : option (list Z) :=
  match skip_blank bs with
  | None => None
  | Some [] => None
  | Some ((c :: r) as p) =>
    if c =? 110 then decode_lit lit_null p
    else if c =? 34 then match skip_string p with Some (_, _, t) => Some t | None => None end
    else if c =? 123 then match r with [] => None | _ => skip_pair 123 125 1 false r end
    else if c =? 91 then match r with [] => None | _ => skip_pair 91 93 1 false r end
    else if c =? 116 then decode_lit lit_true p
    else if c =? 102 then decode_lit lit_false p
    else if (c =? 45) || (c =? 43) || is_digit c then skip_number p
    else None
  end.

(* ---- thrift writes ---- *)
Definition is_int_ty (t : ty) : bool := match t with TByte | TI16 | TI32 | TI64 => true | _ => false end.
Definition is_string_ty (t : ty) : bool := match t with TString | TBinary => true | _ => false end.
(* WriteInt: byte(v) / int16(v) / int32(v) / int64(v) *)
Definition write_int (t : ty) (v : Z) : list Z :=
  match int_width t with Some (n, _) => enc_int n v | None => [] end.
(* WriteEmpty *)
Definition write_empty (t : ty) : list Z :=
  match t with
  | TBool => [0] | TByte => [0] | TI16 => enc_int 2 0 | TI32 => enc_int 4 0 | TI64 | TDouble => enc_int 8 0
  | TString | TBinary => enc_int 4 0
  | TList e | TSet e => tcode e :: enc_int 4 0
  | TMap k v => tcode k :: tcode v :: enc_int 4 0
  | TStruct _ => [0]
  end.
Definition field_header (f : fld) : list Z := tcode (f_ty f) :: enc_int 2 (f_id f).

(* requires bitmap: the ids whose bit is set, ascending (default and required fields; optional ones are not in it) *)
Fixpoint ins_sorted (x : Z) (l : list Z) : list Z :=
  match l with [] => [x] | y :: t => if x <? y then x :: l else if x =? y then l else y :: ins_sorted x t end.
Definition bm_init (sd : sdef) : list Z :=
  fold_right (fun f acc => if f_req f =? 2 then acc else ins_sorted (f_id f) acc) [] sd.
Definition bm_clear (id : Z) (bm : list Z) : list Z := filter (fun i => negb (i =? id)) bm.

Section Walk.
  Variable D : defs.
  Variable o : wopts.

  (* RequiresBitmap.HandleRequires + writeStringValue with no http value *)
  Fixpoint handle_requires (sd : sdef) (bm : list Z) : wres :=
    match bm with
    | [] => WOk [] []
    | id :: bm' =>
      match find_id sd id with
      | None => WErr W_OTHER
      | Some f =>
        if (f_req f =? 1) && negb (w_wreq o) then WErr W_MISSREQ
        else if ((f_req f =? 0) && negb (w_wdef o)) || ((f_req f =? 2) && negb (w_wopt o)) then handle_requires sd bm'
        else match handle_requires sd bm' with
             | WOk t _ => WOk (field_header f ++ write_empty (f_ty f) ++ t) []
             | e => e
             end
      end
    end.

  (* the string a V_STRING token denotes *)
  Definition tok_string (lit : list Z) (esc : bool) : option (list Z) :=
    if esc then go_unquote lit else Some (lit_middle lit).

  (* map key conversion *)
  Definition walk_key (k : ty) (key : list Z) : wres :=
    if is_string_ty k then WOk (str_bytes key) []
    else if is_int_ty k then match go_parse_int key with Some i => WOk (write_int k i) [] | None => WErr W_OTHER end
    else match k with
         | TDouble => match go_parse_float key with PFOk b => WOk (enc_int 8 b) [] | PFUnmod => WUnmod | _ => WErr W_OTHER end
         | _ => WErr W_OTHER                                   (* ErrUnsupportedType *)
         end.

  Section Loops.
    Variable rec : ty -> list Z -> wres.        (* doRecurse one level of Go recursion deeper *)

    (* for nt == Comma { elem; Peek } of the V_ARRAY case; bs = text at the element *)
    Fixpoint arr_loop (fuel : nat) (e : ty) (bs : list Z) (size : Z) (acc : list (list Z)) : wres :=
      match fuel with
      | O => WErr W_FUEL
      | S f =>
        let after (size' : Z) (acc' : list (list Z)) (r : list Z) : wres :=
          match peek r with
          | Some (PComma, _ :: r') => arr_loop f e r' size' acc'
          | Some (PEndArr, _ :: r') => WOk (tcode e :: enc_int 4 size' ++ concat (rev acc')) r'
          | _ => WErr W_OTHER
          end in
        match rec e bs with
        | WErr c => WErr c
        | WUnmod => WUnmod
        | WNull r => after size acc r
        | WOk d r => after (size + 1) (d :: acc) r
        end
      end.

    (* the MAP loop; bs = text at the key *)
    Fixpoint map_loop (fuel : nat) (k v : ty) (bs : list Z) (size : Z) (acc : list (list Z)) : wres :=
      match fuel with
      | O => WErr W_FUEL
      | S f =>
        match decode_value bs with
        | Some (TkStr lit esc, r) =>
          match tok_string lit esc with
          | None => WErr W_OTHER
          | Some key =>
            match walk_key k key with
            | WOk kb _ =>
              match peek r with
              | Some (PColon, _ :: r1) =>
                let after (size' : Z) (acc' : list (list Z)) (r2 : list Z) : wres :=
                  match peek r2 with
                  | Some (PComma, _ :: r') => map_loop f k v r' size' acc'
                  | Some (PEndObj, _ :: r') => WOk (tcode k :: tcode v :: enc_int 4 size' ++ concat (rev acc')) r'
                  | _ => WErr W_OTHER
                  end in
                match rec v r1 with
                | WErr c => WErr c
                | WUnmod => WUnmod
                | WNull r2 => after size acc r2                         (* unwind written key *)
                | WOk d r2 => after (size + 1) ((kb ++ d) :: acc) r2
                end
              | _ => WErr W_OTHER
              end
            | e => e
            end
          end
        | _ => WErr W_OTHER
        end
      end.

    (* the STRUCT loop; bs = text at the key; bm = requires bitmap *)
    Fixpoint struct_loop (fuel : nat) (sd : sdef) (bs : list Z) (bm : list Z) (acc : list (list Z)) : wres :=
      match fuel with
      | O => WErr W_FUEL
      | S f =>
        match decode_value bs with
        | Some (TkStr lit esc, r) =>
          match tok_string lit esc with
          | None => WErr W_OTHER
          | Some key =>
            match peek r with
            | Some (PColon, _ :: r1) =>
              let next (bm' : list Z) (acc' : list (list Z)) (r2 : list Z) : wres :=
                match peek r2 with
                | Some (PComma, _ :: r') => struct_loop f sd r' bm' acc'
                | Some (PEndObj, _ :: r') =>
                  match handle_requires sd bm' with
                  | WOk t _ => WOk (concat (rev acc') ++ t ++ [0]) r'
                  | e => e
                  end
                | _ => WErr W_OTHER
                end in
              match find_field sd key with
              | None =>
                if w_du o then WErr W_UNKNOWN
                else match skip_value r1 with Some r2 => next bm acc r2 | None => WErr W_OTHER end
              | Some ft =>
                if w_vm o && f_vm ft then WUnmod
                else
                  match rec (f_ty ft) r1 with
                  | WErr c => WErr c
                  | WUnmod => WUnmod
                  | WNull r2 => next (if f_req ft =? 2 then bm_clear (f_id ft) bm else bm) acc r2      (* unwind written field tag *)
                  | WOk d r2 => next (bm_clear (f_id ft) bm) ((field_header ft ++ d) :: acc) r2
                  end
              end
            | _ => WErr W_OTHER
            end
          end
        | _ => WErr W_OTHER
        end
      end.
  End Loops.

  (* doRecurse; fuel bounds the Go recursion depth and the `for ret < n` loop together *)
  Fixpoint walk (fuel : nat) (t : ty) (bs : list Z) {struct fuel} : wres :=
    match fuel with
    | O => WErr W_FUEL
    | S f =>
      match bs with
      | [] => WOk [] []                                   (* ret < n fails: return ret, nil *)
      | _ =>
        match decode_value bs with
        | None => WErr W_OTHER
        | Some (tk, r) =>
          match tk with
          | TkNull => WNull r
          | TkTrue => match t with TBool => WOk [1] r | _ => WErr W_DISMATCH end
          | TkFalse => match t with TBool => WOk [0] r | _ => WErr W_DISMATCH end
          | TkInt iv =>
            if is_int_ty t then WOk (write_int t iv) r
            else match t with TDouble => WOk (enc_int 8 (i64_to_f64 iv)) r | _ => WErr W_DISMATCH end
          | TkDbl b =>
            if is_int_ty t then WOk (write_int t (cvtt 64 b)) r
            else match t with TDouble => WOk (enc_int 8 b) r | _ => WErr W_DISMATCH end
          | TkStr lit esc =>
            match tok_string lit esc with
            | None => WErr W_OTHER
            | Some str =>
              if (match t with TBinary => true | _ => false end) && negb (w_nob64 o) then
                match go_b64 str with Some b => WOk (str_bytes b) r | None => WErr W_OTHER end
              else if is_string_ty t then WOk (str_bytes str) r
              else if w_s2i o && is_int_ty t then
                match go_parse_int (match str with [] => [48] | _ => str end) with
                | Some iv => WOk (write_int t iv) r
                | None => WErr W_OTHER
                end
              else if w_s2i o && (match t with TDouble => true | _ => false end) then
                match go_parse_float (match str with [] => [48] | _ => str end) with
                | PFOk b => WOk (enc_int 8 b) r
                | PFUnmod => WUnmod
                | _ => WErr W_OTHER
                end
              else WErr W_DISMATCH                          (* since /repo 11a56b9: no branch matched = type mismatch (before: fell out of the switch) *)
            end
          | TkArr =>
            match t with
            | TList e | TSet e =>
              match peek r with
              | Some (PEndArr, _ :: r') => WOk (tcode e :: enc_int 4 0) r'
              | _ => arr_loop (walk f) f e r 0 []
              end
            | _ => WErr W_DISMATCH
            end
          | TkObj =>
            match t with
            | TMap k v =>
              match peek r with
              | Some (PEndObj, _ :: r') => WOk (tcode k :: tcode v :: enc_int 4 0) r'
              | _ => map_loop (walk f) f k v r 0 []
              end
            | TStruct i =>
              match nth_error D i with
              | None => WErr W_OTHER
              | Some sd =>
                match peek r with
                | Some (PEndObj, _ :: r') =>
                  match handle_requires sd (bm_init sd) with
                  | WOk t' _ => WOk (t' ++ [0]) r'
                  | e => e
                  end
                | _ => struct_loop (walk f) f sd r (bm_init sd) []
                end
              end
            | _ => WErr W_DISMATCH
            end
          end
        end
      end
    end.
End Walk.

(* BinaryConv.do + doGo of the portable build: empty body, the unquoted-string special case, then doRecurse from position 0;
   an escaping errNull (top-level null) is an error like any other.  Result: Ok bytes | Err class | unmodelled. *)
Inductive wtop := TOk (out : list Z) | TErr (c : Z) | TUnmod.

(* json.EncodeString (quote) of a raw text: what the special case hands to the converter *)
Definition j2t_walk (D : defs) (o : wopts) (t : ty) (text : list Z) : wtop :=
  match text with
  | [] => match t with TStruct _ => TOk [0] | _ => TErr W_OTHER end
  | c :: _ =>
    let src := if is_string_ty t && negb (c =? 34) then quote_ref text else text in
    match walk D o (S (length src)) t src with
    | WOk b _ => TOk b
    | WNull _ => TErr W_OTHER
    | WErr e => TErr e
    | WUnmod => TUnmod
    end
  end.
