(* Generic Go values of thrift.BinaryProtocol.ReadAnyWithDesc / WriteAnyWithDesc (model, no proofs).
   A gval is the Go value with the type tags the descriptor supplies recorded in it (element / key types of
   containers, the Go integer type of a scalar); Go maps are association lists in wire order (the comparison
   with the implementation is modulo map order, see Check19c). *)
From Coq Require Import ZArith List Bool.
From DG Require Import ProtoWireRef ThriftWire ThriftGeneric.
Import ListNotations.
Local Open Scope Z_scope.

Inductive gval :=
| GBool (raw : Z)                      (* Go bool, kept as the byte read: 0 = false *)
| GInt (t : Z) (z : Z)                 (* t = T_BYTE / T_I16 / T_I32 / T_I64: int8 (or uint8), int16, int32, int64; t = 0: Go int (map key) *)
| GDouble (bits : Z)
| GStr (bin : bool) (s : list Z)       (* string, or []byte when the descriptor says binary *)
| GList (set : bool) (et : Z) (l : list gval)
| GMap (kt vt : Z) (es : list (gval * gval))
| GStruct (fs : list (Z * gval)).

(* ReadAnyWithDesc: u8 = byteAsUint8, bin = the STRING types are declared binary *)
Fixpoint read_any (u8 bin : bool) (v : tval) : gval :=
  match v with
  | VBool raw => GBool raw
  | VByte z => GInt T_BYTE (if u8 then z mod 256 else z)
  | VI16 z => GInt T_I16 z | VI32 z => GInt T_I32 z | VI64 z => GInt T_I64 z
  | VDouble b => GDouble b
  | VString s => GStr bin s
  | VList et es => GList false et (map (read_any u8 bin) es)
  | VSet et es => GList true et (map (read_any u8 bin) es)
  | VStruct fs => GStruct (map (fun f => (fst f, read_any u8 bin (snd f))) fs)
  | VMap kt vt es =>
      GMap kt vt (map (fun e => ((if kt =? T_STRING then match fst e with VString s => GStr false s | _ => GBool 0 end
                                   else if is_int_type kt then match int_of_key (fst e) with Some z => GInt 0 z | None => GBool 0 end
                                   else read_any u8 bin (fst e)),
                                  read_any u8 bin (snd e))) es)
  end.

(* a Go int key is written with the width of the map's key type (WriteInt) *)
Definition retag (kt : Z) (k : tval) : tval :=
  match k with
  | VI64 z => if kt =? T_BYTE then VByte (to_s 8 z) else if kt =? T_I16 then VI16 z else if kt =? T_I32 then VI32 z else k
  | _ => k
  end.

(* WriteAnyWithDesc (as the property demands it: every map gets its header, a cast string keeps its text) *)
Fixpoint write_any (g : gval) : tval :=
  match g with
  | GBool raw => VBool raw
  | GInt t z => if t =? T_BYTE then VByte (to_s 8 z) else if t =? T_I16 then VI16 z else if t =? T_I32 then VI32 z else VI64 z
  | GDouble b => VDouble b
  | GStr _ s => VString s
  | GList set et l => if set then VSet et (map write_any l) else VList et (map write_any l)
  | GStruct fs => VStruct (map (fun f => (fst f, write_any (snd f))) fs)
  | GMap kt vt es => VMap kt vt (map (fun e => (retag kt (write_any (fst e)), write_any (snd e))) es)
  end.

(* keys of int-keyed maps must be of an int type, keys of string-keyed maps strings (what wf + the key type give) *)
Fixpoint keys_ok (v : tval) : bool :=
  match v with
  | VStruct fs => forallb (fun f => keys_ok (snd f)) fs
  | VList _ es => forallb keys_ok es
  | VSet _ es => forallb keys_ok es
  | VMap kt _ es => forallb (fun e => (type_of (fst e) =? kt) && keys_ok (fst e) && keys_ok (snd e)) es
  | _ => true
  end.
