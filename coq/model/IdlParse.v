(* C14 — transcription of the descriptor-building traversal of thrift/idl.go AS CODED (parse -> getAllFuncs -> addFunction ->
   parseRequest / parseResponse -> parseType with its compiling cache), over the abstract AST of Idl.v (what thriftgo's parser
   hands to dynamicgo; the parser itself stays outside).
     * descriptors live in an explicit heap: a struct descriptor is a node, a TypeDescriptor of a struct is a reference to it,
       so recursive and mutually recursive structs are cyclic graphs exactly as in the Go code;
     * the compiling caches (map[string]*compilingInstance) are explicit state: one per IDL file at function level (parse),
       a fresh one whenever parseType follows an include-qualified name; an entry is registered BEFORE the fields of the struct
       are compiled (that is what closes recursion) and holds one parse target;
     * recursion is on fuel.
   [unroll] reads the graph back as the tree that Idl.elab produces; coq/proofs/IdlParseProofs.v proves the two equal.
   No proofs here. *)
From Coq Require Import ZArith List Bool.
From DG Require Import CaseFormat GoSem Lookup Idl.
Import ListNotations.
Local Open Scope Z_scope.

(* ------------------------------------------------------------------ descriptor graph *)

Inductive pref :=
| PBase (code : Z) (binary : bool)
| PList (e : pref)
| PSet (e : pref)
| PMap (k v : pref)
| PStruct (a : nat).                 (* pointer to a StructDescriptor *)

(* pn_file / pn_target are ghost fields (the file that declares the struct-like, the parse target it was compiled for):
   the Go descriptor does not store them, the proofs label the graph with them *)
Record pnode := PNode { pn_file : Z; pn_target : Z; pn_tname : name; pn_sname : name;
                        pn_fields : list (fmeta * pref); pn_keys : list (name * Z); pn_annos : list anno; pn_done : bool }.

Record centry := CEntry { ce_key : name; ce_target : Z; ce_addr : nat }.
Definition cache := list centry.

(* every cache is tagged (ghost) with the index of the tree it is used with *)
Record pstate := PState { ps_heap : list pnode; ps_caches : list (Z * cache) }.

Definition pref_code (r : pref) : Z :=
  match r with PBase c _ => c | PList _ => 15 | PSet _ => 14 | PMap _ _ => 13 | PStruct _ => 12 end.

(* ------------------------------------------------------------------ caches *)

Fixpoint cache_find (c : cache) (k : name) : option centry :=
  match c with [] => None | e :: r => if name_eqb k (ce_key e) then Some e else cache_find r k end.
Definition cache_del (c : cache) (k : name) : cache := filter (fun e => negb (name_eqb k (ce_key e))) c.
Definition cache_put (c : cache) (k : name) (target : Z) (a : nat) : cache := CEntry k target a :: cache_del c k.

Fixpoint upd_list {A} (n : nat) (f : A -> A) (l : list A) : list A :=
  match l, n with
  | [], _ => []
  | x :: r, O => f x :: r
  | x :: r, S n' => x :: upd_list n' f r
  end.

Definition get_cache (st : pstate) (cid : nat) : cache := snd (nth cid (ps_caches st) (0, [])).
Definition set_cache (st : pstate) (cid : nat) (f : cache -> cache) : pstate :=
  PState (ps_heap st) (upd_list cid (fun tc => (fst tc, f (snd tc))) (ps_caches st)).
(* `cache = compilingCache{}` (for tree ti) *)
Definition new_cache (st : pstate) (ti : Z) : pstate * nat := (PState (ps_heap st) (ps_caches st ++ [(ti, [])]), length (ps_caches st)).
Definition alloc_node (st : pstate) (n : pnode) : pstate * nat := (PState (ps_heap st ++ [n]) (ps_caches st), length (ps_heap st)).
Definition set_node (st : pstate) (a : nat) (f : pnode -> pnode) : pstate := PState (upd_list a f (ps_heap st)) (ps_caches st).

(* ------------------------------------------------------------------ the field loop of parseType *)

(* [rec]: parseType on the field's type (same tree, same cache, recursionDepth + 1, options of the struct, no inherited
   annotations).  [cid] / [key]: the cache and the key under which the struct being compiled was registered. *)
Fixpoint pfields (rec : pstate -> texpr -> option (pstate * pref)) (p : program) (o : popts) (tf : ifile) (kind : Z) (root : bool)
                 (target : Z) (cid : nat) (key : name) (st : pstate) (fs : list ifield)
  : option (pstate * list (fmeta * pref) * list (name * Z)) :=
  match fs with
  | [] => Some (st, [], [])
  | fd :: r =>
    if f_id fd <? 0 then None else                                   (* negative field id: parse error *)
    (* `if isRequestBase { delete(cache, t.Name) }`: cannot cache the request base *)
    let st := if o_base o && root && is_named (f_type fd) n_base_Base then set_cache st cid (fun c => cache_del c key) else st in
    if field_kept target fd then
      match rec st (f_type fd) with
      | None => None
      | Some (st1, d) =>
        let m := elab_meta_code true p o tf kind root fd (pref_code d) in
        match pfields rec p o tf kind root target cid key st1 r with
        | None => None
        | Some (st2, ms, ks) => Some (st2, (m, d) :: ms, reg_keys (o_mapway o) (m_id m) (m_name m) (m_alias m) ++ ks)
        end
      end
    else pfields rec p o tf kind root target cid key st r
  end.

(* ------------------------------------------------------------------ parseType *)

(* fi / f: the tree; cid: the cache; rdepth: recursionDepth; target: 0 request, 1 response, 2 exception *)
Fixpoint ptype (fuel : nat) (p : program) (o : popts) (st : pstate) (fi : Z) (f : ifile) (cid : nat) (rdepth target : Z) (t : texpr)
  : option (pstate * pref) :=
  match fuel with O => None | S fuel' =>
  match t with
  | TBase b => Some (st, PBase (base_code b) (b =? 8))
  | TList e => match ptype fuel' p o st fi f cid (rdepth + 1) target e with Some (st1, r) => Some (st1, PList r) | None => None end
  | TSet e => match ptype fuel' p o st fi f cid (rdepth + 1) target e with Some (st1, r) => Some (st1, PSet r) | None => None end
  | TMap k v =>
    match ptype fuel' p o st fi f cid (rdepth + 1) target k with
    | None => None
    | Some (st1, rk) =>
      match ptype fuel' p o st1 fi f cid (rdepth + 1) target v with
      | None => None
      | Some (st2, rv) => Some (st2, PMap rk rv)
      end
    end
  | TNamed n =>
    (* `if ty, ok := cache[t.Name]; ok && ty.parseTarget == parseTarget { return ty.desc }` *)
    let hit := match cache_find (get_cache st cid) n with
               | Some e => if ce_target e =? target then Some (ce_addr e) else None
               | None => None
               end in
    match hit with
    | Some a => Some (st, PStruct a)
    | None =>
      let '(pkg, tn) := split_last_dot n in
      (* cross file reference: the referenced tree and an empty cache *)
      let tree := match pkg with
                  | [] => Some (st, fi, f, cid)
                  | _ => match get_ref p f pkg with
                         | Some (i, f') => let '(st', c') := new_cache st i in Some (st', i, f', c')
                         | None => None
                         end
                  end in
      match tree with
      | None => None                                                   (* miss reference *)
      | Some (st, ti, tf, tc) =>
        match lookup tn (fl_typedefs tf) with
        | Some t' => ptype fuel' p o st ti tf tc (rdepth + 1) target t'
        | None =>
          match lookup tn (fl_enums tf) with
          | Some _ => Some (st, PBase (if o_enum64 o then 10 else 8) false)
          | None =>
            match get_slike tf tn with
            | None => None                                             (* missing type *)
            | Some s =>
              (* the descriptor is allocated and registered in the cache before its fields are compiled *)
              let '(st, a) := alloc_node st (PNode ti target n tn [] [] (struct_annos o tf s) false) in
              let st := set_cache st tc (fun c => cache_put c n target a) in
              match pfields (fun st' t' => ptype fuel' p o st' ti tf tc (rdepth + 1) target t') p o tf (s_kind s) (rdepth =? 0)
                            target tc n st (s_fields s) with
              | None => None
              | Some (st, ms, ks) =>
                Some (set_node st a (fun nd => PNode (pn_file nd) (pn_target nd) (pn_tname nd) (pn_sname nd) ms ks (pn_annos nd) true), PStruct a)
              end
            end
          end
        end
      end
    end
  end end.

(* ------------------------------------------------------------------ functions *)

(* a wrapper StructDescriptor (request / response of a function): never cached, kept inside the function descriptor *)
Record pwrap := PWrap { pw_fields : list (fmeta * pref); pw_keys : list (name * Z) }.

Record pfunc := PFunc { pf_name : name; pf_oneway : bool; pf_hasbase : bool; pf_req : option pwrap; pf_resp : option pwrap }.

Definition node_has_request_base (st : pstate) (r : pref) : bool :=
  match r with
  | PStruct a => match nth_error (ps_heap st) a with Some n => existsb (fun x => m_reqbase (fst x)) (pn_fields n) | None => false end
  | _ => false
  end.

Definition parse_fuel : nat := 64.

Definition prequest (p : program) (o : popts) (st : pstate) (fi : Z) (f : ifile) (cid : nat) (fn : ifunc) : option (pstate * pwrap * bool) :=
  match fn_args fn with
  | [] => None
  | a :: _ =>
    match ptype parse_fuel p o st fi f cid 0 0 (f_type a) with
    | None => None
    | Some (st1, r) => Some (st1, PWrap [(empty_meta (f_id a) (f_name a) [], r)] [(f_name a, f_id a)], node_has_request_base st1 r)
    end
  end.

Definition presponse (p : program) (o : popts) (st : pstate) (fi : Z) (f : ifile) (cid : nat) (fn : ifunc) : option (pstate * pwrap) :=
  match ptype parse_fuel p o st fi f cid 0 1 (fn_ret fn) with
  | None => None
  | Some (st1, r) =>
    match fn_throws fn with
    | [] => Some (st1, PWrap [(empty_meta 0 [] [], r)] [([], 0)])
    | e :: _ =>
      match ptype parse_fuel p o st1 fi f cid 0 2 (f_type e) with
      | None => None
      | Some (st2, re) => Some (st2, PWrap [(empty_meta 0 [] [], r); (empty_meta (f_id e) (f_name e) (f_name e), re)] [([], 0); (f_name e, f_id e)])
      end
    end
  end.

(* addFunction; [names]: the functions already in the service descriptor *)
Definition pfunction (p : program) (o : popts) (st : pstate) (fi : Z) (f : ifile) (cid : nat) (names : list name) (fn : ifunc)
  : option (pstate * pfunc) :=
  if existsb (name_eqb (fn_name fn)) names then None else            (* duplicate method name *)
  match fn_args fn with
  | [] => None                                                       (* empty arguments *)
  | _ =>
    let rq := if o_fnmode o =? 2 then Some (st, None, false)
              else match prequest p o st fi f cid fn with Some (st1, w, b) => Some (st1, Some w, b) | None => None end in
    match rq with
    | None => None
    | Some (st1, q, hb) =>
      let rs := if o_fnmode o =? 1 then Some (st1, None)
                else match presponse p o st1 fi f cid fn with Some (st2, w) => Some (st2, Some w) | None => None end in
      match rs with
      | None => None
      | Some (st2, s) => Some (st2, PFunc (fn_name fn) (fn_oneway fn) hb q s)
      end
    end
  end.

(* ------------------------------------------------------------------ parse *)

(* getAllFuncs: the functions of a service followed by the inherited ones, each paired with the tree (index and file) that
   declares it; same-file bases are followed too (fix 86994e0) *)
Fixpoint all_funcs_ix (fuel : nat) (p : program) (fi : Z) (f : ifile) (s : isvc) : list (Z * ifile * ifunc) :=
  match fuel with O => [] | S fuel' =>
  map (fun fn => (fi, f, fn)) (sv_funcs s) ++
  match sv_extends s with
  | [] => []
  | ext =>
    let '(pkg, sn) := split_last_dot ext in
    match pkg with
    | [] => match find_svc sn (fl_svcs f) with Some s' => all_funcs_ix fuel' p fi f s' | None => [] end
    | _ => match get_ref p f pkg with
           | Some (i, f') => match find_svc sn (fl_svcs f') with Some s' => all_funcs_ix fuel' p i f' s' | None => [] end
           | None => []
           end
    end
  end end.

(* `structsCaches[p.tree]`: one cache per tree, created on first use *)
Definition tree_cache (st : pstate) (tc : list (Z * nat)) (fi : Z) : pstate * list (Z * nat) * nat :=
  match assocZ fi tc with
  | Some c => (st, tc, c)
  | None => let '(st', c) := new_cache st fi in (st', (fi, c) :: tc, c)
  end.

Fixpoint pfunctions (p : program) (o : popts) (st : pstate) (tc : list (Z * nat)) (names : list name) (l : list (Z * ifile * ifunc))
  : option (pstate * list pfunc) :=
  match l with
  | [] => Some (st, [])
  | (fi, f, fn) :: r =>
    let '(st1, tc1, cid) := tree_cache st tc fi in
    match pfunction p o st1 fi f cid names fn with
    | None => None
    | Some (st2, pf) =>
      match pfunctions p o st2 tc1 (fn_name fn :: names) r with
      | None => None
      | Some (st3, pfs) => Some (st3, pf :: pfs)
      end
    end
  end.

Definition parse (p : program) (o : popts) : option (pstate * name * list pfunc) :=
  match p with
  | [] => None
  | main :: _ =>
    match selected_services o main with
    | None => None
    | Some (sn, svcs) =>
      match pfunctions p o (PState [] []) [] [] (flat_map (all_funcs_ix 16 p 0 main) svcs) with
      | Some (st, pfs) => Some (st, sn, pfs)
      | None => None
      end
    end
  end.

(* ------------------------------------------------------------------ reading the graph back as a tree *)

Fixpoint unroll (heap : list pnode) (sd : nat) (r : pref) {struct sd} : tdesc :=
  (fix go (r : pref) : tdesc :=
     match r with
     | PBase c b => DBase c b
     | PList e => DList (go e)
     | PSet e => DSet (go e)
     | PMap k v => DMap (go k) (go v)
     | PStruct a =>
       match sd with
       | O => DCut
       | S sd' =>
         match nth_error heap a with
         | None => DCut
         | Some n => DStruct (pn_tname n) (pn_sname n) (map (fun mf => (fst mf, unroll heap sd' (snd mf))) (pn_fields n)) (pn_keys n) (pn_annos n)
         end
       end
     end) r.

Definition unroll_wrap (heap : list pnode) (sd : nat) (w : pwrap) : tdesc :=
  DStruct [] [] (map (fun mf => (fst mf, unroll heap sd (snd mf))) (pw_fields w)) (pw_keys w) [].

Definition unroll_func (heap : list pnode) (sd : nat) (pf : pfunc) : dfunc :=
  DFunc (pf_name pf) (pf_oneway pf) (pf_hasbase pf) (option_map (unroll_wrap heap sd) (pf_req pf)) (option_map (unroll_wrap heap sd) (pf_resp pf)).

Definition unroll_service (sd : nat) (r : option (pstate * name * list pfunc)) : option (name * list dfunc) :=
  match r with
  | Some (st, sn, pfs) => Some (sn, map (unroll_func (ps_heap st) sd) pfs)
  | None => None
  end.
