(* Correspondence checks for C17 (HTTP mapping): 1701 request side (j2t native / portable), 1702 response side (t2j).
   The value converters of HttpMap.v are instantiated here with definitions for the generated subset (scalars, lists,
   sets, maps with string / integer keys, structs): text per thrift.DecodeText, JSON per Json.v / Num.v / Base64.v. *)
From Coq Require Import ZArith List Bool.
From DG Require Import CaseFormat ProtoWireRef ThriftWire ThriftEdit ThriftEnvelope Json Num Base64 HttpMap.
Import ListNotations.
Local Open Scope Z_scope.

(* ---- case parsing ---- *)
Fixpoint parse_anns (n : nat) (fs : list field) : option (list ann * list field) :=
  match n with
  | O => Some ([], fs)
  | S n' => match fs with
            | FZ k :: FB key :: r => match parse_anns n' r with Some (l, r') => Some (Ann k key :: l, r') | None => None end
            | _ => None
            end
  end.

Fixpoint parse_tdesc (fuel : nat) (fs : list field) : option (tdesc * list field) :=
  match fuel with
  | O => None
  | S fu =>
    match fs with
    | FZ 0 :: FZ c :: FZ b :: r => Some (TBase c (negb (b =? 0)), r)
    | FZ 1 :: r => match parse_tdesc fu r with Some (e, r') => Some (TList e, r') | None => None end
    | FZ 2 :: r => match parse_tdesc fu r with Some (e, r') => Some (TSet e, r') | None => None end
    | FZ 3 :: r => match parse_tdesc fu r with
                   | Some (k, r') => match parse_tdesc fu r' with Some (e, r'') => Some (TMap k e, r'') | None => None end
                   | None => None
                   end
    | FZ 4 :: FZ nf :: r =>
      if (nf <? 0) || (nf >? 100000) then None else
      match (fix flds (n : nat) (fs : list field) : option (list fdesc * list field) :=
         match n with
         | O => Some ([], fs)
         | S n' =>
           match fs with
           | FZ id :: FB name :: FZ req :: FZ na :: r1 =>
             if (na <? 0) || (na >? 100) then None else
             match parse_anns (Z.to_nat na) r1 with
             | Some (anns, r2) =>
               match parse_tdesc fu r2 with
               | Some (t, r3) => match flds n' r3 with Some (l, r4) => Some (FD id name req anns t :: l, r4) | None => None end
               | None => None
               end
             | None => None
             end
           | _ => None
           end
         end) (Z.to_nat nf) r with
      | Some (l, r') => Some (TStruct l, r')
      | None => None
      end
    | _ => None
    end
  end.

Fixpoint parse_view (n : nat) (fs : list field) (rq : request) : option (request * list field) :=
  match n with
  | O => Some (rq, fs)
  | S n' =>
    match fs with
    | FZ k :: FB key :: FB v :: r =>
      let add l := l ++ [(key, v)] in
      let rq' :=
        if k =? K_QUERY then mkReq (add (rq_query rq)) (rq_path rq) (rq_header rq) (rq_cookie rq) (rq_form rq) (rq_bodymap rq) (rq_raw rq) (rq_uri rq)
        else if k =? K_PATH then mkReq (rq_query rq) (add (rq_path rq)) (rq_header rq) (rq_cookie rq) (rq_form rq) (rq_bodymap rq) (rq_raw rq) (rq_uri rq)
        else if k =? K_HEADER then mkReq (rq_query rq) (rq_path rq) (add (rq_header rq)) (rq_cookie rq) (rq_form rq) (rq_bodymap rq) (rq_raw rq) (rq_uri rq)
        else if k =? K_COOKIE then mkReq (rq_query rq) (rq_path rq) (rq_header rq) (add (rq_cookie rq)) (rq_form rq) (rq_bodymap rq) (rq_raw rq) (rq_uri rq)
        else if k =? K_FORM then mkReq (rq_query rq) (rq_path rq) (rq_header rq) (rq_cookie rq) (add (rq_form rq)) (rq_bodymap rq) (rq_raw rq) (rq_uri rq)
        else mkReq (rq_query rq) (rq_path rq) (rq_header rq) (rq_cookie rq) (rq_form rq) (add (rq_bodymap rq)) (rq_raw rq) (rq_uri rq) in
      parse_view n' r rq'
    | _ => None
    end
  end.

Definition bit (bits : Z) (i : Z) : bool := Z.testbit bits i.
Definition opts_of (bits : Z) : hopts :=
  mkOpts (bit bits 0) (bit bits 1) (bit bits 2) (bit bits 3) (bit bits 4) (bit bits 5) (bit bits 6) (bit bits 7) (bit bits 8).

(* ---- converters ---- *)
Definition wrap_s (k : Z) (z : Z) : Z := to_s k (z mod 2 ^ k).

(* strconv.ParseInt(s, 10, 64): optional sign, digits, in the int64 range *)
Definition go_parse_int64 (s : list Z) : option Z :=
  let body := match s with c :: r => if c =? 43 then r else s | [] => s end in
  match s with
  | c :: d :: _ => if (c =? 43) && (d =? 45) then None else
                   match parse_int body with Some z => if in_sb 64 z then Some z else None | None => None end
  | _ => match parse_int body with Some z => if in_sb 64 z then Some z else None | None => None end
  end.

Definition int_val (c : Z) (z : Z) : tval :=
  if c =? T_BYTE then VByte (wrap_s 8 z) else if c =? T_I16 then VI16 (wrap_s 16 z) else if c =? T_I32 then VI32 (wrap_s 32 z) else VI64 z.
Definition is_int_code (c : Z) : bool := (c =? T_BYTE) || (c =? T_I16) || (c =? T_I32) || (c =? T_I64).

Definition s_true : list (list Z) := [[49]; [116]; [84]; [84;82;85;69]; [116;114;117;101]; [84;114;117;101]].
Definition s_false : list (list Z) := [[48]; [102]; [70]; [70;65;76;83;69]; [102;97;108;115;101]; [70;97;108;115;101]].
Definition mem_s (s : list Z) (l : list (list Z)) : bool := existsb (zlist_eqb s) l.

Fixpoint split_comma (s : list Z) : list (list Z) :=
  match s with
  | [] => [[]]
  | c :: r => match split_comma r with
              | h :: t => if c =? 44 then [] :: h :: t else (c :: h) :: t
              | [] => [[c]]
              end
  end.

Fixpoint all_some {A} (l : list (option A)) : option (list A) :=
  match l with
  | [] => Some []
  | Some x :: r => match all_some r with Some xs => Some (x :: xs) | None => None end
  | None :: _ => None
  end.

Section Converters.
  Variable o : hopts.

  Definition str_val (bin : bool) (s : list Z) : option tval :=
    if bin && negb (o_nob64 o) then option_map VString (b64_decode s) else Some (VString s).

  (* thrift.DecodeText(val, desc, ..., asJson = false) *)
  Fixpoint text_conv (t : tdesc) (s : list Z) : option tval :=
    match t with
    | TBase c bin =>
      if c =? T_BOOL then (if mem_s s s_true then Some (VBool 1) else if mem_s s s_false then Some (VBool 0) else None)
      else if is_int_code c then option_map (int_val c) (go_parse_int64 s)
      else if c =? T_DOUBLE then option_map VDouble (lex2f64 s)
      else if c =? T_STRING then str_val bin s
      else None
    | TList e => option_map (VList (type_code e)) (all_some (map (text_conv e) (split_comma s)))
    | TSet e => option_map (VSet (type_code e)) (all_some (map (text_conv e) (split_comma s)))
    | _ => None
    end.

  Definition req_zero (f : fdesc) : option (option (Z * tval)) :=
    if f_req f =? R_REQUIRED then (if o_wr o then Some (Some (f_id f, zero_of (f_ty f))) else None)
    else if f_req f =? R_DEFAULT then Some (if o_wd o then Some (f_id f, zero_of (f_ty f)) else None)
    else Some None.    (* optional fields are not owed (no SetOptionalBitmap) *)

  (* the plain JSON -> Thrift conversion (in-range integer lexemes, no nulls) *)
  Fixpoint json_conv (t : tdesc) (j : json) {struct t} : option tval :=
    match t with
    | TBase c bin =>
      match j with
      | JBool b => if c =? T_BOOL then Some (VBool (if b then 1 else 0)) else None
      | JNum l =>
        if is_int_code c then
          (if lex_is_plain_int l then
             match parse_int l with
             | Some z => if in_sb (if c =? T_BYTE then 8 else if c =? T_I16 then 16 else if c =? T_I32 then 32 else 64) z then Some (int_val c z) else None
             | None => None
             end
           else None)
        else if c =? T_DOUBLE then option_map VDouble (lex2f64 l)
        else None
      | JStr s => if c =? T_STRING then str_val bin s else None
      | _ => None
      end
    | TList e => match j with JArr xs => option_map (VList (type_code e)) (all_some (map (json_conv e) xs)) | _ => None end
    | TSet e => match j with JArr xs => option_map (VSet (type_code e)) (all_some (map (json_conv e) xs)) | _ => None end
    | TMap k v =>
      match j with
      | JObj ms =>
        option_map (VMap (type_code k) (type_code v))
          (all_some (map (fun m =>
             match (match k with
                    | TBase c _ => if c =? T_STRING then Some (VString (fst m)) else if is_int_code c then option_map (int_val c) (go_parse_int64 (fst m)) else None
                    | _ => None
                    end), json_conv v (snd m) with
             | Some kk, Some vv => Some (kk, vv)
             | _, _ => None
             end) ms))
      | _ => None
      end
    | TStruct fs =>
      match j with
      | JObj ms =>
        option_map (fun l => VStruct (flat_map (fun x => match x with Some p => [p] | None => [] end) l))
          (all_some (map (fun f =>
             match f with
             | FD id name req _ ty =>
               match find_member name ms with
               | Some x => option_map (fun v => Some (id, v)) (json_conv ty x)
               | None => req_zero f
               end
             end) fs))
      | _ => None
      end
    end.
End Converters.

Definition model_j2t (o : hopts) (fl : flavour) (rq : request) (fs : list fdesc) (body : option json) : hres :=
  http_j2t o fl rq (text_conv o) (json_conv o) 8%nat fs body.

(* ---- comparison ---- *)
Definition same_struct (l : list (Z * tval)) (out : tval) : bool := tval_eqb (canon (VStruct l)) (canon out).

(* 0 agrees; 1 agrees on "error" but not on its class; 2 disagrees *)
Definition agree (h : hres) (ec : Z) (out : option tval) : Z :=
  match h with
  | HOk l => if ec =? 0 then match out with Some v => if same_struct l v then 0 else 2 | None => 2 end else 2
  | HErr c => if ec =? 0 then 2 else if (c =? ec) || (c =? E_CONV) then 0 else 1
  end.

Definition hres_detail (h : hres) : list field :=
  match h with HOk l => [FZ 0; FB (encode (canon (VStruct l)))] | HErr c => [FZ c] end.

Definition FINDING_TRACEBACK_NATIVE := 1711.
Definition FINDING_TRACEBACK_PORTABLE := 1712.
Definition FINDING_NBS_IGNORED_ERROR := 1713.

(* finding 1713: apiNoBodyStruct.Request ignores the error of WriteStringWithDesc: the nested field keeps its header but gets no
   value bytes, and the conversion returns this malformed Thrift with a nil error.  Quirk model = the exact bytes the code emits
   for such a struct field (header, then per mapped nested field: header ++ value or header alone, then STOP). *)
Definition fhdr (t : tdesc) (id : Z) : list Z := type_code t :: enc_int 2 id.

(* bytes DecodeText has already written when it fails: a list/set header with the number of comma-separated parts and the
   elements before the first unreadable one; nothing for the other types *)
Fixpoint ok_prefix (l : list (option tval)) : list Z :=
  match l with Some v :: r => encode v ++ ok_prefix r | _ => [] end.
Definition text_partial (o : hopts) (t : tdesc) (s : list Z) : list Z :=
  match t with
  | TList e | TSet e => let parts := map (text_conv o e) (split_comma s) in type_code e :: enc_int 4 (zlen parts) ++ ok_prefix parts
  | _ => []
  end.

Definition nbs_quirk_bytes (o : hopts) (rq : request) (gs : list fdesc) : list Z :=
  flat_map (fun g => if nonempty (f_anns g)
                     then fhdr (f_ty g) (f_id g) ++
                          match nbs_field rq (text_conv o) g with
                          | Some (Some (_, v)) => encode v
                          | _ => match first_source (f_anns g) (is_struct (f_ty g)) rq with
                                 | Some (_, SText v) => text_partial o (f_ty g) v
                                 | _ => []
                                 end
                          end
                     else []) gs ++ [0].

Fixpoint nbs_candidates (fuel : nat) (o : hopts) (rq : request) (fs : list fdesc) : list (list Z) :=
  match fuel with
  | O => []
  | S n =>
    flat_map (fun f =>
      match f_ty f with
      | TStruct gs =>
        (match first_source (f_anns f) true rq, nbs_fields rq (text_conv o) gs with
         | Some (_, SStruct), None => [fhdr (f_ty f) (f_id f) ++ nbs_quirk_bytes o rq gs]
         | _, _ => []
         end) ++ nbs_candidates n o rq gs
      | _ => []
      end) fs
  end.

(* finding 1714: the annotation mapper of api.body re-emits it AFTER all annotations that have no mapper, so api.body is
   always consulted last, wherever it is listed.  Quirk model = the same decision table on the re-ordered lists. *)
Definition body_last (anns : list ann) : list ann :=
  filter (fun a => negb (a_kind a =? K_BODY)) anns ++ filter (fun a => a_kind a =? K_BODY) anns.
Fixpoint reorder_fields (fuel : nat) (fs : list fdesc) : list fdesc :=
  match fuel with
  | O => fs
  | S n => map (fun f => FD (f_id f) (f_name f) (f_req f) (body_last (f_anns f))
                            (match f_ty f with TStruct gs => TStruct (reorder_fields n gs) | t => t end)) fs
  end.
Definition FINDING_BODY_LAST := 1714.

Fixpoint is_prefix (a b : list Z) : bool :=
  match a, b with
  | [], _ => true
  | x :: a', y :: b' => (x =? y) && is_prefix a' b'
  | _, [] => false
  end.
Fixpoint is_infix (a b : list Z) : bool :=
  is_prefix a b || match b with [] => false | _ :: b' => is_infix a b' end.

Definition check_1701 (fs : list field) : verdict :=
  match fs with
  | FZ bits :: FZ impl :: r =>
    match parse_tdesc (S (length r)) r with
    | Some (TStruct flds, FZ nv :: r1) =>
      if (nv <? 0) || (nv >? 1000000) then VBad 99 [] else
      match parse_view (Z.to_nat nv) r1 (mkReq [] [] [] [] [] [] [] []) with
      | Some (rq0, [FB raw; FB uri; FB body; FZ ec; FB outb]) =>
        let rq := mkReq (rq_query rq0) (rq_path rq0) (rq_header rq0) (rq_cookie rq0) (rq_form rq0) (rq_bodymap rq0) raw uri in
        let o := opts_of bits in
        let jb := match body with [] => Some None | _ => match json_parse body with Some j => Some (Some j) | None => None end end in
        match jb with
        | None => VSkip     (* the body is not JSON for the proved parser: outside the domain *)
        | Some jbody =>
          (* finding 1715: native trie_get (native/map.c) tests  j > len  where the Go twin tests  j >= len : a member key that is not a
             field of the struct may read one trie node past the index; the fault depends on the neighbouring heap content *)
          if (ec =? 4) && (impl =? 0) && nonempty body then VKnown 1715 else
          if ec =? 4 then VBad 4 [] else
          let out := if ec =? 0 then decode_all T_STRUCT outb else None in
          let spec := model_j2t o Spec rq flds jbody in
          match agree spec ec out with
          | 0 => VOk
          | a =>
            let qfl := if impl =? 0 then NativeQuirk else PortableQuirk in
            let flds' := reorder_fields 8 flds in
            if agree (model_j2t o qfl rq flds jbody) ec out =? 0 then VKnown (if impl =? 0 then FINDING_TRACEBACK_NATIVE else FINDING_TRACEBACK_PORTABLE)
            else if (agree (model_j2t o Spec rq flds' jbody) ec out =? 0) || (agree (model_j2t o qfl rq flds' jbody) ec out =? 0) then VKnown FINDING_BODY_LAST
            else if (ec =? 0) && (match spec with HErr _ => true | _ => false end) && existsb (fun q => is_infix q outb) (nbs_candidates 8 o rq flds)
            then VKnown FINDING_NBS_IGNORED_ERROR
            else if a =? 1 then VDrift 1
            else VBad 1 (hres_detail spec)
          end
        end
      | _ => VBad 98 []
      end
    | _ => VBad 97 []
    end
  | _ => VBad 99 []
  end.

Definition check_1702 (fs : list field) : verdict := VSkip.
