(* Correspondence checks for C17 (HTTP mapping): 1701 request side (j2t native / portable), 1702 response side (t2j).
   The value converters of HttpMap.v are instantiated here with definitions for the generated subset (scalars, lists,
   sets, maps with string / integer keys, structs): text per thrift.DecodeText, JSON per Json.v / Num.v / Base64.v. *)
From Coq Require Import ZArith List Bool.
From DG Require Import CaseFormat ProtoWireRef ThriftWire ThriftEdit ThriftEnvelope Json Num Base64 HttpMap HttpMapCoded.
From DG Require J2T.
Import ListNotations.
Local Open Scope Z_scope.

(* ---- case parsing ---- *)
Fixpoint parse_anns (n : nat) (fs : list field) : option (list ann * list field) :=
  match n with
  | O => Some ([], fs)
  | S n' => match fs with
            | FZ k :: FB key :: r => match parse_anns n' r with Some (l, r') => Some (Ann k key :: l, r') | None => None end
            | _ => None
            end
  end.

Fixpoint parse_tdesc (fuel : nat) (fs : list field) : option (tdesc * list field) :=
  match fuel with
  | O => None
  | S fu =>
    match fs with
    | FZ 0 :: FZ c :: FZ b :: r => Some (TBase c (negb (b =? 0)), r)
    | FZ 1 :: r => match parse_tdesc fu r with Some (e, r') => Some (TList e, r') | None => None end
    | FZ 2 :: r => match parse_tdesc fu r with Some (e, r') => Some (TSet e, r') | None => None end
    | FZ 3 :: r => match parse_tdesc fu r with
                   | Some (k, r') => match parse_tdesc fu r' with Some (e, r'') => Some (TMap k e, r'') | None => None end
                   | None => None
                   end
    | FZ 4 :: FZ nf :: r =>
      if (nf <? 0) || (nf >? 100000) then None else
      match (fix flds (n : nat) (fs : list field) : option (list fdesc * list field) :=
         match n with
         | O => Some ([], fs)
         | S n' =>
           match fs with
           | FZ id :: FB name :: FZ req :: FZ na :: r1 =>
             if (na <? 0) || (na >? 100) then None else
             match parse_anns (Z.to_nat na) r1 with
             | Some (anns, r2) =>
               match parse_tdesc fu r2 with
               | Some (t, r3) => match flds n' r3 with Some (l, r4) => Some (FD id name req anns t :: l, r4) | None => None end
               | None => None
               end
             | None => None
             end
           | _ => None
           end
         end) (Z.to_nat nf) r with
      | Some (l, r') => Some (TStruct l, r')
      | None => None
      end
    | _ => None
    end
  end.

Fixpoint parse_view (n : nat) (fs : list field) (rq : request) : option (request * list field) :=
  match n with
  | O => Some (rq, fs)
  | S n' =>
    match fs with
    | FZ k :: FB key :: FB v :: r =>
      let add l := l ++ [(key, v)] in
      let rq' :=
        if k =? K_QUERY then mkReq (add (rq_query rq)) (rq_path rq) (rq_header rq) (rq_cookie rq) (rq_form rq) (rq_bodymap rq) (rq_raw rq) (rq_uri rq)
        else if k =? K_PATH then mkReq (rq_query rq) (add (rq_path rq)) (rq_header rq) (rq_cookie rq) (rq_form rq) (rq_bodymap rq) (rq_raw rq) (rq_uri rq)
        else if k =? K_HEADER then mkReq (rq_query rq) (rq_path rq) (add (rq_header rq)) (rq_cookie rq) (rq_form rq) (rq_bodymap rq) (rq_raw rq) (rq_uri rq)
        else if k =? K_COOKIE then mkReq (rq_query rq) (rq_path rq) (rq_header rq) (add (rq_cookie rq)) (rq_form rq) (rq_bodymap rq) (rq_raw rq) (rq_uri rq)
        else if k =? K_FORM then mkReq (rq_query rq) (rq_path rq) (rq_header rq) (rq_cookie rq) (add (rq_form rq)) (rq_bodymap rq) (rq_raw rq) (rq_uri rq)
        else mkReq (rq_query rq) (rq_path rq) (rq_header rq) (rq_cookie rq) (rq_form rq) (add (rq_bodymap rq)) (rq_raw rq) (rq_uri rq) in
      parse_view n' r rq'
    | _ => None
    end
  end.

Definition bit (bits : Z) (i : Z) : bool := Z.testbit bits i.
Definition opts_of (bits : Z) : hopts :=
  mkOpts (bit bits 0) (bit bits 1) (bit bits 2) (bit bits 3) (bit bits 4) (bit bits 5) (bit bits 6) (bit bits 7) (bit bits 8).

(* ---- converters ---- *)
Definition wrap_s (k : Z) (z : Z) : Z := to_s k (z mod 2 ^ k).

(* strconv.ParseInt(s, 10, 64): optional sign, digits, in the int64 range *)
Definition go_parse_int64 (s : list Z) : option Z :=
  let body := match s with c :: r => if c =? 43 then r else s | [] => s end in
  match s with
  | c :: d :: _ => if (c =? 43) && (d =? 45) then None else
                   match parse_int body with Some z => if in_sb 64 z then Some z else None | None => None end
  | _ => match parse_int body with Some z => if in_sb 64 z then Some z else None | None => None end
  end.

Definition int_val (c : Z) (z : Z) : tval :=
  if c =? T_BYTE then VByte (wrap_s 8 z) else if c =? T_I16 then VI16 (wrap_s 16 z) else if c =? T_I32 then VI32 (wrap_s 32 z) else VI64 z.
Definition is_int_code (c : Z) : bool := (c =? T_BYTE) || (c =? T_I16) || (c =? T_I32) || (c =? T_I64).

Definition s_true : list (list Z) := [[49]; [116]; [84]; [84;82;85;69]; [116;114;117;101]; [84;114;117;101]].
Definition s_false : list (list Z) := [[48]; [102]; [70]; [70;65;76;83;69]; [102;97;108;115;101]; [70;97;108;115;101]].
Definition mem_s (s : list Z) (l : list (list Z)) : bool := existsb (zlist_eqb s) l.

Fixpoint split_comma (s : list Z) : list (list Z) :=
  match s with
  | [] => [[]]
  | c :: r => match split_comma r with
              | h :: t => if c =? 44 then [] :: h :: t else (c :: h) :: t
              | [] => [[c]]
              end
  end.

Fixpoint all_some {A} (l : list (option A)) : option (list A) :=
  match l with
  | [] => Some []
  | Some x :: r => match all_some r with Some xs => Some (x :: xs) | None => None end
  | None :: _ => None
  end.

Section Converters.
  Variable o : hopts.

  Definition str_val (bin : bool) (s : list Z) : option tval :=
    if bin && negb (o_nob64 o) then option_map VString (b64_decode s) else Some (VString s).

  (* thrift.DecodeText(val, desc, ..., asJson = false) *)
  Fixpoint text_conv (t : tdesc) (s : list Z) : option tval :=
    match t with
    | TBase c bin =>
      if c =? T_BOOL then (if mem_s s s_true then Some (VBool 1) else if mem_s s s_false then Some (VBool 0) else None)
      else if is_int_code c then option_map (int_val c) (go_parse_int64 s)
      else if c =? T_DOUBLE then option_map VDouble (lex2f64 s)
      else if c =? T_STRING then str_val bin s
      else None
    | TList e => option_map (VList (type_code e)) (all_some (map (text_conv e) (split_comma s)))
    | TSet e => option_map (VSet (type_code e)) (all_some (map (text_conv e) (split_comma s)))
    | _ => None
    end.

  Definition req_zero (f : fdesc) : option (option (Z * tval)) :=
    if f_req f =? R_REQUIRED then (if o_wr o then Some (Some (f_id f, zero_of (f_ty f))) else None)
    else if f_req f =? R_DEFAULT then Some (if o_wd o then Some (f_id f, zero_of (f_ty f)) else None)
    else Some None.    (* optional fields are not owed (no SetOptionalBitmap) *)

  (* the plain JSON -> Thrift conversion (in-range integer lexemes, no nulls) *)
  Fixpoint json_conv (t : tdesc) (j : json) {struct t} : option tval :=
    match t with
    | TBase c bin =>
      match j with
      | JBool b => if c =? T_BOOL then Some (VBool (if b then 1 else 0)) else None
      | JNum l =>
        if is_int_code c then
          (if lex_is_plain_int l then
             match parse_int l with
             | Some z => if in_sb (if c =? T_BYTE then 8 else if c =? T_I16 then 16 else if c =? T_I32 then 32 else 64) z then Some (int_val c z) else None
             | None => None
             end
           else None)
        else if c =? T_DOUBLE then option_map VDouble (lex2f64 l)
        else None
      | JStr s => if c =? T_STRING then str_val bin s else None
      | _ => None
      end
    | TList e => match j with JArr xs => option_map (VList (type_code e)) (all_some (map (json_conv e) xs)) | _ => None end
    | TSet e => match j with JArr xs => option_map (VSet (type_code e)) (all_some (map (json_conv e) xs)) | _ => None end
    | TMap k v =>
      match j with
      | JObj ms =>
        option_map (VMap (type_code k) (type_code v))
          (all_some (map (fun m =>
             match (match k with
                    | TBase c _ => if c =? T_STRING then Some (VString (fst m)) else if is_int_code c then option_map (int_val c) (go_parse_int64 (fst m)) else None
                    | _ => None
                    end), json_conv v (snd m) with
             | Some kk, Some vv => Some (kk, vv)
             | _, _ => None
             end) ms))
      | _ => None
      end
    | TStruct fs =>
      match j with
      | JObj ms =>
        option_map (fun l => VStruct (flat_map (fun x => match x with Some p => [p] | None => [] end) l))
          (all_some (map (fun f =>
             match f with
             | FD id name req _ ty =>
               match find_member name ms with
               | Some x => option_map (fun v => Some (id, v)) (json_conv ty x)
               | None => req_zero f
               end
             end) fs))
      | _ => None
      end
    end.
End Converters.

(* struct-free types go through the C02 model (J2T.j2t, strict policy; its theorems are in props/Properties_C02.v): the bytes it
   produces are read back with the proved decoder.  Types that contain structs below containers use [json_conv] above
   (J2T.v does not model the filling of absent fields). *)
Fixpoint to_j2t (t : tdesc) : option J2T.ty :=
  match t with
  | TBase c bin =>
    if c =? T_BOOL then Some J2T.TBool else if c =? T_BYTE then Some J2T.TByte else if c =? T_I16 then Some J2T.TI16
    else if c =? T_I32 then Some J2T.TI32 else if c =? T_I64 then Some J2T.TI64 else if c =? T_DOUBLE then Some J2T.TDouble
    else if c =? T_STRING then Some (if bin then J2T.TBinary else J2T.TString) else None
  | TList e => option_map J2T.TList (to_j2t e)
  | TSet e => option_map J2T.TSet (to_j2t e)
  | TMap k v => match to_j2t k, to_j2t v with Some a, Some b => Some (J2T.TMap a b) | _, _ => None end
  | TStruct _ => None
  end.

Definition json_conv_c02 (o : hopts) (t : tdesc) (j : json) : option tval :=
  match to_j2t t with
  | Some jt =>
    match J2T.j2t [] (J2T.mkOpts false false (o_nob64 o) false) jt j with
    | J2T.Ok bs => decode_all (type_code t) bs
    | J2T.Err _ => None
    end
  | None => json_conv o t j
  end.

Definition model_j2t (o : hopts) (fl : flavour) (rq : request) (fs : list fdesc) (body : option json) : hres :=
  http_j2t o fl rq (text_conv o) (json_conv_c02 o) 8%nat fs body.

(* ---- comparison ---- *)
Definition same_struct (l : list (Z * tval)) (out : tval) : bool := tval_eqb (canon (VStruct l)) (canon out).

(* 0 agrees; 1 agrees on "error" but not on its class; 2 disagrees *)
Definition agree (h : hres) (ec : Z) (out : option tval) : Z :=
  match h with
  | HOk l => if ec =? 0 then match out with Some v => if same_struct l v then 0 else 2 | None => 2 end else 2
  | HErr c => if ec =? 0 then 2 else if (c =? ec) || (c =? E_CONV) then 0 else 1
  end.

Definition hres_detail (h : hres) : list field :=
  match h with HOk l => [FZ 0; FB (encode (canon (VStruct l)))] | HErr c => [FZ c] end.

Definition FINDING_TRACEBACK_NATIVE := 1711.
Definition FINDING_TRACEBACK_PORTABLE := 1712.
Definition FINDING_NBS_IGNORED_ERROR := 1713.

(* finding 1713: apiNoBodyStruct.Request ignores the error of WriteStringWithDesc: the nested field keeps its header but gets no
   value bytes, and the conversion returns this malformed Thrift with a nil error.  Quirk model = the exact bytes the code emits
   for such a struct field (header, then per mapped nested field: header ++ value or header alone, then STOP). *)
Definition fhdr (t : tdesc) (id : Z) : list Z := type_code t :: enc_int 2 id.

(* bytes DecodeText has already written when it fails: a list/set header with the number of comma-separated parts and the
   elements before the first unreadable one; nothing for the other types *)
Fixpoint ok_prefix (l : list (option tval)) : list Z :=
  match l with Some v :: r => encode v ++ ok_prefix r | _ => [] end.
Definition text_partial (o : hopts) (t : tdesc) (s : list Z) : list Z :=
  match t with
  | TList e | TSet e => let parts := map (text_conv o e) (split_comma s) in type_code e :: enc_int 4 (zlen parts) ++ ok_prefix parts
  | _ => []
  end.

Definition nbs_quirk_bytes (o : hopts) (rq : request) (gs : list fdesc) : list Z :=
  flat_map (fun g => if nonempty (f_anns g)
                     then fhdr (f_ty g) (f_id g) ++
                          match nbs_field rq (text_conv o) g with
                          | Some (Some (_, v)) => encode v
                          | _ => match first_source (f_anns g) (is_struct (f_ty g)) rq with
                                 | Some (_, SText v) => text_partial o (f_ty g) v
                                 | _ => []
                                 end
                          end
                     else []) gs ++ [0].

Fixpoint nbs_candidates (fuel : nat) (o : hopts) (rq : request) (fs : list fdesc) : list (list Z) :=
  match fuel with
  | O => []
  | S n =>
    flat_map (fun f =>
      match f_ty f with
      | TStruct gs =>
        (match first_source (f_anns f) true rq, nbs_fields rq (text_conv o) gs with
         | Some (_, SStruct), None => [fhdr (f_ty f) (f_id f) ++ nbs_quirk_bytes o rq gs]
         | _, _ => []
         end) ++ nbs_candidates n o rq gs
      | _ => []
      end) fs
  end.

(* finding 1714: the annotation mapper of api.body re-emits it AFTER all annotations that have no mapper, so api.body is
   always consulted last, wherever it is listed.  Quirk model = the same decision table on the re-ordered lists. *)
Definition body_last (anns : list ann) : list ann :=
  filter (fun a => negb (a_kind a =? K_BODY)) anns ++ filter (fun a => a_kind a =? K_BODY) anns.
Fixpoint reorder_fields (fuel : nat) (fs : list fdesc) : list fdesc :=
  match fuel with
  | O => fs
  | S n => map (fun f => FD (f_id f) (f_name f) (f_req f) (body_last (f_anns f))
                            (match f_ty f with TStruct gs => TStruct (reorder_fields n gs) | t => t end)) fs
  end.
Definition FINDING_BODY_LAST := 1714.

Fixpoint is_prefix (a b : list Z) : bool :=
  match a, b with
  | [], _ => true
  | x :: a', y :: b' => (x =? y) && is_prefix a' b'
  | _, [] => false
  end.
Fixpoint is_infix (a b : list Z) : bool :=
  is_prefix a b || match b with [] => false | _ :: b' => is_infix a b' end.

(* ---- the body map of an application/json request, derived from the body by the proved parser ----
   GetMapBody(key) = the member's value: the DENOTED bytes of a string member (escapes resolved), the raw text of any other member.
   The model no longer takes the harness's read-back of GetMapBody for JSON bodies: it computes the map itself and the read-back
   must agree with it (strings byte for byte; other members as JSON values, since their raw text is only ever parsed). *)
Definition body_map (ms : list (list Z * json)) : kv :=
  map (fun m => (fst m, match snd m with JStr x => x | j => json_print j end)) ms.

Fixpoint key_universe (fuel : nat) (fs : list fdesc) : list (list Z) :=
  match fuel with
  | O => []
  | S n => flat_map (fun f => f_name f :: map a_key (f_anns f) ++
                              match f_ty f with
                              | TStruct gs => key_universe n gs
                              | TList (TStruct gs) => key_universe n gs
                              | _ => []
                              end) fs
  end.

Definition bm_value_agrees (member : option json) (rv : list Z) : bool :=
  match member with
  | None => negb (nonempty rv)
  | Some (JStr x) => zlist_eqb x rv
  | Some j => match json_parse rv with Some j' => json_eqb j j' | None => false end
  end.

(* first key of the universe on which GetMapBody's answer is not the body member *)
Definition bodymap_mismatch (ms : list (list Z * json)) (readback : kv) (keys : list (list Z)) : option (list Z) :=
  find (fun k => negb (bm_value_agrees (find_member k ms) (assoc k readback))) keys.

(* first (kind, key) on which a getter's answer differs from what was put into that part of the request *)
Definition getter_mismatch (readback intended : request) (bodykind : Z) (keys : list (list Z)) : option (Z * list Z) :=
  let kinds := [K_QUERY; K_PATH; K_HEADER; K_FORM] in
  match find (fun p => negb (zlist_eqb (getter (fst p) readback (snd p)) (getter (fst p) intended (snd p))))
             (flat_map (fun key => map (fun k => (k, key)) kinds) keys) with
  | Some p => Some p
  | None =>
    if bodykind =? 1 then      (* the body map of a form request is the post form *)
      match find (fun key => negb (zlist_eqb (getter K_BODY readback key) (getter K_FORM intended key))) keys with
      | Some key => Some (K_BODY, key)
      | None => None
      end
    else None
  end.

(* the case format of 1701 / 1704: parsing, the getter checks (codes 8, 7), decoding of the output; then the judgement K *)
Definition with_case_1701
    (K : hopts -> Z -> list fdesc -> request -> option json -> Z -> list Z -> option tval -> verdict) (fs : list field) : verdict :=
  match fs with
  | FZ bits :: FZ impl :: r =>
    match parse_tdesc (S (length r)) r with
    | Some (TStruct flds, FZ nv :: r1) =>
      if (nv <? 0) || (nv >? 1000000) then VBad 99 [] else
      match parse_view (Z.to_nat nv) r1 (mkReq [] [] [] [] [] [] [] []) with
      | Some (rq0, FB raw :: FB uri :: FZ bodykind :: FZ ni :: r2) =>
        if (ni <? 0) || (ni >? 1000000) then VBad 99 [] else
        match parse_view (Z.to_nat ni) r2 (mkReq [] [] [] [] [] [] [] []) with
        | Some (rqi, [FB body; FZ ec; FB outb]) =>
        (* the getters against what the harness PUT into the request: GetQuery reads the URL query only, GetPostForm (and GetMapBody
           of a form request) the form body only, GetParam / GetHeader their own stores *)
        match getter_mismatch rq0 rqi bodykind (key_universe 8 flds) with
        | Some (k, key) => VBad 8 [FZ k; FB key; FB (getter (if k =? K_BODY then K_FORM else k) rqi key)]
        | None =>
        let o := opts_of bits in
        let jb := match body with [] => Some None | _ => match json_parse body with Some j => Some (Some j) | None => None end end in
        match jb with
        | None => VSkip     (* the body is not JSON for the proved parser: outside the domain *)
        | Some jbody =>
          let members := match jbody with Some (JObj ms) => Some ms | _ => None end in
          let bm := match members with Some ms => body_map ms | None => rq_bodymap rq0 end in
          let rq := mkReq (rq_query rq0) (rq_path rq0) (rq_header rq0) (rq_cookie rq0) (rq_form rq0) bm raw uri in
          match (match members with Some ms => bodymap_mismatch ms (rq_bodymap rq0) (key_universe 8 flds) | None => None end) with
          | Some k => VBad 7 [FB k; FB (assoc k bm)]      (* GetMapBody(k) is not the value of body member k *)
          | None =>
          (* finding 1715 (native trie_get read past the index) is fixed in /repo by 0d2d3ac: a panic is a violation *)
          if ec =? 4 then VBad 4 [] else
          (* SkipGo's model first: it bounds every declared length by the remaining input before converting it to a nat
             (the decoder on malformed output with a huge string length would build that nat) *)
          let out := if ec =? 0 then match skip_go T_STRUCT outb with Some [] => decode_all T_STRUCT outb | _ => None end else None in
          K o impl flds rq jbody ec outb out
          end
        end
        end
        | _ => VBad 98 []
        end
      | _ => VBad 98 []
      end
    | _ => VBad 97 []
    end
  | _ => VBad 99 []
  end.

Definition judge_1701 (o : hopts) (impl : Z) (flds : list fdesc) (rq : request) (jbody : option json) (ec : Z) (outb : list Z) (out : option tval) : verdict :=
  let spec := model_j2t o Spec rq flds jbody in
  match agree spec ec out with
  | 0 => VOk
  | a =>
    (* The only open deviation is finding 1714: HTTPMappings() lists api.body last.  It is tried FIRST and alone: 1711 / 1712 (the
       traceback flavours) and 1713 (errors of api.no_body_struct ignored) are repaired in /repo, and an output that merely coincides
       with an old quirk flavour on the listed order (while the code, consulting api.body last, took another source) must not be
       classified as one of them.  The quirk flavours stay in HttpMap.v for the `_refuted` examples only. *)
    let flds' := reorder_fields 8 flds in
    if agree (model_j2t o Spec rq flds' jbody) ec out =? 0 then VKnown FINDING_BODY_LAST
    else if a =? 1 then VDrift 1
    else VBad 1 (hres_detail spec)
  end.

Definition check_1701 (fs : list field) : verdict := with_case_1701 judge_1701 fs.

(* 1704: the same case judged by the TRANSCRIPTION of the code (HttpMapCoded.v), run as the code runs today: HTTPMappings() in the order
   mapAnnotations produces (api.body last, finding 1714), native = state machine + Go handlers, portable = doRecurse.  No quirk
   classification here: the transcription must agree with the implementation on every case. *)
Definition coded_model (o : hopts) (impl : Z) (rq : request) (flds : list fdesc) (jbody : option json) : hres :=
  coded_j2t o rq (text_conv o) (json_conv_c02 o) (impl =? 0) 8%nat (reorder_fields 8 flds) jbody.
Definition judge_1704 (o : hopts) (impl : Z) (flds : list fdesc) (rq : request) (jbody : option json) (ec : Z) (outb : list Z) (out : option tval) : verdict :=
  let c := coded_model o impl rq flds jbody in
  match agree c ec out with
  | 0 => VOk
  | 1 => VDrift 1
  | _ => VBad 1 (hres_detail c)
  end.
Definition check_1704 (fs : list field) : verdict := with_case_1701 judge_1704 fs.

(* ---- response side ---- *)
Definition s_of_string (l : list Z) := l.
Definition txt_true := [116;114;117;101].  Definition txt_false := [102;97;108;115;101].

(* EncodeText(asJson = false) of scalars; None: opaque here (doubles, containers: float / JSON / kitex text is not compared) *)
Definition enc_text (o : hopts) (t : tdesc) (v : tval) : option (list Z) :=
  match t, v with
  | TBase _ _, VBool b => Some (if b =? 1 then txt_true else txt_false)
  | TBase _ _, VByte z => Some (fmt_int (z mod 256))     (* EncodeText prints the byte unsigned, whatever ByteAsUint8 says (follows the code) *)
  | TBase _ _, VI16 z | TBase _ _, VI32 z | TBase _ _, VI64 z => Some (fmt_int z)
  | TBase _ bin, VString s => Some (if bin && negb (o_nob64 o) then b64_encode s else s)
  | _, _ => None
  end.

(* primitive.KitexToString of a list/set of booleans, integers (bytes signed here) or strings: the elements joined by commas *)
Fixpoint join_comma (l : list (list Z)) : list Z :=
  match l with [] => [] | [x] => x | x :: r => x ++ 44 :: join_comma r end.
Definition kitex_elem (t : tdesc) (v : tval) : option (list Z) :=
  match t, v with
  | TBase _ _, VBool b => Some (if b =? 1 then txt_true else txt_false)
  | TBase _ _, VByte z | TBase _ _, VI16 z | TBase _ _, VI32 z | TBase _ _, VI64 z => Some (fmt_int z)
  | TBase _ false, VString s => Some s
  | _, _ => None
  end.
Definition kitex_text (t : tdesc) (v : tval) : option (list Z) :=
  match t, v with
  | TList e, VList _ es | TSet e, VSet _ es => option_map join_comma (all_some (map (kitex_elem e) es))
  | _, _ => None
  end.
(* the text handed to HttpMapping.Response, where the model knows it *)
Definition http_text (o : hopts) (t : tdesc) (v : tval) : option (list Z) :=
  if is_complex t then (if o_kitex o then kitex_text t v else None) else enc_text o t v.

Record rexp := mkRexp {
  re_err : Z;                                            (* 0 none, 1 missing required, 3 a mapping failed *)
  re_names : list (list Z);                              (* members of the JSON object *)
  re_deliv : list (Z * list Z * option (list Z));        (* kind, key, text (None: not compared) *)
  re_subs : list (list Z * list (list Z)) }.             (* members of nested objects, by member name *)

Definition rexp_empty := mkRexp 0 [] [] [].
Definition rexp_app (a b : rexp) : rexp :=
  mkRexp (if (re_err a =? 0) || ((re_err a =? 5) && negb (re_err b =? 0)) then re_err b else re_err a) (re_names a ++ re_names b) (re_deliv a ++ re_deliv b) (re_subs a ++ re_subs b).

Definition opaque_text := [91].

(* one field with a value (present, or the zero value of an owed absent field) at a level where the response is available *)
(* finding 1717: with UseKitexHttpEncoding the text of an EMPTY list/set is the empty string, which writeHttpValue caches as a nil
   slice; when the first mapping fails (OmitHttpMappingErrors) the next one finds `textVal == nil` and reads the Thrift value AGAIN,
   from the position behind it *)
Definition kitex_reread (o : hopts) (f : fdesc) (v : tval) : bool :=
  o_kitex o && o_omit o &&
  match v with VList _ [] | VSet _ [] => true | _ => false end &&
  match f_anns f with a :: _ :: _ => match resp_ann a opaque_text with RFail => true | _ => false end | _ => false end.

Definition resp_one (q : bool) (o : hopts) (absent : bool) (f : fdesc) (v : tval) : rexp :=
  if q && kitex_reread o f v then mkRexp 5 [] [] [] else
  let t := http_text o (f_ty f) v in
  match resp_field o f (match t with Some x => x | None => opaque_text end) with
  | RODelivered k key _ => mkRexp 0 [] [(k, key, if k =? K_HTTP_CODE then option_map fmt_int (match t with Some x => go_parse_int64 x | None => None end) else t)] []
  | ROSwallowed => rexp_empty
  | ROBody => mkRexp 0 [f_name f] [] []
  | RODropped => if absent then mkRexp 0 [f_name f] [] [] else rexp_empty      (* handleUnsets writes the member whenever no mapping took it *)
  | ROError => mkRexp 3 [] [] []
  end.

Definition struct_names (q : bool) (fs : list fdesc) (vals : list (Z * tval)) (o : hopts) : list (list Z) :=
  flat_map (fun p => match find (fun f => f_id f =? fst p) fs with Some f => [f_name f] | None => [] end) vals ++
  flat_map (fun f => if existsb (fun p => fst p =? f_id f) vals then [] else
                     if ((f_req f =? R_REQUIRED) && o_wr o) || ((f_req f =? R_DEFAULT) && o_wd o) then
                       (if negb q then [f_name f] else
                        match resp_field o f (match http_text o (f_ty f) (zero_of (f_ty f)) with Some x => x | None => opaque_text end) with
                        | ROSwallowed | RODelivered _ _ _ => []
                        | _ => [f_name f]
                        end)
                     else []) (sort_by_id fs).

(* the levels the response setter does not reach (depth >= 2, and everything inside containers): plain conversion.
   0 fine; 1 a required field is missing and WriteRequireField is off; 4 finding 1716: handleUnsets hands an absent http-mapped
   field to writeHttpValue although the response is nil there (nil-pointer panic) *)
Definition first_nz (a b : Z) : Z := if a =? 0 then b else a.

Fixpoint plain_chk (q : bool) (fuel : nat) (o : hopts) (t : tdesc) (v : tval) : Z :=
  match fuel with
  | O => 0
  | S n =>
    match t, v with
    | TStruct fs, VStruct vals =>
      first_nz
        (fold_left (fun acc p => first_nz acc (match find (fun f => f_id f =? fst p) fs with Some f => plain_chk q n o (f_ty f) (snd p) | None => 0 end)) vals 0)
        (fold_left (fun acc f =>
           first_nz acc
             (if existsb (fun p => fst p =? f_id f) vals then 0
              else if f_req f =? R_OPTIONAL then 0
              else if (f_req f =? R_REQUIRED) && negb (o_wr o) then 1
              else if (f_req f =? R_DEFAULT) && negb (o_wd o) then 0
              else if negb q then 0      (* specification: below the reach of the response nothing is mapped, the member goes to the body *)
              else if kitex_reread o f (zero_of (f_ty f)) then 5
              else match resp_field o f (match http_text o (f_ty f) (zero_of (f_ty f)) with Some x => x | None => opaque_text end) with
                   | RODelivered _ _ _ => if nonempty (f_anns f) then 4 else 0    (* the mapping calls a method of the nil response *)
                   | ROError => 3
                   | _ => 0
                   end)) (sort_by_id fs) 0)
    | TList e, VList _ es | TSet e, VSet _ es => fold_left (fun acc x => first_nz acc (plain_chk q n o e x)) es 0
    | TMap _ e, VMap _ _ es => fold_left (fun acc x => first_nz acc (plain_chk q n o e (snd x))) es 0
    | _, _ => 0
    end
  end.

(* lvl = number of struct levels BELOW this one that the response setter still reaches (1 at the root: its direct struct members) *)
Fixpoint resp_struct (q : bool) (lvl : nat) (o : hopts) (fs : list fdesc) (vals : list (Z * tval)) : rexp :=
  let present :=
    fold_left (fun acc p =>
      match find (fun f => f_id f =? fst p) fs with
      | None => acc
      | Some f =>
        rexp_app acc
          (match f_ty f, snd p, f_anns f with
           | TStruct gs, VStruct sub, [] =>
             match lvl with
             | S l' =>
               let r := resp_struct q l' o gs sub in
               mkRexp (re_err r) [f_name f] (re_deliv r) [(f_name f, re_names r)]
             | _ => mkRexp (plain_chk q 8 o (f_ty f) (snd p)) [f_name f] [] [(f_name f, struct_names q gs sub o)]
             end
           | _, _, _ =>
             (* with UseKitexHttpEncoding a mapped container is read by ReadAnyWithDesc, which checks no requiredness *)
             let c := plain_chk q 8 o (f_ty f) (snd p) in
             if o_kitex o && nonempty (f_anns f) && is_complex (f_ty f) then
               (* ... but when the field falls back to the JSON body, the plain conversion runs after all *)
               let r := resp_one q o false f (snd p) in
               if nonempty (re_names r) && negb (c =? 0) then mkRexp c [] [] [] else r
             else if negb (c =? 0) then mkRexp c [] [] [] else resp_one q o false f (snd p)
           end)
      end) vals rexp_empty in
  let absent :=
    fold_left (fun acc f =>
      if existsb (fun p => fst p =? f_id f) vals then acc else
      if f_req f =? R_OPTIONAL then acc else
      if (f_req f =? R_REQUIRED) && negb (o_wr o) then rexp_app acc (mkRexp 1 [] [] [])
      else if (f_req f =? R_DEFAULT) && negb (o_wd o) then acc
      else rexp_app acc (resp_one q o true f (zero_of (f_ty f)))) (sort_by_id fs) rexp_empty in
  rexp_app present absent.

Definition resp_model (q : bool) (o : hopts) (fs : list fdesc) (vals : list (Z * tval)) : rexp := resp_struct q 1 o fs vals.
Definition FINDING_T2J_NIL_RESP := 1716.

Fixpoint parse_names (n : nat) (fs : list field) : option (list (list Z * option (list (list Z))) * list field) :=
  match n with
  | O => Some ([], fs)
  | S n' =>
    match fs with
    | FB name :: FZ ns :: r =>
      if ns <? 0 then match parse_names n' r with Some (l, r') => Some ((name, None) :: l, r') | None => None end
      else
        let k := Z.to_nat ns in
        let subs := flat_map (fun x => match x with FB b => [b] | _ => [] end) (firstn k r) in
        match parse_names n' (skipn k r) with Some (l, r') => Some ((name, Some subs) :: l, r') | None => None end
    | _ => None
    end
  end.

Fixpoint parse_calls (n : nat) (fs : list field) : option (list (Z * list Z * list Z) * list field) :=
  match n with
  | O => Some ([], fs)
  | S n' => match fs with
            | FZ k :: FB key :: FB v :: r => match parse_calls n' r with Some (l, r') => Some ((k, key, v) :: l, r') | None => None end
            | _ => None
            end
  end.

Definition subset_s (a b : list (list Z)) : bool := forallb (fun x => mem_s x b) a.
Definition same_set (a b : list (list Z)) : bool := subset_s a b && subset_s b a && (length a =? length b)%nat.

Definition deliv_matches (e : Z * list Z * option (list Z)) (c : Z * list Z * list Z) : bool :=
  let '(k, key, t) := e in let '(k', key', v) := c in
  (k =? k') && zlist_eqb key key' && match t with Some x => zlist_eqb x v | None => true end.

(* every expected delivery is matched by a distinct actual call and vice versa (lists are short) *)
Fixpoint remove_first {A} (p : A -> bool) (l : list A) : option (list A) :=
  match l with
  | [] => None
  | x :: r => if p x then Some r else match remove_first p r with Some r' => Some (x :: r') | None => None end
  end.
Fixpoint deliv_same (es : list (Z * list Z * option (list Z))) (cs : list (Z * list Z * list Z)) : bool :=
  match es with
  | [] => match cs with [] => true | _ => false end
  | e :: es' => match remove_first (deliv_matches e) cs with Some cs' => deliv_same es' cs' | None => false end
  end.

(* 1702: fields: opts, descriptor, input bytes, err class, json ok, members (name, nsub, subnames), calls (kind, key, value), json *)
Definition check_1702 (fs : list field) : verdict :=
  match fs with
  | FZ bits :: r =>
    match parse_tdesc (S (length r)) r with
    | Some (TStruct flds, FB inb :: FZ ec :: FZ jok :: FZ nm :: r1) =>
      if (nm <? 0) || (nm >? 100000) then VBad 99 [] else
      match parse_names (Z.to_nat nm) r1 with
      | Some (names, FZ nc :: r2) =>
        if (nc <? 0) || (nc >? 100000) then VBad 99 [] else
        match parse_calls (Z.to_nat nc) r2 with
        | Some (calls, [FB _]) =>
          match (match skip_go T_STRUCT inb with Some [] => decode_all T_STRUCT inb | _ => None end) with
          | Some (VStruct vals) =>
            if negb (wf (VStruct vals)) then VSkip else
            let o := opts_of bits in
            let judge (e : rexp) : verdict :=
            if re_err e =? 4 then (if ec =? 4 then VKnown FINDING_T2J_NIL_RESP else VBad 6 []) else
            if re_err e =? 5 then (if negb (ec =? 0) && negb (ec =? 4) then VKnown 1717 else VDrift 2) else
            if ec =? 4 then VBad 4 [] else
            if negb (re_err e =? 0) then
              (* an error is expected; deliveries made before the failing field are not compared *)
              expect 1 (negb (ec =? 0)) [FZ (re_err e)]
            else
              vand (expect 2 ((ec =? 0) && (jok =? 1)) [])
             (vand (expect 3 (same_set (re_names e) (map fst names)) (map FB (re_names e)))
             (vand (expect 4 (forallb (fun s => match find (fun n => zlist_eqb (fst n) (fst s)) names with
                                                | Some (_, Some subs) => same_set (snd s) subs
                                                | _ => false
                                                end) (re_subs e)) (flat_map (fun s => FB (fst s) :: map FB (snd s)) (re_subs e)))
                   (expect 5 (deliv_same (re_deliv e) calls)
                      (flat_map (fun d => [FZ (fst (fst d)); FB (snd (fst d)); FB (match snd d with Some x => x | None => [63] end)]) (re_deliv e)))))
            in
            let flds' := reorder_fields 8 flds in
            match judge (resp_model false o flds vals) with
            | VBad c d =>
              match judge (resp_model true o flds vals), judge (resp_model false o flds' vals), judge (resp_model true o flds' vals) with
              | VOk, _, _ => VKnown FINDING_T2J_NIL_RESP      (* differs from the specification only by the plain-level quirk (names) *)
              | VKnown k, _, _ => VKnown k
              | _, VOk, _ => VKnown FINDING_BODY_LAST
              | _, _, VOk => VKnown FINDING_BODY_LAST
              | _, _, VKnown k => VKnown k
              | _, _, _ => VBad c d
              end
            | x => x
            end
          | _ => VSkip
          end
        | _ => VBad 98 []
        end
      | _ => VBad 97 []
      end
    | _ => VBad 96 []
    end
  | _ => VBad 99 []
  end.

(* 1703: j2t.HTTPConv.Do. fields: EnableHttpMapping given in the options (HTTPConv.Do forces it on), body kind, method name, err class,
   message bytes, err class and bytes of BinaryConv.Do (mapping enabled) on the same request.
   The message must be header(name, CALL, seq 0, field 1) ++ the same struct ++ footer. *)
Definition FINDING_HTTPCONV_FLAGS := 1718.
Definition check_1703 (fs : list field) : verdict :=
  match fs with
  | [FZ enable; FZ bodykind; FB name; FZ ec; FB msg; FZ pec; FB plain] =>
    if (ec =? 4) || (pec =? 4) then VSkip else      (* native faults are judged by 1701 *)
    let dec (b : list Z) := match skip_go T_STRUCT b with Some [] => decode_all T_STRUCT b | _ => None end in
    let same :=
      if negb (pec =? 0) then negb (ec =? 0)
      else (ec =? 0) &&
           match unwrap msg with
           | Some (n, ty, seq, id, body) =>
             zlist_eqb n name && (ty =? 1) && (seq =? 0) && (id =? 1) &&
             match dec body, dec plain with
             | Some a, Some b => tval_eqb (canon a) (canon b)
             | None, None => bytes_eqb body plain      (* malformed output of finding 1713: identical bytes *)
             | _, _ => false
             end
           | None => false
           end in
    if same then VOk
    (* with an empty body the root is mapped by Go code that reads cv.opts, but container-typed HTTP values still go through the native
       converter with the stale flag word *)
    else if enable =? 0 then VKnown FINDING_HTTPCONV_FLAGS
    else VBad 1 []
  | _ => VBad 99 []
  end.

(* ---- 1705: what the setters left in the http.Response.  The transcription of conv/t2j (HttpMapCoded.t2j_field / handleUnsets_field)
   is folded over the fields exactly as do / doRecurse / handleUnsets visit them, threading the response state of the transcribed
   HTTPResponse setters; the final state must be the one observed: every delivered cookie is its own Set-Cookie line (none replaced),
   a header holds the last value set, the status code and the raw body are the delivered ones. *)
Fixpoint coded_resp (lvl : nat) (o : hopts) (fs : list fdesc) (vals : list (Z * tval)) (r : response) : option response :=
  let text (f : fdesc) (v : tval) := match http_text o (f_ty f) v with Some x => x | None => opaque_text end in
  let present :=
    fold_left (fun acc p =>
      match acc with
      | None => None
      | Some r =>
        match find (fun f => f_id f =? fst p) fs with
        | None => Some r
        | Some f =>
          match f_ty f, snd p, f_anns f with
          | TStruct gs, VStruct sub, [] => match lvl with S l' => coded_resp l' o gs sub r | O => Some r end
          | _, _, _ => match t2j_field o f r (text f (snd p)) with TJ _ r' => Some r' | TJErr => None end
          end
        end
      end) vals (Some r) in
  fold_left (fun acc f =>
    match acc with
    | None => None
    | Some r =>
      if existsb (fun p => fst p =? f_id f) vals then Some r else
      if f_req f =? R_OPTIONAL then Some r else
      if (f_req f =? R_REQUIRED) && negb (o_wr o) then None
      else if (f_req f =? R_DEFAULT) && negb (o_wd o) then Some r
      else match handleUnsets_field o true f r (text f (zero_of (f_ty f))) with TJ _ r' => Some r' | TJErr => None end
    end) (sort_by_id fs) present.

Fixpoint parse_pairs (n : nat) (fs : list field) : option (kv * list field) :=
  match n with
  | O => Some ([], fs)
  | S n' => match fs with
            | FB k :: FB v :: r => match parse_pairs n' r with Some (l, r') => Some ((k, v) :: l, r') | None => None end
            | _ => None
            end
  end.

(* bytes http.Cookie.String() writes unchanged and unquoted *)
Definition cookie_safe (v : list Z) : bool :=
  forallb (fun c => (33 <=? c) && (c <=? 126) && negb ((c =? 34) || (c =? 59) || (c =? 92) || (c =? 44))) v.
Definition text_known (v : list Z) : bool := negb (zlist_eqb v opaque_text).

Definition cookie_matches (e c : list Z * list Z) : bool :=
  zlist_eqb (fst e) (fst c) && (negb (text_known (snd e) && cookie_safe (snd e)) || zlist_eqb (snd e) (snd c)).
Fixpoint cookies_same (es cs : kv) : bool :=
  match es with
  | [] => match cs with [] => true | _ => false end
  | e :: es' => match remove_first (cookie_matches e) cs with Some cs' => cookies_same es' cs' | None => false end
  end.

(* fields: opts, descriptor, input, err class, status (0 = never set), cookies (name, value), headers (key, value), raw body set *)
Definition check_1705 (fs : list field) : verdict :=
  match fs with
  | FZ bits :: r =>
    match parse_tdesc (S (length r)) r with
    | Some (TStruct flds, FB inb :: FZ ec :: FZ status :: FZ nc :: r1) =>
      if (nc <? 0) || (nc >? 100000) then VBad 99 [] else
      match parse_pairs (Z.to_nat nc) r1 with
      | Some (cookies, FZ nh :: r2) =>
        if (nh <? 0) || (nh >? 100000) then VBad 99 [] else
        match parse_pairs (Z.to_nat nh) r2 with
        | Some (headers, [FZ hasraw]) =>
          if negb (ec =? 0) then VSkip else           (* errors are judged by 1702 *)
          match (match skip_go T_STRUCT inb with Some [] => decode_all T_STRUCT inb | _ => None end) with
          | Some (VStruct vals) =>
            if negb (wf (VStruct vals)) then VSkip else
            let o := opts_of bits in
            (* HTTPMappings() in the order the code has today (finding 1714) *)
            match coded_resp 1 o (reorder_fields 8 flds) vals resp0 with
            | None => VSkip
            | Some rs =>
              vand (expect 1 (cookies_same (rs_cookies rs) cookies) (flat_map (fun c => [FB (fst c); FB (snd c)]) (rs_cookies rs)))
             (vand (expect 2 (forallb (fun h => negb (text_known (snd h)) || zlist_eqb (snd h) (assoc (fst h) headers)) (rs_header rs))
                             (flat_map (fun c => [FB (fst c); FB (snd c)]) (rs_header rs)))
             (vand (expect 3 (match rs_status rs with Some c => status =? c | None => status =? 0 end) [FZ (match rs_status rs with Some c => c | None => 0 end)])
                   (expect 4 (Bool.eqb (match rs_body rs with Some _ => true | None => false end) (negb (hasraw =? 0))) [])))
            end
          | _ => VSkip
          end
        | _ => VBad 98 []
        end
      | _ => VBad 97 []
      end
    | _ => VBad 96 []
    end
  | _ => VBad 99 []
  end.
