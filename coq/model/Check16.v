(* Correspondence checks for C16 (requiredness / defaults / unknown-field options) through
   native j2t (1601), portable j2t (1602), t2j (1603) and generic MarshalTo (1604). *)
From Coq Require Import ZArith List Bool.
From DG Require Import CaseFormat ProtoWireRef ThriftWire ThriftEdit ThriftEnvelope ThriftCut Requireness.
Import ListNotations.
Local Open Scope Z_scope.

(* field of the abstract struct table: requiredness, thrift type code (2 bool, 8 i32, 10 i64, 11 string, 12 struct,
   13 map<string,i32>, 15 list<i32>), sub struct index, declared IDL default (thrift binary + JSON text), name, alias *)
Record cfld := { c_id : Z; c_req : Z; c_ty : Z; c_sub : Z; c_hasdef : bool; c_defbin : list Z; c_defjson : list Z;
                 c_name : list Z; c_alias : list Z; c_lit : option dlit;   (* c_lit: the declared default as the IDL literal *)
                 c_http : list Z }.    (* name of the http header the field is mapped to by api.header ([] = not mapped) *)
Definition cdefs : Type := list (list cfld).
Definition to_fld (c : cfld) : fld := {| f_id := c_id c; f_req := c_req c; f_hasdef := c_hasdef c |}.
Definition cstruct (d : cdefs) (i : Z) : option (list cfld) := if i <? 0 then None else nth_error d (Z.to_nat i).
Definition cfind (id : Z) (fs : list cfld) : option cfld := find (fun f => c_id f =? id) fs.

(* members of the input, in input order *)
Inductive pnode := PNull (id : Z) | PVal (id : Z) (bin json : list Z) | PSub (id : Z) (kids : list pnode) | PUnknown.

Fixpoint parse_cflds (n : nat) (fs : list field) : option (list cfld * list field) :=
  match n with
  | O => Some ([], fs)
  | S n' =>
    match fs with
    | FZ id :: FZ req :: FZ t :: FZ sub :: FZ hd :: FB db :: FB dj :: FB nm :: FB al :: FZ lk :: FZ lz :: FB ls :: FB hh :: r =>
      match parse_cflds n' r with
      | Some (l, r') => Some ({| c_id := id; c_req := req; c_ty := t; c_sub := sub; c_hasdef := negb (hd =? 0);
                                c_defbin := db; c_defjson := dj; c_name := nm; c_alias := al;
                                c_lit := if lk =? 1 then Some (DInt lz) else if lk =? 2 then Some (DDouble lz)
                                         else if lk =? 3 then Some (DStr ls) else if lk =? 4 then Some (DBool (negb (lz =? 0))) else None;
                                c_http := hh |} :: l, r')
      | None => None
      end
    | _ => None
    end
  end.

Fixpoint parse_cstructs (n : nat) (fs : list field) : option (cdefs * list field) :=
  match n with
  | O => Some ([], fs)
  | S n' =>
    match fs with
    | FZ nf :: r =>
      if (nf <? 0) || (nf >? 1000) then None else
      match parse_cflds (Z.to_nat nf) r with
      | Some (l, r') => match parse_cstructs n' r' with Some (d, r'') => Some (l :: d, r'') | None => None end
      | None => None
      end
    | _ => None
    end
  end.

Definition parse_cdefs (fs : list field) : option (cdefs * list field) :=
  match fs with
  | FZ n :: r => if (n <? 0) || (n >? 1000) then None else parse_cstructs (Z.to_nat n) r
  | _ => None
  end.

(* member list: count, then per member: id (-1 unknown), state (1 null, 2 scalar value: bin json, 3 struct: nested list) *)
Fixpoint parse_members (fuel : nat) (n : nat) (fs : list field) {struct fuel} : option (list pnode * list field) :=
  match fuel with
  | O => None
  | S f =>
    match n with
    | O => Some ([], fs)
    | S n' =>
      let k (nd : pnode) (r : list field) := match parse_members f n' r with Some (l, r') => Some (nd :: l, r') | None => None end in
      match fs with
      | FZ id :: FZ 1 :: r => k (PNull id) r
      | FZ id :: FZ 2 :: FB b :: FB j :: r => if id <? 0 then k PUnknown r else k (PVal id b j) r
      | FZ id :: FZ 3 :: FZ m :: r =>
        if (m <? 0) || (m >? 1000) then None else
        match parse_members f (Z.to_nat m) r with
        | Some (kids, r') => k (PSub id kids) r'
        | None => None
        end
      | _ => None
      end
    end
  end.

(* ---- the expected content of one output struct ---- *)
Inductive vsrc := SGiven (bin json : list Z) | SDefault | SZero.
Inductive onode := OVal (f : cfld) (s : vsrc) | OSub (f : cfld) (kids : list onode).
Inductive eres (A : Type) := EOk (a : A) | EErr (c : Z).      (* 1 unknown field, 3 missing required, 99 malformed case *)
Arguments EOk {A} _. Arguments EErr {A} _.

Definition insert_cfld (f : cfld) (l : list cfld) : list cfld :=
  (fix go (l : list cfld) := match l with [] => [f] | g :: r => if c_id f <? c_id g then f :: l else g :: go r end) l.
Definition sort_cflds (l : list cfld) : list cfld := fold_right insert_cfld [] l.

Section Expect.
  Variable d : cdefs.
  Variable disallow : bool.
  Variable decide : cfld -> action.           (* for a tracked field that was not seen *)
  Variable is_tracked : cfld -> bool.
  Variable null_seen : cfld -> bool.          (* does a null member count as "seen" (bit cleared)? *)

  Fixpoint fills (fs : list cfld) (seen : list Z) : eres (list onode) :=
    match fs with
    | [] => EOk []
    | f :: r =>
      if mem_id (c_id f) seen || negb (is_tracked f) then fills r seen
      else match decide f with
           | AMissing => EErr 3
           | ASkip => fills r seen
           | AWriteDefault => match fills r seen with EOk l => EOk (OVal f SDefault :: l) | e => e end
           | AWriteZero => match fills r seen with EOk l => EOk (OVal f SZero :: l) | e => e end
           end
    end.

  Fixpoint expect16 (fuel : nat) (si : Z) (ms : list pnode) {struct fuel} : eres (list onode) :=
    match fuel with
    | O => EErr 99
    | S fu =>
      match cstruct d si with
      | None => EErr 99
      | Some fs =>
        (fix walk (ms : list pnode) (seen : list Z) : eres (list onode) :=
           match ms with
           | [] => fills (sort_cflds fs) seen
           | PUnknown :: r => if disallow then EErr 1 else walk r seen
           | PNull id :: r =>
             match cfind id fs with
             | None => EErr 99
             | Some f => walk r (if null_seen f then id :: seen else seen)
             end
           | PVal id b j :: r =>
             match cfind id fs with
             | None => EErr 99
             | Some f => match walk r (id :: seen) with EOk l => EOk (OVal f (SGiven b j) :: l) | e => e end
             end
           | PSub id kids :: r =>
             match cfind id fs with
             | None => EErr 99
             | Some f =>
               match expect16 fu (c_sub f) kids with
               | EErr c => EErr c
               | EOk ks => match walk r (id :: seen) with EOk l => EOk (OSub f ks :: l) | e => e end
               end
             end
           end) ms []
      end
    end.
End Expect.

(* ---- rendering as a Thrift value ---- *)
Definition cty (f : cfld) : ty :=
  if c_ty f =? T_STRUCT then TStruct (c_sub f)
  else if c_ty f =? T_LIST then TList (TScalar T_I32)
  else if c_ty f =? T_MAP then TMap (TScalar T_STRING) (TScalar T_I32)
  else TScalar (c_ty f).

Fixpoint render_t (n : onode) : option (Z * tval) :=
  match n with
  | OVal f (SGiven b _) => match decode_all (c_ty f) b with Some v => Some (c_id f, v) | None => None end
  | OVal f SDefault =>
    (* the declared default as a value of the field's own type (Requireness.lit_value); the bytes the harness computed for
       it independently must be the model's mirror of makeDefaultValue (Requireness.make_default_bytes) *)
    match c_lit f with
    | Some l =>
      match lit_value (c_ty f) l, make_default_bytes (c_ty f) l with
      | Some v, Some bs => if bytes_eqb bs (c_defbin f) then Some (c_id f, v) else None
      | _, _ => None
      end
    | None => None
    end
  | OVal f SZero => match zero_of (cty f) with Some v => Some (c_id f, v) | None => None end
  | OSub f kids =>
    match (fix go (l : list onode) : option (list (Z * tval)) :=
             match l with
             | [] => Some []
             | k :: r => match render_t k, go r with Some x, Some xs => Some (x :: xs) | _, _ => None end
             end) kids with
    | Some l => Some (c_id f, VStruct l)
    | None => None
    end
  end.
Definition render_struct (l : list onode) : option tval :=
  match render_t (OSub {| c_id := 0; c_req := 0; c_ty := T_STRUCT; c_sub := 0; c_hasdef := false; c_defbin := []; c_defjson := [];
                          c_name := []; c_alias := []; c_lit := None; c_http := [] |} l) with
  | Some (_, v) => Some v
  | None => None
  end.

(* observation of a thrift-producing engine against an expectation *)
Definition t_match (e : eres (list onode)) (err : Z) (out : list Z) : option bool :=
  match e with
  | EErr 99 => None
  | EErr c => Some (err =? c)
  | EOk l =>
    match render_struct l with
    | None => None
    | Some v => Some ((err =? 0) && match decode_all T_STRUCT out with Some w => tval_eqb (canon w) (canon v) | None => false end)
    end
  end.

Definition popts_of (bits : Z) : popts := {| p_opt_bitmap := Z.testbit bits 0; p_use_default := Z.testbit bits 1 |}.
Definition wopts_of (bits : Z) : wopts :=
  {| w_require := Z.testbit bits 0; w_default := Z.testbit bits 1; w_optional := Z.testbit bits 2; w_disallow_unknown := Z.testbit bits 3 |}.

Definition is_opt (f : cfld) : bool := c_req f =? 2.
Definition is_req (f : cfld) : bool := c_req f =? 1.

(* shared front end: defs, root, parse bits, write bits, members, err, out *)
Definition with_case (fs : list field)
    (k : cdefs -> Z -> popts -> wopts -> list pnode -> Z -> list Z -> list field -> verdict) : verdict :=
  match parse_cdefs fs with
  | Some (d, FZ root :: FZ pb :: FZ wb :: FZ n :: r) =>
    if (n <? 0) || (n >? 1000) then VBad 99 [] else
    match parse_members (S (length r)) (Z.to_nat n) r with
    | Some (ms, FZ err :: FB out :: rest) => k d root (popts_of pb) (wopts_of wb) ms err out rest
    | _ => VBad 99 []
    end
  | _ => VBad 99 []
  end.

Definition verdict_of (m : option bool) (otherwise : verdict) : verdict :=
  match m with Some true => VOk | Some false => otherwise | None => VBad 99 [] end.
Definition is_true (m : option bool) : bool := match m with Some true => true | _ => false end.

Definition detail_of (e : eres (list onode)) : list field :=
  match e with
  | EErr c => [FZ c]
  | EOk l => match render_struct l with Some v => [FZ 0; FB (encode (canon v))] | None => [FZ 0] end
  end.

(* 1601 native j2t / 1602 portable j2t.
   spec: a null member is an absent member; the rule decides.
   both engines: an absent tracked OPTIONAL field is filled only under WriteOptionalField - a parsed default alone is not
                  enough (native: j2t_write_unset_fields; portable: HandleRequires calls the handler, writeStringValue
                  drops it): finding 1623 (t2j does fill it, as the property says).
   native engine: null of an optional field clears its bit (never filled) - the property is silent: drift.
   portable engine: null of ANY field clears its bit - for a required field that hides the missing-required error
                  (finding 1621); for the others the property is silent (drift). *)
Definition check_j2t (native : bool) (fs : list field) : verdict :=
  with_case fs (fun d root p w ms err out _ =>
    let fuel := 64%nat in
    let trk := fun f => tracked p (to_fld f) in
    let r_spec := fun f => rule p w (to_fld f) in
    let r_eng := fun f => native_decision p w (to_fld f) in
    let dis := w_disallow_unknown w in
    let none := fun _ : cfld => false in
    let soft := if native then is_opt else (fun f => negb (is_req f)) in       (* null handling the property leaves open *)
    let spec := expect16 d dis r_spec trk none fuel root ms in
    if is_true (t_match spec err out) then VOk
    else if is_true (t_match (expect16 d dis r_spec trk soft fuel root ms) err out) then VDrift (if native then 11 else 12)
    else if is_true (t_match (expect16 d dis r_spec trk is_opt fuel root ms) err out) then VDrift 13
    else if is_true (t_match (expect16 d dis r_eng trk none fuel root ms) err out) then VKnown 1623
    else if is_true (t_match (expect16 d dis r_eng trk soft fuel root ms) err out) then VKnown 1623
    else if is_true (t_match (expect16 d dis r_eng trk is_opt fuel root ms) err out) then VKnown 1623
    else if negb native && is_true (t_match (expect16 d dis r_spec trk (fun _ => true) fuel root ms) err out) then VKnown 1621
    else if negb native && is_true (t_match (expect16 d dis r_eng trk (fun _ => true) fuel root ms) err out) then VKnown 1621
    else verdict_of (t_match spec err out) (VBad 1 (detail_of spec))).

Definition check_1601 (fs : list field) : verdict := check_j2t true fs.
Definition check_1602 (fs : list field) : verdict := check_j2t false fs.

(* 1604 generic MarshalTo with the same (separately parsed) descriptor on both sides; write bits: 0 NotCheckRequireNess,
   1 WriteDefault, 3 DisallowUnknow. spec: the value written is the parsed IDL default when there is one (property:
   "cutting applies the same rules"); the code always writes the zero value (finding 1624) *)
Definition check_1604 (fs : list field) : verdict :=
  with_case fs (fun d root p w ms err out _ =>
    let fuel := 64%nat in
    let notcheck := w_require w in
    let trk := fun f => negb notcheck && tracked p (to_fld f) in
    let code := fun f => check_requires_decision (w_default w) (to_fld f) in
    let spec_d := fun f => match code f with AWriteZero => write_action p (to_fld f) | a => a end in
    let spec := expect16 d (w_disallow_unknown w) spec_d trk (fun _ => false) fuel root ms in
    if is_true (t_match spec err out) then VOk else
    let b := expect16 d (w_disallow_unknown w) code trk (fun _ => false) fuel root ms in
    if is_true (t_match b err out) then VKnown 1624
    else verdict_of (t_match spec err out) (VBad 1 (detail_of spec))).

(* ---- t2j: the output JSON as a member tree, produced by Go's encoding/json from t2j's output ---- *)
Inductive jt := JRaw (txt : list Z) | JObj (ms : list (list Z * jt)).

(* tokens: object := count, then per member: name, kind (0 raw text follows, 1 object follows) *)
Fixpoint parse_jobj (fuel : nat) (n : nat) (fs : list field) {struct fuel} : option (list (list Z * jt) * list field) :=
  match fuel with
  | O => None
  | S f =>
    match n with
    | O => Some ([], fs)
    | S n' =>
      match fs with
      | FB nm :: FZ 0 :: FB txt :: r =>
        match parse_jobj f n' r with Some (l, r') => Some ((nm, JRaw txt) :: l, r') | None => None end
      | FB nm :: FZ 1 :: FZ m :: r =>
        if (m <? 0) || (m >? 1000) then None else
        match parse_jobj f (Z.to_nat m) r with
        | Some (kids, r') => match parse_jobj f n' r' with Some (l, r'') => Some ((nm, JObj kids) :: l, r'') | None => None end
        | None => None
        end
      | _ => None
      end
    end
  end.

Definition zero_json (f : cfld) : list Z :=
  if c_ty f =? T_BOOL then [102; 97; 108; 115; 101]              (* false *)
  else if c_ty f =? T_STRING then [34; 34]                        (* "" *)
  else if c_ty f =? T_LIST then [91; 93]                          (* [] *)
  else if (c_ty f =? T_MAP) || (c_ty f =? T_STRUCT) then [123; 125]   (* {} *)
  else [48].                                                      (* 0 *)

(* by_name = true: absent fields are emitted under Name() (what handleUnsets does); false: under Alias() like present ones *)
Fixpoint render_j (by_name : bool) (n : onode) : list Z * jt :=
  match n with
  | OVal f (SGiven _ j) => (c_alias f, JRaw j)
  | OVal f SDefault => ((if by_name then c_name f else c_alias f), JRaw (c_defjson f))
  | OVal f SZero => ((if by_name then c_name f else c_alias f), if c_ty f =? T_STRUCT then JObj [] else JRaw (zero_json f))
  | OSub f kids => (c_alias f, JObj (map (render_j by_name) kids))
  end.

(* with EnableHttpMapping and a response setter: a field mapped to a header is delivered there - the present value as text, or
   the default / zero value when the rule fills it - and does not appear in the body *)
Definition is_mapped (n : onode) : bool := match n with OVal f _ => negb (bytes_eqb (c_http f) []) | OSub _ _ => false end.
(* [lvl]: number of struct levels that still see the response setter. t2j hands it to the top-level struct and to the structs
   that are its direct members; the fields of deeper structs are converted without it (doRecurse is called with resp = nil) *)
Fixpoint render_jh (lvl : nat) (by_name : bool) (n : onode) : list Z * jt :=
  match n with
  | OSub f kids =>
    (c_alias f, JObj ((fix go (l : list onode) : list (list Z * jt) :=
                         match l with
                         | [] => []
                         | k :: r => if (0 <? lvl)%nat && is_mapped k then go r else render_jh (pred lvl) by_name k :: go r
                         end) kids))
  | _ => render_j by_name n
  end.
Definition body_of (http by_name : bool) (l : list onode) : jt :=
  JObj (map (render_jh (if http then 1 else 0) by_name) (filter (fun k => negb (http && is_mapped k)) l)).
Definition unquote_txt (t : list Z) : list Z := match t with 34 :: r => removelast r | _ => t end.
Definition hdr_text (f : cfld) (s : vsrc) : list Z :=
  let t := match s with SGiven _ j => j | SDefault => c_defjson f | SZero => zero_json f end in
  if c_ty f =? T_STRING then unquote_txt t else t.
Fixpoint headers_of (lvl : nat) (n : onode) : list (list Z * list Z) :=
  match n with
  | OVal f s => if bytes_eqb (c_http f) [] || (lvl =? 0)%nat then [] else [(c_http f, hdr_text f s)]
  | OSub _ kids => (fix go (l : list onode) : list (list Z * list Z) := match l with [] => [] | k :: r => headers_of (pred lvl) k ++ go r end) kids
  end.
Definition hdrs_eqb (exp act : list (list Z * list Z)) : bool :=
  (length exp =? length act)%nat &&
  forallb (fun e => match find (fun a => bytes_eqb (fst a) (fst e)) act with Some a => bytes_eqb (snd a) (snd e) | None => false end) exp.

Fixpoint jt_eqb (fuel : nat) (a b : jt) {struct fuel} : bool :=
  match fuel with
  | O => false
  | S f =>
    match a, b with
    | JRaw x, JRaw y => bytes_eqb x y
    | JObj xs, JObj ys =>
      (length xs =? length ys)%nat &&
      forallb (fun x => match find (fun y => bytes_eqb (fst y) (fst x)) ys with Some y => jt_eqb f (snd x) (snd y) | None => false end) xs
    | _, _ => false
    end
  end.

Definition j_match (by_name : bool) (e : eres (list onode)) (err : Z) (actual : option jt) : option bool :=
  match e with
  | EErr 99 => None
  | EErr c => Some (err =? c)
  | EOk l => Some ((err =? 0) && match actual with Some a => jt_eqb 64 (JObj (map (render_j by_name) l)) a | None => false end)
  end.

Fixpoint parse_hdrs (n : nat) (fs : list field) : option (list (list Z * list Z)) :=
  match n, fs with
  | O, [] => Some []
  | S n', FB k :: FB v :: r => match parse_hdrs n' r with Some l => Some ((k, v) :: l) | None => None end
  | _, _ => None
  end.

Definition jh_match (http by_name : bool) (e : eres (list onode)) (err : Z) (actual : option (jt * list (list Z * list Z))) : option bool :=
  match e with
  | EErr 99 => None
  | EErr c => Some (err =? c)
  | EOk l => Some ((err =? 0) && match actual with
                                 | Some (a, hs) => jt_eqb 64 (body_of http by_name l) a &&
                                                   hdrs_eqb (if http then flat_map (headers_of 2) l else []) hs
                                 | None => false end)
  end.

(* 1603: t2j. write bit 4 = EnableHttpMapping with a recording response setter in the context. After err/out (out = raw JSON text,
   informational) come the tokens of the parsed output: ok flag, count, members; then the headers the setter received: count, name,
   value *)
Definition check_1603 (fs : list field) : verdict :=
  with_case fs (fun d root p w ms err out rest =>
    let fuel := 64%nat in
    let http := false in
    let actual := match rest with
                  | FZ hb :: FZ 1 :: FZ n :: r => if (n <? 0) || (n >? 1000) then None else
                      match parse_jobj (S (length r)) (Z.to_nat n) r with
                      | Some (l, FZ hn :: r') => if (hn <? 0) || (hn >? 1000) then None else
                          match parse_hdrs (Z.to_nat hn) r' with Some hs => Some (JObj l, hs) | None => None end
                      | _ => None
                      end
                  | _ => None
                  end in
    let http := match rest with FZ hb :: _ => negb (hb =? 0) | _ => false end in
    let trk := fun f => tracked p (to_fld f) in
    let spec := expect16 d (w_disallow_unknown w) (fun f => rule p w (to_fld f)) trk (fun _ => false) fuel root ms in
    if is_true (jh_match http false spec err actual) then VOk
    else if is_true (jh_match http true spec err actual) then VKnown 1622
    else match jh_match http false spec err actual with
         | None => VBad 99 []
         | _ => VBad 1 (match spec with EErr c => [FZ c] | EOk _ => [FZ 0] end)
         end).

(* 1605: descriptor immutability. fields: table, struct index, parse bits, the words of StructDescriptor.Requires() when the
   descriptor was built, and again after the conversions that used it. Both must be the pristine bitmap the model derives from the
   IDL (Requireness.desc_bitmap: convertRequireness applied field by field; bitmap_refines_set describes it) *)
Fixpoint parse_words (n : nat) (fs : list field) : option (list Z * list field) :=
  match n with
  | O => Some ([], fs)
  | S n' => match fs with FZ w :: r => match parse_words n' r with Some (l, r') => Some (w :: l, r') | None => None end | _ => None end
  end.
Definition check_1605 (fs : list field) : verdict :=
  match parse_cdefs fs with
  | Some (d, FZ si :: FZ pb :: FZ nb :: r) =>
    if (nb <? 0) || (nb >? 10000) then VBad 99 [] else
    match parse_words (Z.to_nat nb) r with
    | Some (before, FZ na :: r') =>
      if (na <? 0) || (na >? 10000) then VBad 99 [] else
      match parse_words (Z.to_nat na) r', cstruct d si with
      | Some (after, []), Some cs =>
        let model := words (desc_bitmap (popts_of pb) (map to_fld cs)) in
        vand (expect 1 (list_eqb Z.eqb before model) (map FZ model)) (expect 2 (list_eqb Z.eqb after model) (map FZ model))
      | _, _ => VBad 99 []
      end
    | _ => VBad 99 []
    end
  | _ => VBad 99 []
  end.

(* 1606 (native build) / 1607 (portable copy): j2t with EnableHttpMapping and an EMPTY body; the members are the fields the request
   headers supply. An empty text is not a JSON document: it is outside the input domain of the property, and the empty-body branch
   of BinaryConv.do (conv/j2t/impl.go) is a deliberate http-specific path (http-mapping semantics, C17). The request is run only to
   expose what it does to SHARED state (descriptor bitmaps: check 1605 and the conversions that follow); its own output is judged
   by the AS-CODED mirror of the branch: for a field mapped to a header the write options decide (the bitmap is not consulted); the
   other fields go through HandleRequires with ReadHttpValueFallback (off here) in place of all three write options; a missing
   required field is ErrNotFound / ErrWrite. Where the mirror differs from the rule the verdict is drift 16 (counted, never an alarm). *)
Definition empty_body_decision (p : popts) (w : wopts) (f : cfld) : action :=
  if negb (bytes_eqb (c_http f) []) then
    (if c_req f =? 1 then (if w_require w then write_action p (to_fld f) else AMissing)
     else if c_req f =? 0 then (if w_default w then write_action p (to_fld f) else ASkip)
     else (if w_optional w then write_action p (to_fld f) else ASkip))
  else if negb (tracked p (to_fld f)) then ASkip
  else if c_req f =? 1 then AMissing
  else if (c_req f =? 2) && parsed_default p (to_fld f) && w_optional w then write_action p (to_fld f)
  else ASkip.
Definition check_j2t_empty (fs : list field) : verdict :=
  with_case fs (fun d root p w ms err out _ =>
    let fuel := 64%nat in
    let none := fun _ : cfld => false in
    let eng := expect16 d (w_disallow_unknown w) (empty_body_decision p w)
                 (fun f => negb (bytes_eqb (c_http f) []) || tracked p (to_fld f)) none fuel root ms in
    let eng_ok := match eng with
                  | EErr 3 => Some (negb (err =? 0) && negb (err =? 9))      (* any error, not a panic *)
                  | e => t_match e err out
                  end in
    match eng_ok with
    | Some true =>
      let spec := expect16 d (w_disallow_unknown w) (fun f => rule p w (to_fld f)) (fun f => tracked p (to_fld f)) none fuel root ms in
      if is_true (t_match spec err out) then VOk else VDrift 16
    | Some false => VBad 1 (detail_of eng)
    | None => VBad 99 []
    end).
Definition check_1606 (fs : list field) : verdict := check_j2t_empty fs.
Definition check_1607 (fs : list field) : verdict := check_j2t_empty fs.
