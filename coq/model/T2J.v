(* Thrift -> JSON (conv/t2j): descriptor shape, the denotation [json_of] of a decoded Thrift value under a
   descriptor and options (spec level, on the AST of ThriftWire.v), expected-JSON trees [jexp] and the
   matching of a parsed JSON document against them.  Model only — proofs are in proofs/T2JProofs.v.

   The spec follows conv/t2j/impl.go (do / doRecurse / buildinTypeToKey) and thrift/annotation/value_mapping.go
   (api.js_conv) for everything the property text leaves to the code:
   members = declared key (alias) of the present known fields in wire order, unknown fields dropped
   (error when DisallowUnknownField), bool = (byte = 1), byte signed unless ByteAsUint8, i64 as a quoted decimal
   under Int642String, double by its bits, string exact, binary as standard base64 unless NoBase64Binary,
   map keys: integers as decimal strings, strings as they are, every other key type is an error,
   list/set as arrays in wire order; at the root: thrift base extraction and ConvertException. *)
From Coq Require Import ZArith List Bool.
From DG Require Import ProtoWireRef ThriftWire Json Num Base64.
Import ListNotations.
Local Open Scope Z_scope.

(* ---- descriptor shape (what the harness prints from its abstract type) ---- *)
Record fmeta := { f_id : Z; f_key : list Z; f_req : Z (* 0 default, 1 required, 2 optional *); f_flags : Z (* bit 0 api.js_conv, bit 1 response base *) }.

Inductive tdesc :=
| DScalar (t : Z)                           (* T_BOOL T_BYTE T_I16 T_I32 T_I64 T_DOUBLE *)
| DString (binary : bool)
| DStruct (fs : list (fmeta * tdesc))
| DMap (k v : tdesc)
| DList (isset : bool) (e : tdesc).

Definition desc_type (d : tdesc) : Z :=
  match d with
  | DScalar t => t | DString _ => T_STRING | DStruct _ => T_STRUCT | DMap _ _ => T_MAP
  | DList s _ => if s then T_SET else T_LIST
  end.

Definition f_jsconv (m : fmeta) : bool := Z.testbit (f_flags m) 0.
Definition f_respbase (m : fmeta) : bool := Z.testbit (f_flags m) 1.

Fixpoint find_field (fs : list (fmeta * tdesc)) (id : Z) : option (fmeta * tdesc) :=
  match fs with
  | [] => None
  | f :: r => if f_id (fst f) =? id then Some f else find_field r id
  end.

(* the declared keys are byte strings *)
Fixpoint desc_ok (d : tdesc) : bool :=
  match d with
  | DStruct fs => forallb (fun f => jbytes_okb (f_key (fst f)) && desc_ok (snd f)) fs
  | DMap k v => desc_ok k && desc_ok v
  | DList _ e => desc_ok e
  | _ => true
  end.

(* ---- options (bit numbers of the case format) ---- *)
Definition o_int642string (o : Z) := Z.testbit o 0.
Definition o_byte_as_uint8 (o : Z) := Z.testbit o 1.
Definition o_no_base64 (o : Z) := Z.testbit o 2.
Definition o_disallow_unknown (o : Z) := Z.testbit o 3.
Definition o_native_skip (o : Z) := Z.testbit o 4.          (* no effect on the denotation *)
Definition o_value_mapping (o : Z) := Z.testbit o 5.
Definition o_thrift_base (o : Z) := Z.testbit o 6.
Definition o_convert_exception (o : Z) := Z.testbit o 7.
Definition o_base_in_ctx (o : Z) := Z.testbit o 8.          (* a *base.BaseResp is present in the context *)

(* ---- conformance: the wire value has the shape the descriptor declares (unknown fields are free) ---- *)
Definition is_num_scalar (t : Z) : bool :=
  (t =? T_BOOL) || (t =? T_BYTE) || (t =? T_I16) || (t =? T_I32) || (t =? T_I64) || (t =? T_DOUBLE).

Fixpoint conforms (v : tval) (d : tdesc) {struct v} : bool :=
  match v, d with
  | VString _, DString _ => true
  | VStruct vs, DStruct fs =>
    forallb (fun iv => match find_field fs (fst iv) with
                       | Some f => conforms (snd iv) (snd f)
                       | None => true
                       end) vs
  | VMap kt vt es, DMap dk dv =>
    (kt =? desc_type dk) && (vt =? desc_type dv) && forallb (fun e => conforms (fst e) dk && conforms (snd e) dv) es
  | VSet et es, DList true de => (et =? desc_type de) && forallb (fun e => conforms e de) es
  | VList et es, DList false de => (et =? desc_type de) && forallb (fun e => conforms e de) es
  | _, DScalar t => is_num_scalar t && (type_of v =? t)
  | _, _ => false
  end.

(* ---- expected JSON ---- *)
Inductive jexp :=
| EBool (b : bool)
| EInt (z : Z)                       (* a number denoting exactly z *)
| EDouble (bits : Z)                 (* a number whose correctly rounded binary64 value has these bits *)
| EStr (s : list Z)                  (* a string denoting exactly these bytes *)
| EQuoted (e : jexp)                 (* a string whose content is a number literal matching e *)
| EStrV (s : list Z)                 (* a string field under api.js_conv: denotes exactly these bytes (as EStr) *)
| EByteV (z : Z)                     (* a byte field under api.js_conv: a quoted literal denoting z (as EQuoted (EInt z)) *)
| EArr (xs : list jexp)
| EObj (ms : list (list Z * jexp)).  (* members in this order *)

(* result of a conversion on the model *)
Inductive tres :=
| TOk (e : jexp)
| TExc (e : jexp)                    (* ConvertException: an error whose text is the JSON of the exception field *)
| TErr (cls : Z).                    (* 1 a non-finite double was met before the exception field, 2 unknown field disallowed, 3 unsupported map key type, 4 missing required field, 5 js_conv on an unsupported type *)

Definition E_NONFINITE := 1. Definition E_UNKNOWN := 2. Definition E_KEYTYPE := 3. Definition E_REQUIRED := 4. Definition E_JSCONV := 5.

(* all-or-first-error over a list of results *)
Fixpoint all_ok (l : list tres) : list jexp + Z :=
  match l with
  | [] => inl []
  | TOk e :: r => match all_ok r with inl es => inl (e :: es) | inr c => inr c end
  | TExc _ :: _ => inr 0
  | TErr c :: _ => inr c
  end.

Definition byte_image (o : Z) (z : Z) : Z := if o_byte_as_uint8 o then z mod 256 else z.

(* map key text (buildinTypeToKey) *)
Definition key_of (o : Z) (k : tval) : option (list Z) :=
  match k with
  | VByte z => Some (fmt_int (byte_image o z))
  | VI16 z | VI32 z | VI64 z => Some (fmt_int z)
  | VString s => Some s
  | _ => None
  end.

Fixpoint keyed (ks : list (option (list Z))) (vs : list tres) : list (list Z * jexp) + Z :=
  match ks, vs with
  | [], _ => inl []
  | _, [] => inl []
  | None :: _, _ => inr E_KEYTYPE
  | Some k :: ks', TOk e :: vs' => match keyed ks' vs' with inl ms => inl ((k, e) :: ms) | inr c => inr c end
  | Some _ :: _, TExc _ :: _ => inr 0
  | Some _ :: _, TErr c :: _ => inr c
  end.

(* api.js_conv on one scalar (appendInt): the number as a quoted literal; a string stays the string *)
Definition jsconv_scalar (o : Z) (v : tval) : tres :=
  match v with
  | VByte z => TOk (EByteV (byte_image o z))
  | VI16 z | VI32 z | VI64 z => TOk (EQuoted (EInt z))
  | VDouble b => TOk (EQuoted (EDouble b))
  | VString s => TOk (EStrV s)
  | _ => TErr E_JSCONV
  end.

Definition jsconv (o : Z) (v : tval) : tres :=
  match v with
  | VList _ es => match all_ok (map (jsconv_scalar o) es) with inl xs => TOk (EArr xs) | inr c => TErr c end
  | _ => jsconv_scalar o v
  end.

(* one struct field: dropped (unknown), error, or a member *)
Inductive fres := FDrop | FErr (c : Z) | FMem (k : list Z) (e : jexp).

Fixpoint members_of (l : list fres) : list (list Z * jexp) + Z :=
  match l with
  | [] => inl []
  | FDrop :: r => members_of r
  | FErr c :: _ => inr c
  | FMem k e :: r => match members_of r with inl ms => inl ((k, e) :: ms) | inr c => inr c end
  end.

Definition missing_required (fs : list (fmeta * tdesc)) (present : list Z) : bool :=
  existsb (fun f => (f_req (fst f) =? 1) && negb (existsb (fun id => id =? f_id (fst f)) present)) fs.

(* the denotation of a conforming value (doRecurse) *)
Fixpoint json_of (o : Z) (d : tdesc) (v : tval) {struct v} : tres :=
  match v with
  | VBool b => TOk (EBool (b =? 1))
  | VByte z => TOk (EInt (byte_image o z))
  | VI16 z | VI32 z => TOk (EInt z)
  | VI64 z => TOk (if o_int642string o then EQuoted (EInt z) else EInt z)
  | VDouble b => TOk (EDouble b)
  | VString s =>
    match d with
    | DString true => TOk (EStr (if o_no_base64 o then s else b64_encode s))
    | _ => TOk (EStr s)
    end
  | VStruct vs =>
    match d with
    | DStruct fs =>
      match members_of (map (fun iv =>
                match find_field fs (fst iv) with
                | None => if o_disallow_unknown o then FErr E_UNKNOWN else FDrop
                | Some f =>
                  match (if o_value_mapping o && f_jsconv (fst f) then jsconv o (snd iv) else json_of o (snd f) (snd iv)) with
                  | TOk e => FMem (f_key (fst f)) e
                  | TExc _ => FErr 0
                  | TErr c => FErr c
                  end
                end) vs) with
      | inr c => TErr c
      | inl ms => if missing_required fs (map fst vs) then TErr E_REQUIRED else TOk (EObj ms)
      end
    | _ => TErr 0
    end
  | VMap _ _ es =>
    match d with
    | DMap dk dv =>
      match keyed (map (fun e => key_of o (fst e)) es) (map (fun e => json_of o dv (snd e)) es) with
      | inl ms => TOk (EObj ms)
      | inr c => TErr c
      end
    | _ => TErr 0
    end
  | VSet _ es | VList _ es =>
    match d with
    | DList _ de => match all_ok (map (json_of o de) es) with inl xs => TOk (EArr xs) | inr c => TErr c end
    | _ => TErr 0
    end
  end.

(* no NaN / Inf anywhere: the tree has a JSON spelling *)
Fixpoint jexp_finite (e : jexp) : bool :=
  match e with
  | EDouble b => f64_is_finite b
  | EQuoted e' => jexp_finite e'
  | EArr xs => forallb jexp_finite xs
  | EObj ms => forallb (fun m => jexp_finite (snd m)) ms
  | _ => true
  end.

(* ---- the root (do): thrift base extraction and ConvertException on top of the member walk ---- *)
Definition field_value (o : Z) (f : fmeta * tdesc) (x : tval) : tres :=
  if o_value_mapping o && f_jsconv (fst f) then jsconv o x else json_of o (snd f) x.

(* walk of the root struct in wire order; acc = members so far (reversed), seen = ids of the known fields met so far,
   base = the extracted response base.  Returns (result, base). *)
Fixpoint root_walk (o : Z) (fs : list (fmeta * tdesc)) (vs : list (Z * tval))
                   (acc : list (list Z * jexp)) (seen : list Z) (bs : option tval) : tres * option tval :=
  match vs with
  | [] => (if missing_required fs seen then TErr E_REQUIRED else TOk (EObj (rev acc)), bs)
  | (id, x) :: r =>
    match find_field fs id with
    | None => if o_disallow_unknown o then (TErr E_UNKNOWN, bs) else root_walk o fs r acc seen bs
    | Some f =>
      if o_thrift_base o && o_base_in_ctx o && f_respbase (fst f) then root_walk o fs r acc (id :: seen) (Some x)
      else if o_convert_exception o && negb (id =? 0) then
        match field_value o f x with
        | TOk e => (if negb (forallb (fun m => jexp_finite (snd m)) acc) then TErr E_NONFINITE   (* the members before it had no spelling *)
                    else if missing_required fs (id :: seen) then TErr E_REQUIRED else TExc e, bs)
        | TExc _ => (TErr 0, bs)
        | TErr c => (TErr c, bs)
        end
      else
        match field_value o f x with
        | TOk e => root_walk o fs r ((f_key (fst f), e) :: acc) (id :: seen) bs
        | TExc _ => (TErr 0, bs)
        | TErr c => (TErr c, bs)
        end
    end
  end.

Definition t2j_spec (o : Z) (d : tdesc) (v : tval) : tres * option tval :=
  match d, v with
  | DStruct fs, VStruct vs => root_walk o fs vs [] [] None
  | _, _ => (json_of o d v, None)
  end.

(* ---- properties of expected trees ---- *)
Fixpoint jexp_utf8 (e : jexp) : bool :=
  match e with
  | EStr s | EStrV s => utf8_valid s
  | EArr xs => forallb jexp_utf8 xs
  | EObj ms => forallb (fun m => utf8_valid (fst m) && jexp_utf8 (snd m)) ms
  | _ => true
  end.

Fixpoint jexp_bytes (e : jexp) : bool :=
  match e with
  | EStr s | EStrV s => jbytes_okb s
  | EQuoted e' => jexp_bytes e'
  | EArr xs => forallb jexp_bytes xs
  | EObj ms => forallb (fun m => jbytes_okb (fst m) && jexp_bytes (snd m)) ms
  | _ => true
  end.

(* ---- matching a parsed document against an expected tree (the property's comparison) ---- *)
Definition match_double (bits : Z) (j : json) : bool :=
  f64_is_finite bits &&
  match j with
  | JNum l => lex_is_f64 l bits
  | _ => false
  end.

Definition match_quoted_int (z : Z) (j : json) : bool :=
  match j with JStr s => num_okb s && lex_eq_int s z | _ => false end.

Fixpoint jmatch (e : jexp) (j : json) {struct e} : bool :=
  match e with
  | EBool b => match j with JBool b' => Bool.eqb b b' | _ => false end
  | EInt z => match j with JNum l => lex_eq_int l z | _ => false end
  | EDouble bits => match_double bits j
  | EStr s | EStrV s => match j with JStr s' => zlist_eqb s s' | _ => false end
  | EByteV z => match_quoted_int z j
  | EQuoted e' => match j with JStr s => num_okb s && jmatch e' (JNum s) | _ => false end
  | EArr xs =>
    match j with
    | JArr ys =>
      (fix go (xs : list jexp) (ys : list json) : bool :=
         match xs, ys with
         | [], [] => true
         | x :: xs', y :: ys' => jmatch x y && go xs' ys'
         | _, _ => false
         end) xs ys
    | _ => false
    end
  | EObj ms =>
    match j with
    | JObj ns =>
      (fix go (ms : list (list Z * jexp)) (ns : list (list Z * json)) : bool :=
         match ms, ns with
         | [], [] => true
         | m :: ms', n :: ns' => zlist_eqb (fst m) (fst n) && jmatch (snd m) (snd n) && go ms' ns'
         | _, _ => false
         end) ms ns
    | _ => false
    end
  end.

(* ---- quirk model: the TEXT the recorded defects produce, recognised by a tree-directed matcher ----
   q301: a non-finite double is written as nothing at all (f64toa returns 0 bytes, nil error);
   q302: a string field under api.js_conv is copied between the quotes without escaping;
   q303: a byte field under api.js_conv is printed as uint8 even without ByteAsUint8.
   [qmatch] returns the text remaining after the text of e (no white space: t2j writes none). *)
Definition qnum (p : list Z -> bool) (bs : list Z) : option (list Z) :=
  match scan_num N0 bs with Some (l, r) => if p l then Some r else None | None => None end.

Definition qstr (s : list Z) (bs : list Z) : option (list Z) :=
  match bs with
  | c :: r => if c =? 34 then
                match parse_str (S (length r)) r with
                | Some (s', r') => if zlist_eqb s s' then Some r' else None
                | None => None
                end
              else None
  | [] => None
  end.

Section Quirks.
  Variables q301 q302 q303 : bool.
  Fixpoint qmatch (e : jexp) (bs : list Z) {struct e} : option (list Z) :=
    match e with
    | EBool b => match_lit (if b then lit_true else lit_false) bs
    | EInt z => qnum (fun l => lex_eq_int l z) bs
    | EDouble bits =>
      if f64_is_finite bits then qnum (fun l => lex_is_f64 l bits) bs
      else if q301 then Some bs else None
    | EStr s => qstr s bs
    | EStrV s => if q302 then match_lit (34 :: s ++ [34]) bs else qstr s bs
    | EByteV z =>
      match match_lit [34] bs with
      | Some r => match qnum (fun l => lex_eq_int l (if q303 then z mod 256 else z)) r with Some r2 => match_lit [34] r2 | None => None end
      | None => None
      end
    | EQuoted e' =>
      match match_lit [34] bs with
      | Some r => match qmatch e' r with Some r2 => match_lit [34] r2 | None => None end
      | None => None
      end
    | EArr xs =>
      match match_lit [91] bs with
      | None => None
      | Some r =>
        match xs with
        | [] => match_lit [93] r
        | x :: xs' =>
          match qmatch x r with
          | None => None
          | Some r1 =>
            (fix go (l : list jexp) (bs : list Z) : option (list Z) :=
               match l with
               | [] => match_lit [93] bs
               | y :: l' =>
                 match match_lit [44] bs with
                 | Some b1 => match qmatch y b1 with Some b2 => go l' b2 | None => None end
                 | None => None
                 end
               end) xs' r1
          end
        end
      end
    | EObj ms =>
      match match_lit [123] bs with
      | None => None
      | Some r =>
        match ms with
        | [] => match_lit [125] r
        | m :: ms' =>
          match qstr (fst m) r with
          | None => None
          | Some r0 =>
            match match_lit [58] r0 with
            | None => None
            | Some r0' =>
              match qmatch (snd m) r0' with
              | None => None
              | Some r1 =>
                (fix go (l : list (list Z * jexp)) (bs : list Z) : option (list Z) :=
                   match l with
                   | [] => match_lit [125] bs
                   | y :: l' =>
                     match match_lit [44] bs with
                     | Some b1 =>
                       match qstr (fst y) b1 with
                       | Some b2 =>
                         match match_lit [58] b2 with
                         | Some b3 => match qmatch (snd y) b3 with Some b4 => go l' b4 | None => None end
                         | None => None
                         end
                       | None => None
                       end
                     | None => None
                     end
                   end) ms' r1
              end
            end
          end
        end
      end
    end.
End Quirks.

(* selectors: does the expected tree contain a place where the defect applies? *)
Definition needs_escape (s : list Z) : bool := existsb (fun c => (c <? 32) || (c =? 34) || (c =? 92)) s.
Fixpoint has_raw_string (e : jexp) : bool :=
  match e with
  | EStrV s => needs_escape s
  | EQuoted e' => has_raw_string e'
  | EArr xs => existsb has_raw_string xs
  | EObj ms => existsb (fun m => has_raw_string (snd m)) ms
  | _ => false
  end.
Fixpoint has_neg_bytev (e : jexp) : bool :=
  match e with
  | EByteV z => z <? 0
  | EQuoted e' => has_neg_bytev e'
  | EArr xs => existsb has_neg_bytev xs
  | EObj ms => existsb (fun m => has_neg_bytev (snd m)) ms
  | _ => false
  end.

(* ---- a concrete document for an expected tree (exact decimal for doubles) ----
   every finite binary64 is m * 2^k exactly; for k < 0 that is (m * 5^-k) * 10^k: an exact, if long, decimal *)
Definition f64_exact_lexeme (bits : Z) : list Z :=
  let neg := 2 ^ 63 <=? bits in
  let ex := (bits / 2 ^ 52) mod 2048 in
  let fr := bits mod 2 ^ 52 in
  let m := if ex =? 0 then fr else fr + 2 ^ 52 in
  let k := (if ex =? 0 then 1 else ex) - 1075 in
  (if neg then [45] else []) ++
  (if m =? 0 then [48]
   else if 0 <=? k then fmt_nat (m * 2 ^ k)
   else fmt_nat (m * 5 ^ (- k)) ++ 101 :: fmt_int k).

Fixpoint to_json (e : jexp) : json :=
  match e with
  | EBool b => JBool b
  | EInt z => JNum (fmt_int z)
  | EDouble b => JNum (f64_exact_lexeme b)
  | EStr s | EStrV s => JStr s
  | EByteV z => JStr (fmt_int z)
  | EQuoted e' => match to_json e' with JNum l => JStr l | j => j end
  | EArr xs => JArr (map to_json xs)
  | EObj ms => JObj (map (fun m => (fst m, to_json (snd m))) ms)
  end.

(* the model's conversion as text *)
Definition t2j_text (o : Z) (d : tdesc) (v : tval) : option (list Z) :=
  match fst (t2j_spec o d v) with
  | TOk e => if jexp_finite e then Some (json_print (to_json e)) else None
  | _ => None
  end.
