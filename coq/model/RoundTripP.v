(* C13, Protobuf half — the round trip on the two SPECS: P2J.pjson_of (message -> document) then J2P.pdenote (document -> message).
   Both use the schema and the message AST of ProtoMsg.v, so no descriptor translation is needed.
   The denotation of j2p packs every numeric repeated field (whatever the schema says): the message that comes back is the
   original up to that wire-form detail, [p_norm].  Domain [p_dom] (beyond ProtoMsg.wf_fld): floats / doubles finite and not -0.0
   (J2P.v leaves the reading of a negative zero open), strings and string keys valid UTF-8 byte strings, bytes byte strings,
   map key kinds with a JSON reading on both sides (int32 int64 uint32 uint64 bool string).
   Model only — proofs are in proofs/RoundTripPProofs.v. *)
From Coq Require Import ZArith List Bool.
From DG Require Import CaseFormat ProtoWireRef ProtoMsg Json Num Base64 P2J J2P.
Import ListNotations.
Local Open Scope Z_scope.

Definition p_norm_packed (vs : list pval) : bool := match vs with VScalar _ _ :: _ => true | _ => false end.
Fixpoint p_norm (v : pval) : pval :=
  match v with
  | VMsg fs => VMsg (map (fun nv => (fst nv, p_norm (snd nv))) fs)
  | VList _ vs => VList (p_norm_packed vs) (map p_norm vs)
  | VMap kvs => VMap (map (fun kx => (fst kx, p_norm (snd kx))) kvs)
  | _ => v
  end.
Definition m_norm (m : pmsg) : pmsg := map (fun nv => (fst nv, p_norm (snd nv))) m.

Definition rt_key_kind (kk : Z) : bool := (kk =? 5) || (kk =? 3) || (kk =? 13) || (kk =? 4) || (kk =? 8) || (kk =? 9).

Definition float_dom (k v : Z) : bool :=
  if k =? K_DOUBLE then f64_is_finite v && negb (v =? 2 ^ 63)
  else if k =? K_FLOAT then f32_is_finite v && negb (v =? 2 ^ 31)
  else true.

Definition key_dom (k : mkey) : bool := match k with KStr s => utf8_valid s && jbytes_okb s | KInt _ _ => true end.

Fixpoint p_dom (S : schema) (lbl : flabel) (t : ftype) (v : pval) {struct v} : bool :=
  match lbl with
  | LSingular =>
    match v with
    | VScalar k x => float_dom k x
    | VBytes k b => if k =? K_STRING then utf8_valid b && jbytes_okb b else jbytes_okb b
    | VMsg fs =>
      match t with
      | TMsg name =>
        match find_msg S name with
        | Some md => forallb (fun nv => match find_field md (fst nv) with
                                        | Some fd => p_dom S (fd_label fd) (fd_type fd) (snd nv)
                                        | None => false
                                        end) fs
        | None => false
        end
      | TScalar _ => false
      end
    | _ => false
    end
  | LRepeated _ => match v with VList _ vs => forallb (fun x => p_dom S LSingular t x) vs | _ => false end
  | LMap kk =>
    match v with
    | VMap kvs => rt_key_kind kk && forallb (fun kx => key_dom (fst kx) && p_dom S LSingular t (snd kx)) kvs
    | _ => false
    end
  end.

(* the schema's JSON names select their own field (no field is shadowed by the name / JSON name of an earlier one) *)
Definition schema_names_ok (S : schema) : Prop :=
  forall md fd, In md S -> In fd (md_fields md) -> find_field_name md (fd_json fd) = Some fd.
Definition schema_names_okb (S : schema) : bool :=
  forallb (fun md => forallb (fun fd => match find_field_name md (fd_json fd) with
                                        | Some fd' => (fd_num fd' =? fd_num fd) && bytes_eqb (fd_name fd') (fd_name fd)
                                        | None => false
                                        end) (md_fields md)) S.

(* the formatter contracts for the exact-decimal printer of P2J.v *)
Definition not_negzero (d : bool * Z * Z) : bool := let '(neg, m, e) := d in negb (neg && (m =? 0)).
Definition f64_lex_contract : Prop :=
  forall b, 0 <= b < 2 ^ 64 -> f64_is_finite b = true -> b <> 2 ^ 63 ->
  exists d, lex_decimal (f64_lex b) = Some d /\ dec2f64 d = b /\ not_negzero d = true.
Definition f32_lex_contract : Prop :=
  forall x, 0 <= x < 2 ^ 32 -> f32_is_finite x = true -> x <> 2 ^ 31 ->
  f64_is_finite (widen32 x) = true /\
  exists d, lex_decimal (f64_lex (widen32 x)) = Some d /\ dec2f32 d = x /\ not_negzero d = true.
