(* Primitives used by the definitions that go2coq generates from the Go source.
   No proofs here (they live in proofs/GoSemLemmas.v). *)
From Coq Require Import ZArith List Bool.
Import ListNotations.
Local Open Scope Z_scope.

(* fixed-width wrap-around: unsigned k bits / signed (two's complement) k bits *)
Definition wrapu (k : Z) (x : Z) : Z := x mod 2 ^ k.
Definition wraps (k : Z) (x : Z) : Z := (x + 2 ^ (k - 1)) mod 2 ^ k - 2 ^ (k - 1).

(* byte slices and strings *)
Definition blen (b : list Z) : Z := Z.of_nat (length b).
Definition idx (b : list Z) (i : Z) : Z := nth (Z.to_nat i) b 0.
Definition slice_from (b : list Z) (i : Z) : list Z := skipn (Z.to_nat i) b.
Definition slice_to (b : list Z) (n : Z) : list Z := firstn (Z.to_nat n) b.
Definition slice_range (b : list Z) (i j : Z) : list Z := firstn (Z.to_nat (j - i)) (skipn (Z.to_nat i) b).

(* [lo; lo+1; ...; hi-1] *)
Definition seqZ (lo hi : Z) : list Z := map (fun n => lo + Z.of_nat n) (seq 0 (Z.to_nat (hi - lo))).

(* math/bits.Len64: number of bits needed to represent x (0 for 0) *)
Definition bits_Len64 (x : Z) : Z := if x <=? 0 then 0 else Z.log2 x + 1.

(* big/little endian reads of n bytes *)
Fixpoint be_acc (n : nat) (b : list Z) (acc : Z) : Z :=
  match n with O => acc | S n' => match b with [] => be_acc n' [] (acc * 256) | x :: r => be_acc n' r (acc * 256 + x) end end.
Definition be_get (n : Z) (b : list Z) : Z := be_acc (Z.to_nat n) b 0.
Fixpoint le_acc (n : nat) (b : list Z) : Z :=
  match n with O => 0 | S n' => match b with [] => 0 | x :: r => x + 256 * le_acc n' r end end.
Definition le_get (n : Z) (b : list Z) : Z := le_acc (Z.to_nat n) b.
(* big endian write of n bytes *)
Fixpoint be_put_acc (n : nat) (v : Z) (acc : list Z) : list Z :=
  match n with O => acc | S n' => be_put_acc n' (v / 256) ((v mod 256) :: acc) end.
Definition be_put (n : Z) (v : Z) : list Z := be_put_acc (Z.to_nat n) v [].

(* error codes: nil = 0 *)
Definition Err_io_EOF : Z := 1.
Definition Err_PANIC : Z := 2.
Definition Err_NewError : Z := 3.

(* UTF-8 validity as unicode/utf8.ValidString decides it *)
Definition cont (b : Z) : bool := (128 <=? b) && (b <=? 191).
Fixpoint utf8_valid_fuel (fuel : nat) (s : list Z) : bool :=
  match fuel with O => false | S f =>
  match s with
  | [] => true
  | a :: r =>
    if a <? 128 then utf8_valid_fuel f r
    else if (194 <=? a) && (a <=? 223) then
      match r with b :: r' => cont b && utf8_valid_fuel f r' | _ => false end
    else if a =? 224 then
      match r with b :: c :: r' => (160 <=? b) && (b <=? 191) && cont c && utf8_valid_fuel f r' | _ => false end
    else if ((225 <=? a) && (a <=? 236)) || (a =? 238) || (a =? 239) then
      match r with b :: c :: r' => cont b && cont c && utf8_valid_fuel f r' | _ => false end
    else if a =? 237 then
      match r with b :: c :: r' => (128 <=? b) && (b <=? 159) && cont c && utf8_valid_fuel f r' | _ => false end
    else if a =? 240 then
      match r with b :: c :: d :: r' => (144 <=? b) && (b <=? 191) && cont c && cont d && utf8_valid_fuel f r' | _ => false end
    else if (241 <=? a) && (a <=? 243) then
      match r with b :: c :: d :: r' => cont b && cont c && cont d && utf8_valid_fuel f r' | _ => false end
    else if a =? 244 then
      match r with b :: c :: d :: r' => (128 <=? b) && (b <=? 143) && cont c && cont d && utf8_valid_fuel f r' | _ => false end
    else false
  end end.
Definition utf8_valid (s : list Z) : bool := utf8_valid_fuel (S (length s)) s.
