(* Correspondence check for C05 (Thrift DOM: PathNode Load / Marshal / tree edits / storage options / reuse).
   Case 501 = one PathNode and a history of operations on it (loads into the SAME node, pool round trips, lookups,
   sets, clears, marshals).  Two passes over the history:
     spec pass : the typed tree of ThriftDom (dom_of / dom_step / marshal, the definitions the theorems are about)
                 gives the expected observations; results are compared SEMANTICALLY (decoded by the proved decoder,
                 struct fields / map entries in canonical order), byte-identical under the default options;
     sim pass  : the code-faithful memory simulation (ThriftDomSim) must reproduce every observation EXACTLY;
                 it decides whether a deviation from the spec is exactly what a recorded defect produces. *)
From Coq Require Import ZArith List Bool.
From DG Require Import CaseFormat ProtoWireRef ThriftWire ThriftGeneric ThriftEdit ThriftDom ThriftDomErr ThriftDomSim Check01.
Import ListNotations.
Local Open Scope Z_scope.

(* ---------------- canonical form: struct fields by id, map entries by key bytes ---------------- *)
Fixpoint bytes_leb (a b : list Z) : bool :=
  match a, b with
  | [], _ => true
  | _ :: _, [] => false
  | x :: a', y :: b' => if x <? y then true else if y <? x then false else bytes_leb a' b'
  end.
Fixpoint ins_sorted {A} (le : A -> A -> bool) (x : A) (l : list A) : list A :=
  match l with [] => [x] | y :: r => if le x y then x :: l else y :: ins_sorted le x r end.
Definition isort {A} (le : A -> A -> bool) (l : list A) : list A := fold_right (ins_sorted le) [] l.

Fixpoint canon (v : tval) : tval :=
  match v with
  | VStruct fs => VStruct (isort (fun a b => fid (fst a) <=? fid (fst b)) (map (fun f => (fst f, canon (snd f))) fs))
  | VMap kt vt es => VMap kt vt (isort (fun a b => bytes_leb (encode (fst a)) (encode (fst b)))
                                       (map (fun e => (canon (fst e), canon (snd e))) es))
  | VSet et es => VSet et (map canon es)
  | VList et es => VList et (map canon es)
  | _ => v
  end.

(* same value up to the order of struct fields and map entries *)
(* the decoder converts a declared string length to a unary number before it compares it with the input: bytes coming
   from the implementation are first walked by skip (lengths compared as integers), garbage never reaches the decoder *)
Definition safe_decode (t : Z) (bs : list Z) : option tval :=
  match skip_go t bs with Some [] => decode_all t bs | _ => None end.

Definition sem_eq_bytes (t : Z) (a b : list Z) : bool :=
  match decode_all t a, safe_decode t b with
  | Some x, Some y => wf x && tval_eqb (canon x) (canon y)
  | _, _ => false
  end.

(* ---------------- domain of the check ---------------- *)
Fixpoint nodup_keys (l : list pkey) : bool :=
  match l with [] => true | k :: r => negb (existsb (key_eqb k) r) && nodup_keys r end.

(* map headers carry valid types (ReadMapBegin), keys of one container are distinct *)
Fixpoint dom_ok_val (v : tval) : bool :=
  match v with
  | VStruct fs => nodup_keys (map (fun f => KField (fid (fst f))) fs) && forallb (fun f => dom_ok_val (snd f)) fs
  | VMap kt vt es => valid_type kt && valid_type vt && nodup_keys (map (fun e => key_of_val (fst e)) es) &&
                     forallb (fun e => dom_ok_val (fst e) && dom_ok_val (snd e)) es
  | VSet _ es => forallb dom_ok_val es
  | VList _ es => forallb dom_ok_val es
  | _ => true
  end.

Fixpoint tree_eqb (a b : tree) : bool :=
  match a, b with
  | T t1 e1 k1 r1 n1, T t2 e2 k2 r2 n2 =>
    (t1 =? t2) && (e1 =? e2) && (k1 =? k2) && bytes_eqb r1 r2 &&
    (fix go (l1 l2 : list (pkey * tree)) : bool :=
       match l1, l2 with
       | [], [] => true
       | x :: r1, y :: r2 => key_eqb (fst x) (fst y) && tree_eqb (snd x) (snd y) && go r1 r2
       | _, _ => false
       end) n1 n2
  end.

(* ---------------- parsed operations ---------------- *)
Inductive cop :=
| CLoad (rec : bool) (t : Z) (bs : list Z) (st : Z)
| CMarshal (p : list pstep) (st : Z) (out : list Z)
| CGet (p : list pstep) (k : pstep) (st ty : Z) (raw : list Z) (mst : Z) (mout : list Z)
| CSet (p : list pstep) (k : pstep) (t : Z) (vb : list Z) (st ex cap : Z)
| CClear (p : list pstep) (k : pstep) (st : Z)
| CPool (same : Z)
| CLoadAt (p : list pstep) (rec : bool) (st : Z)
| CSetErr (p : list pstep) (k : pstep) (code : Z) (st ex cap : Z)   (* store the ERROR node of a failed lookup as a child *)
| CRetain (kept changed : Z).   (* earlier Marshal results, held as the very slices returned, re-compared with private copies *)

Definition parse_key (fs : list field) : option (pstep * list field) :=
  match parse_steps 1 fs with Some ([k], r) => Some (k, r) | _ => None end.

Fixpoint parse_ops (n : nat) (fs : list field) : option (list cop) :=
  match n with
  | O => match fs with [] => Some [] | _ => None end
  | S n' =>
    let cont (o : cop) (r : list field) := match parse_ops n' r with Some os => Some (o :: os) | None => None end in
    match fs with
    | FZ 1 :: FZ rec :: FZ t :: FB bs :: FZ st :: r => cont (CLoad (negb (rec =? 0)) t bs st) r
    | FZ 2 :: r0 =>
      match parse_path r0 with Some (p, FZ st :: FB out :: r) => cont (CMarshal p st out) r | _ => None end
    | FZ 8 :: r0 =>   (* NewTypedNode over the target's children: same observation as Marshal *)
      match parse_path r0 with Some (p, FZ st :: FB out :: r) => cont (CMarshal p st out) r | _ => None end
    | FZ 3 :: r0 =>
      match parse_path r0 with
      | Some (p, r1) =>
        match parse_key r1 with
        | Some (k, FZ st :: FZ ty :: FB raw :: FZ mst :: FB mout :: r) => cont (CGet p k st ty raw mst mout) r
        | _ => None
        end
      | None => None
      end
    | FZ 4 :: r0 =>
      match parse_path r0 with
      | Some (p, r1) =>
        match parse_key r1 with
        | Some (k, FZ t :: FB vb :: FZ st :: FZ ex :: FZ cap :: r) => cont (CSet p k t vb st ex cap) r
        | _ => None
        end
      | None => None
      end
    | FZ 5 :: r0 =>
      match parse_path r0 with
      | Some (p, r1) => match parse_key r1 with Some (k, FZ st :: r) => cont (CClear p k st) r | _ => None end
      | None => None
      end
    | FZ 9 :: r0 =>
      match parse_path r0 with
      | Some (p, r1) =>
        match parse_key r1 with
        | Some (k, FZ code :: FZ st :: FZ ex :: FZ cap :: r) => cont (CSetErr p k code st ex cap) r
        | _ => None
        end
      | None => None
      end
    | FZ 10 :: r0 =>  (* MarshalIntoBuffer into a caller buffer of the given initial capacity: same observation as Marshal *)
      match parse_path r0 with Some (p, FZ _ :: FZ st :: FB out :: r) => cont (CMarshal p st out) r | _ => None end
    | FZ 11 :: FZ kept :: FZ changed :: r => cont (CRetain kept changed) r
    | FZ 6 :: FZ same :: r => cont (CPool same) r
    | FZ 7 :: r0 =>
      match parse_path r0 with Some (p, FZ rec :: FZ st :: r) => cont (CLoadAt p (negb (rec =? 0)) st) r | _ => None end
    | _ => None
    end
  end.

Definition pkey_of_step (s : pstep) : pkey :=
  match s with PField id => KField id | PIndex i => KIndex i | PStrKey b => KStr b | PIntKey n => KInt n | PBinKey b => KBin b end.

(* ---------------- spec pass ---------------- *)
Definition dom_type (d : dom) : Z := match d with DLeaf v => type_of v | DEmpty => 0 | DNode t _ _ _ _ => t end.
Definition dom_kt (d : dom) : Z := match d with DLeaf v => kt_of v | DEmpty => 0 | DNode _ _ kt _ _ => kt end.
Definition dom_et (d : dom) : Z := match d with DLeaf v => et_of v | DEmpty => 0 | DNode _ et _ _ _ => et end.

(* does the API call for key k fit a node of this kind?  (Field: STRUCT; GetByStr: MAP<string,_>; GetByInt: MAP<int,_>;
   an index addresses a slot of Next directly) *)
(* an index addresses a slot of Next directly: only meaningful (and only generated) for LIST / SET nodes, whose slots are
   the elements in order; on other containers the slot order is storage detail and the case is outside the domain *)
Definition index_domain (d : dom) (k : pkey) : bool :=
  match k with
  | KIndex _ => (dom_type d =? T_LIST) || (dom_type d =? T_SET)
  | _ => true
  end.

Definition kind_fits (d : dom) (k : pkey) : bool :=
  match k with
  | KField _ => dom_type d =? T_STRUCT
  | KStr _ => (dom_type d =? T_MAP) && (dom_kt d =? T_STRING)
  | KInt _ => (dom_type d =? T_MAP) && is_int_type (dom_kt d)
  | KIndex _ => true
  | _ => false
  end.

(* the value stored by a Set must have the type the container declares *)
Definition set_typed (d : dom) (k : pkey) (x : tval) : bool :=
  match k with
  | KField _ => true
  | _ => (type_of x =? dom_et d) || (dom_type d =? T_STRUCT)
  end.

Record sstate := { s_dom : option dom; s_drift : bool }.

(* compare marshalled bytes of the implementation with the expected tree *)
Definition cmp_marshal (defaults : bool) (code : Z) (d : dom) (st : Z) (out : list Z) : verdict * bool :=
  match marshal (tree_of_dom d) with
  | Some eb =>
    if negb (st =? 0) then (VBad code [FZ 0; FB eb], false)
    else if bytes_eqb out eb then (VOk, false)
    else if sem_eq_bytes (dom_type d) eb out then (VOk, defaults)
    else (VBad code [FZ 0; FB eb], false)
  | None => (expect code (st =? 2) [FZ 2], false)
  end.

Definition is_scalar_dom (d : dom) : bool := match d with DLeaf v => is_scalar (type_of v) | _ => false end.

Definition spec_step (defaults ns : bool) (idx : Z) (s : sstate) (o : cop) : verdict * sstate :=
  let code := 100 * (idx + 1) in
  let keep := (VOk, s) in
  match o with
  | CPool _ => (VOk, {| s_dom := None; s_drift := s_drift s |})
  | CRetain kept changed => (expect (code + 18) (changed =? 0) [FZ kept; FZ 0], s)   (* results are the caller's: never overwritten later *)
  | CLoad rec t bs st =>
    match safe_decode t bs with
    | None => (VSkip, s)
    | Some v =>
      if negb (wf v && dom_ok_val v && is_container t) then (VSkip, s) else
      (* model self-consistency (theorem load_refines): the byte walk builds exactly dom_of *)
      match (if zlen bs <? 600 then load rec ns t bs else Some (tree_of_dom (dom_of rec ns v))) with
      | Some tr =>
        if negb (tree_eqb tr (tree_of_dom (dom_of rec ns v))) then (VBad 9001 [], s)
        else (expect (code + 1) (st =? 0) [FZ 0], {| s_dom := Some (dom_of rec false v); s_drift := s_drift s |})
      | None => (VBad 9002 [], s)
      end
    end
  | _ =>
    match s_dom s with
    | None => (VSkip, s)
    | Some d =>
      match o with
      | CMarshal p st out =>
        match dom_at (map pkey_of_step p) d with
        | None => (VSkip, s)
        | Some target =>
          let '(v, dr) := cmp_marshal defaults (code + 2) target st out in
          (v, {| s_dom := Some d; s_drift := s_drift s || dr |})
        end
      | CGet p k0 st ty raw mst mout =>
        let k := pkey_of_step k0 in
        match dom_at (map pkey_of_step p) d with
        | None => (VSkip, s)
        | Some target =>
          if negb (index_domain target k) then (VSkip, s) else
          if negb (kind_fits target k) then (expect (code + 3) (st =? 2) [FZ 2], s) else
          match dom_get target k with
          | None => (expect (code + 4) (st =? 1) [FZ 1], s)
          | Some c =>
            if dom_type c =? T_ERROR then (expect (code + 14) (st =? 2) [FZ 2], s) else   (* the child is an ERROR node *)
            if negb ((st =? 0) && (ty =? dom_type c)) then (VBad (code + 5) [FZ 0; FZ (dom_type c)], s) else
            match c with
            | DEmpty => keep
            | _ =>
              let rawok := match c with
                           | DLeaf v => if ns && is_container (type_of v) then true else bytes_eqb raw (encode v)
                           | _ => true
                           end in
              if negb rawok then (VBad (code + 6) [FB (match c with DLeaf v => encode v | _ => [] end)], s) else
              let '(v, dr) := cmp_marshal defaults (code + 7) c mst mout in
              (v, {| s_dom := Some d; s_drift := s_drift s || dr |})
            end
          end
        end
      | CSet p k0 t vb st ex cap =>
        let k := pkey_of_step k0 in
        match safe_decode t vb, dom_at (map pkey_of_step p) d with
        | Some x, Some target =>
          if negb (wf x && bytes_eqb (encode x) vb && dom_ok_val x) then (VSkip, s) else
          if negb (index_domain target k) then (VSkip, s) else
          if negb (kind_fits target k) then (expect (code + 8) (st =? 2) [FZ 2], s) else
          if negb (set_typed target k x) then (VSkip, s) else
          match k, dom_get target k with
          | KIndex _, None => (VSkip, s)
          | _, had =>
            let d' := dom_step_at d (map pkey_of_step p, OSet k x) in
            let exm := match had with Some _ => 1 | None => 0 end in
            if negb (st =? 0) then (VBad (code + 9) [FZ 0; FZ exm], s)
            else (VOk, {| s_dom := Some d'; s_drift := s_drift s || negb (ex =? exm) |})
          end
        | _, _ => (VSkip, s)
        end
      | CSetErr p k0 ecode st ex cap =>
        let k := pkey_of_step k0 in
        match dom_at (map pkey_of_step p) d with
        | None => (VSkip, s)
        | Some target =>
          if negb (index_domain target k) then (VSkip, s) else
          if negb (kind_fits target k) then (expect (code + 16) (st =? 2) [FZ 2], s) else
          match k, dom_get target k with
          | KIndex _, None => (VSkip, s)
          | _, had =>
            let d' := dom_upd (map pkey_of_step p) (fun x => dom_set_err x k ecode) d in
            let exm := match had with Some _ => 1 | None => 0 end in
            if negb (st =? 0) then (VBad (code + 17) [FZ 0; FZ exm], s)
            else (VOk, {| s_dom := Some d'; s_drift := s_drift s || negb (ex =? exm) |})
          end
        end
      | CClear p k0 st =>
        let k := pkey_of_step k0 in
        match dom_at (map pkey_of_step p) d with
        | None => (VSkip, s)
        | Some target =>
          if negb (index_domain target k) then (VSkip, s) else
          if negb (kind_fits target k) then (expect (code + 10) (st =? 2) [FZ 2], s) else
          match dom_get target k with
          | None => (expect (code + 11) (st =? 1) [FZ 1], s)
          | Some c =>
            if dom_type c =? T_ERROR then (expect (code + 15) (st =? 2) [FZ 2], s) else
            (expect (code + 12) (st =? 0) [FZ 0],
             {| s_dom := Some (dom_step_at d (map pkey_of_step p, OClear k)); s_drift := s_drift s |})
          end
        end
      | CLoadAt p rec st =>
        match dom_at (map pkey_of_step p) d with
        | Some (DLeaf v) =>
          if is_container (type_of v) then
            (expect (code + 13) (st =? 0) [FZ 0],
             {| s_dom := Some (dom_upd (map pkey_of_step p) (fun _ => dom_of rec false v) d); s_drift := s_drift s |})
          else (VSkip, s)
        | _ => (VSkip, s)
        end
      | _ => keep
      end
    end
  end.

Fixpoint spec_run (defaults ns : bool) (idx : Z) (s : sstate) (ops : list cop) : verdict * bool :=
  match ops with
  | [] => (VOk, s_drift s)
  | o :: r =>
    match spec_step defaults ns idx s o with
    | (VOk, s') => spec_run defaults ns (idx + 1) s' r
    | (v, s') => (v, s_drift s')
    end
  end.

(* ---------------- sim pass ---------------- *)
Definition clear_node (p : pn) : pn := set_node p 0 0 0 [] 0.

Definition sim_lookup (o : sopts) (self : pn) (k : pkey) : res lk :=
  match k with
  | KField id => sim_field o self id
  | KStr s => sim_get_str o self s
  | KInt n => sim_get_int o self n
  | KIndex i => ROk (if (0 <=? i) && (i <? pn_len self) then LFound i else LNil)
  | _ => ROk LErrNode
  end.

(* navigate by API lookups; the result is the list of physical slot indices *)
Fixpoint sim_nav (o : sopts) (self : pn) (p : list pkey) : res (option (list Z * pn)) :=
  match p with
  | [] => ROk (Some ([], self))
  | k :: p' =>
    do l <- sim_lookup o self k;
    match l with
    | LFound i =>
      match aget (pn_arr self) i with
      | Some c => if pn_t c =? T_ERROR then ROk None else
                  do r <- sim_nav o c p'; match r with Some (is, t) => ROk (Some (i :: is, t)) | None => ROk None end
      | None => RUB
      end
    | _ => ROk None
    end
  end.

Fixpoint pn_upd (is : list Z) (f : pn -> pn) (self : pn) : pn :=
  match is with
  | [] => f self
  | i :: r => match aget (pn_arr self) i with
              | Some c => set_next self (pn_len self) (aset (pn_arr self) i (pn_upd r f c))
              | None => self
              end
  end.

Definition obs_marshal (p : pn) : Z * list Z := match marshal (view p) with Some b => (0, b) | None => (2, []) end.

(* the simulation produces its OWN observations for each operation (the inputs of the operation are kept);
   status codes of the harness: 0 ok/found, 1 nil, 2 error, 3 panic, 4 target of the path not reachable *)
Definition nav_fail {A} (r : res A) (ok : A -> res (cop * pn)) (fail : Z -> res (cop * pn)) : res (cop * pn) :=
  match r with ROk a => ok a | RPanic => fail 3 | RErr => fail 2 | RUB => RUB end.

Definition sim_step (o : sopts) (root : pn) (c : cop) : res (cop * pn) :=
  match c with
  | CPool same =>
    ROk (c, if same =? 1 then PN KNone 0 0 0 [] 0 0 (pn_arr root) else pn0)
  | CLoad rec t bs _ =>
    match sim_load o rec (node_of_bytes root t bs) with
    | ROk p => ROk (CLoad rec t bs 0, p)
    | RErr => ROk (CLoad rec t bs 2, set_next (node_of_bytes root t bs) 0 (pn_arr root))
    | RPanic => ROk (CLoad rec t bs 3, node_of_bytes root t bs)
    | RUB => RUB
    end
  | CMarshal p _ _ =>
    nav_fail (sim_nav o root (map pkey_of_step p))
      (fun r => match r with
                | Some (_, t) => let '(est, eb) := obs_marshal t in ROk (CMarshal p est eb, root)
                | None => ROk (CMarshal p 4 [], root)
                end)
      (fun st => ROk (CMarshal p st [], root))
  | CGet p k0 _ _ _ _ _ =>
    let bad st := ROk (CGet p k0 st 0 [] 0 [], root) in
    nav_fail (sim_nav o root (map pkey_of_step p))
      (fun r => match r with
                | Some (_, t) =>
                  nav_fail (sim_lookup o t (pkey_of_step k0))
                    (fun l => match l with
                              | LFound i =>
                                match aget (pn_arr t) i with
                                | Some ch => if pn_t ch =? T_ERROR then bad 2 else
                                             let '(est, eb) := obs_marshal ch in ROk (CGet p k0 0 (pn_t ch) (pn_raw ch) est eb, root)
                                | None => RUB
                                end
                              | LNil => bad 1
                              | LErrNode => bad 2
                              end)
                    bad
                | None => bad 4
                end)
      bad
  | CSet p k0 t vb _ _ cap =>
    let bad st := ROk (CSet p k0 t vb st 0 cap, root) in
    nav_fail (sim_nav o root (map pkey_of_step p))
      (fun r => match r with
                | Some (is, tg) =>
                  let k := pkey_of_step k0 in
                  nav_fail (match k with
                            | KField id => sim_set_field o tg id t vb cap
                            | KStr s => sim_set_map tg (sim_get_str o tg s) k t vb cap
                            | KInt n => sim_set_map tg (sim_get_int o tg n) k t vb cap
                            | KIndex i => if (0 <=? i) && (i <? pn_len tg) then ROk (SetOk (put_node tg i t vb) true) else ROk SetErr
                            | _ => ROk SetErr
                            end)
                    (fun sr => match sr with
                               | SetOk tg' e => ROk (CSet p k0 t vb 0 (Z.b2z e) cap, pn_upd is (fun _ => tg') root)
                               | SetErr => bad 2
                               end)
                    bad
                | None => bad 4
                end)
      bad
  | CRetain kept _ => ROk (CRetain kept 0, root)
  | CSetErr p k0 ecode _ _ cap =>
    let bad st := ROk (CSetErr p k0 ecode st 0 cap, root) in
    nav_fail (sim_nav o root (map pkey_of_step p))
      (fun r => match r with
                | Some (is, tg) =>
                  let k := pkey_of_step k0 in
                  nav_fail (match k with
                            | KField id => sim_set_field o tg id T_ERROR [] cap
                            | KStr s => sim_set_map tg (sim_get_str o tg s) k T_ERROR [] cap
                            | KInt n => sim_set_map tg (sim_get_int o tg n) k T_ERROR [] cap
                            | KIndex i => if (0 <=? i) && (i <? pn_len tg) then ROk (SetOk (put_node tg i T_ERROR []) true) else ROk SetErr
                            | _ => ROk SetErr
                            end)
                    (fun sr => match sr with
                               | SetOk tg' e => ROk (CSetErr p k0 ecode 0 (Z.b2z e) cap, pn_upd is (fun _ => tg') root)
                               | SetErr => bad 2
                               end)
                    bad
                | None => bad 4
                end)
      bad
  | CClear p k0 _ =>
    let bad st := ROk (CClear p k0 st, root) in
    nav_fail (sim_nav o root (map pkey_of_step p))
      (fun r => match r with
                | Some (is, tg) =>
                  nav_fail (sim_lookup o tg (pkey_of_step k0))
                    (fun l => match l with
                              | LFound i => match aget (pn_arr tg) i with
                                            | Some ch => if pn_t ch =? T_ERROR then bad 2 else
                                                         ROk (CClear p k0 0, pn_upd (is ++ [i]) clear_node root)
                                            | None => RUB
                                            end
                              | LNil => bad 1
                              | LErrNode => bad 2
                              end)
                    bad
                | None => bad 4
                end)
      bad
  | CLoadAt p rec _ =>
    let bad st := ROk (CLoadAt p rec st, root) in
    nav_fail (sim_nav o root (map pkey_of_step p))
      (fun r => match r with
                | Some (is, tg) =>
                  match sim_load o rec tg with
                  | ROk tg' => ROk (CLoadAt p rec 0, pn_upd is (fun _ => tg') root)
                  | RErr => ROk (CLoadAt p rec 2, pn_upd is (fun x => set_next x 0 (pn_arr x)) root)  (* Load resets Next before it scans *)
                  | RPanic => bad 3
                  | RUB => RUB
                  end
                | None => bad 4
                end)
      bad
  end.

(* observations only (the inputs are equal by construction) *)
Definition cop_eqb (a b : cop) : bool :=
  match a, b with
  | CLoad _ _ _ s1, CLoad _ _ _ s2 => s1 =? s2
  | CMarshal _ s1 o1, CMarshal _ s2 o2 => (s1 =? s2) && bytes_eqb o1 o2
  | CGet _ _ s1 t1 r1 m1 o1, CGet _ _ s2 t2 r2 m2 o2 => (s1 =? s2) && (t1 =? t2) && bytes_eqb r1 r2 && (m1 =? m2) && bytes_eqb o1 o2
  | CSet _ _ _ _ s1 e1 _, CSet _ _ _ _ s2 e2 _ => (s1 =? s2) && (e1 =? e2)
  | CClear _ _ s1, CClear _ _ s2 => s1 =? s2
  | CPool _, CPool _ => true
  | CLoadAt _ _ s1, CLoadAt _ _ s2 => s1 =? s2
  | CSetErr _ _ _ s1 e1 _, CSetErr _ _ _ s2 e2 _ => (s1 =? s2) && (e1 =? e2)
  | CRetain _ c1, CRetain _ c2 => c1 =? c2
  | _, _ => false
  end.

(* the history as the simulation observes it; None = undefined behaviour was reached *)
Fixpoint sim_trace (o : sopts) (root : pn) (ops : list cop) : option (list cop) :=
  match ops with
  | [] => Some []
  | c :: r =>
    match sim_step o root c with
    | ROk (c', root') => match sim_trace o root' r with Some t => Some (c' :: t) | None => None end
    | _ => None
    end
  end.

Fixpoint trace_eqb (a b : list cop) : bool :=
  match a, b with
  | [], [] => true
  | x :: a', y :: b' => cop_eqb x y && trace_eqb a' b'
  | _, _ => false
  end.

(* ---------------- verdict ---------------- *)
Definition mk_opts (bits : Z) (hs : list (list Z * Z)) (q1 q2 q3 q4 q5 q6 : bool) : sopts :=
  {| o_byid := Z.testbit bits 0; o_byhash := Z.testbit bits 1; o_ns := Z.testbit bits 2;
     q_nowrap := q1; q_dirty := q2; q_oob := q3; q_setfield := q4; q_nsempty := q5; q_div0 := q6; o_hs := hs |}.

Definition quirk_sets : list (Z * (bool * bool * bool * bool * bool * bool)) :=
  [ (501, (true, false, false, false, false, false));
    (502, (false, true, false, false, false, false));
    (503, (false, false, true, false, false, false));
    (504, (false, false, false, true, false, false));
    (505, (false, false, false, false, true, false));
    (506, (false, false, false, false, false, true)) ].

Definition trace_with (bits : Z) (hs : list (list Z * Z)) (q : bool * bool * bool * bool * bool * bool) (ops : list cop) : option (list cop) :=
  let '(q1, q2, q3, q4, q5, q6) := q in sim_trace (mk_opts bits hs q1 q2 q3 q4 q5 q6) pn0 ops.

Definition spec_of (bits : Z) (ops : list cop) : verdict * bool :=
  spec_run (negb (Z.testbit bits 0) && negb (Z.testbit bits 1)) (Z.testbit bits 2) 0 {| s_dom := None; s_drift := false |} ops.

Definition bad_code (v : verdict) : Z := match v with VBad c _ => c | VOk => 0 | _ => -1 end.

(* Which recorded defect explains a deviation that the all-defects simulation reproduces exactly?
   The defect that, switched on ALONE (everything else repaired), makes the simulated history violate the
   specification at the same operation; else the first defect that alone violates it anywhere; else (only a
   combination does) the first defect without which the violation disappears. *)
Definition alone_code (bits : Z) (hs : list (list Z * Z)) (ops : list cop) (q : bool * bool * bool * bool * bool * bool) : Z :=
  match trace_with bits hs q ops with
  | Some t => bad_code (fst (spec_of bits t))
  | None => -2
  end.

Definition count_loads (ops : list cop) : nat :=
  length (filter (fun c => match c with CLoad _ _ _ _ | CLoadAt _ _ _ => true | _ => false end) ops).

(* selector: can this defect be triggered by the case at all? *)
Definition applicable (bits : Z) (ops : list cop) (id : Z) : bool :=
  if id =? 501 then Z.testbit bits 1
  else if id =? 502 then (2 <=? count_loads ops)%nat
  else if (id =? 503) || (id =? 504) then Z.testbit bits 0
  else if id =? 505 then Z.testbit bits 2
  else Z.testbit bits 1.

Definition classify (bits : Z) (hs : list (list Z * Z)) (ops : list cop) (code : Z) : Z :=
  let cands := filter (fun e => applicable bits ops (fst e)) quirk_sets in
  match find (fun e => alone_code bits hs ops (snd e) =? code) cands with
  | Some e => fst e
  | None =>
    match find (fun e => 0 <? alone_code bits hs ops (snd e)) cands with
    | Some e => fst e
    | None =>
      match find (fun e => let '(q1, q2, q3, q4, q5, q6) := snd e in
                           alone_code bits hs ops (negb q1, negb q2, negb q3, negb q4, negb q5, negb q6) =? 0) cands with
      | Some e => fst e
      | None => 0      (* no recorded defect explains it: a violation *)
      end
    end
  end.

Fixpoint parse_hashes (n : nat) (fs : list field) : option (list (list Z * Z) * list field) :=
  match n with
  | O => Some ([], fs)
  | S n' => match fs with
            | FB k :: FZ h :: r => match parse_hashes n' r with Some (hs, r') => Some ((k, h) :: hs, r') | None => None end
            | _ => None
            end
  end.

Definition check_501 (fs : list field) : verdict :=
  match fs with
  | FZ bits :: FZ nh :: rest =>
    if (nh <? 0) || (nh >? 100000) then VBad 99 [] else
    match parse_hashes (Z.to_nat nh) rest with
    | Some (hs, FZ nops :: rest') =>
      if (nops <? 0) || (nops >? 10000) then VBad 99 [] else
      match parse_ops (Z.to_nat nops) rest' with
      | None => VBad 98 []
      | Some ops =>
        let all := trace_with bits hs (true, true, true, true, true, true) ops in
        let same := match all with Some t => trace_eqb t ops | None => false end in
        match spec_of bits ops with
        | (VOk, drift) =>
          if drift then VDrift 1 else if same then VOk
          else (* the repaired code: the simulation with every defect switched off must reproduce it *)
               match trace_with bits hs (false, false, false, false, false, false) ops with
               | Some t => if trace_eqb t ops then VOk else VDrift 2
               | None => VDrift 2
               end
        | (VSkip, _) => VSkip
        | (VBad code detail, _) =>
          match all with
          | Some _ => if same then (let k := classify bits hs ops code in if k =? 0 then VBad code detail else VKnown k) else VBad code detail
          | None => (* the simulation ran into undefined behaviour (probe pointer behind the allocation) *)
                    if Z.testbit bits 1 && (2 <=? count_loads ops)%nat then VKnown 502 else VBad code detail
          end
        | (v, _) => v
        end
      end
    | _ => VBad 97 []
    end
  | _ => VBad 96 []
  end.
