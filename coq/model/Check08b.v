(* Correspondence check 802 for C08: the ALGORITHM-level model (P2JBytes.p2j_walk_gen, a walk over the bytes that appends
   text the way conv/p2j/impl.go does) against the implementation, on the same cases as check 801.
   fields: as 801 (<schema> n<Int642String> n<DisallowUnknownField> x<bytes> n<err class> x<output> n<err2> x<out2> x<pre>).
   The walk runs on the case's bytes themselves (no decoding, no expectation from the spec).  Both fail or both succeed;
   on success the implementation's text must be the walk's text byte for byte, except float lexemes: the walk prints a
   float as the marker lexeme <bits>e0 and the implementation's lexeme at that place must evaluate (Num.lex2f64) to
   exactly those bits.  Implemented as: both texts parse (proved parser), the trees are equal with numbers compared
   lexeme-by-lexeme (floats by value), and the implementation's text is the canonical print of its own tree (so nothing
   but float lexemes can differ between the two texts). *)
From Coq Require Import ZArith List Bool.
From DG Require Import CaseFormat ProtoWireRef ProtoMsg ProtoCase Json Num Base64 P2J P2JBytes.
Import ListNotations.
Local Open Scope Z_scope.

Definition fl_mark (b : Z) : list Z := fmt_nat b ++ [101; 48].

(* Some bits if the lexeme is a marker *)
Fixpoint strip_mark (l : list Z) : option (list Z) :=
  match l with
  | [101; 48] => Some []
  | c :: r => match strip_mark r with Some ds => Some (c :: ds) | None => None end
  | [] => None
  end.

Definition num_same (lw la : list Z) : bool :=
  match strip_mark lw with
  | Some ds =>
    match parse_int ds, lex2f64 la with
    | Some bits, Some x => x =? bits
    | _, _ => false
    end
  | None => zlist_eqb lw la
  end.

Fixpoint json_same (w a : json) {struct w} : bool :=
  match w, a with
  | JNull, JNull => true
  | JBool x, JBool y => Bool.eqb x y
  | JNum x, JNum y => num_same x y
  | JStr x, JStr y => zlist_eqb x y
  | JArr xs, JArr ys =>
    (fix go (xs ys : list json) : bool :=
       match xs, ys with [], [] => true | x :: xs', y :: ys' => json_same x y && go xs' ys' | _, _ => false end) xs ys
  | JObj xs, JObj ys =>
    (fix go (xs ys : list (list Z * json)) : bool :=
       match xs, ys with
       | [], [] => true
       | x :: xs', y :: ys' => zlist_eqb (fst x) (fst y) && json_same (snd x) (snd y) && go xs' ys'
       | _, _ => false
       end) xs ys
  | _, _ => false
  end.

Definition check_802 (fs : list field) : verdict :=
  match parse_schema fs with
  | Some (root, Sc, [FZ i64s; FZ dis; FB bs; FZ err; FB out; FZ _; FB _; FB _]) =>
    let o := mk_p2j_opts (negb (i64s =? 0)) (negb (dis =? 0)) in
    if negb (bytes_okb bs) then VBad 99 [] else
    if (err =? 2) || (err =? 3) then VBad 2 [FZ err] else
    match p2j_walk_gen fl_mark (Datatypes.S (length bs)) o Sc root bs with
    | None => expect 10 (negb (err =? 0)) []                  (* the walk fails: the conversion must fail *)
    | Some t =>
      if negb (err =? 0) then VBad 20 [FB t]                   (* the walk succeeds: the conversion must succeed *)
      else
        match json_parse t, json_parse out with
        | None, _ => VBad 97 [FB t]                            (* the model's own text does not parse: model defect *)
        | Some _, None => VBad 30 [FB t]
        | Some jw, Some ja =>
          vand (expect 40 (json_same jw ja) [FB t])
               (expect 41 (bytes_eqb (json_print ja) out) [FB t])
        end
    end
  | _ => VBad 99 []
  end.
