(* Standard base64 (RFC 4648 section 4 alphabet, '=' padding) over byte lists.
   Model only — proofs are in proofs/Base64Proofs.v. *)
From Coq Require Import ZArith List Bool.
Import ListNotations.
Local Open Scope Z_scope.

(* 6-bit value -> character: A-Z a-z 0-9 + / *)
Definition b64_char (n : Z) : Z :=
  if n <? 26 then 65 + n else if n <? 52 then 71 + n else if n <? 62 then n - 4 else if n =? 62 then 43 else 47.

Definition b64_val (c : Z) : option Z :=
  if (65 <=? c) && (c <=? 90) then Some (c - 65)
  else if (97 <=? c) && (c <=? 122) then Some (c - 71)
  else if (48 <=? c) && (c <=? 57) then Some (c + 4)
  else if c =? 43 then Some 62 else if c =? 47 then Some 63 else None.

Fixpoint b64_encode (bs : list Z) : list Z :=
  match bs with
  | [] => []
  | [a] => [b64_char (a / 4); b64_char ((a mod 4) * 16); 61; 61]
  | [a; b] => [b64_char (a / 4); b64_char ((a mod 4) * 16 + b / 16); b64_char ((b mod 16) * 4); 61]
  | a :: b :: c :: r =>
    b64_char (a / 4) :: b64_char ((a mod 4) * 16 + b / 16) :: b64_char ((b mod 16) * 4 + c / 64) :: b64_char (c mod 64) :: b64_encode r
  end.

Definition is_nil {A} (l : list A) : bool := match l with [] => true | _ => false end.

(* strict on shape (length multiple of 4, padding only in the last quantum, alphabet only, no white space);
   like Go's StdEncoding it does not insist that the unused low bits of the last character are zero *)
Fixpoint b64_decode (cs : list Z) : option (list Z) :=
  match cs with
  | [] => Some []
  | c1 :: c2 :: c3 :: c4 :: r =>
    match b64_val c1, b64_val c2 with
    | Some v1, Some v2 =>
      if c3 =? 61 then
        (if (c4 =? 61) && is_nil r then Some [v1 * 4 + v2 / 16] else None)
      else
        match b64_val c3 with
        | None => None
        | Some v3 =>
          if c4 =? 61 then
            (if is_nil r then Some [v1 * 4 + v2 / 16; (v2 mod 16) * 16 + v3 / 4] else None)
          else
            match b64_val c4 with
            | None => None
            | Some v4 =>
              match b64_decode r with
              | Some t => Some ((v1 * 4 + v2 / 16) :: ((v2 mod 16) * 16 + v3 / 4) :: ((v3 mod 4) * 64 + v4) :: t)
              | None => None
              end
            end
        end
    | _, _ => None
    end
  | _ => None
  end.

(* unpadded variants are obtained by the callers that need them (not used by t2j / j2t) *)
