(* Dispatcher from check id to check function. *)
From Coq Require Import ZArith List Bool.
From DG Require Import CaseFormat Check20 Check01 Check04 Check19 Check11.
Import ListNotations.
Local Open Scope Z_scope.

Definition check_case (id : Z) (fs : list field) : verdict :=
  if id =? 101 then check_101 fs else
  if id =? 102 then check_102 fs else
  if id =? 401 then check_401 fs else
  if id =? 1101 then check_1101 fs else
  if id =? 1901 then check_1901 fs else
  if id =? 1902 then check_1902 fs else
  if id =? 1903 then check_1903 fs else
  if id =? 1904 then check_1904 fs else
  if id =? 1905 then check_1905 fs else
  if id =? 1906 then check_1906 fs else
  if id =? 2001 then check_2001 fs else
  if id =? 2002 then check_2002 fs else
  if id =? 2003 then check_2003 fs else
  if id =? 2004 then check_2004 fs else
  if id =? 2005 then check_2005 fs else
  VBad 9999 [].
