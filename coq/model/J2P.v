(* C09 — JSON -> Protobuf (conv/j2p).  Model only; proofs are in proofs/J2PProofs.v.

   (a) SPEC LEVEL.  [denote_top strict disallow S root j : res pmsg]: the message a JSON document denotes,
       type-directed by the schema: members addressed by field name or JSON name; integer kinds from plain
       integer lexemes in the range of the kind; sint/fixed kinds likewise (the wire form is chosen by
       [encode_msg]); float/double correctly rounded from the exact decimal of the lexeme; bool; string; bytes
       from standard base64; enum by number; repeated fields from arrays; maps from objects (keys parsed per key
       kind, one entry per pair); nested messages from objects; [null] members omitted; unknown members skipped
       unless DisallowUnknownField.  Three-valued result:
         ROk m    the document denotes m (and m is well-formed for the schema),
         RErr     a member's JSON kind contradicts the field, or an unknown member under the disallow option:
                  the property demands an error,
         RUndef   outside the property's domain (out-of-range number, fractional number for an integer kind,
                  bad base64, duplicate member, null list element, ...): nothing is demanded.
       First non-ok member in document order decides (the converter is a one-pass stream processor).
       [j2p_spec] = encode_msg o denote.
       With [strict = true] the denotation is restricted by the decidable residue on which the converter is not byte-exact
       (float32 double rounding, empty array of a packed field, payloads >= 2^31, field numbers out of range, fields
       declared [packed=false]): that is the domain of the refinement and error theorems.  [strict = false] is the
       property's domain; wherever the strict denotation is defined the two agree (J2PProofs.denote_top_rr).

   (b) ALGORITHM LEVEL.  [sax_run]: conv/j2p/decode.go AS IT STANDS (after the repairs of findings 901..906 and of
       [packed=false]) statement by statement over the event stream of the parsed document ([events], document order =
       what sonic's ast.Preorder delivers): stack of STK_DEPTH = 256 frames (kind, root message | field descriptor,
       position of the speculative length byte), globalFieldDesc, inskip, output buffer as a byte list, [finish_spec]
       (model/ProtoSpecLen.v) on close, checkScalarField and the kind checks of the Begin callbacks.  Go nil dereferences /
       slice-bound failures would be explicit [MPanic] results (none is reachable any more).
       [frames_needed]: the exact number of frames a document uses. *)
From Coq Require Import ZArith List Bool Arith.
From DG Require Import CaseFormat ProtoWireRef ProtoSpecLen ProtoMsg Json Num Base64.
Import ListNotations.
Local Open Scope Z_scope.

Inductive res (A : Type) := ROk (a : A) | RErr | RUndef.
Arguments ROk {A} a.  Arguments RErr {A}.  Arguments RUndef {A}.

(* ================================================================= leaf conversions as coded *)
Definition is_int_kind (k : Z) : bool :=
  (k =? 3) || (k =? 4) || (k =? 5) || (k =? 6) || (k =? 7) || (k =? 13) || (k =? 15) || (k =? 16) || (k =? 17) || (k =? 18).

(* Go conversions int64 -> the Go type the writer of that kind takes *)
Definition goconv (k v : Z) : Z :=
  if (k =? 5) || (k =? 17) || (k =? 15) then to_s 32 v
  else if (k =? 7) || (k =? 13) then v mod 2 ^ 32
  else if (k =? 4) || (k =? 6) then v mod 2 ^ 64
  else v.

(* binary64 bits -> (negative, mantissa, binary exponent): value = m * 2^e; None for Inf/NaN *)
Definition f64_parts (bits : Z) : option (bool * Z * Z) :=
  let neg := 2 ^ 63 <=? bits in
  let ex := (bits / 2 ^ 52) mod 2048 in
  let fr := bits mod 2 ^ 52 in
  if ex =? 2047 then None
  else if ex =? 0 then Some (neg, fr, -1074)
  else Some (neg, fr + 2 ^ 52, ex - 1075).

(* float32(v) for a float64 v: round to nearest even *)
Definition f32_of_f64 (bits : Z) : option Z :=
  match f64_parts bits with
  | None => None
  | Some (neg, m, e) =>
    let mag := if 0 <=? e then dec2f32_mag (m * 2 ^ e) 0 else dec2f32_mag (m * 5 ^ (- e)) e in
    Some ((if neg then 2 ^ 31 else 0) + mag)
  end.

(* intN(v) for a float64 v: truncation; None when the integer part does not fit (platform dependent in Go) *)
Definition f64_trunc (width : Z) (bits : Z) : option Z :=
  match f64_parts bits with
  | None => None
  | Some (neg, m, e) =>
    if 64 <? e then None else
    let a := if 0 <=? e then m * 2 ^ e else m / 2 ^ (- e) in
    let z := if neg then - a else a in
    if in_sb width z then Some z else None
  end.

(* float32(v) / float64(v) for an int64 v: correctly rounded *)
Definition int2f32 (v : Z) : Z := if v =? 0 then 0 else dec2f32 (v <? 0, Z.abs v, 0).
Definition int2f64 (v : Z) : Z := if v =? 0 then 0 else dec2f64 (v <? 0, Z.abs v, 0).

(* sonic: a lexeme without fraction/exponent that fits int64 is delivered by OnInt64, everything else by OnFloat64 *)
Inductive numclass := NInt (v : Z) | NFloat (bits : Z) | NBad.
Definition num_class (lex : list Z) : numclass :=
  let fl := match lex2f64 lex with Some b => if f64_is_finite b then NFloat b else NBad | None => NBad end in
  if lex_is_plain_int lex then
    match parse_int lex with
    | Some z => if in_sb 64 z then NInt z else fl
    | None => NBad
    end
  else fl.

Inductive ev :=
| EvObjBegin | EvKey (k : list Z) | EvObjEnd | EvArrBegin | EvArrEnd
| EvStr (s : list Z) | EvNum (lex : list Z) | EvBool (b : bool) | EvNull.

(* what a scalar callback appends after the (optional) tag for a field of kind k *)
Inductive sres := SBytes (b : list Z) | SErr | SUnmod.
Definition lenpref (b : list Z) : list Z := varint_enc (plen b) ++ b.
Definition scalar_payload (k : Z) (e : ev) : sres :=
  match e with
  | EvBool b => if k =? 8 then SBytes [if b then 1 else 0] else SErr      (* OnBool: "param isn't boolType" *)
  | EvStr s =>
    if k =? 12 then
      (* Go's base64 decoders skip CR and LF *)
      match b64_decode (filter (fun c => negb ((c =? 10) || (c =? 13))) s) with Some b => SBytes (lenpref b) | None => SErr end
    else if k =? 9 then (if utf8_valid s then SBytes (lenpref s) else SErr)
    else SErr
  | EvNum lex =>
    (* the default branch of both OnInt64 and OnFloat64 *)
    if negb (is_int_kind k || (k =? 1) || (k =? 2) || (k =? 14)) then SErr else
    match num_class lex with
    | NInt v =>
      if is_int_kind k then SBytes (wenc_val (scalar_to_wire k (goconv k v)))
      else if k =? 14 then SBytes (wenc_val (scalar_to_wire 14 (to_s 32 v)))     (* WriteEnum(EnumNumber(int32(v))) *)
      else if k =? 2 then SBytes (le_enc 4 (int2f32 v))
      else SBytes (le_enc 8 (int2f64 v))
    | NFloat bits =>
      if k =? 2 then match f32_of_f64 bits with Some b => SBytes (le_enc 4 b) | None => SUnmod end
      else if k =? 1 then SBytes (le_enc 8 bits)
      else if k =? 5 then match f64_trunc 32 bits with Some z => SBytes (wenc_val (scalar_to_wire 5 z)) | None => SUnmod end
      else if k =? 3 then match f64_trunc 64 bits with Some z => SBytes (wenc_val (scalar_to_wire 3 z)) | None => SUnmod end
      else if (k =? 4) || (k =? 6) then
        (* integers beyond int64 arrive as float64: strconv.ParseUint(string(n), 10, 64) on the number text *)
        (if forallb is_digit lex then
           let z := digits_val lex 0 in
           if z <? 2 ^ 64 then SBytes (wenc_val (scalar_to_wire k z)) else SErr
         else SErr)
      else SErr
    | NBad => SUnmod
    end
  | _ => SErr
  end.

(* strconv.ParseInt(key, 10, bits): optional sign, digits; None = syntax or range error *)
Definition go_parse_int (s : list Z) (bits : Z) : option Z :=
  let body := match s with c :: r => if (c =? 43) || (c =? 45) then r else s | [] => s end in
  let neg := match s with c :: _ => c =? 45 | [] => false end in
  match body with
  | [] => None
  | _ =>
    if forallb is_digit body then
      let a := digits_val body 0 in
      let z := if neg then - a else a in
      if (z <? - 2 ^ (bits - 1)) || (2 ^ (bits - 1) <=? z) then None else Some z
    else None
  end.
(* strconv.ParseUint(key, 10, bits): digits only *)
Definition go_parse_uint (s : list Z) (bits : Z) : option Z :=
  match s with
  | [] => None
  | _ => if forallb is_digit s then (let z := digits_val s 0 in if z <? 2 ^ bits then Some z else None) else None
  end.
Definition go_parse_bool (s : list Z) : option bool :=
  if existsb (bytes_eqb s) [[49]; [116]; [84]; [84; 82; 85; 69]; lit_true; [84; 114; 117; 101]] then Some true
  else if existsb (bytes_eqb s) [[48]; [102]; [70]; [70; 65; 76; 83; 69]; lit_false; [70; 97; 108; 115; 101]] then Some false
  else None.

(* encodeMapKey: every parse error is returned *)
Definition encode_map_key (buf : list Z) (key : list Z) (kk : Z) : option (list Z) :=
  if kk =? 5 then match go_parse_int key 32 with Some z => Some (buf ++ varint_enc (z mod 2 ^ 64)) | None => None end
  else if kk =? 13 then match go_parse_uint key 32 with Some z => Some (buf ++ varint_enc z) | None => None end
  else if kk =? 4 then match go_parse_uint key 64 with Some z => Some (buf ++ varint_enc z) | None => None end
  else if kk =? 3 then match go_parse_int key 64 with Some z => Some (buf ++ varint_enc (z mod 2 ^ 64)) | None => None end
  else if kk =? 8 then match go_parse_bool key with Some b => Some (buf ++ [if b then 1 else 0]) | None => None end
  else if kk =? 9 then (if utf8_valid key then Some (buf ++ lenpref key) else None)
  else None.


(* ================================================================= (a) spec level *)
(* Kind2Wire[kind] & 7 (a Go map lookup: 0 for a kind that is not in the table) *)
Definition kwire (k : Z) : Z := let w := wt_of_kind k in if w <? 0 then 0 else w.

Definition res_bind {A B} (r : res A) (f : A -> res B) : res B :=
  match r with ROk a => f a | RErr => RErr | RUndef => RUndef end.

Definition json_is_null (v : json) : bool := match v with JNull => true | _ => false end.

(* leaf values: numeric scalar (bool 0/1, float/double as IEEE bits) or string/bytes *)
Inductive leafv := LScalar (z : Z) | LBytes (b : list Z).
Definition leaf_pval (k : Z) (l : leafv) : pval := match l with LScalar z => VScalar k z | LBytes b => VBytes k b end.
Definition leaf_bytes (k : Z) (l : leafv) : list Z :=
  match l with LScalar z => wenc_val (scalar_to_wire k z) | LBytes b => lenpref b end.
Definition leaf_wt (k : Z) (l : leafv) : Z :=
  match l with LScalar z => wt_of_wval (scalar_to_wire k z) | LBytes _ => 2 end.
Definition is_str_ev (e : ev) : bool := match e with EvStr _ => true | _ => false end.

Section Denote.
  Variable strict : bool.      (* true: only the documents on which the converter as coded is correct *)
  Variable disallow : bool.    (* conv.Options.DisallowUnknownField *)
  Variable S : schema.

  (* the callback a scalar JSON value is delivered through *)
  Definition ev_of (v : json) : option ev :=
    match v with JNum l => Some (EvNum l) | JStr s => Some (EvStr s) | JBool b => Some (EvBool b) | _ => None end.

  (* the leaf value a scalar JSON value denotes for a field of kind k (v is a number, string or boolean) *)
  Definition denote_leaf (k : Z) (v : json) : res leafv :=
    if is_int_kind k then
      match v with
      | JNum lex =>
        if lex_is_plain_int lex then
          match parse_int lex with
          | Some z => if scalar_okb k z then ROk (LScalar z) else RUndef
          | None => RUndef
          end
        else RUndef
      | _ => RErr
      end
    else if k =? 14 then
      match v with
      | JNum lex =>
        if lex_is_plain_int lex then
          match parse_int lex with Some z => if in_sb 32 z then ROk (LScalar z) else RUndef | None => RUndef end
        else RUndef
      | JStr _ => RUndef           (* enum value names are not part of the abstract schema *)
      | _ => RErr
      end
    else if (k =? 2) || (k =? 1) then
      match v with
      | JNum lex =>
        match lex_decimal lex with
        | None => RUndef
        | Some (neg, m, e) =>
          if neg && (m =? 0) then RUndef        (* the sign of zero is left open *)
          else
            let bits := if k =? 2 then dec2f32 (neg, m, e) else dec2f64 (neg, m, e) in
            if (if k =? 2 then f32_is_finite bits else f64_is_finite bits) then ROk (LScalar bits) else RUndef
        end
      | _ => RErr
      end
    else if k =? 8 then
      match v with JBool b => ROk (LScalar (if b then 1 else 0)) | _ => RErr end
    else if k =? 9 then
      match v with JStr s => if utf8_valid s && jbytes_okb s then ROk (LBytes s) else RUndef | _ => RErr end
    else if k =? 12 then
      match v with JStr s => match b64_decode s with Some b => ROk (LBytes b) | None => RUndef end | _ => RErr end
    else RUndef.

  (* strict: what the converter's leaf conversion writes must be the wire form of the denoted value (decidable, evaluated
     per case by the checker; the arithmetic of the leaf codecs is C20's subject).  As coded, enum fields, uint64 >= 2^63,
     a float32 that suffers double rounding ... fail this test. *)
  Definition leaf_agrees (k : Z) (e : ev) (l : leafv) : bool :=
    negb strict ||
    (match scalar_payload k e with SBytes b => bytes_eqb b (leaf_bytes k l) | _ => false end
     && (leaf_wt k l =? kwire k)
     && Bool.eqb (is_str_ev e) (match l with LBytes _ => true | LScalar _ => false end)
     && Bool.eqb (is_numeric k) (match l with LBytes _ => false | LScalar _ => true end)).

  Definition denote_scalar (k : Z) (v : json) : res pval :=
    match ev_of v with
    | None => match v with JNull => RUndef | _ => RErr end
    | Some e => res_bind (denote_leaf k v) (fun l => if leaf_agrees k e l then ROk (leaf_pval k l) else RUndef)
    end.

  (* map key from the member name; supported key kinds: int32 int64 uint32 uint64 bool string *)
  (* a member name that is not the canonical literal of the key: either a spelling the key kind's Go parser also accepts
     ("+5", "007", "TRUE": outside the property, the converter accepts them) or no literal of the key kind at all
     (non-numeric text, out of range for the key width, a sign on an unsigned key, non-bool text; any name for a key kind
     the converter does not support: the sint, fixed and sfixed kinds): that must be an ERROR *)
  Definition key_literal_accepted (kk : Z) (s : list Z) : bool :=
    if kk =? 5 then match go_parse_int s 32 with Some _ => true | None => false end
    else if kk =? 3 then match go_parse_int s 64 with Some _ => true | None => false end
    else if kk =? 13 then match go_parse_uint s 32 with Some _ => true | None => false end
    else if kk =? 4 then match go_parse_uint s 64 with Some _ => true | None => false end
    else if kk =? 8 then match go_parse_bool s with Some _ => true | None => false end
    else false.
  Definition not_canonical (kk : Z) (s : list Z) : res mkey := if key_literal_accepted kk s then RUndef else RErr.

  Definition denote_key0 (kk : Z) (s : list Z) : res mkey :=
    if kk =? 9 then (if utf8_valid s && jbytes_okb s then ROk (KStr s) else RUndef)
    else if kk =? 8 then
      (if bytes_eqb s lit_true then ROk (KInt 8 1) else if bytes_eqb s lit_false then ROk (KInt 8 0) else not_canonical kk s)
    else if (kk =? 5) || (kk =? 3) || (kk =? 13) || (kk =? 4) then
      match parse_int s with
      | Some z => if bytes_eqb (fmt_int z) s && scalar_okb kk z then ROk (KInt kk z) else not_canonical kk s
      | None => not_canonical kk s
      end
    else RErr.
  (* strict: what encodeMapKey writes is the wire form of the key (fails for uint32 >= 2^31, uint64 >= 2^63: finding 903) *)
  Definition key_agrees (kk : Z) (s : list Z) (key : mkey) : bool :=
    negb strict ||
    (match encode_map_key [] s kk with Some b => bytes_eqb b (wenc_val (snd (key_field key))) | None => false end
     && (wt_of_wval (snd (key_field key)) =? kwire kk)).
  Definition denote_key (kk : Z) (s : list Z) : res mkey :=
    res_bind (denote_key0 kk s) (fun key => if key_agrees kk s key then ROk key else RUndef).

  Definition has_known (md : mdesc) (ms : list (list Z * json)) : bool :=
    existsb (fun m => match find_field_name md (fst m) with Some _ => true | None => false end) ms.

  Section Level.
    (* denotation of the members of a message object at the next smaller nesting fuel *)
    Variable rec : mdesc -> list (list Z * json) -> res pmsg.

    (* one value of type t (singular field, list element or map value); never null *)
    Definition den_single (t : ftype) (v : json) : res pval :=
      match t with
      | TScalar k => if strict && (k =? K_MESSAGE) then RUndef else denote_scalar k v     (* ill-formed schema *)
      | TMsg name =>
        match v with
        | JNull => RUndef
        | JObj ms =>
          match find_msg S name with
          | None => RUndef
          | Some md =>
            res_bind (rec md ms) (fun fs =>
                 if strict && negb (plen (encode_msg fs) <? 2 ^ 31) then RUndef else ROk (VMsg fs))
          end
        | _ => RErr
        end
      end.

    Fixpoint den_elems (t : ftype) (xs : list json) : res (list pval) :=
      match xs with
      | [] => ROk []
      | x :: r => res_bind (den_single t x) (fun v => res_bind (den_elems t r) (fun vs => ROk (v :: vs)))
      end.

    Fixpoint den_entries (kk : Z) (t : ftype) (ms : list (list Z * json)) : res (list (mkey * pval)) :=
      match ms with
      | [] => ROk []
      | (k, x) :: r =>
        res_bind (denote_key kk k) (fun key =>
        res_bind (den_single t x) (fun v =>
        if strict && negb (plen (wenc (key_field key :: wfld 2 v)) <? 2 ^ 31) then RUndef else
        res_bind (den_entries kk t r) (fun kvs => ROk ((key, v) :: kvs))))
      end.

    (* the value of a known member; None = the member contributes nothing (empty array / object of a repeated / map field) *)
    Definition den_field (fd : fdesc) (v : json) : res (option pval) :=
      match fd_label fd with
      | LSingular => res_bind (den_single (fd_type fd) v) (fun pv => ROk (Some pv))
      | LRepeated p =>
        match v with
        | JArr xs =>
          (* proto3 packs numeric element types; a field declared [packed=false] is outside the modelled schemas (wf_msg
             rejects the value below), the converter writes it unpacked *)
          let packed := type_numeric (fd_type fd) in
          if strict && packed && negb p then RUndef else
          res_bind (den_elems (fd_type fd) xs) (fun vs =>
          match vs with
          | [] => if strict && packed then RUndef else ROk None  (* as coded: [] of a packed field is written as an empty run (tag, 0): same message, other bytes *)
          | _ =>
            if strict && packed && negb (plen (flat_map packed_elem vs) <? 2 ^ 31) then RUndef
            else ROk (Some (VList packed vs))
          end)
        | _ => RErr
        end
      | LMap kk =>
        match v with
        | JObj ms =>
          res_bind (den_entries kk (fd_type fd) ms) (fun kvs =>
          match kvs with
          | [] => ROk None
          | _ => ROk (Some (VMap kvs))
          end)
        | _ => RErr
        end
      end.

    Fixpoint den_members (md : mdesc) (ms : list (list Z * json)) : res pmsg :=
      match ms with
      | [] => ROk []
      | (k, v) :: r =>
        match find_field_name md k with
        | None => if disallow then RErr else den_members md r
        | Some fd =>
          if json_is_null v then den_members md r
          else if strict && negb ((1 <=? fd_num fd) && (fd_num fd <=? MAX_FIELD_NUMBER)) then RUndef
          else
            res_bind (den_field fd v) (fun ov =>
            res_bind (den_members md r) (fun fs =>
            ROk (match ov with Some pv => (fd_num fd, pv) :: fs | None => fs end)))
        end
      end.
  End Level.

  Fixpoint denote_members (fuel : nat) (md : mdesc) (ms : list (list Z * json)) : res pmsg :=
    match fuel with
    | O => RUndef
    | Datatypes.S f => den_members (denote_members f) md ms
    end.

  (* the whole document: must be an object; the result must be a well-formed message of the schema
     (no duplicate members / map keys, sizes representable) *)
  Definition denote_top (root : list Z) (j : json) : res pmsg :=
    match find_msg S root with
    | None => RUndef
    | Some md =>
      match j with
      | JObj ms =>
        res_bind (denote_members (json_depth j) md ms) (fun fs =>
        if wf_msg S root fs then ROk fs else RUndef)
      | _ => RErr
      end
    end.
End Denote.

(* the property's denotation and the specification of the converter *)
Definition pdenote (disallow : bool) (S : schema) (root : list Z) (j : json) : res pmsg := denote_top false disallow S root j.
Definition j2p_spec (disallow : bool) (S : schema) (root : list Z) (j : json) : res (list Z) :=
  res_bind (pdenote disallow S root j) (fun m => ROk (encode_msg m)).

(* ================================================================= (b) algorithm level *)
Fixpoint events (j : json) : list ev :=
  match j with
  | JNull => [EvNull]
  | JBool b => [EvBool b]
  | JNum l => [EvNum l]
  | JStr s => [EvStr s]
  | JArr xs => EvArrBegin :: flat_map events xs ++ [EvArrEnd]
  | JObj ms => EvObjBegin :: flat_map (fun m => EvKey (fst m) :: events (snd m)) ms ++ [EvObjEnd]
  end.
Definition member_events (m : list Z * json) : list ev := EvKey (fst m) :: events (snd m).

(* *proto.FieldDescriptor values the visitor handles: a declared field, the value field (number 2) of a map
   field's entry message, or the zero FieldDescriptor (curDesc left unset in OnObjectKey) *)
Inductive gdesc := GZero | GField (fd : fdesc) | GMapVal (fd : fdesc).

(* None = nil dereference (f.typ == nil) *)
Definition g_islist (g : gdesc) : option bool :=
  match g with
  | GZero => None
  | GField fd => Some (match fd_label fd with LRepeated _ => true | _ => false end)
  | GMapVal _ => Some false
  end.
Definition g_ismap (g : gdesc) : option bool :=
  match g with
  | GZero => None
  | GField fd => Some (match fd_label fd with LMap _ => true | _ => false end)
  | GMapVal _ => Some false
  end.
Definition g_ispacked (g : gdesc) : option bool :=
  match g with
  | GZero => None
  | GField fd => Some (match fd_label fd with LRepeated p => p && type_numeric (fd_type fd) | _ => false end)
  | GMapVal _ => Some false
  end.
Definition g_kind (g : gdesc) : Z :=
  match g with
  | GZero => 0
  | GField fd => match fd_label fd with LMap _ => K_MESSAGE | _ => kind_of_type (fd_type fd) end
  | GMapVal fd => kind_of_type (fd_type fd)
  end.
Definition g_num (g : gdesc) : Z :=
  match g with GZero => 0 | GField fd => fd_num fd | GMapVal _ => 2 end.
(* FieldDescriptor.Message(): outer None = nil dereference; inner None = nil *MessageDescriptor *)
Definition g_message (S : schema) (g : gdesc) : option (option mdesc) :=
  match g with
  | GZero => None
  | GField fd | GMapVal fd => Some (match fd_type fd with TMsg name => find_msg S name | TScalar _ => None end)
  end.

Definition append_tag (buf : list Z) (num wt : Z) : option (list Z) :=
  if (num <? 1) || (num >? MAX_FIELD_NUMBER) then None else Some (buf ++ varint_enc (num * 8 + wt)).

Definition T_NIL := 0.  Definition T_OBJ := 1.  Definition T_ARR := 2.  Definition T_MAP := 3.
Record frame := mk_frame { fr_typ : Z; fr_root : option mdesc; fr_fd : option gdesc; fr_pos : Z }.
Definition nil_frame := mk_frame T_NIL None None (-1).

(* the stack is a list, top first: sp = length - 1.  Frames above sp are always in the reset state in the Go
   code (pop resets the slot, the pool hands out reset visitors), so incrSP without a write exposes [nil_frame]. *)
Record mstate := mk_st { m_stk : list frame; m_glob : option gdesc; m_inskip : bool; m_skipd : nat; m_buf : list Z }.
Inductive mres := MOk (s : mstate) | MErr | MPanic | MUnmod.

Definition set_stk (st : mstate) (s : list frame) := mk_st s (m_glob st) (m_inskip st) (m_skipd st) (m_buf st).
Definition set_glob (st : mstate) (g : option gdesc) := mk_st (m_stk st) g (m_inskip st) (m_skipd st) (m_buf st).
Definition set_inskip (st : mstate) (b : bool) := mk_st (m_stk st) (m_glob st) b (m_skipd st) (m_buf st).
Definition set_skipd (st : mstate) (d : nat) := mk_st (m_stk st) (m_glob st) (m_inskip st) d (m_buf st).
Definition set_buf (st : mstate) (b : list Z) := mk_st (m_stk st) (m_glob st) (m_inskip st) (m_skipd st) b.

(* len(stk) of the pooled visitor (defaultStkDepth) = the value at which the uint8 sp wraps: push fails with the
   max-depth ERROR exactly when 256 frames are in use; Check09 judges the boundary with this machine (an earlier error,
   a later one or a panic on a document the denotation accepts is a violation) *)
Definition STK_DEPTH : nat := 256.

Section Machine.
  Variable disallow : bool.
  Variable S : schema.
  Variable junk : list Z.           (* content of the spare capacity seen by FinishSpeculativeLength *)

  Definition top_of (st : mstate) : frame := hd nil_frame (m_stk st).

  (* incrSP + store: sp is a uint8 that wraps from 255 to 0 *)
  Definition push (st : mstate) (fr : frame) : mres :=
    if (STK_DEPTH <=? length (m_stk st))%nat then MErr else MOk (set_stk st (fr :: m_stk st)).

  (* FinishSpeculativeLength(buf, pos); pos = -1 ends in b[:-1] *)
  Definition finish (buf : list Z) (pos : Z) : option (list Z) :=
    if pos <? 0 then None else Some (finish_spec buf junk (Z.to_nat pos)).

  Definition on_value_end (st : mstate) : mres :=
    match m_stk st with
    | [] => MPanic
    | top :: rest =>
      match m_glob st with
      | Some _ =>
        if fr_typ top =? T_MAP then
          match finish (m_buf st) (fr_pos top) with
          | None => MPanic
          | Some b => MOk (set_buf (set_stk (set_glob st None) rest) b)
          end
        else MOk (set_glob st None)
      | None =>
        match rest with
        | [] => MOk st                                  (* sp == 0 && globalFieldDesc == nil *)
        | ntop :: rest2 =>
          if fr_typ top =? T_OBJ then
            if fr_typ ntop =? T_MAP then
              match finish (m_buf st) (fr_pos ntop) with
              | None => MPanic
              | Some b => MOk (set_buf (set_stk st rest2) b)
              end
            else MOk (set_stk st rest)
          else if (fr_typ top =? T_ARR) || (fr_typ top =? T_MAP) then MOk (set_stk st rest)
          else MErr                                     (* "disMatched ValueEnd" *)
        end
      end
    end.

  Definition on_null (st : mstate) : mres :=
    if m_inskip st then MOk (set_inskip st false)
    else match m_glob st with
         | None =>
           match m_stk st with
           | [_] | [] => MErr                            (* sp == 0: "the document must be a JSON object" *)
           | _ => MOk st                                 (* null list element: ignored *)
           end
         | Some _ => on_value_end st                     (* null member: absent; null map value: closes the pair *)
         end.

  (* checkScalarField *)
  Definition check_scalar_field (st : mstate) (fd : option gdesc) : bool :=
    match fd with
    | None | Some GZero => false
    | Some g =>
      match m_glob st with
      | Some _ => negb (match g_islist g with Some b => b | None => true end || match g_ismap g with Some b => b | None => true end)
      | None => true
      end
    end.

  (* OnBool / OnString / OnInt64 / OnFloat64 *)
  Definition on_scalar (e : ev) (st : mstate) : mres :=
    if m_inskip st then MOk (set_inskip st false) else
    let top := top_of st in
    let fd :=
      match m_glob st with
      | Some g => Some g
      | None =>
        if is_str_ev e
        then match fr_fd top with
             | Some t => match g_islist t with Some true => Some t | _ => None end
             | None => None
             end
        else if fr_typ top =? T_ARR then fr_fd top else None
      end in
    if negb (check_scalar_field st fd) then MErr else
    match fd with
    | None => MErr
    | Some g =>
      let tagged :=
        if is_str_ev e || negb (match g_ispacked g with Some b => b | None => false end) then
          match append_tag (m_buf st) (g_num g) (kwire (g_kind g)) with Some b => MOk (set_buf st b) | None => MErr end
        else MOk st in
      match tagged with
      | MOk st1 =>
        match scalar_payload (g_kind g) e with
        | SErr => MErr
        | SUnmod => MUnmod
        | SBytes p =>
          let st2 := set_buf st1 (m_buf st1 ++ p) in
          match m_glob st with Some _ => on_value_end st2 | None => MOk st2 end
        end
      | r => r
      end
    end.

  Definition on_obj_begin (st : mstate) : mres :=
    if m_inskip st then MOk (set_skipd st 1) else      (* VisitOPSkip: sonic skips the object, then calls OnObjectEnd *)
    let top := top_of st in
    let fd := match m_glob st with
              | Some g => Some g
              | None => if fr_typ top =? T_ARR then fr_fd top else None
              end in
    match fd with
    | None => match m_stk st with [_] | [] => MOk st | _ => MErr end     (* the document itself / "unexpected object value" *)
    | Some g =>
      match g_ismap g, g_islist g with
      | Some ismap, Some islist =>
        if negb (g_kind g =? K_MESSAGE) || (match m_glob st with Some _ => islist | None => false end) then MErr
        else if ismap then
          match push st (mk_frame T_MAP None (Some g) (-1)) with MOk st' => MOk (set_glob st' None) | r => r end
        else
          match append_tag (m_buf st) (g_num g) 2 with
          | None => MErr
          | Some b =>
            match push (set_buf st (b ++ [0])) (mk_frame T_OBJ None (Some g) (plen b)) with
            | MOk st' => MOk (set_glob st' None)
            | r => r
            end
          end
      | _, _ => MErr                                                       (* fieldDesc.Type() == nil *)
      end
    end.

  Definition lookup_member (md : mdesc) (key : list Z) (st : mstate) : mres :=
    match find_field_name md key with
    | Some fd => MOk (set_glob st (Some (GField fd)))
    | None => if disallow then MErr else MOk (set_inskip st true)
    end.

  Definition on_key (key : list Z) (st : mstate) : mres :=
    let top := top_of st in
    match fr_root top with
    | Some md => lookup_member md key st
    | None =>
      if fr_typ top =? T_OBJ then
        match fr_fd top with
        | None => MPanic
        | Some g =>
          match g_message S g with
          | Some (Some md) => lookup_member md key st
          | _ => MPanic                                   (* ByJSONName on a nil *MessageDescriptor *)
          end
        end
      else if fr_typ top =? T_MAP then
        match fr_fd top with
        | Some (GField fd) =>
          match fd_label fd with
          | LMap kk =>
            match append_tag (m_buf st) (fd_num fd) 2 with
            | None => MErr
            | Some b =>
              match append_tag (b ++ [0]) 1 (kwire kk) with
              | None => MErr
              | Some b2 =>
                match encode_map_key b2 key kk with
                | None => MErr
                | Some b3 =>
                  match push (set_buf st b3) (mk_frame T_MAP None (Some (GField fd)) (plen b)) with
                  | MOk st' => MOk (set_glob st' (Some (GMapVal fd)))
                  | r => r
                  end
                end
              end
            end
          | _ => MPanic
          end
        | _ => MPanic
        end
      else if fr_typ top =? T_ARR then
        match fr_fd top with Some g => MOk (set_glob st (Some g)) | None => MPanic end
      else MOk (set_glob st (Some GZero))
    end.

  Definition on_obj_end (st : mstate) : mres :=
    if m_inskip st then MOk (set_inskip st false) else
    let top := top_of st in
    if fr_pos top =? -1 then on_value_end st
    else match finish (m_buf st) (fr_pos top) with
         | None => MPanic
         | Some b => on_value_end (set_buf st b)
         end.

  Definition on_arr_begin (st : mstate) : mres :=
    if m_inskip st then MOk (set_skipd st 1) else
    match m_glob st with
    | None => MErr                                                         (* "unexpected array value" *)
    | Some g =>
      match g_islist g, g_ispacked g with
      | Some true, Some packed =>
        if packed then
          match append_tag (m_buf st) (g_num g) 2 with
          | None => MErr
          | Some b =>
            match push (set_buf st (b ++ [0])) (mk_frame T_ARR None (Some g) (plen b)) with
            | MOk st' => MOk (set_glob st' None)
            | r => r
            end
          end
        else match push st (mk_frame T_ARR None (Some g) (-1)) with MOk st' => MOk (set_glob st' None) | r => r end
      | _, _ => MErr
      end
    end.

  Definition on_arr_end (st : mstate) : mres :=
    if m_inskip st then MOk (set_inskip st false) else
    let top := top_of st in
    if fr_pos top =? -1 then on_value_end st
    else match fr_fd top with
         | None => MPanic
         | Some g =>
           match g_ispacked g with
           | None => MPanic
           | Some true =>
             match finish (m_buf st) (fr_pos top) with
             | None => MPanic
             | Some b => on_value_end (set_buf st b)
             end
           | Some false => on_value_end st
           end
         end.

  Definition step (e : ev) (st : mstate) : mres :=
    match m_skipd st with
    | Datatypes.S d =>        (* inside a container sonic is skipping: no callbacks until its end, then On*End *)
      match e with
      | EvObjBegin | EvArrBegin => MOk (set_skipd st (Datatypes.S (Datatypes.S d)))
      | EvObjEnd | EvArrEnd =>
        match d with
        | O => MOk (set_inskip (set_skipd st O) false)
        | Datatypes.S _ => MOk (set_skipd st d)
        end
      | _ => MOk st
      end
    | O =>
      match e with
      | EvObjBegin => on_obj_begin st
      | EvKey k => on_key k st
      | EvObjEnd => on_obj_end st
      | EvArrBegin => on_arr_begin st
      | EvArrEnd => on_arr_end st
      | EvNull => on_null st
      | _ => on_scalar e st
      end
    end.

  Fixpoint run (evs : list ev) (st : mstate) : mres :=
    match evs with
    | [] => MOk st
    | e :: r => match step e st with MOk st' => run r st' | x => x end
    end.

  Definition init_state (md : mdesc) : mstate :=
    mk_st [mk_frame T_OBJ (Some md) None (-1)] None false O [].
End Machine.

Inductive outcome := OOk (b : list Z) | OErr | OPanic | OUnmod.

(* decode(): run the visitor, then result(): sp must be back at 0 *)
Definition sax_run (disallow : bool) (S : schema) (root : list Z) (junk : list Z) (evs : list ev) : outcome :=
  match find_msg S root with
  | None => OUnmod
  | Some md =>
    match run disallow S junk evs (init_state md) with
    | MOk st => if (length (m_stk st) =? 1)%nat then OOk (m_buf st) else OErr
    | MErr => OErr
    | MPanic => OPanic
    | MUnmod => OUnmod
    end
  end.

Definition junk0 : list Z := [0;0;0;0;0;0;0;0;0].
Definition j2p_machine (disallow : bool) (S : schema) (root : list Z) (j : json) : outcome :=
  sax_run disallow S root junk0 (events j).

(* schemas without map fields (every nesting level costs one stack frame: depth 256 instead of 128) *)
Definition nomap_schema (S : schema) : bool :=
  forallb (fun md => forallb (fun fd => match fd_label fd with LMap _ => false | _ => true end) (md_fields md)) S.

(* ---- stack frames a document needs (type-directed, exact): the visitor's stack holds STK_DEPTH = 256 frames, the
   root object uses one; a message value pushes one frame, an array one, a map object one plus one per pair while its
   value is processed.  The refinement theorem holds for every document with  1 + need <= 256;  a document that needs
   more runs into the max-depth error of push (sp is a uint8 that wraps at 256). *)
Section Need.
  Variable S : schema.
  Section Level.
    Variable rec : mdesc -> list (list Z * json) -> nat.
    Definition need_single (t : ftype) (v : json) : nat :=
      match t, v with
      | TMsg name, JObj ms => match find_msg S name with Some md => Datatypes.S (rec md ms) | None => O end
      | _, _ => O
      end.
    Definition need_field (fd : fdesc) (v : json) : nat :=
      match fd_label fd with
      | LSingular => need_single (fd_type fd) v
      | LRepeated _ =>
        match v with
        | JArr xs => Datatypes.S (fold_right (fun x m => Nat.max (need_single (fd_type fd) x) m) O xs)
        | _ => O
        end
      | LMap _ =>
        match v with
        | JObj [] => 1%nat
        | JObj ms => Datatypes.S (Datatypes.S (fold_right (fun x m => Nat.max (need_single (fd_type fd) (snd x)) m) O ms))
        | _ => O
        end
      end.
    Definition need_members (md : mdesc) (ms : list (list Z * json)) : nat :=
      fold_right (fun x m => Nat.max (match find_field_name md (fst x) with
                                      | Some fd => need_field fd (snd x)
                                      | None => O
                                      end) m) O ms.
  End Level.
  Fixpoint need (fuel : nat) (md : mdesc) (ms : list (list Z * json)) : nat :=
    match fuel with O => O | Datatypes.S f => need_members (need f) md ms end.
End Need.

Definition frames_needed (S : schema) (root : list Z) (j : json) : nat :=
  match find_msg S root, j with
  | Some md, JObj ms => Datatypes.S (need S (json_depth j) md ms)
  | _, _ => 1%nat
  end.
