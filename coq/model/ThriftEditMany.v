(* C04, Node.SetMany at ALGORITHM level (thrift/generic/node.go: SetMany, setNotFound, pnSlice.Less / Sort, replaceMany),
   over the BYTES of the container node the call is made on.  Model only; proofs in proofs/ThriftEditManyProofs.v.
   (Value.SetMany does not exist: it is commented out in value.go, so there is no typed variant to transcribe.)

   Go                                                            here
   --------------------------------------------------------------------------------------------------------------
   getMany(ps.a, true, opts)  Fields / Indexes / Gets             get_many: one gnode per request (found span or empty)
   for i, a := range ps.a { if a.IsEmpty() { ... setNotFound } }  nf_pass: in REQUEST order, count + 1 in place each time,
                                                                  the new node gets its field header / key bytes
   ps.Sort()  (Less: address, then length)                        isort (stable insertion sort on (v, l))
   replaceMany: one pass, gap copy + new bytes, tail copy          replace_many_loop
   The request's getMany is modelled per request with ThriftGeneric's search functions (first match); Fields / Gets scan
   the container once and compare every entry with every request, which is the same thing when the children of the
   container have distinct ids / keys (assumption; C01's GetMany checks tie that loop to the implementation). *)
From Coq Require Import ZArith List Bool.
From DG Require Import ProtoWireRef ThriftWire CaseFormat ThriftGeneric ThriftEdit ThriftEditBytes.
Import ListNotations.
Local Open Scope Z_scope.

(* what getMany leaves in ps.a[i].Node *)
Inductive gnode := GNone | GNode (t s e : Z).

(* MErr: SetMany returns an error, buffer untouched.  MUndef: the code goes on with a garbage node (an error of setNotFound
   is IGNORED by SetMany; a negative gap length in replaceMany is handed to rt.BytesFrom): outside any contract *)
Inductive mres := MOk (bs : list Z) | MErr | MUndef.

Definition api_of (s : pstep) : Z := match s with PField _ => 1 | PIndex _ => 2 | _ => 3 end.
Definition api_fits (api t : Z) : bool :=
  if api =? 1 then t =? T_STRUCT else if api =? 2 then (t =? T_LIST) || (t =? T_SET) else t =? T_MAP.

(* one request inside Fields / Indexes / Gets; None = read error *)
Definition get_one (api t : Z) (bs : list Z) (s : pstep) : option gnode :=
  if negb (api_of s =? api) then Some GNone else                      (* a request of another family matches nothing *)
  let skip_it := match s with
                 | PIndex i => i <? 0                                 (* never equals the running index *)
                 | PStrKey _ | PIntKey _ => negb (key_kind_ok s (nth 0 bs 0))   (* Gets: kt == STRING / kt.IsInt() guards the hit *)
                 | _ => false
                 end in
  if skip_it then Some GNone else
  match search1 t s bs with
  | SFound t' o rest => match skip_go t' rest with
                        | Some r => Some (GNode t' o (o + (zlen rest - zlen r)))
                        | None => None
                        end
  | SNotFound => Some GNone
  | SErr => None
  end.

Fixpoint get_all (api t : Z) (bs : list Z) (ss : list pstep) : option (list gnode) :=
  match ss with
  | [] => Some []
  | s :: r => match get_one api t bs s, get_all api t bs r with
              | Some g, Some gs => Some (g :: gs)
              | _, _ => None
              end
  end.

(* a request as SetMany sees it: path step, type and bytes of the new node *)
Definition mreq := (pstep * Z * list Z)%type.

(* entry of the pnSlice after the not-found pass: address and length of ps.a[i].Node, payload *)
Definition pn (A : Type) := (Z * Z * A)%type.
Definition pn_v {A} (p : pn A) : Z := fst (fst p).
Definition pn_l {A} (p : pn A) : Z := snd (fst p).
Definition pn_x {A} (p : pn A) : A := snd p.

(* the loop over ps.a in request order: empty nodes become insertion points at sp (front of the container), setNotFound
   patches the count in place (cumulatively) and prefixes the new bytes with field header / key; None = setNotFound failed
   and SetMany ignored it *)
Fixpoint nf_pass (ct sp : Z) (bs : list Z) (items : list mreq) (nodes : list gnode) : option (list Z * list (pn (list Z))) :=
  match items, nodes with
  | (s, xt, xb) :: ir, nd :: nr =>
    match nd with
    | GNode _ o e =>
      match nf_pass ct sp bs ir nr with Some (b, l) => Some (b, (o, e - o, xb) :: l) | None => None end
    | GNone =>
      match set_not_found ct sp s bs xb xt with
      | None => None
      | Some (bs', nb) => match nf_pass ct sp bs' ir nr with Some (b, l) => Some (b, (sp, 0, nb) :: l) | None => None end
      end
    end
  | _, _ => Some (bs, [])
  end.

(* pnSlice.Less *)
Definition pn_less {A} (a b : pn A) : bool :=
  if pn_v a =? pn_v b then pn_l a <? pn_l b else pn_v a <? pn_v b.

(* sort.Sort is an insertion sort (stable) up to 12 elements; beyond that pdqsort may order EQUAL entries differently.
   Equal entries are insertion points (same address, length 0) — their order is the insertion order the property leaves
   open — or duplicate requests for one existing child, which replaceMany cannot handle anyway (negative gap). *)
Fixpoint pn_insert {A} (x : pn A) (l : list (pn A)) : list (pn A) :=
  match l with
  | [] => [x]
  | y :: r => if pn_less y x then y :: pn_insert x r else x :: l     (* x came EARLIER than y in the request list: it stays in front of an equal y *)
  end.
Definition isort {A} (l : list (pn A)) : list (pn A) := fold_right pn_insert [] l.

(* replaceMany's loop; None = a negative length reaches rt.BytesFrom *)
Fixpoint replace_many_loop (bs : list Z) (len : Z) (ps : list (pn (list Z))) (offset : Z) (buf : list Z) : option (list Z) :=
  match ps with
  | [] => Some (if offset <? len then buf ++ bskipn offset bs else buf)
  | p :: r =>
    if offset <? len then
      let gap := pn_v p - offset in
      if gap <? 0 then None
      else replace_many_loop bs len r (pn_v p + pn_l p) (buf ++ bfirstn gap (bskipn offset bs) ++ pn_x p)
    else replace_many_loop bs len r (pn_v p + pn_l p) (buf ++ pn_x p)
  end.

Definition set_many_bytes (t : Z) (bs : list Z) (items : list mreq) : mres :=
  match items with
  | [] => MOk bs
  | (s0, _, _) :: _ =>
    let api := api_of s0 in
    if negb (api_fits api t) then MErr else
    match get_all api t bs (map (fun it => fst (fst it)) items) with
    | None => MErr
    | Some nodes =>
      match nf_pass t (nf_start t) bs items nodes with
      | None => MUndef
      | Some (bs', pns) =>
        match replace_many_loop bs' (zlen bs') (isort pns) 0 [] with
        | Some r => MOk r
        | None => MUndef
        end
      end
    end
  end.

(* ================= specification: which AST edits this amounts to, in which order ================= *)
(* one new child at the front, whatever is there (ThriftEditProofs.insert_at true) *)
Definition ins_front (s : pstep) (x : tval) (v : tval) : option tval :=
  match s, v with
  | PField id, VStruct fs => Some (VStruct ((id, x) :: fs))
  | PIndex i, VList et es => if i <? 0 then None else Some (VList et (x :: es))
  | PIndex i, VSet et es => if i <? 0 then None else Some (VSet et (x :: es))
  | _, VMap kt vt es =>
      match key_pred kt s with
      | None => None
      | Some _ => match key_of_step kt s with Some kv => Some (VMap kt vt ((kv, x) :: es)) | None => None end
      end
  | _, _ => None
  end.

(* the plan of a call: per request (index j, step, new value) the node the search finds in the ORIGINAL value — (offset,
   length) — or the insertion point (front, length 0) *)
Definition rq := (nat * (pstep * tval))%type.
Definition plan_entry (v : tval) (j : nat) (it : pstep * tval) : pn rq :=
  match lookup1 v (fst it) with
  | LFound c o => (o, zlen (encode c), (j, it))
  | _ => (nf_start (type_of v), 0, (j, it))
  end.
Fixpoint plan_from (v : tval) (j : nat) (items : list (pstep * tval)) : list (pn rq) :=
  match items with [] => [] | it :: r => plan_entry v j it :: plan_from v (S j) r end.

Definition is_abs {A} (p : pn A) : bool := pn_l p =? 0.

(* replacements, folded from the LAST (highest address) to the first: every step must find, in the value edited so far,
   the same element at the same place as in the original (true whenever the children are distinct), of the new node's type *)
Fixpoint repl_desc (v : tval) (l : list (pn rq)) : option tval :=
  match l with
  | [] => Some v
  | p :: r =>
    let '(s, x) := snd (pn_x p) in
    match lookup1 v s with
    | LFound c o =>
      if (o =? pn_v p) && (zlen (encode c) =? pn_l p) && (type_of c =? type_of x) && wf x && wf v && (depth v <=? max_skip_depth)%nat
      then match ast_set true [s] x v with Some (v', _) => repl_desc v' r | None => None end
      else None
    | _ => None
    end
  end.

(* spans in ascending order that do not overlap, from [a] on *)
Fixpoint chain_okb {A} (a len : Z) (l : list (pn A)) : bool :=
  match l with
  | [] => a <=? len
  | p :: r => (a <=? pn_v p) && (0 <=? pn_l p) && chain_okb (pn_v p + pn_l p) len r
  end.

Definition nat_list_eqb (a b : list nat) : bool := list_eqb Nat.eqb a b.

(* the absent requests end up at the front of the container in the given order (= folding ins_front over the reversed list);
   every intermediate value must stay inside the API contract of an insertion (ThriftEdit.ins_ok: declared element type,
   int16 id, well-formed key, count < 2^31; raw keys decode as keys) and SkipGo's depth limit *)
Fixpoint ins_many (abs : list (pstep * tval)) (v : tval) : option tval :=
  match abs with
  | [] => Some v
  | (s, x) :: r =>
    match ins_many r v with
    | Some v' =>
        if wf x && wf v' && (depth v' <=? max_skip_depth)%nat && ins_ok s x v' && raw_key_ok s v' then ins_front s x v' else None
    | None => None
    end
  end.

(* SetMany's effect on the AST, or None outside the domain of the refinement theorem:
   - the requests are all of the container's family;
   - after the sort the insertion points come first, in REQUEST order, then the existing children by ascending address
     without overlap (no two requests for one child);
   - result = the replacements (applied from the highest address down) followed by the insertions, which end up at the
     front of the container in request order. *)
Definition set_many_spec (v : tval) (items : list (pstep * tval)) : option tval :=
  match items with
  | [] => Some v
  | (s0, _) :: _ =>
    if negb (api_fits (api_of s0) (type_of v)) then None else
    if negb (forallb (fun it => api_of (fst it) =? api_of s0) items) then None else
    let pl := plan_from v 0 items in
    let srt := isort pl in
    let k := length (filter is_abs pl) in
    let ins := firstn k srt in
    let rep := skipn k srt in
    if negb (nat_list_eqb (map (fun p => fst (pn_x p)) ins) (map (fun p => fst (pn_x p)) (filter is_abs pl))) then None else
    if negb (forallb is_abs ins) then None else
    if negb (forallb (fun p => negb (is_abs p)) rep) then None else
    if negb (chain_okb (nf_start (type_of v)) (zlen (encode v)) rep) then None else
    match repl_desc v (rev rep) with
    | Some v1 => ins_many (map (fun p => snd (pn_x p)) ins) v1
    | None => None
    end
  end.
