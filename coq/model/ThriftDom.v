(* Thrift DOM (thrift/generic/path.go PathNode): model only — proofs are in proofs/ThriftDomProofs.v.

   Algorithm level  : [tree] = PathNode tree holding RAW byte slices; [load] walks BYTES with skip exactly as
                      scanChildren/handleChild do; [marshal] mirrors PathNode.marshal (raw copy for childless nodes,
                      empty slots skipped, container size rewritten).
   Spec level       : [dom] = the same tree with typed leaves; [dom_of] (what Load means on the decoded value),
                      [val_of_dom] (the value a tree denotes), [dom_step] (tree edits), [ast_step] (the same edits on values).
   Storage          : [ById] direct index below the threshold 256, sequential above (holes allowed);
                      [ByHash] open addressing with linear probing over N = 2*size slots, ABSTRACT hash function. *)
From Coq Require Import ZArith List Bool.
From DG Require Import ProtoWireRef ThriftWire CaseFormat ThriftGeneric.
Import ListNotations.
Local Open Scope Z_scope.

(* ------------------------------------------------------------------------------------------------ *)
(* Path keys (generic.Path) and the algorithm-level tree                                             *)
(* ------------------------------------------------------------------------------------------------ *)

Inductive pkey := KNone | KField (id : Z) | KIndex (i : Z) | KStr (s : list Z) | KInt (k : Z) | KBin (b : list Z).

Definition key_eqb (a b : pkey) : bool :=
  match a, b with
  | KNone, KNone => true
  | KField x, KField y => x =? y
  | KIndex x, KIndex y => x =? y
  | KStr x, KStr y => bytes_eqb x y
  | KInt x, KInt y => x =? y
  | KBin x, KBin y => bytes_eqb x y
  | _, _ => false
  end.

(* Path.l : what Path.id()/int() read, whatever the path type *)
Definition key_l (k : pkey) : Z :=
  match k with KNone => 0 | KField i => i | KIndex i => i | KInt i => i | KStr s => zlen s | KBin b => zlen b end.

(* PathNode: Node{t,et,kt,raw} + Next.  t = 0 (STOP) is the empty node. *)
Inductive tree := T (t et kt : Z) (raw : list Z) (next : list (pkey * tree)).

Definition t_type (x : tree) : Z := match x with T t _ _ _ _ => t end.
Definition t_raw (x : tree) : list Z := match x with T _ _ _ r _ => r end.
Definition t_next (x : tree) : list (pkey * tree) := match x with T _ _ _ _ n => n end.
Definition t_empty (x : tree) : bool := t_type x =? 0.
Definition empty_tree : tree := T 0 0 0 [] [].

(* FieldID is uint16 *)
Definition fid (id : Z) : Z := id mod 65536.

(* element / key type bytes of a container header (Node.slice reads them from the raw bytes) *)
Definition hdr_et (t : Z) (bs : list Z) : Z :=
  if (t =? T_LIST) || (t =? T_SET) then nth 0 bs 0 else if t =? T_MAP then nth 1 bs 0 else 0.
Definition hdr_kt (t : Z) (bs : list Z) : Z := if t =? T_MAP then nth 0 bs 0 else 0.

Definition leaf_of (t : Z) (raw : list Z) : tree := T t (hdr_et t raw) (hdr_kt t raw) raw [].

(* ---------------- marshal (PathNode.marshal) ---------------- *)

Definition int_width (kt : Z) : nat :=
  if kt =? T_BYTE then 1%nat else if kt =? T_I16 then 2%nat else if kt =? T_I32 then 4%nat else 8%nat.

(* key bytes a MAP child is written with; None = "path key must be ..." error *)
Definition key_bytes (kt : Z) (k : pkey) : option (list Z) :=
  if kt =? T_STRING then match k with KStr s => Some (enc_int 4 (zlen s) ++ s) | _ => None end
  else if is_int_type kt then match k with KInt n => Some (enc_int (int_width kt) n) | _ => None end
  else match k with KBin b => Some b | _ => None end.

Fixpoint cat_opt (l : list (option (list Z))) : option (list Z) :=
  match l with
  | [] => Some []
  | None :: _ => None
  | Some a :: r => match cat_opt r with Some b => Some (a ++ b) | None => None end
  end.

(* the size the code leaves in the header: starts at len(Next), minus one per empty slot *)
Definition rewritten_size (next : list (pkey * tree)) : Z :=
  fold_left (fun sz kc => if t_empty (snd kc) then sz - 1 else sz) next (zlen next).

Definition scalar_marshal_type (t : Z) : bool :=
  (t =? T_BOOL) || (t =? T_BYTE) || (t =? T_I16) || (t =? T_I32) || (t =? T_I64) || (t =? T_DOUBLE) || (t =? T_STRING).

(* thrift.ERROR: the node a failed lookup returns (Node.Field()/GetByPath() on an absent element, ...). A tree holding one
   has no encoding: PathNode.marshal starts with `if self.IsError() { return self.Node }`, for the root and, through the
   recursion, for every child that is not skipped as empty. *)
Definition T_ERROR := 255.

Fixpoint marshal (x : tree) : option (list Z) :=
  match x with
  | T t et kt raw next =>
    if t =? T_ERROR then None else
    match next with
    | [] => Some raw
    | _ =>
      if t =? T_STRUCT then
        match cat_opt (map (fun kc => if t_empty (snd kc) then Some []
                                      else match marshal (snd kc) with
                                           | Some b => Some (t_type (snd kc) :: enc_int 2 (key_l (fst kc)) ++ b)
                                           | None => None
                                           end) next) with
        | Some b => Some (b ++ [0])
        | None => None
        end
      else if (t =? T_LIST) || (t =? T_SET) then
        match cat_opt (map (fun kc => if t_empty (snd kc) then Some [] else marshal (snd kc)) next) with
        | Some b => Some (et :: enc_int 4 (rewritten_size next) ++ b)
        | None => None
        end
      else if t =? T_MAP then
        match cat_opt (map (fun kc => if t_empty (snd kc) then Some []
                                      else match key_bytes kt (fst kc), marshal (snd kc) with
                                           | Some kb, Some b => Some (kb ++ b)
                                           | _, _ => None
                                           end) next) with
        | Some b => Some (kt :: et :: enc_int 4 (rewritten_size next) ++ b)
        | None => None
        end
      else if scalar_marshal_type t then Some raw
      else None
    end
  end.

(* ---------------- load (PathNode.Load -> scanChildren / handleChild), walking BYTES ---------------- *)

(* key of a map entry as scanChildren reads it; returns the key and the bytes after it *)
Definition read_key (kt : Z) (bs : list Z) : option (pkey * list Z) :=
  if kt =? T_STRING then
    match dec_scalar T_STRING bs with Some (VString s, r) => Some (KStr s, r) | _ => None end
  else if is_int_type kt then
    match dec_scalar kt bs with
    | Some (k, r) => match int_of_key k with Some z => Some (KInt z, r) | None => None end
    | None => None
    end
  else
    match skip_go kt bs with
    | Some r => Some (KBin (firstn (length bs - length r) bs), r)
    | None => None
    end.

Section LoadLoops.
  (* handleChild at the next recursion level: child of type t at the head of bs *)
  Variable child : Z -> list Z -> option (tree * list Z).

  Fixpoint scan_fields (fuel : nat) (bs : list Z) : option (list (pkey * tree) * list Z) :=
    match fuel with
    | O => None
    | S f =>
      match bs with
      | [] => None
      | t :: r =>
        if t =? 0 then Some ([], r)
        else match take 2 r with
             | None => None
             | Some (idb, r2) =>
               match child t r2 with
               | None => None
               | Some (c, r3) =>
                 match scan_fields f r3 with
                 | None => None
                 | Some (cs, r4) => Some ((KField (fid (dec_int idb)), c) :: cs, r4)
                 end
               end
             end
      end
    end.

  Fixpoint scan_elems (n : nat) (i : Z) (et : Z) (bs : list Z) : option (list (pkey * tree) * list Z) :=
    match n with
    | O => Some ([], bs)
    | S n' =>
      match child et bs with
      | None => None
      | Some (c, r) =>
        match scan_elems n' (i + 1) et r with
        | None => None
        | Some (cs, r') => Some ((KIndex i, c) :: cs, r')
        end
      end
    end.

  Fixpoint scan_pairs (n : nat) (kt et : Z) (bs : list Z) : option (list (pkey * tree) * list Z) :=
    match n with
    | O => Some ([], bs)
    | S n' =>
      match read_key kt bs with
      | None => None
      | Some (k, r) =>
        match child et r with
        | None => None
        | Some (c, r2) =>
          match scan_pairs n' kt et r2 with
          | None => None
          | Some (cs, r3) => Some ((k, c) :: cs, r3)
          end
        end
      end
    end.

  (* scanChildren of a node of type t: (et, kt, children, rest) *)
  Definition scan (t : Z) (bs : list Z) : option (Z * Z * list (pkey * tree) * list Z) :=
    if t =? T_STRUCT then
      match scan_fields (S (length bs)) bs with
      | Some (cs, r) => Some (0, 0, cs, r)
      | None => None
      end
    else if (t =? T_LIST) || (t =? T_SET) then
      match bs with
      | et :: r =>
        match dec_count r with
        | Some (n, r2) => match scan_elems n 0 et r2 with Some (cs, r3) => Some (et, 0, cs, r3) | None => None end
        | None => None
        end
      | [] => None
      end
    else if t =? T_MAP then
      match bs with
      | kt :: et :: r =>
        if valid_type kt && valid_type et then     (* ReadMapBegin rejects invalid type bytes *)
          match dec_count r with
          | Some (n, r2) => match scan_pairs n kt et r2 with Some (cs, r3) => Some (et, kt, cs, r3) | None => None end
          | None => None
          end
        else None
      | _ => None
      end
    else None.
End LoadLoops.

(* handleChild. rec = recurse flag, ns = opts.NotScanParentNode. Depth fuel d for the recursion into children. *)
Fixpoint load_child (d : nat) (rec ns : bool) (t : Z) (bs : list Z) {struct d} : option (tree * list Z) :=
  if rec && is_container t then
    match d with
    | O => None
    | S d' =>
      if ns then
        match scan (load_child d' rec ns) t bs with
        | Some (et, kt, cs, rest) => Some (T t et kt [] cs, rest)
        | None => None
        end
      else
        match skip_go t bs with
        | None => None
        | Some rest0 =>
          let raw := firstn (length bs - length rest0) bs in
          match scan (load_child d' rec ns) t bs with
          | Some (et, kt, cs, rest) => Some (T t (hdr_et t raw) (hdr_kt t raw) raw cs, rest)
          | None => None
          end
        end
    end
  else
    match skip_go t bs with
    | None => None
    | Some rest => Some (leaf_of t (firstn (length bs - length rest) bs), rest)
    end.

(* PathNode{Node: NewNode(t, bs)}.Load(rec, opts) *)
Definition load (rec ns : bool) (t : Z) (bs : list Z) : option tree :=
  match scan (load_child (length bs) rec ns) t bs with
  | Some (et, kt, cs, _) => Some (T t (hdr_et t bs) (hdr_kt t bs) bs cs)
  | None => None
  end.

(* ------------------------------------------------------------------------------------------------ *)
(* Spec level: typed trees                                                                           *)
(* ------------------------------------------------------------------------------------------------ *)

Inductive dom := DLeaf (v : tval) | DEmpty | DNode (t et kt : Z) (raw : list Z) (kids : list (pkey * dom)).

Definition et_of (v : tval) : Z := match v with VList et _ => et | VSet et _ => et | VMap _ vt _ => vt | _ => 0 end.
Definition kt_of (v : tval) : Z := match v with VMap kt _ _ => kt | _ => 0 end.

Fixpoint tree_of_dom (d : dom) : tree :=
  match d with
  | DLeaf v => T (type_of v) (et_of v) (kt_of v) (encode v) []
  | DEmpty => empty_tree
  | DNode t et kt raw kids => T t et kt raw (map (fun kd => (fst kd, tree_of_dom (snd kd))) kids)
  end.

(* key under which scanChildren stores a map entry *)
Definition key_of_val (k : tval) : pkey :=
  match k with
  | VString s => KStr s
  | VByte z => KInt (z mod 256)
  | VI16 z => KInt z | VI32 z => KInt z | VI64 z => KInt z
  | _ => KBin (encode k)
  end.

Fixpoint index_keys {A} (i : Z) (l : list A) : list (pkey * A) :=
  match l with [] => [] | x :: r => (KIndex i, x) :: index_keys (i + 1) r end.

(* children of v, each built by f *)
Definition kids_of (f : tval -> dom) (v : tval) : list (pkey * dom) :=
  match v with
  | VStruct fs => map (fun x => (KField (fid (fst x)), f (snd x))) fs
  | VList _ es => index_keys 0 (map f es)
  | VSet _ es => index_keys 0 (map f es)
  | VMap _ _ es => map (fun e => (key_of_val (fst e), f (snd e))) es
  | _ => []
  end.

(* a loaded sub tree: ns = NotScanParentNode blanks the raw bytes of nested containers *)
Fixpoint dom_deep (ns : bool) (v : tval) : dom :=
  if is_container (type_of v) then
    match kids_of (dom_deep ns) v with
    | [] => if ns then DNode (type_of v) (et_of v) (kt_of v) [] [] else DLeaf v
    | ks => DNode (type_of v) (et_of v) (kt_of v) (if ns then [] else encode v) ks
    end
  else DLeaf v.

(* what Load(rec) builds for the root value v *)
Definition dom_of (rec ns : bool) (v : tval) : dom :=
  match kids_of (if rec then dom_deep ns else DLeaf) v with
  | [] => DLeaf v
  | ks => DNode (type_of v) (et_of v) (kt_of v) (encode v) ks
  end.

(* the value a typed tree denotes (None: empty node / not a value) *)
Definition live_vals {K} (f : dom -> option tval) (kids : list (K * dom)) : list (K * tval) :=
  flat_map (fun kd => match f (snd kd) with Some v => [(fst kd, v)] | None => [] end) kids.

Definition val_of_key (kt : Z) (k : pkey) : tval :=
  match k with
  | KStr s => VString s
  | KInt n => if kt =? T_BYTE then VByte (to_s 8 n) else if kt =? T_I16 then VI16 (to_s 16 n)
              else if kt =? T_I32 then VI32 (to_s 32 n) else VI64 (to_s 64 n)
  | KBin b => match decode (S (length b)) kt b with Some (kv, _) => kv | None => VString [] end
  | _ => VString []
  end.

Fixpoint val_of_dom (d : dom) : option tval :=
  match d with
  | DLeaf v => Some v
  | DEmpty => None
  | DNode t et kt raw kids =>
    let vs := flat_map (fun kd => match val_of_dom (snd kd) with Some v => [(fst kd, v)] | None => [] end) kids in
    if t =? T_STRUCT then Some (VStruct (map (fun kv => (to_s 16 (key_l (fst kv)), snd kv)) vs))
    else if t =? T_LIST then Some (VList et (map snd vs))
    else if t =? T_SET then Some (VSet et (map snd vs))
    else if t =? T_MAP then Some (VMap kt et (map (fun kv => (val_of_key kt (fst kv), snd kv)) vs))
    else None
  end.

(* ---------------- tree edits ---------------- *)

Inductive top :=
| OSet (k : pkey) (x : tval)     (* SetField / SetByStr / SetByInt / Next[i].Node = node of x *)
| OClear (k : pkey)              (* child.Node = Node{} *)
| OGet (k : pkey).               (* Field / GetByStr / GetByInt: no state change *)

Fixpoint find_kid {A} (k : pkey) (l : list (pkey * A)) : option A :=
  match l with [] => None | kc :: r => if key_eqb (fst kc) k then Some (snd kc) else find_kid k r end.

(* replace the child of the FIRST slot whose key is k *)
Fixpoint upd_kid {A} (k : pkey) (f : A -> A) (l : list (pkey * A)) : list (pkey * A) :=
  match l with
  | [] => []
  | kc :: r => if key_eqb (fst kc) k then (fst kc, f (snd kc)) :: r else kc :: upd_kid k f r
  end.

Definition has_kid {A} (k : pkey) (l : list (pkey * A)) : bool := match find_kid k l with Some _ => true | None => false end.

Definition is_index_key (k : pkey) : bool := match k with KIndex _ => true | _ => false end.

Definition set_kids (k : pkey) (x : tval) (kids : list (pkey * dom)) : list (pkey * dom) :=
  if has_kid k kids then upd_kid k (fun _ => DLeaf x) kids
  else if is_index_key k then kids            (* there is no append-by-index API *)
  else kids ++ [(k, DLeaf x)].

(* a childless loaded container (Next empty) behaves as a node without children: the first Set creates the first child *)
Definition open_node (d : dom) : option (Z * Z * Z * list Z * list (pkey * dom)) :=
  match d with
  | DNode t et kt raw kids => Some (t, et, kt, raw, kids)
  | DLeaf v => if is_container (type_of v) then Some (type_of v, et_of v, kt_of v, encode v, []) else None
  | DEmpty => None
  end.

Definition dom_step (d : dom) (o : top) : dom :=
  match o with
  | OGet _ => d
  | OSet k x =>
    match open_node d with
    | Some (t, et, kt, raw, kids) =>
      match set_kids k x kids with
      | [] => d
      | ks => DNode t et kt raw ks
      end
    | None => d
    end
  | OClear k =>
    match d with
    | DNode t et kt raw kids => DNode t et kt raw (upd_kid k (fun _ => DEmpty) kids)
    | _ => d
    end
  end.

Definition dom_get (d : dom) (k : pkey) : option dom :=
  match d with DNode _ _ _ _ kids => find_kid k kids | _ => None end.

(* apply an edit below a path of lookup keys (no-op when the path leaves the tree) *)
Fixpoint dom_upd (p : list pkey) (f : dom -> dom) (d : dom) : dom :=
  match p with
  | [] => f d
  | k :: p' =>
    match d with
    | DNode t et kt raw kids => DNode t et kt raw (upd_kid k (dom_upd p' f) kids)
    | _ => d
    end
  end.

Fixpoint dom_at (p : list pkey) (d : dom) : option dom :=
  match p with
  | [] => Some d
  | k :: p' => match dom_get d k with Some c => dom_at p' c | None => None end
  end.

Definition dom_step_at (d : dom) (po : list pkey * top) : dom := dom_upd (fst po) (fun x => dom_step x (snd po)) d.

(* ---------------- the same edits on values ---------------- *)

Definition key_matches (kt : Z) (k : pkey) (kv : tval) : bool := key_eqb (key_of_val kv) k.

Fixpoint ast_upd_field (id : Z) (x : tval) (fs : list (Z * tval)) : option (list (Z * tval)) :=
  match fs with
  | [] => None
  | f :: r => if fid (fst f) =? id then Some ((fst f, x) :: r)
              else match ast_upd_field id x r with Some r' => Some (f :: r') | None => None end
  end.
Fixpoint ast_del_field (id : Z) (fs : list (Z * tval)) : list (Z * tval) :=
  match fs with [] => [] | f :: r => if fid (fst f) =? id then r else f :: ast_del_field id r end.

Fixpoint ast_upd_nth (n : nat) (x : tval) (es : list tval) : list tval :=
  match es with [] => [] | e :: r => match n with O => x :: r | S n' => e :: ast_upd_nth n' x r end end.
Fixpoint ast_del_nth (n : nat) (es : list tval) : list tval :=
  match es with [] => [] | e :: r => match n with O => r | S n' => e :: ast_del_nth n' r end end.

Fixpoint ast_upd_key (k : pkey) (x : tval) (es : list (tval * tval)) : option (list (tval * tval)) :=
  match es with
  | [] => None
  | e :: r => if key_eqb (key_of_val (fst e)) k then Some ((fst e, x) :: r)
              else match ast_upd_key k x r with Some r' => Some (e :: r') | None => None end
  end.
Fixpoint ast_del_key (k : pkey) (es : list (tval * tval)) : list (tval * tval) :=
  match es with [] => [] | e :: r => if key_eqb (key_of_val (fst e)) k then r else e :: ast_del_key k r end.

Definition ast_step (v : tval) (o : top) : tval :=
  match o, v with
  | OSet (KField id) x, VStruct fs =>
      match ast_upd_field id x fs with Some fs' => VStruct fs' | None => VStruct (fs ++ [(to_s 16 id, x)]) end
  | OSet (KIndex i) x, VList et es => if (0 <=? i) && (i <? zlen es) then VList et (ast_upd_nth (Z.to_nat i) x es) else v
  | OSet (KIndex i) x, VSet et es => if (0 <=? i) && (i <? zlen es) then VSet et (ast_upd_nth (Z.to_nat i) x es) else v
  | OSet k x, VMap kt vt es =>
      match k with
      | KStr _ | KInt _ | KBin _ =>
        match ast_upd_key k x es with Some es' => VMap kt vt es' | None => VMap kt vt (es ++ [(val_of_key kt k, x)]) end
      | _ => v
      end
  | OClear (KField id), VStruct fs => VStruct (ast_del_field id fs)
  | OClear (KIndex i), VList et es => if (0 <=? i) && (i <? zlen es) then VList et (ast_del_nth (Z.to_nat i) es) else v
  | OClear (KIndex i), VSet et es => if (0 <=? i) && (i <? zlen es) then VSet et (ast_del_nth (Z.to_nat i) es) else v
  | OClear k, VMap kt vt es => VMap kt vt (ast_del_key k es)
  | _, _ => v
  end.

(* ------------------------------------------------------------------------------------------------ *)
(* Storage refinements                                                                               *)
(* ------------------------------------------------------------------------------------------------ *)

Fixpoint assoc {A} (k : Z) (l : list (Z * A)) : option A :=
  match l with [] => None | x :: r => if fst x =? k then Some (snd x) else assoc k r end.

Fixpoint set_nth {A} (n : nat) (x : A) (l : list A) : list A :=
  match n, l with
  | O, _ :: r => x :: r
  | S n', y :: r => y :: set_nth n' x r
  | _, [] => []
  end.

Section Storage.
  Context {A : Type}.
  Notation slot := (option (Z * A)).      (* None = empty slot (Path.t == 0) *)

  (* ---- StoreChildrenById: ids below the threshold are their own index, the others follow sequentially from 256 ---- *)
  Definition byid_threshold : Z := 256.

  (* grow to at least n slots (guardPathNodeSlice + con[:l+1]; fresh memory is empty) *)
  Definition grow (n : nat) (s : list slot) : list slot := s ++ repeat None (n - length s).

  (* one handleChild: returns the table and the next sequential position tp *)
  Definition byid_put (st : list slot * Z) (f : Z * A) : list slot * Z :=
    let '(s, tp) := st in
    let id := fst f in
    if id <? byid_threshold then (set_nth (Z.to_nat id) (Some f) (grow (S (Z.to_nat id)) s), tp)
    else (set_nth (Z.to_nat tp) (Some f) (grow (S (Z.to_nat tp)) s), tp + 1).

  Definition byid_build (fs : list (Z * A)) : list slot := fst (fold_left byid_put fs ([], byid_threshold)).

  Fixpoint scan_slots (id : Z) (s : list slot) : option A :=
    match s with
    | [] => None
    | Some (i, a) :: r => if i =? id then Some a else scan_slots id r
    | None :: r => scan_slots id r
    end.

  (* PathNode.Field with the bounds check of the proposed fix: fast path below the threshold, then the linear scans
     (slots from the threshold on, then the slots below it) *)
  Definition byid_get (s : list slot) (id : Z) : option A :=
    let fast := if id <? byid_threshold then
                  match nth_error s (Z.to_nat id) with Some (Some (i, a)) => if i =? id then Some a else None | _ => None end
                else None in
    match fast with
    | Some a => Some a
    | None =>
      match scan_slots id (skipn (Z.to_nat byid_threshold) s) with
      | Some a => Some a
      | None => scan_slots id (firstn (Z.to_nat byid_threshold) s)
      end
    end.

  (* what the code does today: `int(id) <= threshold` and NO bounds check: index out of range panics *)
  Inductive get_res := GPanic | GRes (r : option A).
  Definition byid_get_code (s : list slot) (id : Z) : get_res :=
    if (id <=? byid_threshold) && (zlen s <=? id) then GPanic else GRes (byid_get s id).

  (* ---- StoreChildrenByHash: open addressing, linear probing, N slots, abstract hash ---- *)
  Variable h : Z -> Z.                    (* hash of a key (StrHash(key) or uint64(key)); reduced mod N by the table *)

  (* first empty slot at or cyclically after position p, at most [fuel] probes *)
  Fixpoint seek (fuel : nat) (N : Z) (s : list slot) (p : Z) : option Z :=
    match fuel with
    | O => None
    | S f => match nth_error s (Z.to_nat p) with
             | Some None => Some p
             | Some (Some _) => seek f N s ((p + 1) mod N)
             | None => None
             end
    end.

  Definition hash_put (N : Z) (s : list slot) (kv : Z * A) : list slot :=
    match seek (Z.to_nat N) N s (h (fst kv) mod N) with
    | Some p => set_nth (Z.to_nat p) (Some kv) s
    | None => s                            (* table full: cannot happen for N = 2 * size (hash_build_never_full) *)
    end.

  Definition hash_build (N : Z) (kvs : list (Z * A)) : list slot :=
    fold_left (hash_put N) kvs (repeat None (Z.to_nat N)).

  (* probe from the home slot until the key or an empty slot is met *)
  Fixpoint probe (fuel : nat) (N : Z) (s : list slot) (k : Z) (p : Z) : option A :=
    match fuel with
    | O => None
    | S f => match nth_error s (Z.to_nat p) with
             | Some (Some (k', a)) => if k' =? k then Some a else probe f N s k ((p + 1) mod N)
             | _ => None
             end
    end.

  Definition hash_get (N : Z) (s : list slot) (k : Z) : option A := probe (Z.to_nat N) N s k (h k mod N).

  (* the table size scanChildren uses *)
  Definition hash_size (kvs : list (Z * A)) : Z := 2 * zlen kvs.

  (* ---- what the code does today (seekIntHash): the slot INDEX wraps, the slot POINTER does not ---- *)
  Fixpoint seek_code (fuel : nat) (N : Z) (s : list slot) (idx ptr : Z) : option Z :=
    match fuel with
    | O => None
    | S f => match nth_error s (Z.to_nat ptr) with
             | Some (Some _) => seek_code f N s ((idx + 1) mod N) (ptr + 1)
             | _ => Some idx             (* empty slot, or fresh (zero) memory behind the table *)
             end
    end.
  Definition hash_put_code (N : Z) (s : list slot) (kv : Z * A) : list slot :=
    match seek_code (S (length s)) N s (h (fst kv) mod N) (h (fst kv) mod N) with
    | Some p => set_nth (Z.to_nat p) (Some kv) s
    | None => s
    end.
  Definition hash_build_code (N : Z) (kvs : list (Z * A)) : list slot :=
    fold_left (hash_put_code N) kvs (repeat None (Z.to_nat N)).

  Definition live_slots (s : list slot) : list (Z * A) := flat_map (fun x => match x with Some kv => [kv] | None => [] end) s.
End Storage.
