(* C08 - Protobuf -> JSON (conv/p2j): the denotation of a typed message as a JSON value.
   Spec level only (no bytes are walked here): [pj_of] turns a typed message [pmsg] (ProtoMsg.v, what the
   proved decoder returns for the reference bytes) into a kind-annotated JSON tree [pj]; [pj_json]
   forgets the kinds and yields the JSON AST of Json.v with canonical number lexemes:

     message        -> object keyed by the fields' JSON names (fd_json), members in wire order
     int kinds/enum -> number with the exact decimal lexeme of the integer (every width, signed/unsigned)
     int64 under Int642String -> string holding that decimal (the option touches kind int64 only, as coded)
     float/double   -> number whose lexeme is the EXACT decimal expansion of the binary64 value
                       (float32 is widened exactly first, as float64(v) does); NaN/+-Inf have no JSON
                       spelling: [pjson_of] is None then (the conversion must fail)
     bool           -> true/false;  string -> string (same bytes);  bytes -> string holding std base64
     repeated       -> array, elements in order (packed or not)
     map            -> object whose member names are the STRINGIFIED keys (decimal for every integer
                       key kind, "true"/"false" for bool, the string itself), entries in wire order
   Unknown fields never reach this level (the decoder drops them); whether the conversion must fail
   because of them (DisallowUnknownField) is decided on the wire by [has_unknown] below.
   Model only - proofs are in proofs/P2JProofs.v. *)
From Coq Require Import ZArith List Bool.
From DG Require Import CaseFormat ProtoWireRef ProtoMsg Json Num Base64.
Import ListNotations.
Local Open Scope Z_scope.

Record p2j_opts := mk_p2j_opts { o_int64_string : bool; o_disallow_unknown : bool }.

(* ---------------------------------------------------------------- floats *)
(* float32 bits -> the binary64 bits of the same real number (exact; subnormals are normalised;
   infinities stay infinities, NaNs stay NaNs with the payload shifted as the hardware does) *)
Definition widen32 (b : Z) : Z :=
  let s := b / 2 ^ 31 in
  let e := (b / 2 ^ 23) mod 256 in
  let f := b mod 2 ^ 23 in
  let sign := s * 2 ^ 63 in
  if e =? 255 then sign + 2047 * 2 ^ 52 + f * 2 ^ 29
  else if e =? 0 then
    (if f =? 0 then sign
     else let l := Z.log2 f in sign + (l - 149 + 1023) * 2 ^ 52 + (f * 2 ^ (52 - l) - 2 ^ 52))
  else sign + (e - 127 + 1023) * 2 ^ 52 + f * 2 ^ 29.

(* binary64 bits -> (negative?, M, k) with |value| = M * 2^k (finite patterns only) *)
Definition f64_decomp (b : Z) : bool * Z * Z :=
  let neg := 2 ^ 63 <=? b in
  let e := (b / 2 ^ 52) mod 2048 in
  let f := b mod 2 ^ 52 in
  if e =? 0 then (neg, f, -1074) else (neg, 2 ^ 52 + f, e - 1075).

(* float32 bits -> (negative?, M, k) with |value| = M * 2^k (finite patterns only) *)
Definition f32_decomp (b : Z) : bool * Z * Z :=
  let neg := 2 ^ 31 <=? b in
  let e := (b / 2 ^ 23) mod 256 in
  let f := b mod 2 ^ 23 in
  if e =? 0 then (neg, f, -149) else (neg, 2 ^ 23 + f, e - 150).

(* the lexeme  [-] digits(m) [ e- digits(-e) ]  of the decimal m * 10^e, e <= 0 *)
Definition dec_lex (neg : bool) (m e : Z) : list Z :=
  (if neg then [45] else []) ++ fmt_nat m ++ (if e =? 0 then [] else 101 :: 45 :: fmt_nat (- e)).

(* exact decimal expansion:  M * 2^k = M * 2^k * 10^0 (k >= 0)  =  M * 5^(-k) * 10^k (k < 0) *)
Definition f64_lex (b : Z) : list Z :=
  let '(neg, M, k) := f64_decomp b in
  if M =? 0 then dec_lex neg 0 0
  else if 0 <=? k then dec_lex neg (M * 2 ^ k) 0
  else dec_lex neg (M * 5 ^ (- k)) k.

(* ---------------------------------------------------------------- kind-annotated JSON tree *)
Inductive pj :=
| PJInt (k : Z) (v : Z)                    (* integer kinds and enum: a JSON number *)
| PJIntS (k : Z) (v : Z)                   (* int64 under Int642String: a JSON string of digits *)
| PJF (k : Z) (bits : Z)                   (* float (k = 2, widened) / double (k = 1) as binary64 bits *)
| PJBool (b : bool)
| PJStr (s : list Z)
| PJB64 (bs : list Z)
| PJArr (xs : list pj)
| PJObj (ms : list (list Z * pj))          (* message: (JSON name, value) *)
| PJMap (kk : Z) (ms : list (mkey * pj)).  (* map with key kind kk *)

Definition is_int_kind (k : Z) : bool :=
  (k =? 3) || (k =? 4) || (k =? 5) || (k =? 6) || (k =? 7) || (k =? 13) || (k =? 14) ||
  (k =? 15) || (k =? 16) || (k =? 17) || (k =? 18).

Definition pj_scalar (o : p2j_opts) (k v : Z) : option pj :=
  if k =? K_BOOL then Some (PJBool (negb (v =? 0)))
  else if k =? K_DOUBLE then Some (PJF k v)
  else if k =? K_FLOAT then Some (PJF k (widen32 v))
  else if is_int_kind k then Some (if (k =? K_INT64) && o_int64_string o then PJIntS k v else PJInt k v)
  else None.

Fixpoint seq_opt {A} (l : list (option A)) : option (list A) :=
  match l with
  | [] => Some []
  | Some x :: r => match seq_opt r with Some xs => Some (x :: xs) | None => None end
  | None :: _ => None
  end.

Definition key_kind_okb (kk : Z) (k : mkey) : bool :=
  match k with KInt k' _ => (k' =? kk) && (is_int_kind kk || (kk =? K_BOOL)) | KStr _ => kk =? K_STRING end.

(* None = the value does not fit the schema (never the case for what decode_msg returns) *)
Fixpoint pj_fld (S : schema) (o : p2j_opts) (lbl : flabel) (t : ftype) (v : pval) {struct v} : option pj :=
  match lbl with
  | LSingular =>
    match v with
    | VScalar k x => match t with TScalar k' => if k =? k' then pj_scalar o k x else None | TMsg _ => None end
    | VBytes k b =>
      match t with
      | TScalar k' => if negb (k =? k') then None
                      else if k =? K_STRING then Some (PJStr b) else if k =? K_BYTES then Some (PJB64 b) else None
      | TMsg _ => None
      end
    | VMsg fs =>
      match t with
      | TMsg name =>
        match find_msg S name with
        | Some md =>
          option_map PJObj
            (seq_opt (map (fun nv => match find_field md (fst nv) with
                                     | Some fd => option_map (fun p => (fd_json fd, p)) (pj_fld S o (fd_label fd) (fd_type fd) (snd nv))
                                     | None => None
                                     end) fs))
        | None => None
        end
      | TScalar _ => None
      end
    | _ => None
    end
  | LRepeated _ =>
    match v with
    | VList _ vs => option_map PJArr (seq_opt (map (fun x => pj_fld S o LSingular t x) vs))
    | _ => None
    end
  | LMap kk =>
    match v with
    | VMap kvs =>
      option_map (PJMap kk)
        (seq_opt (map (fun kx => if key_kind_okb kk (fst kx)
                                 then option_map (fun p => (fst kx, p)) (pj_fld S o LSingular t (snd kx))
                                 else None) kvs))
    | _ => None
    end
  end.

Definition pj_of (S : schema) (o : p2j_opts) (name : list Z) (m : pmsg) : option pj :=
  pj_fld S o LSingular (TMsg name) (VMsg m).

(* every float in the tree is finite *)
Fixpoint pj_finite (p : pj) : bool :=
  match p with
  | PJF _ b => f64_is_finite b
  | PJArr xs => forallb pj_finite xs
  | PJObj ms => forallb (fun m => pj_finite (snd m)) ms
  | PJMap _ ms => forallb (fun m => pj_finite (snd m)) ms
  | _ => true
  end.

(* stringified map key *)
Definition key_str (k : mkey) : list Z :=
  match k with
  | KInt kk v => if kk =? K_BOOL then (if v =? 0 then lit_false else lit_true) else fmt_int v
  | KStr s => s
  end.

(* forget the kinds (a non-finite float has no image: JNull is a placeholder that [pjson_of] never lets out) *)
Fixpoint pj_json (p : pj) : json :=
  match p with
  | PJInt _ v => JNum (fmt_int v)
  | PJIntS _ v => JStr (fmt_int v)
  | PJF _ b => if f64_is_finite b then JNum (f64_lex b) else JNull
  | PJBool b => JBool b
  | PJStr s => JStr s
  | PJB64 bs => JStr (b64_encode bs)
  | PJArr xs => JArr (map pj_json xs)
  | PJObj ms => JObj (map (fun m => (fst m, pj_json (snd m))) ms)
  | PJMap _ ms => JObj (map (fun m => (key_str (fst m), pj_json (snd m))) ms)
  end.

(* THE denotation.  None: the message has no JSON image (a non-finite float somewhere, or it does not fit the schema) *)
Definition pjson_of (S : schema) (o : p2j_opts) (name : list Z) (m : pmsg) : option json :=
  match pj_of S o name m with
  | Some p => if pj_finite p then Some (pj_json p) else None
  | None => None
  end.

(* ---------------------------------------------------------------- byte well-formedness (what any decoded message satisfies) *)
Definition key_bytes_okb (k : mkey) : bool := match k with KStr s => jbytes_okb s | KInt _ _ => true end.

Fixpoint pj_bytes_okb (p : pj) : bool :=
  match p with
  | PJStr s => jbytes_okb s
  | PJB64 bs => jbytes_okb bs
  | PJArr xs => forallb pj_bytes_okb xs
  | PJObj ms => forallb (fun m => jbytes_okb (fst m) && pj_bytes_okb (snd m)) ms
  | PJMap _ ms => forallb (fun m => key_bytes_okb (fst m) && pj_bytes_okb (snd m)) ms
  | _ => true
  end.

(* the same on the inputs: every string / bytes value and string key of the message is a byte list, every JSON name
   of the schema is a byte list (true of anything decoded from bytes / parsed from a .proto file) *)
Fixpoint pval_bytes_okb (v : pval) : bool :=
  match v with
  | VScalar _ _ => true
  | VBytes _ b => jbytes_okb b
  | VMsg fs => forallb (fun nv => pval_bytes_okb (snd nv)) fs
  | VList _ vs => forallb pval_bytes_okb vs
  | VMap kvs => forallb (fun kx => key_bytes_okb (fst kx) && pval_bytes_okb (snd kx)) kvs
  end.
Definition schema_bytes_okb (S : schema) : bool :=
  forallb (fun md => forallb (fun fd => jbytes_okb (fd_json fd)) (md_fields md)) S.

(* every member name that occurs anywhere in a JSON value *)
Fixpoint json_keys (j : json) : list (list Z) :=
  match j with
  | JArr xs => flat_map json_keys xs
  | JObj ms => flat_map (fun m => fst m :: json_keys (snd m)) ms
  | _ => []
  end.

(* ---------------------------------------------------------------- unknown fields, on the wire
   [strip_unknown S name bs]: the wire records of bs with every record whose number is not declared removed, recursively
   through message-typed fields (singular, repeated, map values); the result is re-encoded.  bs carries unknown fields at a
   level p2j visits iff the result differs from bs (wenc o wdec is the identity on canonical input). *)
Section Strip.
  Variable rec : list Z -> list Z -> option (list Z).     (* message name -> payload -> stripped payload *)

  Definition strip_entry (t : ftype) (payload : list Z) : option (list Z) :=
    match t with
    | TScalar _ => Some payload
    | TMsg name =>
      match wdec payload with
      | None => None
      | Some w =>
        option_map (fun l => wenc l)
          (seq_opt (map (fun f : wfield => match f with
                                 | (2, WBytes b) => option_map (fun b' => (2, WBytes b')) (rec name b)
                                 | _ => Some f
                                 end) w))
      end
    end.

  Definition strip_field (md : mdesc) (f : wfield) : option (list wfield) :=
    match find_field md (fst f) with
    | None => Some []
    | Some fd =>
      match fd_label fd, fd_type fd, snd f with
      | LMap _, t, WBytes b => option_map (fun b' => [(fst f, WBytes b')]) (strip_entry t b)
      | LMap _, _, _ => Some [f]
      | _, TMsg name, WBytes b => option_map (fun b' => [(fst f, WBytes b')]) (rec name b)
      | _, _, _ => Some [f]
      end
    end.
End Strip.

Fixpoint strip_unknown (S : schema) (fuel : nat) (name : list Z) (bs : list Z) : option (list Z) :=
  match fuel with
  | O => None
  | Datatypes.S f =>
    match find_msg S name, wdec bs with
    | Some md, Some w =>
      match seq_opt (map (strip_field (strip_unknown S f) md) w) with
      | Some ls => Some (wenc (concat ls))
      | None => None
      end
    | _, _ => None
    end
  end.
