(* C13 — JSON <-> Thrift round trips: one common descriptor for the two conversion models, the matching of their
   option sets, the domain of the round-trip theorems and the comparison of JSON documents by denotation.
   Model only — proofs are in proofs/RoundTripProofs.v.

   T2J.v describes a descriptor as a finite TREE ([tdesc], struct fields inline); J2T.v as a struct TABLE plus a
   type with back references ([defs], [ty]: recursive types allowed).  The common abstract descriptor is the more
   general one, J2T's (D, t); [tdesc_of D n t] unfolds it into the tree T2J.v reads, [n] levels of struct nesting
   deep.  A value of nesting depth <= n never looks below level n, so every n >= depth v gives the same conversion
   (this is part of what the theorems state: they hold for every such n). *)
From Coq Require Import ZArith List Bool.
From DG Require Import ProtoWireRef ThriftWire Json Num Base64 T2J J2T.
Import ListNotations.
Local Open Scope Z_scope.

(* ---- the common descriptor and its T2J view ---- *)
Definition fmeta_of (fd : fld) : fmeta :=
  Build_fmeta (J2T.f_id fd) (key1 fd) (J2T.f_req fd) (if f_vm fd then 1 else 0).

Fixpoint tdesc_of (D : defs) (n : nat) {struct n} : ty -> tdesc :=
  fix go (t : ty) : tdesc :=
    match t with
    | TBool => DScalar T_BOOL | TByte => DScalar T_BYTE | TI16 => DScalar T_I16
    | TI32 => DScalar T_I32 | TI64 => DScalar T_I64 | TDouble => DScalar T_DOUBLE
    | TString => DString false | TBinary => DString true
    | TList e => DList false (go e)
    | TSet e => DList true (go e)
    | TMap k v => DMap (go k) (go v)
    | TStruct i =>
      match n with
      | O => DStruct []
      | S n' =>
        match nth_error D i with
        | Some sd => DStruct (map (fun fd => (fmeta_of fd, tdesc_of D n' (f_ty fd))) sd)
        | None => DStruct []
        end
      end
    end.

(* ---- matching option pairs ----
   t2j options are the bit set of T2J.v, j2t options the record of J2T.v.
   Int642String needs String2Int64 on the way back; NoBase64Binary and EnableValueMapping must agree;
   ByteAsUint8 has no inverse on the j2t side (a byte printed as 200 is out of range for a byte field) and
   ConvertException turns the document into an error text: both off.  DisallowUnknownField is free on both sides
   (there are no unknown fields), UseNativeSkip has no effect, thrift base extraction concerns only fields flagged
   as response base, which the common descriptor does not have. *)
Definition matching_optsb (o : Z) (o' : jopts) : bool :=
  (negb (o_int642string o) || o_str2int o') &&
  negb (o_byte_as_uint8 o) &&
  Bool.eqb (o_no_base64 o) (o_nob64 o') &&
  Bool.eqb (o_value_mapping o) (o_vm o') &&
  negb (o_convert_exception o).
Definition matching_opts (o : Z) (o' : jopts) : Prop := matching_optsb o o' = true.

(* ---- the domain of the round trip ----
   v conforms to (D, t); no unknown fields; every required field present; doubles finite 64-bit patterns;
   booleans canonical (raw byte 0 / 1); integers in range; strings are byte strings; map keys of string / binary /
   integer type (t2j has no spelling for the others); the declared key of a present field selects that field again
   (a descriptor whose keys are ambiguous has no inverse); api.js_conv only on the scalar types both sides support. *)
Definition rt_key_ty (k : ty) : bool :=
  match k with TString | TBinary | TByte | TI16 | TI32 | TI64 => true | _ => false end.

Definition req_present (sd : sdef) (ids : list Z) : bool :=
  forallb (fun fd => negb (J2T.f_req fd =? 1) || existsb (fun id => id =? J2T.f_id fd) ids) sd.

Definition f64_bits_ok (b : Z) : bool := (0 <=? b) && (b <? 2 ^ 64) && f64_is_finite b.

Fixpoint rt_dom (D : defs) (t : ty) (v : tval) {struct v} : bool :=
  match v with
  | VBool b => match t with TBool => (b =? 0) || (b =? 1) | _ => false end
  | VByte z => match t with TByte => in_sb 8 z | _ => false end
  | VI16 z => match t with TI16 => in_sb 16 z | _ => false end
  | VI32 z => match t with TI32 => in_sb 32 z | _ => false end
  | VI64 z => match t with TI64 => in_sb 64 z | _ => false end
  | VDouble b => match t with TDouble => f64_bits_ok b | _ => false end
  | VString x => match t with TString => jbytes_okb x | TBinary => jbytes_okb x | _ => false end
  | VStruct fs =>
    match t with
    | TStruct i =>
      match nth_error D i with
      | Some sd =>
        req_present sd (map fst fs) &&
        forallb (fun f => match find_id sd (fst f) with
                          | Some fd => in_sb 16 (fst f) && jbytes_okb (key1 fd) &&
                                       (negb (f_vm fd) || vm_ty_ok (f_ty fd)) &&
                                       match J2T.find_field sd (key1 fd) with
                                       | Some fd' => (J2T.f_id fd' =? J2T.f_id fd) && ty_eqb (f_ty fd') (f_ty fd) && Bool.eqb (f_vm fd') (f_vm fd)
                                       | None => false
                                       end && rt_dom D (f_ty fd) (snd f)
                          | None => false
                          end) fs
      | None => false
      end
    | _ => false
    end
  | VList et es => match t with TList e => (et =? tcode e) && forallb (rt_dom D e) es | _ => false end
  | VSet et es => match t with TSet e => (et =? tcode e) && forallb (rt_dom D e) es | _ => false end
  | VMap kt vt es =>
    match t with
    | TMap k v => (kt =? tcode k) && (vt =? tcode v) && rt_key_ty k &&
                  forallb (fun e => rt_dom D k (fst e) && rt_dom D v (snd e)) es
    | _ => false
    end
  end.

(* ---- expected trees as documents, for ANY double printer ----
   [T2J.to_json] prints a double as its exact decimal expansion; the implementation prints the shortest decimal
   that reads back.  The theorems are stated for every printer [dlex] under the formatter contract
   (a number lexeme that the correctly rounding reader maps back to the same bits). *)
Section ToJson.
  Variable dlex : Z -> list Z.
  Fixpoint to_json_d (e : jexp) : json :=
    match e with
    | EBool b => JBool b
    | EInt z => JNum (fmt_int z)
    | EDouble b => JNum (dlex b)
    | EStr s | EStrV s => JStr s
    | EByteV z => JStr (fmt_int z)
    | EQuoted e' => match to_json_d e' with JNum l => JStr l | j => j end
    | EArr xs => JArr (map to_json_d xs)
    | EObj ms => JObj (map (fun m => (fst m, to_json_d (snd m))) ms)
    end.
End ToJson.

Definition dlex_contract (dlex : Z -> list Z) : Prop :=
  forall b, 0 <= b < 2 ^ 64 -> f64_is_finite b = true -> num_okb (dlex b) = true /\ lex2f64 (dlex b) = Some b.

(* the contract on one value, as a test (used by the checker and by the examples) *)
Definition dlex_ok_at (dlex : Z -> list Z) (b : Z) : bool :=
  num_okb (dlex b) && match lex2f64 (dlex b) with Some b' => b' =? b | None => false end.

(* the model's t2j as text for the common descriptor, with the printer as a parameter *)
Definition t2j_doc (dlex : Z -> list Z) (o : Z) (D : defs) (n : nat) (t : ty) (v : tval) : option (list Z) :=
  match fst (t2j_spec o (tdesc_of D n t) v) with
  | TOk e => if jexp_finite e then Some (json_print (to_json_d dlex e)) else None
  | _ => None
  end.

(* ---- comparison of two documents by denotation ----
   integer lexemes by exact value (and the sign of a zero), every other number through the correctly rounded dec2f64 (bit equality: the sign
   of zero counts), strings / keys / booleans exactly, arrays and objects member by member in order. *)
Definition lex_neg (l : list Z) : bool := match l with c :: _ => c =? 45 | [] => false end.

Definition num_same (a b : list Z) : bool :=
  if zlist_eqb a b then true     (* the same lexeme denotes the same number *)
  else if lex_is_plain_int a && lex_is_plain_int b then
    (* integers by value; a zero written with a minus sign is the double -0.0 (t2j writes it so), which is not 0 *)
    match parse_int a, parse_int b with
    | Some x, Some y => (x =? y) && (negb (x =? 0) || Bool.eqb (lex_neg a) (lex_neg b))
    | _, _ => false
    end
  else if lex_is_plain_int a || lex_is_plain_int b then false
  else match lex2f64 a, lex2f64 b with Some x, Some y => x =? y | _, _ => false end.

Fixpoint json_same (a b : json) {struct a} : bool :=
  match a, b with
  | JNull, JNull => true
  | JBool x, JBool y => Bool.eqb x y
  | JNum x, JNum y => num_same x y
  | JStr x, JStr y => zlist_eqb x y
  | JArr xs, JArr ys =>
    (fix go (xs ys : list json) : bool :=
       match xs, ys with [], [] => true | x :: xs', y :: ys' => json_same x y && go xs' ys' | _, _ => false end) xs ys
  | JObj xs, JObj ys =>
    (fix go (xs ys : list (list Z * json)) : bool :=
       match xs, ys with
       | [], [] => true
       | x :: xs', y :: ys' => zlist_eqb (fst x) (fst y) && json_same (snd x) (snd y) && go xs' ys'
       | _, _ => false
       end) xs ys
  | _, _ => false
  end.
