(* Correspondence checks for C18 (native flavours avx2 / avx / sse and the portable Go implementation agree; native text
   encoders exact).  Model only — the theorems about these checkers are in proofs/C18Proofs.v.

   Flavour slots: every case carries a mask (bit 0 avx2, bit 1 avx, bit 2 sse) of the flavours that were run; the result
   slots of a flavour the CPU lacks are ignored. *)
From Coq Require Import ZArith List Bool.
From DG Require Import CaseFormat ProtoWireRef ThriftWire ThriftEnvelope Json Num Base64.
Import ListNotations.
Local Open Scope Z_scope.

(* ------------------------------------------------------------------------------------------------ flavours *)
(* the (err, payload) results of the flavours selected by the mask, in the order avx2, avx, sse *)
Definition sel {A} (mask : Z) (l : list A) : list A :=
  (fix go (i : Z) (l : list A) : list A :=
     match l with [] => [] | x :: r => if Z.testbit mask i then x :: go (i + 1) r else go (i + 1) r end) 0 l.

Definition all_same {A} (eqb : A -> A -> bool) (l : list A) : bool :=
  match l with [] => true | x :: r => forallb (eqb x) r end.

(* 1800: flavour inventory. fields: mask, number of distinct stub bindings seen, number of flavours run.
   Every flavour that was run must have produced its own binding of the native stubs (otherwise the re-binding did not take
   effect and the "three flavours" would be one). *)
Definition check_1800 (fs : list field) : verdict :=
  match fs with
  | [FZ mask; FZ distinct; FZ navail] =>
    expect 1 ((1 <=? navail) && (distinct =? navail) && (navail =? zlen (sel mask [0; 1; 2]))) [FZ navail]
  | _ => VBad 99 []
  end.

(* ------------------------------------------------------------------------------------------------ 1801 j2t *)
Inductive jty :=
| JScalar (code : Z) (bin : bool)       (* thrift type code; bin: STRING declared as binary *)
| JStruct (idx : Z)
| JList (e : jty) | JSet (e : jty) | JMap (k e : jty).

Record jfld := mkJfld { jf_id : Z; jf_req : Z; jf_name : list Z; jf_def : bool; jf_ty : jty }.
Definition jdefs := list (list jfld).

(* type := 0 code binary | 1 idx | 2 elem | 3 elem | 4 key elem *)
Fixpoint parse_jty (fuel : nat) (fs : list field) : option (jty * list field) :=
  match fuel with
  | O => None
  | S f =>
    match fs with
    | FZ 0 :: FZ c :: FZ b :: r => Some (JScalar c (b =? 1), r)
    | FZ 1 :: FZ i :: r => Some (JStruct i, r)
    | FZ 2 :: r => match parse_jty f r with Some (e, r') => Some (JList e, r') | None => None end
    | FZ 3 :: r => match parse_jty f r with Some (e, r') => Some (JSet e, r') | None => None end
    | FZ 4 :: r => match parse_jty f r with
                   | Some (k, r') => match parse_jty f r' with Some (e, r'') => Some (JMap k e, r'') | None => None end
                   | None => None
                   end
    | _ => None
    end
  end.

Fixpoint parse_jflds (n : nat) (fs : list field) : option (list jfld * list field) :=
  match n with
  | O => Some ([], fs)
  | S n' =>
    match fs with
    | FZ id :: FZ req :: FB name :: FZ d :: r =>
      match parse_jty (S (length r)) r with
      | Some (t, r') => match parse_jflds n' r' with Some (l, r'') => Some (mkJfld id req name (d =? 1) t :: l, r'') | None => None end
      | None => None
      end
    | _ => None
    end
  end.

Fixpoint parse_jstructs (n : nat) (fs : list field) : option (jdefs * list field) :=
  match n with
  | O => Some ([], fs)
  | S n' =>
    match fs with
    | FZ nf :: r =>
      if (nf <? 0) || (nf >? 10000) then None else
      match parse_jflds (Z.to_nat nf) r with
      | Some (l, r') => match parse_jstructs n' r' with Some (d, r'') => Some (l :: d, r'') | None => None end
      | None => None
      end
    | _ => None
    end
  end.

(* shape: nstructs, structs, root index *)
Definition parse_shape (fs : list field) : option (jdefs * Z * list field) :=
  match fs with
  | FZ n :: r =>
    if (n <? 0) || (n >? 10000) then None else
    match parse_jstructs (Z.to_nat n) r with
    | Some (d, FZ root :: r') => Some (d, root, r')
    | _ => None
    end
  | _ => None
  end.

Record jopt := mkJopt { o_wreq : bool; o_wdef : bool; o_wopt : bool; o_disallow : bool; o_s2i : bool; o_nob64 : bool }.
Definition jopt_of (bits : Z) : jopt :=
  mkJopt (Z.testbit bits 0) (Z.testbit bits 1) (Z.testbit bits 2) (Z.testbit bits 3) (Z.testbit bits 4) (Z.testbit bits 5).

(* classification of a parsed document against the descriptor: a bit set *)
Definition K_CONTRA := 1.     (* some value's JSON kind contradicts the descriptor: every implementation must reject *)
Definition K_OTHER := 2.      (* outside the property's domain: out-of-range / non-integral number for an integer field, infinite double,
                                 invalid UTF-8 or base64, non-canonical integer string or key, duplicate member, unsupported key type *)
Definition K_NULLK := 4.      (* a null member for a declared field *)
Definition K_NULLREQ := 8.    (* ... for a REQUIRED field *)
Definition K_NEGZ := 16.      (* the string "-0" at a DOUBLE position: a value under String2Int64, or a key of a map<double,V> *)
Definition K_UNKNOWN := 32.   (* an undeclared member *)
Definition K_NULLELEM := 64.  (* null as a list / set element or map value *)
Definition K_DBLKEY := 128.   (* a map with DOUBLE keys *)
Definition K_BIGINT := 256.   (* a plain integer lexeme beyond the int64 range for a DOUBLE field (a conforming, finite double) *)
Definition has (k bits : Z) : bool := negb (Z.land bits k =? 0).

Definition int_bits (c : Z) : Z :=
  if c =? T_BYTE then 8 else if c =? T_I16 then 16 else if c =? T_I32 then 32 else if c =? T_I64 then 64 else 0.

(* the integer an exact decimal denotes, if it is one (exponents bounded: no field can hold more than 20 digits) *)
Definition dec_int_value (d : bool * Z * Z) : option Z :=
  let '(neg, m, e) := d in
  if m =? 0 then Some 0 else
  if 0 <=? e then (if 19 <? e then None else Some ((if neg then -1 else 1) * (m * 10 ^ e)))
  else if Z.log2 m + 1 <? - e then None
  else if m mod 10 ^ (- e) =? 0 then Some ((if neg then -1 else 1) * (m / 10 ^ (- e))) else None.

(* a number lexeme for an integer field of the given width: conforming iff it denotes an in-range integer, and — when spelled with a
   fraction or exponent, which the code routes through a double — of magnitude at most 2^53 *)
Definition cls_num_int (bits : Z) (l : list Z) : Z :=
  match lex_decimal l with
  | None => K_OTHER
  | Some d =>
    match dec_int_value d with
    | Some z => if in_sb bits z && (lex_is_plain_int l || (Z.abs z <=? 2 ^ 53)) then 0 else K_OTHER
    | None => K_OTHER
    end
  end.

Definition big_plain_int (l : list Z) : bool :=
  lex_is_plain_int l && match parse_int l with Some z => negb (in_sb 64 z) | None => false end.

Definition cls_num_dbl (l : list Z) : Z :=
  match lex2f64 l with Some b => if f64_is_finite b then (if big_plain_int l then K_BIGINT else 0) else K_OTHER | None => K_OTHER end.

Definition cls_int_text (bits : Z) (s : list Z) : Z :=
  match parse_int s with
  | Some z => if bytes_eqb (fmt_int z) s && in_sb bits z then 0 else K_OTHER
  | None => K_OTHER
  end.

Definition cls_scalar (o : jopt) (code : Z) (bin : bool) (j : json) : Z :=
  match j with
  | JNull => K_OTHER
  | JBool _ => if code =? T_BOOL then 0 else K_CONTRA
  | JNum l => if 0 <? int_bits code then cls_num_int (int_bits code) l else if code =? T_DOUBLE then cls_num_dbl l else K_CONTRA
  | JStr s =>
    if code =? T_STRING then
      (if bin && negb (o_nob64 o) then match b64_decode s with Some _ => 0 | None => K_OTHER end
       else if utf8_valid s then 0 else K_OTHER)
    else if 0 <? int_bits code then (if o_s2i o then cls_int_text (int_bits code) s else K_CONTRA)
    else if code =? T_DOUBLE then
      (if o_s2i o then (if bytes_eqb s [45; 48] then K_NEGZ else if num_okb s then cls_num_dbl s else K_OTHER) else K_CONTRA)
    else K_CONTRA
  | JArr _ | JObj _ => K_CONTRA
  end.

Definition cls_key (k : jty) (s : list Z) : Z :=
  match k with
  | JScalar c _ =>
    if c =? T_STRING then (if utf8_valid s then 0 else K_OTHER)
    else if 0 <? int_bits c then cls_int_text (int_bits c) s
    else if c =? T_DOUBLE then
      Z.lor K_DBLKEY (if bytes_eqb s [45; 48] then K_NEGZ else if num_okb s then cls_num_dbl s else K_OTHER)
    else K_OTHER
  | _ => K_OTHER
  end.

Definition find_fld (sd : list jfld) (name : list Z) : option jfld := find (fun f => bytes_eqb (jf_name f) name) sd.
Definition find_fld_id (sd : list jfld) (id : Z) : option jfld := find (fun f => jf_id f =? id) sd.
Definition find_member (ms : list (list Z * json)) (name : list Z) : option json :=
  match find (fun m => bytes_eqb (fst m) name) ms with Some m => Some (snd m) | None => None end.

Fixpoint has_dup (l : list (list Z)) : bool :=
  match l with [] => false | x :: r => existsb (bytes_eqb x) r || has_dup r end.

Definition is_null (j : json) : bool := match j with JNull => true | _ => false end.
Definition lor_all (l : list Z) : Z := fold_left Z.lor l 0.

Fixpoint classify (fuel : nat) (ds : jdefs) (o : jopt) (t : jty) (j : json) : Z :=
  match fuel with
  | O => K_OTHER
  | S f =>
    match t with
    | JScalar c b => cls_scalar o c b j
    | JList e | JSet e =>
      match j with
      | JArr xs => lor_all (map (fun x => if is_null x then K_NULLELEM else classify f ds o e x) xs)
      | JNull => K_OTHER
      | _ => K_CONTRA
      end
    | JMap k e =>
      match j with
      | JObj ms => lor_all (map (fun m => Z.lor (cls_key k (fst m)) (if is_null (snd m) then K_NULLELEM else classify f ds o e (snd m))) ms)
      | JNull => K_OTHER
      | _ => K_CONTRA
      end
    | JStruct i =>
      match j with
      | JObj ms =>
        match (if i <? 0 then None else nth_error ds (Z.to_nat i)) with
        | None => K_OTHER
        | Some sd =>
          Z.lor (if has_dup (filter (fun n => match find_fld sd n with Some _ => true | None => false end) (map fst ms)) then K_OTHER else 0)
          (lor_all (map (fun m => match find_fld sd (fst m) with
                                  | None => K_UNKNOWN
                                  | Some fd => if is_null (snd m) then Z.lor K_NULLK (if jf_req fd =? 1 then K_NULLREQ else 0)
                                               else classify f ds o (jf_ty fd) (snd m)
                                  end) ms))
        end
      | JNull => K_OTHER
      | _ => K_CONTRA
      end
    end
  end.

(* The quirk model of the portable converter, stated RELATIVE to the native output [v] (the value tree decoded from the bytes the
   native flavours produced for document [j]):
   finding 1801 (null member), switch [nulls]: the native converters treat a null member as ABSENT (required: error unless
     WriteRequireField; default / optional: filled in when the matching write option is set), the portable converter treats it as
     PRESENT-and-empty (never an error, never filled in) — the fields the natives filled in for null members are removed;
   finding 1806 (big integer lexeme), switch [big]: a plain integer lexeme beyond the int64 range is read as 0 by the portable
     decoder (strconv.ParseInt range error dropped) — the DOUBLE written for such a lexeme is replaced by +0.0. *)
Definition nonnull (l : list json) : list json := filter (fun x => negb (is_null x)) l.

Fixpoint zip_with {A B C} (f : A -> B -> C) (a : list A) (b : list B) : list C :=
  match a, b with x :: a', y :: b' => f x y :: zip_with f a' b' | _, _ => [] end.

Fixpoint quirk (nulls big : bool) (fuel : nat) (ds : jdefs) (t : jty) (j : json) (v : tval) : tval :=
  match fuel with
  | O => v
  | S f =>
    match t, j, v with
    | JScalar _ _, JNum l, VDouble _ => if big && big_plain_int l then VDouble 0 else v
    | JStruct i, JObj ms, VStruct fs =>
      match (if i <? 0 then None else nth_error ds (Z.to_nat i)) with
      | None => v
      | Some sd =>
        VStruct (flat_map (fun fv : Z * tval =>
                   match find_fld_id sd (fst fv) with
                   | None => [fv]
                   | Some fd =>
                     match find_member ms (jf_name fd) with
                     | Some jv => if is_null jv then (if nulls then [] else [fv]) else [(fst fv, quirk nulls big f ds (jf_ty fd) jv (snd fv))]
                     | None => [fv]
                     end
                   end) fs)
      end
    | JList e, JArr xs, VList et es => VList et (zip_with (quirk nulls big f ds e) (nonnull xs) es)
    | JSet e, JArr xs, VSet et es => VSet et (zip_with (quirk nulls big f ds e) (nonnull xs) es)
    | JMap _ e, JObj ms, VMap kt vt es =>
      VMap kt vt (zip_with (fun jv kv => (fst kv, quirk nulls big f ds e jv (snd kv))) (nonnull (map snd ms)) es)
    | _, _, _ => v
    end
  end.

(* finding 1803: sign of zero.  -0.0 (bits 2^63) is mapped to +0.0 *)
Fixpoint norm_negz (v : tval) : tval :=
  match v with
  | VDouble b => if b =? 2 ^ 63 then VDouble 0 else v
  | VStruct fs => VStruct (map (fun f => (fst f, norm_negz (snd f))) fs)
  | VMap kt vt es => VMap kt vt (map (fun e => (norm_negz (fst e), norm_negz (snd e))) es)
  | VSet et es => VSet et (map norm_negz es)
  | VList et es => VList et (map norm_negz es)
  | _ => v
  end.

(* finding 1802: a JSON string escape that is not a Go string-literal escape: backslash-slash, or a \uD800..\uDFFF surrogate half.
   (A backslash occurs in a valid JSON text only inside a string literal.) *)
Definition is_sur_hex2 (a b : Z) : bool :=
  ((a =? 100) || (a =? 68)) && ((b =? 56) || (b =? 57) || (b =? 97) || (b =? 98) || (b =? 65) || (b =? 66) ||
                                (b =? 99) || (b =? 100) || (b =? 101) || (b =? 102) || (b =? 67) || (b =? 68) || (b =? 69) || (b =? 70)).
Fixpoint go_bad_esc (bs : list Z) : bool :=
  match bs with
  | [] => false
  | c :: r =>
    if c =? 92 then
      match r with
      | [] => false
      | e :: r' =>
        if e =? 47 then true
        else if e =? 117 then match r' with a :: b :: _ => is_sur_hex2 a b || go_bad_esc r' | _ => false end
        else go_bad_esc r'
      end
    else go_bad_esc r
  end.

(* decode an implementation OUTPUT as a struct; the count-safe skip runs first, so that a garbage element count in a malformed output
   cannot make the decoder build an astronomically long loop *)
Definition safe_decode (out : list Z) : option tval :=
  match skip_go T_STRUCT out with Some [] => decode_all T_STRUCT out | _ => None end.

Definition res_eqb (a b : Z * list Z) : bool := Bool.eqb (fst a =? 0) (fst b =? 0) && ((negb (fst a =? 0)) || bytes_eqb (snd a) (snd b)).

(* the verdict on one document: [nats] = (err, output) of the native flavours that were run, [p] = (err, output) of the portable converter *)
Definition judge_1801 (ds : jdefs) (root ob : Z) (doc : list Z) (nats : list (Z * list Z)) (p : Z * list Z) : verdict :=
  let ep := fst p in let op := snd p in
  if existsb (fun r => fst r =? 3) ((ep, op) :: nats) then VBad 6 [] else     (* a panic is never acceptable *)
  match nats with
  | [] => VSkip
  | (en, on) :: _ =>
    (* the SIMD flavours are compiled from one source: any difference between them is a violation on every input *)
    if negb (all_same res_eqb nats) then VBad 1 [] else
    let o := jopt_of ob in
    let pj := json_parse doc in
    let cls := match pj with Some j => classify (S (length doc)) ds o (JStruct root) j | None => K_OTHER end in
    let nerr := negb (en =? 0) in let perr := negb (ep =? 0) in
    if nerr && perr then VOk                                                   (* all reject *)
    else if has K_CONTRA cls then VBad 3 []                                    (* a kind-contradicting document was accepted *)
    else if negb nerr && negb perr && bytes_eqb on op then
      (* all accept with identical bytes; the output must at least be a well-formed struct *)
      match safe_decode on with Some v => expect 5 (wf v) [] | None => VBad 5 [] end
    else
      (* native and portable disagree *)
      if has K_OTHER cls then VDrift 1
      else if negb nerr && perr then
        (if has K_DBLKEY cls then VKnown 1805 else if go_bad_esc doc then VKnown 1802 else VBad 2 [])
      else if nerr && negb perr then (if has K_NULLREQ cls && negb (o_wreq o) then VKnown 1801 else VBad 2 [])
      else
        match pj, safe_decode on, safe_decode op with
        | Some j, Some vn, Some vp =>
          (* both accept, different bytes: apply the quirk models the document is eligible for to the native output; the result must
             be EXACTLY the portable output; the finding reported is the first quirk that changed something *)
          let fuel := S (length doc) in
          let nz := has K_NEGZ cls in
          let same (v : tval) := bytes_eqb (encode (if nz then norm_negz v else v)) (if nz then encode (norm_negz vp) else op) in
          (* candidates in this order: no structural quirk (sign of zero only, 1803); big-integer quirk (1806); null-member quirk
             (1801); both.  The first candidate that reproduces the portable output names the finding. *)
          let vb := if has K_BIGINT cls then quirk false true fuel ds (JStruct root) j vn else vn in
          let v1 := if has K_NULLK cls then quirk true false fuel ds (JStruct root) j vn else vn in
          let v2 := if has K_BIGINT cls then quirk false true fuel ds (JStruct root) j v1 else v1 in
          if nz && same vn then VKnown 1803
          else if same vb && negb (bytes_eqb (encode vb) (encode vn)) then VKnown 1806
          else if same v1 && negb (bytes_eqb (encode v1) (encode vn)) then VKnown 1801
          else if same v2 && negb (bytes_eqb (encode v1) (encode vn)) then VKnown 1801
          else VBad 2 [FB (encode vb)]
        | _, _, _ => VBad 2 []
        end
  end.

(* 1801. fields: shape, option bits (0 WriteRequireField, 1 WriteDefaultField, 2 WriteOptionalField, 3 DisallowUnknownField,
   4 String2Int64, 5 NoBase64Binary), document, flavour mask, then (output, err) for avx2, avx, sse, portable; err: 0 ok, 1 error, 3 panic *)
Definition check_1801 (fs : list field) : verdict :=
  match parse_shape fs with
  | Some (ds, root, [FZ ob; FB doc; FZ mask; FB o0; FZ e0; FB o1; FZ e1; FB o2; FZ e2; FB op; FZ ep]) =>
    judge_1801 ds root ob doc (sel mask [(e0, o0); (e1, o1); (e2, o2)]) (ep, op)
  | _ => VBad 99 []
  end.

(* 1809: HTTP-mapped requests. fields: option bits (C17's numbering), body kind, JSON body, populated sources (replay only), mask, then
   (output, err) for avx2, avx, sse, portable; err: 0 ok, 1 error, 3 panic, 5 request not built.
   The VALUE is C17's property (its model judges the default flavour and the portable converter); here: the flavours agree with each other
   (VBad 1 otherwise) and with the portable converter (VBad 2), all four reject or all four produce identical bytes. *)
Definition check_1809 (fs : list field) : verdict :=
  match fs with
  | [FZ bits; FZ bk; FB body; FB src; FZ mask; FB o0; FZ e0; FB o1; FZ e1; FB o2; FZ e2; FB op; FZ ep] =>
    let nats := sel mask [(e0, o0); (e1, o1); (e2, o2)] in
    if existsb (fun r => fst r =? 5) ((ep, op) :: nats) then VSkip else
    if existsb (fun r => fst r =? 3) ((ep, op) :: nats) then VBad 6 [] else
    match nats with
    | [] => VSkip
    | n0 :: _ =>
      if negb (all_same res_eqb nats) then VBad 1 []
      else if res_eqb n0 (ep, op) then VOk
      else
        (* finding 1809: with the traceback flag (ReadHttpValueFallback / TracebackRequredOrRootFields) the native state machine fills in
           the absent non-traceback fields of a struct itself and hands the required / root ones back to Go, which writes them AFTER
           those; the portable converter fills in all of them in id order: the same value with the struct fields in another order *)
        if (fst n0 =? 0) && (ep =? 0) && negb (Z.land bits 24 =? 0) then
          match safe_decode (snd n0), safe_decode op with
          | Some vn, Some vp => if bytes_eqb (encode (canon vn)) (encode (canon vp)) then VKnown 1809 else VBad 2 [FB (snd n0)]
          | _, _ => VBad 2 [FB (snd n0)]
          end
        else VBad 2 [FB (snd n0)]
    end
  | _ => VBad 99 []
  end.

(* ------------------------------------------------------------------------------------------------ 1802 skip *)
(* every container type byte is a valid type, even in empty containers (the native skipper checks the element type before the count) *)
Fixpoint strict18 (v : tval) : bool :=
  match v with
  | VStruct fs => forallb (fun f => strict18 (snd f)) fs
  | VMap kt vt es => valid_type kt && valid_type vt && forallb (fun e => strict18 (fst e) && strict18 (snd e)) es
  | VSet et es => valid_type et && forallb strict18 es
  | VList et es => valid_type et && forallb strict18 es
  | _ => true
  end.

(* finding 1808: quirk model of the native skipper on a map whose declared count has the top bit set (negative as int32, which SkipGo
   rejects) and whose key or value type is not fixed-width: the pending-item counter  count * 2 - 1  is stored in a uint32
   (native/thrift_skip.c: `st[sp].n = np * 2 - 1`), so the count is taken modulo 2^31 and  count - 2^31  pairs are skipped
   (count = 2^31 exactly leaves 2^32 - 1 pending items and fails at the end of the input).  Everything else as the model's skip. *)
Fixpoint skip_nq (d : nat) (t : Z) (bs : list Z) {struct d} : option (list Z) :=
  match d with
  | O => None
  | S d' =>
    if t =? T_STRUCT then skip_fields (skip_nq d') (S (length bs)) bs
    else if t =? T_MAP then
      match bs with
      | kt :: vt :: r =>
        match take 4 r with
        | None => None
        | Some (x, r2) =>
          let u := dec_uint x in
          let ks := fixed_size kt in let vs := fixed_size vt in
          if (ks >? 0) && (vs >? 0) then (if u <? 2 ^ 31 then drop (u * (ks + vs)) r2 else None)
          else
            let sz := if u <? 2 ^ 31 then u else u - 2 ^ 31 in
            if (2 ^ 31 <=? u) && (sz =? 0) then None
            else if sz >? zlen r2 then None
            else skip_pairs (skip_nq d') (Z.to_nat sz) kt vt r2
        end
      | _ => None
      end
    else if (t =? T_SET) || (t =? T_LIST) then
      match bs with
      | et :: r =>
        match skip_count r with
        | None => None
        | Some (sz, r2) =>
          let es := fixed_size et in
          if es >? 0 then drop (sz * es) r2
          else if sz >? zlen r2 then None
          else skip_elems (skip_nq d') (Z.to_nat sz) et r2
        end
      | _ => None
      end
    else skip 1%nat t bs           (* scalars and strings: as the model *)
  end.

Definition pair_eqb (a b : Z * Z) : bool := (fst a =? fst b) && (snd a =? snd b).

(* the verdict, given the model's skip result [sk] (rest of the input), the model's decoding [dec] of the same bytes (delayed), the model's
   skip without the depth limit [deep] (delayed), the input length,
   SkipGo's (err, consumed) and the (err, consumed) of the SkipNative flavours that were run *)
Definition judge_1802 (sk : option (list Z)) (dec : unit -> option (tval * list Z)) (deep nq : unit -> option (list Z)) (len eg ng : Z) (nats : list (Z * Z)) : verdict :=
  if negb (all_same pair_eqb nats) then VBad 4 [] else
  match sk with
  | Some r =>
    let n := len - zlen r in
    let same := forallb (fun x => (fst x =? 0) && (snd x =? n)) nats in
    vand (expect 1 ((eg =? 0) && (ng =? n)) [FZ 0; FZ n])
    (match dec tt with     (* a thunk: the decoder runs only on bytes the model's skip accepted *)
     | Some (v, _) => if wf v && strict18 v then expect 2 same [FZ 0; FZ n] else if same then VOk else VDrift 2
     | None => if same then VOk else VDrift 2
     end)
  | None =>
    vand (expect 3 (eg =? 1) [FZ 1])
    (if forallb (fun x => fst x =? 1) nats then VOk
     (* finding 1804: SkipNative returns a nil error (cursor unmoved) when the native skipper fails *)
     else if forallb (fun x => (fst x =? 1) || ((fst x =? 0) && (snd x =? 0))) nats then VKnown 1804
     else
       (* finding 1807: the value is well-formed but nested deeper than SkipGo's limit (1023): the native skipper's limit is different
          (1024 frames, and the last element of a container reuses its frame) — it skips the value, by exactly its length *)
       match deep tt with
       | Some r => if forallb (fun x => (fst x =? 0) && (snd x =? len - zlen r)) nats then VKnown 1807 else VBad 5 [FZ 1]
       | None =>
         (* finding 1808: a map count with the top bit set wraps in the native skipper's uint32 counter *)
         match nq tt with
         | Some r => if forallb (fun x => (fst x =? 0) && (snd x =? len - zlen r)) nats then VKnown 1808 else VBad 5 [FZ 1]
         | None => VBad 5 [FZ 1]
         end
       end)
  end.

(* 1802. fields: type, bytes, mask, SkipGo err, SkipGo consumed, then (err, consumed) of SkipNative under avx2, avx, sse
   (err: 0 ok, 1 error, 3 panic, 4 no answer within the watchdog limit — 3 and 4 are never acceptable).
   Well-formed strict values: SkipGo and every flavour must consume exactly the model's count.  Bytes the model's skip accepts that are
   not a strict well-formed value (unknown element type in an empty container): Go must still equal the model, a native difference is drift.
   Bytes the model's skip rejects: everybody must fail. *)
Definition check_1802 (fs : list field) : verdict :=
  match fs with
  | [FZ t; FB bs; FZ mask; FZ eg; FZ ng; FZ e0; FZ n0; FZ e1; FZ n1; FZ e2; FZ n2] =>
    judge_1802 (skip_go t bs) (fun _ => decode (S (length bs)) t bs) (fun _ => skip (S (length bs)) t bs) (fun _ => skip_nq (S (length bs)) t bs) (zlen bs) eg ng (sel mask [(e0, n0); (e1, n1); (e2, n2)])
  | _ => VBad 99 []
  end.

(* ------------------------------------------------------------------------------------------------ 1803 i64toa *)
Definition out_is (exp : list Z) (r : Z * list Z) : bool := (fst r =? 0) && bytes_eqb (snd r) exp.

(* 1803. fields: value, mask, (text, err) for avx2, avx, sse, portable (strconv.AppendInt), strconv.FormatInt text.
   Native text must be exactly fmt_int; a disagreement between fmt_int and strconv is a MODEL defect (901). *)
Definition check_1803 (fs : list field) : verdict :=
  match fs with
  | [FZ v; FZ mask; FB o0; FZ e0; FB o1; FZ e1; FB o2; FZ e2; FB op; FZ ep; FB ref] =>
    let exp := fmt_int v in
    if negb (bytes_eqb ref exp) then VBad 901 [FB exp] else
    vand (expect 1 (forallb (out_is exp) (sel mask [(e0, o0); (e1, o1); (e2, o2)])) [FB exp])
         (expect 2 (out_is exp (ep, op)) [FB exp])
  | _ => VBad 99 []
  end.

(* ------------------------------------------------------------------------------------------------ 1804 f64toa *)
(* the model's reading of one output text: None = not a JSON number lexeme; Some (b', ok) = the algorithm dec2f64 maps its exact decimal
   value to the bits b', and ok = the SPECIFICATION of correct rounding (Num.f64_rounds_to: the value lies between the midpoints to the
   two neighbouring doubles, ties to even) says that it rounds to the input [bits].
   [memo] = the previous text and its reading (the flavours almost always print the same text: evaluated once per distinct text) *)
Definition read_text (bits : Z) (memo : list Z * option (Z * bool)) (o : list Z) : option (Z * bool) :=
  if bytes_eqb o (fst memo) then snd memo
  else match lex_decimal o with Some d => Some (dec2f64 d, f64_rounds_to d bits) | None => None end.

(* one output slot (err, text, strconv parsed flag, strconv bits) against the input bits and the model's reading [rd] of the text:
   0 fine; 1 does not parse back to the input bits; 2 the model's dec2f64 disagrees with strconv.ParseFloat (or with the model's own
   specification of rounding) on this text *)
Definition judge_text (bits : Z) (r : Z * list Z * Z * Z) (rd : option (Z * bool)) : Z :=
  match r with
  | (e, o, k, b) =>
    match rd with
    | Some (b', ok) =>
      if negb ((k =? 1) && (b' =? b)) then 2
      else if negb (Bool.eqb ok (b' =? bits)) then 2
      else if (e =? 0) && (b' =? bits) && ok then 0 else 1
    | None => 1
    end
  end.

(* slots tagged with the code to report when the text does not parse back (1 native, 3 portable); 0 = all fine, 2 = model defect *)
Fixpoint judge_texts (bits : Z) (memo : list Z * option (Z * bool)) (l : list (Z * (Z * list Z * Z * Z))) : Z :=
  match l with
  | [] => 0
  | (tag, r) :: l' =>
    let o := snd (fst (fst r)) in
    let rd := read_text bits memo o in
    let c := judge_text bits r rd in
    if c =? 0 then judge_texts bits (o, rd) l' else if c =? 2 then 2 else tag
  end.

(* 1804. fields: bits, mask, then for avx2, avx, sse, portable: text, err, strconv parsed flag, strconv bits.
   Every text must be a JSON number lexeme whose exact decimal value rounds to exactly the input bits — judged by the specification of
   correct rounding AND by the algorithm dec2f64, which must agree with each other and with strconv.ParseFloat on the same text
   (a disagreement is a MODEL defect, 902).  NaN / infinities are outside "parses back" (VSkip). *)
Definition check_1804 (fs : list field) : verdict :=
  match fs with
  | [FZ bits; FZ mask; FB o0; FZ e0; FZ k0; FZ b0; FB o1; FZ e1; FZ k1; FZ b1; FB o2; FZ e2; FZ k2; FZ b2; FB op; FZ ep; FZ kp; FZ bp] =>
    if negb (f64_is_finite bits) then VSkip else
    let nats := sel mask [(e0, o0, k0, b0); (e1, o1, k1, b1); (e2, o2, k2, b2)] in
    let c := judge_texts bits ([], None) (map (fun r => (1, r)) nats ++ [(3, (ep, op, kp, bp))]) in
    if c =? 0 then VOk else if c =? 2 then VBad 902 [] else if c =? 1 then VBad 1 [FZ bits] else VBad 2 [FZ bits]
  | _ => VBad 99 []
  end.

(* model vs strconv.ParseFloat on one lexeme: (parsed flag, bits) from strconv *)
Definition model_agrees (l : list Z) (okp b : Z) : bool :=
  if num_okb l then (okp =? 1) && lex_is_f64 l b else true.

(* 1806. fields: lexeme, strconv parsed flag, strconv bits: the model's dec2f64 against strconv.ParseFloat (MODEL defect 902 on disagreement) *)
Definition check_1806 (fs : list field) : verdict :=
  match fs with
  | [FB l; FZ okp; FZ b] => if num_okb l then expect 902 (model_agrees l okp b) [FZ (match lex2f64 l with Some x => x | None => -1 end)] else VSkip
  | _ => VBad 99 []
  end.

(* ------------------------------------------------------------------------------------------------ 1805 quote *)
Definition unquotes_to (s : list Z) (r : Z * list Z) : bool :=
  (fst r =? 0) && match unquote (snd r) with Some s' => bytes_eqb s' s | None => false end.

(* 1805. fields: input, placement, mask, (text, err) for avx2, avx, sse, portable.
   For valid UTF-8 input every output must be a JSON string literal denoting the input; the exact spelling is left open
   (the native one is expected to be quote_ref: VDrift 1 otherwise). *)
Definition check_1805 (fs : list field) : verdict :=
  match fs with
  | [FB s; FZ place; FZ mask; FB o0; FZ e0; FB o1; FZ e1; FB o2; FZ e2; FB op; FZ ep] =>
    if negb (utf8_valid s) then VSkip else
    let nats := sel mask [(e0, o0); (e1, o1); (e2, o2)] in
    vand (expect 1 (forallb (unquotes_to s) nats) [FB (quote_ref s)])
   (vand (expect 2 (unquotes_to s (ep, op)) [FB (quote_ref s)])
         (if forallb (out_is (quote_ref s)) nats then VOk else VDrift 1))
  | _ => VBad 99 []
  end.
