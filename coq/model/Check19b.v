(* Further C19 correspondence checks: integer reads through ReadInt and through ReadAny's integer-keyed maps. *)
From Coq Require Import ZArith List Bool.
From DG Require Import GoSem CaseFormat ProtoWireRef ThriftWire.
Import ListNotations.
Local Open Scope Z_scope.

Definition int_width (t : Z) : option nat :=
  if t =? T_BYTE then Some 1%nat else if t =? T_I16 then Some 2%nat else if t =? T_I32 then Some 4%nat
  else if t =? T_I64 then Some 8%nat else None.

(* what ReadInt yields for a value written as type t: the signed value of the width; I08 goes through Go's
   unsigned byte (thrift.ReadByte returns byte), as the API documents *)
Definition readint_image (t : Z) (v : Z) : Z :=
  match int_width t with
  | Some w => if t =? T_BYTE then v mod 256 else to_s (8 * Z.of_nat w) v
  | None => 0
  end.

(* 1911: WriteInt / ReadInt. fields: type, value (Go int), write err, written bytes, read err, value read back *)
Definition check_1911 (fs : list field) : verdict :=
  match fs with
  | [FZ t; FZ v; FZ werr; FB w; FZ rerr; FZ got] =>
    match int_width t with
    | None => VSkip
    | Some n =>
      vand (expect 1 (werr =? 0) [])
     (vand (expect 2 (bytes_eqb w (enc_int n v)) [FB (enc_int n v)])
     (vand (expect 3 (rerr =? 0) [])
           (expect 4 (got =? readint_image t v) [FZ (readint_image t v)])))
    end
  | _ => VBad 99 []
  end.

Fixpoint pairs_of (fs : list field) : option (list (Z * Z)) :=
  match fs with
  | [] => Some []
  | FZ k :: FZ v :: r => match pairs_of r with Some l => Some ((k, v) :: l) | None => None end
  | _ => None
  end.

Definition key_image (kt : Z) (k : tval) : option Z :=
  match k with
  | VByte z => Some (z mod 256) | VI16 z => Some z | VI32 z => Some z | VI64 z => Some z | _ => None
  end.
Definition val_image (v : tval) : option Z := match v with VI64 z => Some z | _ => None end.

Fixpoint has_pair (k v : Z) (l : list (Z * Z)) : bool :=
  match l with [] => false | (k', v') :: r => ((k =? k') && (v =? v')) || has_pair k v r end.

(* 1912: ReadAny(MAP) on an integer-keyed map<iK, i64>. fields: key type, bytes, read err, then (key, value) pairs read back *)
Definition check_1912 (fs : list field) : verdict :=
  match fs with
  | FZ kt :: FB bs :: FZ rerr :: rest =>
    match decode_all T_MAP bs with
    | Some (VMap kt' vt es) =>
      if negb (wf (VMap kt' vt es)) then VSkip else
      if negb (rerr =? 0) then VBad 1 [] else
      match pairs_of rest with
      | None => VBad 2 []
      | Some got =>
        vand (expect 3 (Z.of_nat (length got) =? zlen es) [FZ (zlen es)])
             (expect 4 (forallb (fun e => match key_image kt (fst e), val_image (snd e) with
                                          | Some k, Some v => has_pair k v got
                                          | _, _ => false end) es) [])
      end
    | _ => VSkip
    end
  | _ => VBad 99 []
  end.
