(* C17 — HTTP mapping (conv/j2t handleHttpMappings / writeStringValue / unset-field handling, conv/t2j writeHttpValue):
   decision-table model.  Model only — proofs are in proofs/HttpMapProofs.v.

   A request is what the getters of http.RequestGetter return (association lists of byte strings).  Value conversion
   (text -> Thrift value, JSON -> Thrift value, Thrift value -> text) is NOT part of this model: the converters are
   Section variables, instantiated in Check17.v. *)
From Coq Require Import ZArith List Bool.
From DG Require Import ThriftWire Json Num.
Import ListNotations.
Local Open Scope Z_scope.

(* ---- annotation kinds: the numbering of thrift/annotation/http_mapping.go ---- *)
Definition K_QUERY := 1.  Definition K_PATH := 2.  Definition K_HEADER := 3.  Definition K_COOKIE := 4.
Definition K_BODY := 5.   Definition K_HTTP_CODE := 6.  Definition K_RAW_BODY := 7.  Definition K_FORM := 8.
Definition K_RAW_URI := 9.  Definition K_NO_BODY_STRUCT := 10.

Inductive ann := Ann (kind : Z) (key : list Z).
Definition a_kind (a : ann) : Z := match a with Ann k _ => k end.
Definition a_key (a : ann) : list Z := match a with Ann _ k => k end.

(* requiredness codes *)
Definition R_DEFAULT := 0.  Definition R_REQUIRED := 1.  Definition R_OPTIONAL := 2.

Inductive tdesc :=
| TBase (t : Z) (bin : bool)               (* BOOL BYTE I16 I32 I64 DOUBLE STRING; bin: declared binary *)
| TList (e : tdesc)
| TSet (e : tdesc)
| TMap (k v : tdesc)
| TStruct (fs : list fdesc)
with fdesc := FD (id : Z) (name : list Z) (req : Z) (anns : list ann) (ty : tdesc).

Definition f_id (f : fdesc) : Z := match f with FD i _ _ _ _ => i end.
Definition f_name (f : fdesc) : list Z := match f with FD _ n _ _ _ => n end.
Definition f_req (f : fdesc) : Z := match f with FD _ _ r _ _ => r end.
Definition f_anns (f : fdesc) : list ann := match f with FD _ _ _ a _ => a end.
Definition f_ty (f : fdesc) : tdesc := match f with FD _ _ _ _ t => t end.

Definition type_code (t : tdesc) : Z :=
  match t with TBase c _ => c | TList _ => T_LIST | TSet _ => T_SET | TMap _ _ => T_MAP | TStruct _ => T_STRUCT end.
Definition is_struct (t : tdesc) : bool := match t with TStruct _ => true | _ => false end.
Definition is_complex (t : tdesc) : bool := match t with TBase _ _ => false | _ => true end.

(* BinaryProtocol.WriteEmpty *)
Definition zero_of (t : tdesc) : tval :=
  match t with
  | TBase c _ => if c =? T_BOOL then VBool 0 else if c =? T_BYTE then VByte 0 else if c =? T_I16 then VI16 0
                 else if c =? T_I32 then VI32 0 else if c =? T_I64 then VI64 0 else if c =? T_DOUBLE then VDouble 0 else VString []
  | TList e => VList (type_code e) []
  | TSet e => VSet (type_code e) []
  | TMap k v => VMap (type_code k) (type_code v) []
  | TStruct _ => VStruct []
  end.

(* ---- the request as the getters see it ---- *)
Definition kv := list (list Z * list Z).
Record request := mkReq {
  rq_query : kv; rq_path : kv; rq_header : kv; rq_cookie : kv; rq_form : kv; rq_bodymap : kv;
  rq_raw : list Z; rq_uri : list Z }.

Fixpoint assoc (k : list Z) (l : kv) : list Z :=
  match l with
  | [] => []
  | (k', v) :: r => if zlist_eqb k k' then v else assoc k r
  end.

(* GetQuery / GetParam / GetHeader / GetCookie / GetPostForm / GetMapBody; "" when absent *)
Definition getter (kind : Z) (rq : request) (key : list Z) : list Z :=
  if kind =? K_QUERY then assoc key (rq_query rq) else if kind =? K_PATH then assoc key (rq_path rq)
  else if kind =? K_HEADER then assoc key (rq_header rq) else if kind =? K_COOKIE then assoc key (rq_cookie rq)
  else if kind =? K_FORM then assoc key (rq_form rq) else if kind =? K_BODY then assoc key (rq_bodymap rq) else [].

Definition is_keyed (kind : Z) : bool :=
  (kind =? K_QUERY) || (kind =? K_PATH) || (kind =? K_HEADER) || (kind =? K_COOKIE) || (kind =? K_FORM) || (kind =? K_BODY).

Definition nonempty {A} (l : list A) : bool := match l with [] => false | _ => true end.

(* HttpMapping.Request of one annotation: does it yield a value (err == nil), and which?
   keyed kinds: the getter's string, "has a value" iff non-empty; raw_body / raw_uri: ALWAYS a value (possibly the empty string);
   http_code: never; no_body_struct: always for a STRUCT-typed field (a Thrift-encoded struct, never empty), never otherwise. *)
Inductive srcval := SText (v : list Z) | SStruct.

Definition source_value (a : ann) (fstruct : bool) (rq : request) : option srcval :=
  let k := a_kind a in
  if is_keyed k then (let v := getter k rq (a_key a) in if nonempty v then Some (SText v) else None)
  else if k =? K_RAW_BODY then Some (SText (rq_raw rq))
  else if k =? K_RAW_URI then Some (SText (rq_uri rq))
  else if k =? K_NO_BODY_STRUCT then (if fstruct then Some SStruct else None)
  else None.

(* the loop "for _, hm := range f.HTTPMappings() { v, err := hm.Request(...); if err == nil { ...; break } }":
   index and value of the FIRST listed source that has a value *)
Fixpoint first_source_from (i : nat) (anns : list ann) (fstruct : bool) (rq : request) : option (nat * srcval) :=
  match anns with
  | [] => None
  | a :: r => match source_value a fstruct rq with
              | Some v => Some (i, v)
              | None => first_source_from (S i) r fstruct rq
              end
  end.
Definition first_source (anns : list ann) (fstruct : bool) (rq : request) : option (nat * srcval) :=
  first_source_from O anns fstruct rq.

(* ---- options ---- *)
Record hopts := mkOpts {
  o_wr : bool;     (* WriteRequireField *)
  o_wd : bool;     (* WriteDefaultField *)
  o_wo : bool;     (* WriteOptionalField *)
  o_rhf : bool;    (* ReadHttpValueFallback *)
  o_tb : bool;     (* TracebackRequredOrRootFields *)
  o_nob64 : bool;  (* NoBase64Binary *)
  o_whf : bool;    (* WriteHttpValueFallback *)
  o_omit : bool;   (* OmitHttpMappingErrors *)
  o_kitex : bool   (* UseKitexHttpEncoding *) }.

(* error classes *)
Definition E_MISS := 1.  Definition E_NOTFOUND := 2.  Definition E_CONV := 3.

(* ---- per-field decision (handleHttpMappings + the val == "" branch of writeStringValue) ---- *)
Inductive decision :=
| DWrite (i : nat) (v : list Z)      (* convert the non-empty text v found in listed source number i *)
| DWriteStruct (i : nat)             (* no_body_struct: the nested struct assembled from its own mapped fields *)
| DFallbackToBody                    (* take the member of the JSON body if there is one; otherwise the unset-field rule *)
| DWriteDefaultOrEmpty
| DSkip
| DSkipOwed                          (* skipped by the mapping loop but still owed to the later requiredness pass (empty body only) *)
| DError (cls : Z).

(* writeStringValue with val == "" *)
Definition empty_rule (o : hopts) (req : Z) : decision :=
  if (req =? R_REQUIRED) && negb (o_wr o) then DError E_MISS
  else if (req =? R_OPTIONAL) && negb (o_wo o) then DSkip
  else if (req =? R_DEFAULT) && negb (o_wd o) then DSkip
  else DWriteDefaultOrEmpty.

(* no listed source has a value *)
Definition no_source_rule (o : hopts) (nobody : bool) (req : Z) : decision :=
  if nobody then
    if (req =? R_REQUIRED) && negb (o_wr o) then DError E_NOTFOUND
    else if (req =? R_DEFAULT) && negb (o_wd o) then DSkipOwed
    else if (req =? R_OPTIONAL) && negb (o_wo o) then DSkip
    else DWriteDefaultOrEmpty
  else if o_rhf o then DFallbackToBody
  else empty_rule o req.

Definition map_field (o : hopts) (nobody : bool) (f : fdesc) (rq : request) : decision :=
  match first_source (f_anns f) (is_struct (f_ty f)) rq with
  | Some (i, SText v) => if nonempty v then DWrite i v else empty_rule o (f_req f)
  | Some (i, SStruct) => DWriteStruct i
  | None => no_source_rule o nobody (f_req f)
  end.

(* tryGetValueFromHttp: path param, query, header, cookie, body map — by the field's alias *)
Definition traceback_value (rq : request) (key : list Z) : list Z :=
  let v := getter K_PATH rq key in if nonempty v then v else
  let v := getter K_QUERY rq key in if nonempty v then v else
  let v := getter K_HEADER rq key in if nonempty v then v else
  let v := getter K_COOKIE rq key in if nonempty v then v else
  getter K_BODY rq key.

(* isJsonString *)
Definition is_json_string (v : list Z) : bool :=
  if (length v <? 2)%nat then false else
  match skip_ws v with
  | [] => false
  | s :: _ => let e := last v 0 in
              ((s =? 123) && (e =? 125)) || ((s =? 91) && (e =? 93)) || ((s =? 34) && (e =? 34))
  end.

(* ---- results ---- *)
Inductive fres := FValue (v : tval) | FAbsent | FError (cls : Z).
Inductive hres := HOk (fields : list (Z * tval)) | HErr (cls : Z).

Definition find_member (name : list Z) (ms : list (list Z * json)) : option json :=
  match find (fun m => zlist_eqb name (fst m)) ms with Some m => Some (snd m) | None => None end.

Definition has_hm (fs : list fdesc) : bool := existsb (fun f => nonempty (f_anns f)) fs.

(* which implementation's unset-field handling (they differ, see FINDINGS_c17.md): the documented behaviour, or the
   native / portable converter's actual one *)
Inductive flavour := Spec | NativeQuirk | PortableQuirk.

Section Conv.
  Variable o : hopts.
  Variable fl : flavour.
  Variable rq : request.
  (* text of a scalar (or comma separated list) -> value; None = conversion error *)
  Variable conv_text : tdesc -> list Z -> option tval.
  (* JSON value -> value for types other than STRUCT (the plain body conversion); None = conversion error *)
  Variable conv_json : tdesc -> json -> option tval.

  Definition of_opt (x : option tval) : fres := match x with Some v => FValue v | None => FError E_CONV end.

  Section Level.
    (* conversion of a JSON value to a STRUCT with these fields, at the next nesting level *)
    Variable rec_struct : list fdesc -> json -> fres.

    Definition conv_value (t : tdesc) (j : json) : fres :=
      match t with
      | TStruct fs => rec_struct fs j
      | _ => of_opt (conv_json t j)
      end.

    (* writeStringValue with a non-empty text from an HTTP source (encoding JSON) *)
    Definition write_text (t : tdesc) (v : list Z) : fres :=
      if negb (is_complex t) || negb (is_json_string v) then of_opt (conv_text t v)
      else match json_parse v with
           | Some j => conv_value t j
           | None => FError E_CONV
           end.

    Definition of_empty_rule (t : tdesc) (req : Z) : fres :=
      match empty_rule o req with
      | DError c => FError c
      | DWriteDefaultOrEmpty => FValue (zero_of t)
      | _ => FAbsent
      end.

    Definition write_or_empty (t : tdesc) (req : Z) (v : list Z) : fres :=
      if nonempty v then write_text t v else of_empty_rule t req.

    (* a field that is still owed when the JSON object ends.
       documented: TracebackRequredOrRootFields makes required or root-level fields seek the HTTP values by alias;
       native: only if ReadHttpValueFallback is set as well (F_TRACE_BACK is derived from that option);
       portable: below the root, a missing required field is reported before any seeking unless WriteRequireField. *)
    Definition unset_rule (root : bool) (f : fdesc) : fres :=
      let seek := write_or_empty (f_ty f) (f_req f) (traceback_value rq (f_name f)) in
      let plain := of_empty_rule (f_ty f) (f_req f) in
      let eligible := root || (f_req f =? R_REQUIRED) in
      match fl with
      | Spec => if o_tb o && eligible then seek else plain
      | NativeQuirk => if o_tb o && o_rhf o && eligible then seek else plain
      | PortableQuirk => if o_tb o && root then seek
                         else if (f_req f =? R_REQUIRED) && negb (o_wr o) then FError E_MISS
                         else if o_tb o && eligible then seek else plain
      end.

    (* empty body: reqs.HandleRequires(st, rhf, rhf, rhf, seek) *)
    Definition nobody_unset_rule (f : fdesc) : fres :=
      if o_rhf o then write_or_empty (f_ty f) (f_req f) (traceback_value rq (f_name f))
      else if f_req f =? R_REQUIRED then FError E_MISS else FAbsent.

    (* apiNoBodyStruct.Request: every http-mapped field of the nested struct, from its first source; conversion errors are
       IGNORED by the code (the field header stays without a value): None marks that malformed output *)
    Definition nbs_field (g : fdesc) : option (option (Z * tval)) :=
      if negb (nonempty (f_anns g)) then Some None else
      match first_source (f_anns g) (is_struct (f_ty g)) rq with
      | Some (_, SText v) =>
        if nonempty v then match conv_text (f_ty g) v with Some x => Some (Some (f_id g, x)) | None => None end
        else Some (Some (f_id g, zero_of (f_ty g)))
      | Some (_, SStruct) => None       (* a Thrift-encoded text handed to the text decoder of a STRUCT: not implemented *)
      | None => Some (Some (f_id g, zero_of (f_ty g)))
      end.

    Fixpoint nbs_fields (gs : list fdesc) : option (list (Z * tval)) :=
      match gs with
      | [] => Some []
      | g :: r => match nbs_field g, nbs_fields r with
                  | Some x, Some l => Some (match x with Some p => p :: l | None => l end)
                  | _, _ => None
                  end
      end.

    Definition nbs_value (t : tdesc) : fres :=
      match t with
      | TStruct gs => match nbs_fields gs with Some l => FValue (VStruct l) | None => FError E_CONV end
      | _ => FError E_CONV
      end.

    (* the outcome for one declared field of a struct converted from a JSON object with members ms
       (nobody: there is no JSON body at all; only at the root) *)
    Definition field_result (root nobody : bool) (ms : list (list Z * json)) (f : fdesc) : fres :=
      let owed0 := negb (f_req f =? R_OPTIONAL) in
      let from_body (owed : bool) :=
        match find_member (f_name f) ms with
        | Some j => conv_value (f_ty f) j
        | None => if owed then unset_rule root f else FAbsent
        end in
      if nonempty (f_anns f) then
        match map_field o nobody f rq with
        | DWrite _ v => write_text (f_ty f) v
        | DWriteStruct _ => nbs_value (f_ty f)
        | DWriteDefaultOrEmpty => FValue (zero_of (f_ty f))
        | DSkip => FAbsent
        | DSkipOwed => nobody_unset_rule f
        | DError c => FError c
        | DFallbackToBody => from_body true
        end
      else if nobody then (if owed0 then nobody_unset_rule f else FAbsent)
      else from_body owed0.

    (* the plain body conversion of the same field: no HTTP mapping, no seeking *)
    Definition plain_field_result (ms : list (list Z * json)) (f : fdesc) : fres :=
      match find_member (f_name f) ms with
      | Some j => conv_value (f_ty f) j
      | None => if negb (f_req f =? R_OPTIONAL) then of_empty_rule (f_ty f) (f_req f) else FAbsent
      end.
  End Level.

  (* ---- whole struct: first error in processing order, else the fields that got a value ---- *)
  Fixpoint collect (l : list (Z * fres)) : hres :=
    match l with
    | [] => HOk []
    | (i, r) :: l' =>
      match r with
      | FError c => HErr c
      | FAbsent => collect l'
      | FValue v => match collect l' with HOk fs => HOk ((i, v) :: fs) | HErr c => HErr c end
      end
    end.

  Definition insert_by_id (f : fdesc) (l : list fdesc) : list fdesc :=
    (fix ins (l : list fdesc) := match l with [] => [f] | g :: r => if f_id f <=? f_id g then f :: l else g :: ins r end) l.
  Definition sort_by_id (l : list fdesc) : list fdesc := fold_right insert_by_id [] l.

  (* processing order: http-mapped fields in declaration order, then fields met in the body in document order,
     then the remaining fields in id order.  (Only the position of the first error depends on it.) *)
  Definition in_body (ms : list (list Z * json)) (f : fdesc) : bool :=
    match find_member (f_name f) ms with Some _ => true | None => false end.
  Definition member_fields (fs : list fdesc) (ms : list (list Z * json)) : list fdesc :=
    flat_map (fun m => match find (fun f => zlist_eqb (f_name f) (fst m)) fs with Some f => [f] | None => [] end) ms.
  Definition processing_order (fs : list fdesc) (ms : list (list Z * json)) : list fdesc :=
    let hm := filter (fun f => nonempty (f_anns f)) fs in
    let body := filter (fun f => negb (nonempty (f_anns f))) (member_fields fs ms) in
    let rest := sort_by_id (filter (fun f => negb (nonempty (f_anns f)) && negb (in_body ms f)) fs) in
    hm ++ body ++ rest.

  Definition struct_result (rec_struct : list fdesc -> json -> fres) (root nobody : bool) (fs : list fdesc) (ms : list (list Z * json)) : hres :=
    collect (map (fun f => (f_id f, field_result rec_struct root nobody ms f)) (processing_order fs ms)).

  Definition hres_to_fres (h : hres) : fres := match h with HOk l => FValue (VStruct l) | HErr c => FError c end.

  (* nested structs by fuel (the nesting depth of the descriptor bounds it) *)
  Fixpoint conv_struct (fuel : nat) (fs : list fdesc) (j : json) : fres :=
    match fuel with
    | O => FError E_CONV
    | S n =>
      match j with
      | JObj ms => hres_to_fres (struct_result (conv_struct n) false false fs ms)
      | _ => FError E_CONV
      end
    end.

  (* the whole request: root struct, JSON body (None: empty body) *)
  Definition http_j2t (fuel : nat) (fs : list fdesc) (body : option json) : hres :=
    match body with
    | None => struct_result (conv_struct fuel) true true fs []
    | Some (JObj ms) => struct_result (conv_struct fuel) true false fs ms
    | Some _ => HErr E_CONV
    end.

  (* the same body without HTTP mapping *)
  Definition plain_struct_result (rec_struct : list fdesc -> json -> fres) (fs : list fdesc) (ms : list (list Z * json)) : hres :=
    collect (map (fun f => (f_id f, plain_field_result rec_struct ms f)) (processing_order fs ms)).
End Conv.

(* ---- response side (conv/t2j writeHttpValue) ---- *)
(* HttpMapping.Response of one annotation with the field's text: delivered somewhere, succeeds delivering nothing, or fails *)
Inductive rresp := RDeliver (kind : Z) (key : list Z) (v : list Z) | RNothing | RFail.

(* strconv.Atoi: optional sign, decimal digits, within the int64 range *)
Definition atoi (v : list Z) : option Z :=
  let body := match v with c :: r => if c =? 43 then r else v | [] => v end in
  match body with
  | [] => None
  | c :: _ =>
    if (c =? 45) && negb (length body =? length v)%nat then None      (* "+-1" *)
    else match parse_int body with
         | Some z => if (- 2 ^ 63 <=? z) && (z <? 2 ^ 63) then Some z else None
         | None => None
         end
  end.
Definition atoi_ok (v : list Z) : bool := match atoi v with Some _ => true | None => false end.

Definition resp_ann (a : ann) (text : list Z) : rresp :=
  let k := a_kind a in
  if k =? K_HEADER then RDeliver K_HEADER (a_key a) text
  else if k =? K_COOKIE then RDeliver K_COOKIE (a_key a) text
  else if k =? K_HTTP_CODE then (if atoi_ok text then RDeliver K_HTTP_CODE [] text else RFail)
  else if k =? K_RAW_BODY then RDeliver K_RAW_BODY [] text
  else if k =? K_RAW_URI then RNothing
  else RFail.

(* outcome for one present annotated response field *)
Inductive routcome :=
| RODelivered (kind : Z) (key : list Z) (v : list Z)   (* delivered there, omitted from the JSON body *)
| ROSwallowed                                          (* a mapping "succeeded" without a target: omitted from the body, delivered nowhere *)
| ROBody                                               (* written to the JSON body (WriteHttpValueFallback) *)
| RODropped                                            (* no mapping succeeded, no fallback: omitted everywhere *)
| ROError.

Fixpoint resp_loop (o : hopts) (anns : list ann) (text : list Z) : routcome :=
  match anns with
  | [] => if o_whf o then ROBody else RODropped
  | a :: r =>
    match resp_ann a text with
    | RDeliver k key v => RODelivered k key v
    | RNothing => ROSwallowed
    | RFail => if o_omit o then resp_loop o r text else ROError
    end
  end.

(* text = the field's value in its HTTP text encoding *)
Definition resp_field (o : hopts) (f : fdesc) (text : list Z) : routcome :=
  if nonempty (f_anns f) then resp_loop o (f_anns f) text else ROBody.

Definition in_json_body (r : routcome) : bool := match r with ROBody => true | _ => false end.
