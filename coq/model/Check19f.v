(* C19: WriteStringWithDesc / ReadStringWithDesc against their as-coded model (model/ThriftText.v, theorems in
   proofs/ThriftTextProofs.v).
     1929  WriteStringWithDesc(text, desc, disallowUnknown, base64Binary): status and the whole buffer (also after an error:
           there is no map iteration in this function) must equal write_string_desc; texts the model marks outside (spellings of
           doubles beyond the JSON number grammar) are skipped.
     1930  ReadStringWithDesc(desc, buf, byteAsUint8, disallowUnknown, base64Binary) on bytes: error / text / bytes left must equal
           read_string_desc. The text of a double is not compared as text: a descriptor that is a double is judged by reading the
           printed text back (Num.lex2f64), descriptors that contain doubles deeper are compared on error and bytes left only;
           descriptors with structs are outside the model. *)
From Coq Require Import ZArith List Bool.
From DG Require Import CaseFormat ProtoWireRef ThriftWire ThriftGeneric ThriftEnvelope ThriftAnyDesc Json Num ThriftText Check19d.
Import ListNotations.
Local Open Scope Z_scope.

(* 1929. fields: descriptor, base64Binary, text, code (0 nil, 1 error, 3 panic), buffer *)
Definition check_1929 (fs : list field) : verdict :=
  match fs with
  | [FB db; FZ o; FB txt; FZ wc; FB buf] =>
    match parse_adesc (S (length db)) db with
    | Some (d, []) =>
      if wc =? 3 then VBad 3 [] else
      let r := write_string_desc (negb (o =? 0)) d [] txt in
      if snd r =? 2 then VSkip
      else vand (expect 1 (snd r =? wc) [FZ (snd r)]) (expect 2 (bytes_eqb (fst r) buf) [FB (fst r)])
    | _ => VBad 98 []
    end
  | _ => VBad 99 []
  end.

Fixpoint has_double (d : adesc) : bool :=
  match d with
  | AScalar t => t =? T_DOUBLE
  | AString _ => false
  | AStruct fs => existsb (fun f => has_double (snd f)) fs
  | AList e | ASet e => has_double e
  | AMap k e => has_double k || has_double e
  end.
Fixpoint has_struct (d : adesc) : bool :=
  match d with
  | AStruct _ => true
  | AList e | ASet e => has_struct e
  | AMap k e => has_struct k || has_struct e
  | _ => false
  end.

(* 1930. fields: descriptor, options (1 byteAsUint8, 2 disallowUnknown, 4 base64Binary), input, code (0 ok, 1 error, 3 panic),
   text, bytes left *)
Definition check_1930 (fs : list field) : verdict :=
  match fs with
  | [FB db; FZ o; FB input; FZ rc; FB txt; FZ nleft] =>
    match parse_adesc (S (length db)) db with
    | Some (d, []) =>
      if has_struct d then VSkip else
      if rc =? 3 then VBad 3 [] else
      let m := read_string_desc (fun _ => []) (Z.testbit o 2) c19d_fuel d input in
      if rc =? 0 then
        match m with
        | None => VBad 5 []
        | Some (t, r) =>
          vand (expect 2 (zlen r =? nleft) [FZ (zlen r)])
               (if has_double d then
                  match d with
                  | AScalar _ =>
                    (* the printed text reads back as the double that was read (finite doubles) *)
                    match take 8 input with
                    | Some (x, _) =>
                      if f64_is_finite (dec_uint x) then
                        expect 3 (match lex2f64 txt with Some y => (y =? dec_uint x) | None => false end) []
                      else VSkip
                    | None => VBad 6 []
                    end
                  | _ => VOk
                  end
                else expect 1 (bytes_eqb t txt) [FB t])
        end
      else
        match m with
        | None => VOk
        | Some (_, r) => VBad 7 [FZ (zlen r)]
        end
    | _ => VBad 98 []
    end
  | _ => VBad 99 []
  end.
