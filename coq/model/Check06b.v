(* Correspondence checks for C06, second part: byte walkers that have list-based models (a read past the end is None by
   construction; totality: proofs/RobustWalkProofs.v) are compared with the implementation on MALFORMED input, where the
   properties that own these models (C01, C03, C08) do not judge.  Policy: the implementation may reject what the model
   accepts (drift: the models are lenient where the code checks more); it may NOT succeed where the model errs, must not
   panic (class 3) and must answer (class 4 = no answer within the watchdog). *)
From Coq Require Import ZArith List Bool.
From DG Require Import CaseFormat ProtoWireRef ThriftWire ThriftGeneric Check01 Json Num Base64 T2J T2JBytes Check03
                       ProtoMsg ProtoCase P2J P2JBytes.
Import ListNotations.
Local Open Scope Z_scope.

(* 611: Node.GetByPath.  fields: root type, bytes, path, status (0 found, 1 not found, 2 error, 3 panic), type, start, end *)
Definition check_611 (fs : list field) : verdict :=
  match fs with
  | FZ t :: FB bs :: rest =>
    match parse_path rest with
    | Some (p, [FZ st; FZ ty; FZ s; FZ e]) =>
      if st =? 3 then VBad 3 [] else
      match get_by_path t bs 0 p with
      | GFound t' a b =>
        if st =? 0 then expect 1 ((ty =? t') && (s =? a) && (e =? b)) [FZ t'; FZ a; FZ b]
        else VDrift 1
      | GNotFound | GErr => expect 2 (negb (st =? 0)) [FZ 2]
      end
    | _ => VBad 99 []
    end
  | _ => VBad 99 []
  end.

(* 612: conv/t2j.  fields: options, descriptor..., bytes, error class (0 nil, 1 error, 3 panic, 4 no answer) *)
Definition check_612 (fs : list field) : verdict :=
  match fs with
  | FZ o :: rest =>
    match parse_desc (S (length rest)) rest with
    | Some (d, [FB tb; FZ ec]) =>
      if negb (desc_wf d) then VSkip else
      if (ec =? 3) || (ec =? 4) then VBad 3 [FZ ec] else
      match t2j_walk_gen fd_mark (o mod 32) (S (length tb)) d tb with
      | Some _ => if ec =? 0 then VOk else VDrift 2
      | None => expect 2 (negb (ec =? 0)) [FZ 1]
      end
    | _ => VBad 99 []
    end
  | _ => VBad 99 []
  end.

Definition fl_mark6 (b : Z) : list Z := fmt_nat b ++ [101; 48].

(* 613: conv/p2j.  fields: schema..., Int642String, DisallowUnknownField, bytes, error class *)
Definition check_613 (fs : list field) : verdict :=
  match parse_schema fs with
  | Some (root, Sc, [FZ i64s; FZ dis; FB bs; FZ ec]) =>
    let o := mk_p2j_opts (negb (i64s =? 0)) (negb (dis =? 0)) in
    if (ec =? 3) || (ec =? 4) then VBad 3 [FZ ec] else
    match p2j_walk_gen fl_mark6 (Datatypes.S (length bs)) o Sc root bs with
    | Some _ => if ec =? 0 then VOk else VDrift 3
    | None =>
      if negb (ec =? 0) then VOk
      (* finding 611: the walk cuts a nested message body out of its parent ([take l]) and fails when a record inside
         crosses that end; the code keeps ONE buffer and reads on in the parent's bytes.  Selector: every TOP-LEVEL record
         is complete (ProtoMsg.wdec accepts the buffer), so the walk's failure lies inside a nested body. *)
      else match wdec bs with Some _ => VKnown 611 | None => VBad 2 [FZ 1] end
    end
  | _ => VBad 99 []
  end.
