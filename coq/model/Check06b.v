(* Correspondence checks for C06, second part: byte walkers that have list-based models (a read past the end is None by
   construction; totality: proofs/RobustWalkProofs.v) are compared with the implementation on MALFORMED input, where the
   properties that own these models (C01, C03, C08) do not judge.  Policy: the implementation may reject what the model
   accepts (drift: the models are lenient where the code checks more); it may NOT succeed where the model errs, must not
   panic (class 3) and must answer (class 4 = no answer within the watchdog). *)
From Coq Require Import ZArith List Bool.
From DG Require Import CaseFormat ProtoWireRef ThriftWire ThriftGeneric Check01 Json Num Base64 T2J T2JBytes Check03
                       ProtoMsg ProtoCase P2J P2JBytes.
Import ListNotations.
Local Open Scope Z_scope.

(* ThriftWire.dec_scalar converts a string length to nat before comparing it with the buffer ([take (Z.to_nat n)]): a
   length prefix like 7f ff ff ff would make the extracted model build a 2^31-cell numeral.  Some 4-byte window of the
   buffer, read as a big-endian int32, is positive and exceeds the buffer: *)
Fixpoint has_huge_len (n : Z) (bs : list Z) : bool :=
  match bs with
  | a :: ((b :: c :: d :: _) as r) =>
    (let v := ((a * 256 + b) * 256 + c) * 256 + d in (n <? v) && (v <? 2 ^ 31)) || has_huge_len n r
  | _ => false
  end.

(* 611: Node.GetByPath.  fields: root type, bytes, path, status (0 found, 1 not found, 2 error, 3 panic), type, start, end *)
Definition check_611 (fs : list field) : verdict :=
  match fs with
  | FZ t :: FB bs :: rest =>
    match parse_path rest with
    | Some (p, [FZ st; FZ ty; FZ s; FZ e]) =>
      if st =? 3 then VBad 3 [] else
      (* only the STRING-key map search reads strings through dec_scalar: for such a path, with a window that reads as a
         length above 2^20 somewhere, the search model is only run when the bounded skip (Z arithmetic) accepts the whole
         value, i.e. has validated every prefix *)
      if existsb (fun st => match st with PStrKey _ => true | _ => false end) p
         && has_huge_len (Z.max (zlen bs) (2 ^ 20)) bs && (match skip_go t bs with Some _ => false | None => true end) then VSkip else
      match get_by_path t bs 0 p with
      | GFound t' a b =>
        if st =? 0 then expect 1 ((ty =? t') && (s =? a) && (e =? b)) [FZ t'; FZ a; FZ b]
        else VDrift 1
      | GNotFound | GErr => expect 2 (negb (st =? 0)) [FZ 2]
      end
    | _ => VBad 99 []
    end
  | _ => VBad 99 []
  end.

(* 616: the single-step accessors Node.Index / Field / GetByStr / GetByInt on a container with an intact header and cut
   elements.  fields as 611 with a one-step path.  Judged observable first: a node that is handed back lies INSIDE the
   buffer (0 <= start, end <= |bs|) whatever the model says; then the model (an element beyond the bytes present is an error). *)
Definition check_616 (fs : list field) : verdict :=
  match fs with
  | FZ t :: FB bs :: rest =>
    match parse_path rest with
    | Some (p, [FZ st; FZ ty; FZ s; FZ e]) =>
      if st =? 3 then VBad 3 [] else
      if (st =? 0) && negb ((0 <=? s) && (s <=? e) && (e <=? zlen bs)) then VBad 4 [FZ (zlen bs)] else
      if existsb (fun x => match x with PStrKey _ => true | _ => false end) p
         && has_huge_len (Z.max (zlen bs) (2 ^ 20)) bs && (match skip_go t bs with Some _ => false | None => true end) then VSkip else
      match get_by_path t bs 0 p with
      | GFound t' a b =>
        if st =? 0 then expect 1 ((ty =? t') && (s =? a) && (e =? b)) [FZ t'; FZ a; FZ b]
        else VDrift 1
      | GNotFound | GErr => expect 2 (negb (st =? 0)) [FZ 2]
      end
    | _ => VBad 99 []
    end
  | _ => VBad 99 []
  end.

(* 612: conv/t2j.  fields: options, descriptor..., bytes, error class (0 nil, 1 error, 3 panic, 4 no answer) *)
Definition check_612 (fs : list field) : verdict :=
  match fs with
  | FZ o :: rest =>
    match parse_desc (S (length rest)) rest with
    | Some (d, [FB tb; FZ ec]) =>
      if negb (desc_wf d) then VSkip else
      if (ec =? 3) || (ec =? 4) then VBad 3 [FZ ec] else
      match t2j_walk_root fd_mark (o mod 2048) (S (length tb)) d tb with   (* the root struct loop with the response base extracted when the options say so *)
      | Some _ => if ec =? 0 then VOk else VDrift 2
      | None => expect 2 (negb (ec =? 0)) [FZ 1]
      end
    | _ => VBad 99 []
    end
  | _ => VBad 99 []
  end.

Definition fl_mark6 (b : Z) : list Z := fmt_nat b ++ [101; 48].

(* Selector of finding 611: does some record START inside a (nested message | map entry | packed payload) and END behind
   its declared end?  The walk is over the parent's suffix [bs] with a byte budget [l] for the current scope — the way the
   code reads (one buffer, `for p.Read < start+l`).  Only a selector: it never produces an expected value. *)
Fixpoint strad_packed (fuel : nat) (wt : Z) (l : Z) (bs : list Z) : bool :=
  match fuel with
  | O => false
  | Datatypes.S f =>
    if l <=? 0 then false else
    match wdec_val wt bs with
    | None => false
    | Some (_, r) => let c := plen bs - plen r in if c >? l then true else strad_packed f wt (l - c) r
    end
  end.

Definition wt_of_type (t : ftype) : Z := match t with TScalar k => wt_of_kind k | TMsg _ => 2 end.
(* the body of a length-delimited value, as a suffix of the parent: r = <len> body r' *)
Definition body_start (r r' body : list Z) : list Z := skipn (Z.to_nat (plen r - plen r' - plen body)) r.

Fixpoint strad (fuel : nat) (Sc : schema) (name : list Z) (l : Z) (bs : list Z) : bool :=
  match fuel with
  | O => false
  | Datatypes.S f =>
    if l <=? 0 then false else
    match rd_tag bs with
    | None => false
    | Some (num, wt, r) =>
      let fdo := match find_msg Sc name with Some md => find_field md num | None => None end in
      let nested (t : ftype) (r3 r4 : list Z) (v : wval) : bool :=
        match t, v with TMsg vn, WBytes body => strad f Sc vn (plen body) (body_start r3 r4 body) | _, _ => false end in
      match fdo with
      | Some (mk_fdesc _ _ _ (LMap kk) t) =>
        (* unmarshalMap: the pair length is read and ignored; key tag, key, value tag, value are read from the one buffer *)
        match rd_len r with None => false | Some (_, r0) =>
        match rd_tag r0 with None => false | Some (_, _, r1) =>
        match wdec_val (wt_of_kind kk) r1 with None => false | Some (_, r2) =>
        match rd_tag r2 with None => false | Some (_, _, r3) =>
        match wdec_val (wt_of_type t) r3 with None => false | Some (v, r4) =>
          let c := plen bs - plen r4 in
          if c >? l then true else nested t r3 r4 v || strad f Sc name (l - c) r4
        end end end end end
      | _ =>
        if negb ((wt =? 0) || (wt =? 1) || (wt =? 2) || (wt =? 5)) then strad f Sc name (l - (plen bs - plen r)) r else
        match wdec_val wt r with
        | None => false
        | Some (v, r') =>
          let c := plen bs - plen r' in
          if c >? l then true else
          let inner :=
            match fdo, v with
            | Some (mk_fdesc _ _ _ (LRepeated _) (TScalar k)), WBytes body =>
              if is_numeric k then strad_packed f (wt_of_kind k) (plen body) (body_start r r' body) else false
            | Some (mk_fdesc _ _ _ _ t), _ => nested t r r' v
            | None, _ => false
            end in
          inner || strad f Sc name (l - c) r'
        end
      end
    end
  end.

(* Selector of finding 612: some offset holds a varint v with v + |bs| >= 2^63: taken as a length, `start + int(v)` wraps
   (or int(v) is negative) and `for p.Read < start+len` is false at once. *)
Fixpoint has_wrapping_len (n : Z) (bs : list Z) : bool :=
  match bs with
  | [] => false
  | _ :: r => (let '(v, k) := varint_dec bs in (0 <? k) && (2 ^ 63 <=? v + n)) || has_wrapping_len n r
  end.

(* 613: conv/p2j.  fields: schema..., Int642String, DisallowUnknownField, bytes, error class, input class is nested-length *)
Definition check_613 (fs : list field) : verdict :=
  match parse_schema fs with
  | Some (root, Sc, [FZ i64s; FZ dis; FB bs; FZ ec; FZ nested_len]) =>
    let o := mk_p2j_opts (negb (i64s =? 0)) (negb (dis =? 0)) in
    if (ec =? 3) || (ec =? 4) then VBad 3 [FZ ec] else
    match p2j_walk_gen fl_mark6 (Datatypes.S (length bs)) o Sc root bs with
    | Some _ => if ec =? 0 then VOk else VDrift 3
    | None =>
      if negb (ec =? 0) then VOk
      (* finding 611: the walk cuts a nested message body out of its parent ([take l]) and fails when a record inside
         crosses that end; the code keeps ONE buffer, reads on in the parent's bytes and resumes the parent loop where the
         child's reads ended.  Selector: [strad] finds such a record; the walk errs, the code answers with a nil error. *)
      else if strad (Datatypes.S (length bs)) Sc root (plen bs) bs then VKnown 611
      else if has_wrapping_len (plen bs) bs then VKnown 612
      else VBad 2 [FZ 1]
    end
  | _ => VBad 99 []
  end.
