(* Domain of the refinement theorem C07_get_by_path_refines_plookup, as computable predicates. *)
From Coq Require Import ZArith List Bool.
From DG Require Import CaseFormat ProtoWireRef ProtoMsg ProtoGeneric ProtoGenericAlg.
Import ListNotations.
Local Open Scope Z_scope.

(* schema: field numbers are distinct inside a message; map keys are of a kind ReadInt reads (Type.IsInt) or string
   (bool keys are legal proto3 but proto/generic has no reader for them: outside the property's subset) *)
Definition field_okb (fd : fdesc) : bool :=
  match fd_label fd with LMap kk => (kk =? 9) || kind_is_int kk | _ => true end.
Definition mdesc_okb (md : mdesc) : bool :=
  nodupb Z.eqb (map fd_num (md_fields md)) && forallb field_okb (md_fields md).
Definition schema_okb (S : schema) : bool := forallb mdesc_okb S.

(* paths: integer map keys are Go ints *)
Definition step_okb (s : pstep) : bool :=
  match s with PIntKey i => (- 2 ^ 63 <=? i) && (i <? 2 ^ 63) | _ => true end.
Definition path_okb (p : list pstep) : bool := forallb step_okb p.

(* canonical encodings of well-formed messages shorter than 2^63 bytes (Go's int) *)
Definition gbp_domain (S : schema) (root : list Z) (m : pmsg) (p : list pstep) : bool :=
  schema_okb S && wf_msg S root m && (plen (encode_msg m) <? 2 ^ 63) && path_okb p && negb (is_nil p).

(* element count reported for LIST / MAP nodes *)
Definition size_of (v : pval) : Z :=
  match v with VList _ vs => plen vs | VMap kvs => plen kvs | _ => 0 end.

(* the answer getByPath must give for a lookup result (None = no claim: the path does not fit the shape) *)
Definition expected_gout (r : lres) : option (list gout) :=
  match r with
  | LFound lbl t num v => Some [GFoundA (node_type lbl t) (node_raw lbl num v) (size_of v)]
  | LNotFound last => Some [if last then GNotFoundA else GErrA]
  | LUndeclared => Some [GNotFoundA; GErrA]
  | LErr => None
  end.
