(* Domain of the refinement theorem C07_get_by_path_refines_plookup, as computable predicates. *)
From Coq Require Import ZArith List Bool.
From DG Require Import CaseFormat ProtoWireRef ProtoMsg ProtoGeneric ProtoGenericAlg.
Import ListNotations.
Local Open Scope Z_scope.

(* schema: field numbers are distinct inside a message; map keys are of a kind ReadInt reads (Type.IsInt) or string
   (bool keys are legal proto3 but proto/generic has no reader for them: outside the property's subset) *)
Definition field_okb (fd : fdesc) : bool :=
  match fd_label fd with LMap kk => (kk =? 9) || kind_is_int kk | _ => true end.
Definition mdesc_okb (md : mdesc) : bool :=
  nodupb Z.eqb (map fd_num (md_fields md)) && forallb field_okb (md_fields md).
Definition schema_okb (S : schema) : bool := forallb mdesc_okb S.

(* paths: integer map keys are Go ints *)
Definition step_okb (s : pstep) : bool :=
  match s with PIntKey i => (- 2 ^ 63 <=? i) && (i <? 2 ^ 63) | _ => true end.
Definition path_okb (p : list pstep) : bool := forallb step_okb p.

(* canonical encodings of well-formed messages shorter than 2^63 bytes (Go's int) *)
Definition gbp_domain (S : schema) (root : list Z) (m : pmsg) (p : list pstep) : bool :=
  schema_okb S && wf_msg S root m && (plen (encode_msg m) <? 2 ^ 63) && path_okb p && negb (is_nil p).

(* element count reported for LIST / MAP nodes *)
Definition size_of (v : pval) : Z :=
  match v with VList _ vs => plen vs | VMap kvs => plen kvs | _ => 0 end.

(* the answer getByPath must give for a lookup result (None = no claim: the path does not fit the shape) *)
Definition expected_gout (r : lres) : option (list gout) :=
  match r with
  | LFound lbl t num v => Some [GFoundA (node_type lbl t) (node_raw lbl num v) (size_of v)]
  | LNotFound last => Some [if last then GNotFoundA else GErrA]
  | LUndeclared => Some [GNotFoundA; GErrA]
  | LErr => None
  end.

(* ---- the children a listing must report (Children / Load(recurse=false)): one node per present field / element / entry,
   in wire order, with the node type and the bytes a lookup of that child gives *)
Definition key_step (k : mkey) : pstep := match k with KStr b => PStrKey b | KInt _ v => PIntKey (to_s 64 v) end.
Fixpoint index_children (t : ftype) (i : Z) (vs : list pval) : list atree :=
  match vs with
  | [] => []
  | x :: r => ATree (PIndex i) (kind_of_type t) (encode_elem x) [] :: index_children t (i + 1) r
  end.
Definition spec_children (S : schema) (lbl : flabel) (t : ftype) (v : pval) : list atree :=
  match lbl, v with
  | LSingular, VMsg fs =>
    match t with
    | TMsg name =>
      match find_msg S name with
      | Some md => map (fun nv => match find_field md (fst nv) with
                                  | Some fd => ATree (PField (fst nv)) (node_type (fd_label fd) (fd_type fd))
                                                     (node_raw (fd_label fd) (fst nv) (snd nv)) []
                                  | None => ATree (PField (fst nv)) 0 [] []
                                  end) fs
      | None => []
      end
    | TScalar _ => []
    end
  | LRepeated _, VList _ vs => index_children t 0 vs
  | LMap _, VMap kvs => map (fun kx => ATree (key_step (fst kx)) (kind_of_type t) (encode_elem (snd kx)) []) kvs
  | _, _ => []
  end.

(* the listing APIs skip the first record of a LIST child as length-delimited: repeated numeric fields must be packed
   (no [packed = false]; the generator has none) *)
Definition field_packed_okb (fd : fdesc) : bool :=
  match fd_label fd with LRepeated p => Bool.eqb p (type_numeric (fd_type fd)) | _ => true end.
Definition schema_packed_okb (S : schema) : bool := forallb (fun md => forallb field_packed_okb (md_fields md)) S.
