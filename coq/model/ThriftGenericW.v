(* The byte-level search of ThriftGeneric with the SKIP FUNCTION as a parameter: the read APIs of thrift/generic choose
   between BinaryProtocol.SkipGo and SkipNative by Options.UseNativeSkip / the global UseNativeSkipForGet; everything else
   of the algorithms is the same text. GENERATED from ThriftGeneric.v by renaming (x -> x_w, skip_go -> skp); instantiating
   skp := skip_go gives the functions of ThriftGeneric back (proofs/ThriftOptionsProofs.v). Model only. *)
From Coq Require Import ZArith List Bool.
From DG Require Import ProtoWireRef ThriftWire CaseFormat ThriftGeneric.
Import ListNotations.
Local Open Scope Z_scope.

Section WithSkip.
Variable skp : Z -> list Z -> option (list Z).

Fixpoint search_field_w (fuel : nat) (id : Z) (bs : list Z) (off : Z) : sres :=
  match fuel with
  | O => SErr
  | S f =>
    match bs with
    | [] => SErr
    | t :: r =>
      if t =? 0 then SNotFound
      else match take 2 r with
           | None => SErr
           | Some (idb, r2) =>
             if dec_int idb =? id then SFound t (off + 3) r2
             else match skp t r2 with
                  | None => SErr
                  | Some r3 => search_field_w f id r3 (off + 3 + (zlen r2 - zlen r3))
                  end
           end
    end
  end.

Fixpoint search_nth_w (n : nat) (et : Z) (bs : list Z) (off : Z) : sres :=
  match n with
  | O => SFound et off bs
  | S n' => match skp et bs with
            | None => SErr
            | Some r => search_nth_w n' et r (off + (zlen bs - zlen r))
            end
  end.

Definition search_index_w (i : Z) (bs : list Z) : sres :=
  match bs with
  | et :: r =>
    match skip_count r with
    | None => SErr
    | Some (sz, r2) => if i <? 0 then SErr else if i >=? sz then SNotFound else search_nth_w (Z.to_nat i) et r2 5
    end
  | [] => SErr
  end.

(* generic key loop: [rdkey] reads one key and says whether it matches *)
Fixpoint search_pairs_w (n : nat) (rdkey : list Z -> option (bool * list Z)) (vt : Z) (bs : list Z) (off : Z) : sres :=
  match n with
  | O => SNotFound
  | S n' =>
    match rdkey bs with
    | None => SErr
    | Some (hit, r) =>
      let off' := off + (zlen bs - zlen r) in
      if hit then SFound vt off' r
      else match skp vt r with
           | None => SErr
           | Some r2 => search_pairs_w n' rdkey vt r2 (off' + (zlen r - zlen r2))
           end
    end
  end.

Definition rd_bin_key_w (kt : Z) (b : list Z) (bs : list Z) : option (bool * list Z) :=
  match skp kt bs with
  | Some r => Some (bytes_eqb (firstn (length bs - length r) bs) b, r)
  | None => None
  end.

Definition search_map_w (s : pstep) (bs : list Z) : sres :=
  match bs with
  | kt :: vt :: r =>
    match skip_count r with
    | None => SErr
    | Some (sz, r2) =>
      let n := Z.to_nat (Z.min sz (zlen r2 + 1)) in
      match s with
      | PStrKey k => if kt =? T_STRING then search_pairs_w n (rd_str_key k) vt r2 6 else SErr
      | PIntKey k => if is_int_type kt then search_pairs_w n (rd_int_key kt k) vt r2 6 else SErr
      | PBinKey k => search_pairs_w n (rd_bin_key_w kt k) vt r2 6
      | _ => SErr
      end
    end
  | _ => SErr
  end.

Definition search1_w (t : Z) (s : pstep) (bs : list Z) : sres :=
  match s with
  | PField id => if t =? T_STRUCT then search_field_w (S (length bs)) id bs 0 else SErr
  | PIndex i => if (t =? T_LIST) || (t =? T_SET) then search_index_w i bs else SErr
  | _ => if t =? T_MAP then search_map_w s bs else SErr
  end.


Fixpoint get_by_path_w (t : Z) (bs : list Z) (off : Z) (p : list pstep) : gres :=
  match p with
  | [] => match skp t bs with
          | Some r => GFound t off (off + (zlen bs - zlen r))
          | None => GErr
          end
  | s :: p' =>
    match search1_w t s bs with
    | SFound t' o rest => get_by_path_w t' rest (off + o) p'
    | SNotFound => GNotFound
    | SErr => GErr
    end
  end.

End WithSkip.
