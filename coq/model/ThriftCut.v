(* Cutting (thrift/generic Value.MarshalTo): projection of a value described by one descriptor onto another.
   Type shapes are trees over a table of struct definitions (so that "the same descriptor" is expressible).
   Two levels:
     project  spec level, on the decoded value (recursive walk; the raw-copy shortcut is a parameter [pe])
     cut      algorithm level, on bytes: mirrors marshalTo (ReadFieldBegin / Skip / raw copy of read.Buf[e:s] /
              handleUnsets) including the shortcut on pointer-equal sub-descriptors.
   Model only - proofs are in proofs/ThriftCutProofs.v. *)
From Coq Require Import ZArith List Bool.
From DG Require Import ProtoWireRef ThriftWire CaseFormat.
Import ListNotations.
Local Open Scope Z_scope.

Inductive ty := TScalar (t : Z) | TStruct (idx : Z) | TList (e : ty) | TSet (e : ty) | TMap (k e : ty).
Definition fdesc : Type := Z * Z * ty.                (* id, requiredness (0 default, 1 required, 2 optional), type *)
Definition defs : Type := list (list fdesc).

Definition type_code (t : ty) : Z :=
  match t with TScalar c => c | TStruct _ => T_STRUCT | TList _ => T_LIST | TSet _ => T_SET | TMap _ _ => T_MAP end.

(* BinaryProtocol.WriteEmpty: LIST and SET both write a list header; the field header carries the declared type *)
Definition zero_of (t : ty) : option tval :=
  match t with
  | TScalar c =>
    if c =? T_BOOL then Some (VBool 0) else if c =? T_BYTE then Some (VByte 0) else if c =? T_I16 then Some (VI16 0)
    else if c =? T_I32 then Some (VI32 0) else if c =? T_I64 then Some (VI64 0) else if c =? T_DOUBLE then Some (VDouble 0)
    else if c =? T_STRING then Some (VString []) else None
  | TStruct _ => Some (VStruct [])
  | TList e => Some (VList (type_code e) [])
  | TSet e => Some (VSet (type_code e) [])
  | TMap k e => Some (VMap (type_code k) (type_code e) [])
  end.

Definition struct_def (d : defs) (i : Z) : option (list fdesc) := if i <? 0 then None else nth_error d (Z.to_nat i).
Definition fld_id (f : fdesc) : Z := fst (fst f).
Definition fld_req (f : fdesc) : Z := snd (fst f).
Definition fld_ty (f : fdesc) : ty := snd f.
Definition find_fld (id : Z) (fs : list fdesc) : option fdesc := find (fun f => fld_id f =? id) fs.
Definition mem_id (id : Z) (l : list Z) : bool := existsb (Z.eqb id) l.

(* o_opt_bitmap: the target descriptor was parsed with SetOptionalBitmap (optional fields are tracked in the bitmap too) *)
Record cut_opts := { o_disallow_unknown : bool; o_not_check_req : bool; o_write_default : bool; o_opt_bitmap : bool }.

(* errors: 1 unknown field, 2 type mismatch, 3 missing required, 4 read error / malformed descriptor / other *)
Inductive cres (A : Type) := COk (a : A) | CErr (code : Z).
Arguments COk {A} _. Arguments CErr {A} _.

Definition insert_sorted_fld (f : fdesc) (l : list fdesc) : list fdesc :=
  (fix go (l : list fdesc) := match l with [] => [f] | g :: r => if fld_id f <? fld_id g then f :: l else g :: go r end) l.
Definition sort_flds (l : list fdesc) : list fdesc := fold_right insert_sorted_fld [] l.

(* "the same descriptor" as the Go code sees it (pointer equality): builtin scalar descriptors are global singletons;
   a struct descriptor is shared inside one parse (cache by name); list/set/map descriptors are allocated per occurrence *)
Definition pe_parse (same_parse : bool) (a b : ty) : bool :=
  match a, b with
  | TScalar x, TScalar y => x =? y
  | TStruct x, TStruct y => same_parse && (x =? y)
  | _, _ => false
  end.
Definition pe_none (a b : ty) : bool := false.

Section Cut.
  Variable d : defs.
  Variable o : cut_opts.
  Variable pe : ty -> ty -> bool.      (* pointer equality of two sub-descriptors *)

  (* RequiresBitmap.CheckRequires at STOP (handleUnsets): target fields in ascending id order that are still owed *)
  Definition tracked (f : fdesc) : bool := negb (fld_req f =? 2) || o_opt_bitmap o.
  Fixpoint owed (tfs : list fdesc) (written : list Z) : cres (list (Z * tval)) :=
    match tfs with
    | [] => COk []
    | f :: r =>
      if mem_id (fld_id f) written || negb (tracked f) then owed r written
      else if fld_req f =? 1 then CErr 3
      else if negb (o_write_default o) then owed r written
      else match zero_of (fld_ty f), owed r written with
           | Some z, COk l => COk ((fld_id f, z) :: l)
           | None, _ => CErr 4
           | _, CErr c => CErr c
           end
    end.

  Definition finish_struct (tfs : list fdesc) (kept : list (Z * tval)) : cres tval :=
    if o_not_check_req o then COk (VStruct kept)
    else match owed (sort_flds tfs) (map fst kept) with
         | COk extra => COk (VStruct (kept ++ extra))
         | CErr c => CErr c
         end.

  (* ---------------- spec level ---------------- *)
  Section PStep.
    Variable rec : ty -> ty -> tval -> cres tval.
    Fixpoint proj_fields (ffs tfs : list fdesc) (fs : list (Z * tval)) : cres (list (Z * tval)) :=
      match fs with
      | [] => COk []
      | (id, x) :: r =>
        match find_fld id ffs with
        | None => if o_disallow_unknown o then CErr 1 else proj_fields ffs tfs r
        | Some ff =>
          if negb (type_of x =? type_code (fld_ty ff)) then CErr 2 else
          match find_fld id tfs with
          | None => proj_fields ffs tfs r
          | Some tf =>
            match rec (fld_ty ff) (fld_ty tf) x with
            | CErr c => CErr c
            | COk x' => match proj_fields ffs tfs r with COk l => COk ((id, x') :: l) | CErr c => CErr c end
            end
          end
        end
      end.
    Fixpoint proj_elems (fe te : ty) (es : list tval) : cres (list tval) :=
      match es with
      | [] => COk []
      | x :: r =>
        match rec fe te x with
        | CErr c => CErr c
        | COk x' => match proj_elems fe te r with COk l => COk (x' :: l) | CErr c => CErr c end
        end
      end.
    Fixpoint proj_pairs (fk tk fe te : ty) (es : list (tval * tval)) : cres (list (tval * tval)) :=
      match es with
      | [] => COk []
      | (k, x) :: r =>
        match rec fk tk k with
        | CErr c => CErr c
        | COk k' =>
          match rec fe te x with
          | CErr c => CErr c
          | COk x' => match proj_pairs fk tk fe te r with COk l => COk ((k', x') :: l) | CErr c => CErr c end
          end
        end
      end.
  End PStep.

  Definition elem_ty (t : ty) : option ty := match t with TList e | TSet e => Some e | _ => None end.

  Fixpoint project (fuel : nat) (from to : ty) (v : tval) {struct fuel} : cres tval :=
    match fuel with
    | O => CErr 4
    | S f =>
      match to with
      | TStruct b =>
        match from, v with
        | TStruct a, VStruct fs =>
          if pe from to then COk v else
          match struct_def d a, struct_def d b with
          | Some ffs, Some tfs =>
            match proj_fields (project f) ffs tfs fs with
            | CErr c => CErr c
            | COk kept => finish_struct tfs kept
            end
          | _, _ => CErr 4
          end
        | _, _ => CErr 2
        end
      | TList te | TSet te =>
        match elem_ty from with
        | None => CErr 2
        | Some fe =>
          if pe fe te then (if type_code from =? type_code to then COk v else CErr 2) else
          match v with
          | VList et es => match proj_elems (project f) fe te es with COk l => COk (VList et l) | CErr c => CErr c end
          | VSet et es => match proj_elems (project f) fe te es with COk l => COk (VSet et l) | CErr c => CErr c end
          | _ => CErr 2
          end
        end
      | TMap tk te =>
        match from with
        | TMap fk fe =>
          if pe fe te && pe fk tk then COk v else
          match v with
          | VMap kt vt es => match proj_pairs (project f) fk tk fe te es with COk l => COk (VMap kt vt l) | CErr c => CErr c end
          | _ => CErr 2
          end
        | _ => CErr 2
        end
      | TScalar tc => if type_code from =? tc then COk v else CErr 2
      end
    end.

  (* ---------------- algorithm level (bytes) ---------------- *)
  (* [quirk]: the unrepaired marshalTo returns from `case STRUCT: if from == to { return nil }` without copying and
     without advancing the reader (finding 1101); quirk = false is the repaired behaviour (raw copy). *)
  Variable quirk : bool.

  Definition type_valid_b (t : Z) : bool := (t =? 0) || (t =? 1) || valid_type t || (t =? 16) || (t =? 17).

  (* skip_val: copy read.Buf[e:s] where s-e is what Skip advances *)
  Definition raw_copy (t : Z) (bs : list Z) : cres (list Z * list Z) :=
    match skip_go t bs with
    | Some r => COk (firstn (length bs - length r) bs, r)
    | None => CErr 4
    end.

  Definition skip_or_err {A} (t : Z) (bs : list Z) (k : list Z -> cres A) : cres A :=
    match skip_go t bs with Some r => k r | None => CErr 4 end.

  Section CStep.
    Variable rec : ty -> ty -> list Z -> cres (list Z * list Z).
    (* the struct loop: result = (output bytes without the STOP, rest after the STOP, ids written) *)
    Fixpoint cut_fields (fuel : nat) (ffs tfs : list fdesc) (bs : list Z) : cres (list Z * list Z * list Z) :=
      match fuel with
      | O => CErr 4
      | S f =>
        match bs with
        | [] => CErr 4
        | t :: r =>
          if negb (type_valid_b t) then CErr 4
          else if t =? 0 then COk ([], r, [])
          else match take 2 r with
               | None => CErr 4
               | Some (idb, r2) =>
                 let id := dec_int idb in
                 match find_fld id ffs with
                 | None => if o_disallow_unknown o then CErr 1 else skip_or_err t r2 (cut_fields f ffs tfs)
                 | Some ff =>
                   if negb (t =? type_code (fld_ty ff)) then CErr 2 else
                   match find_fld id tfs with
                   | None => skip_or_err t r2 (cut_fields f ffs tfs)
                   | Some tf =>
                     match rec (fld_ty ff) (fld_ty tf) r2 with
                     | CErr c => CErr c
                     | COk (o1, r3) =>
                       match cut_fields f ffs tfs r3 with
                       | CErr c => CErr c
                       | COk (o2, r4, w) => COk (t :: idb ++ o1 ++ o2, r4, id :: w)
                       end
                     end
                   end
                 end
               end
        end
      end.
    Fixpoint cut_elems (n : nat) (fe te : ty) (bs : list Z) : cres (list Z * list Z) :=
      match n with
      | O => COk ([], bs)
      | S n' =>
        match rec fe te bs with
        | CErr c => CErr c
        | COk (o1, r) => match cut_elems n' fe te r with COk (o2, r') => COk (o1 ++ o2, r') | CErr c => CErr c end
        end
      end.
    Fixpoint cut_pairs (n : nat) (fk tk fe te : ty) (bs : list Z) : cres (list Z * list Z) :=
      match n with
      | O => COk ([], bs)
      | S n' =>
        match rec fk tk bs with
        | CErr c => CErr c
        | COk (o1, r) =>
          match rec fe te r with
          | CErr c => CErr c
          | COk (o2, r2) => match cut_pairs n' fk tk fe te r2 with COk (o3, r3) => COk (o1 ++ o2 ++ o3, r3) | CErr c => CErr c end
          end
        end
      end.
  End CStep.

  Definition enc_fields (l : list (Z * tval)) : list Z :=
    flat_map (fun f => type_of (snd f) :: enc_int 2 (fst f) ++ encode (snd f)) l.

  (* count as read by ReadListBegin/ReadMapBegin (negative = error); a count above the remaining input cannot be
     completed because every element consumes at least one byte, so the loop is bounded by the input *)
  Definition cut_count (bs : list Z) : cres (list Z * nat * list Z) :=
    match take 4 bs with
    | None => CErr 4
    | Some (x, r) => let n := dec_int x in
        if n <? 0 then CErr 4 else if n >? zlen r then CErr 4 else COk (x, Z.to_nat n, r)
    end.

  Fixpoint cut (fuel : nat) (from to : ty) (bs : list Z) {struct fuel} : cres (list Z * list Z) :=
    match fuel with
    | O => CErr 4
    | S f =>
      match to with
      | TStruct b =>
        match from with
        | TStruct a =>
          if pe from to then (if quirk then COk ([], bs) else raw_copy T_STRUCT bs) else
          match struct_def d a, struct_def d b with
          | Some ffs, Some tfs =>
            match cut_fields (cut f) (S (length bs)) ffs tfs bs with
            | CErr c => CErr c
            | COk (out, r, w) =>
              if o_not_check_req o then COk (out ++ [0], r)
              else match owed (sort_flds tfs) w with
                   | COk extra => COk (out ++ enc_fields extra ++ [0], r)
                   | CErr c => CErr c
                   end
            end
          | _, _ => CErr 4
          end
        | _ => CErr 2
        end
      | TList te | TSet te =>
        match elem_ty from with
        | None => CErr 2
        | Some fe =>
          if pe fe te then (if type_code from =? type_code to then raw_copy (type_code to) bs else CErr 2) else
          match bs with
          | et :: r =>
            if negb (type_valid_b et) then CErr 4 else
            match cut_count r with
            | CErr c => CErr c
            | COk (x, n, r2) =>
              match cut_elems (cut f) n fe te r2 with
              | COk (out, r3) => COk (et :: x ++ out, r3)
              | CErr c => CErr c
              end
            end
          | [] => CErr 4
          end
        end
      | TMap tk te =>
        match from with
        | TMap fk fe =>
          if pe fe te && pe fk tk then raw_copy T_MAP bs else
          match bs with
          | kt :: vt :: r =>
            if negb (type_valid_b kt) || negb (type_valid_b vt) then CErr 4 else
            match cut_count r with
            | CErr c => CErr c
            | COk (x, n, r2) =>
              match cut_pairs (cut f) n fk tk fe te r2 with
              | COk (out, r3) => COk (kt :: vt :: x ++ out, r3)
              | CErr c => CErr c
              end
            end
          | _ => CErr 4
          end
        | _ => CErr 2
        end
      | TScalar tc => if type_code from =? tc then raw_copy tc bs else CErr 2
      end
    end.
End Cut.

(* ---------------- conformance predicates used by the theorems and by the checker ---------------- *)
Section Conf.
  Variable d : defs.
  (* [conf]: the kinds on the wire are the kinds the source descriptor declares wherever the walker relies on the
     descriptor (list elements, map keys/values, known struct fields); unknown fields are unconstrained *)
  Fixpoint conf (fuel : nat) (t : ty) (v : tval) {struct fuel} : bool :=
    match fuel with
    | O => false
    | S f =>
      match t, v with
      | TScalar c, _ => (type_of v =? c) && is_scalar c
      | TStruct a, VStruct fs =>
        match struct_def d a with
        | Some ffs => forallb (fun p => match find_fld (fst p) ffs with
                                        | Some ff => negb (type_of (snd p) =? type_code (fld_ty ff)) || conf f (fld_ty ff) (snd p)
                                        | None => true end) fs
        | None => false
        end
      | TList e, VList et es => (et =? type_code e) && valid_type et && forallb (fun x => (type_of x =? type_code e) && conf f e x) es
      | TSet e, VSet et es => (et =? type_code e) && valid_type et && forallb (fun x => (type_of x =? type_code e) && conf f e x) es
      | TMap k e, VMap kt vt es =>
        (kt =? type_code k) && (vt =? type_code e) && valid_type kt && valid_type vt &&
        forallb (fun p => (type_of (fst p) =? type_code k) && conf f k (fst p) && (type_of (snd p) =? type_code e) && conf f e (snd p)) es
      | _, _ => false
      end
    end.

  (* [compat]: the two descriptors declare the same kinds wherever both declare something (the domain of the
     property: the target's field sets are subsets / supersets of the source's, kinds are not changed) *)
  Fixpoint compat (fuel : nat) (from to : ty) {struct fuel} : bool :=
    match fuel with
    | O => true
    | S f =>
      match from, to with
      | TScalar a, TScalar b => a =? b
      | TStruct a, TStruct b =>
        match struct_def d a, struct_def d b with
        | Some ffs, Some tfs => forallb (fun ff => match find_fld (fld_id ff) tfs with
                                                   | Some tf => compat f (fld_ty ff) (fld_ty tf)
                                                   | None => true end) ffs
        | _, _ => false
        end
      | TList a, TList b | TSet a, TSet b => compat f a b
      | TMap ka a, TMap kb b => compat f ka kb && compat f a b
      | _, _ => false
      end
    end.

  (* [full o]: the value conforms completely to the descriptor: no unknown field, declared kinds everywhere, and no
     field is owed at any STOP under the options (all tracked required fields present; under WriteDefault also the
     tracked non-required ones) *)
  Variable o : cut_opts.
  Definition complete (ffs : list fdesc) (ids : list Z) : bool :=
    forallb (fun f => mem_id (fld_id f) ids || negb (tracked o f) || (negb (fld_req f =? 1) && negb (o_write_default o))) ffs.
  Fixpoint full (fuel : nat) (t : ty) (v : tval) {struct fuel} : bool :=
    match fuel with
    | O => false
    | S f =>
      match t, v with
      | TScalar c, _ => type_of v =? c
      | TStruct a, VStruct fs =>
        match struct_def d a with
        | Some ffs =>
          forallb (fun p => match find_fld (fst p) ffs with
                            | Some ff => (type_of (snd p) =? type_code (fld_ty ff)) && full f (fld_ty ff) (snd p)
                            | None => false end) fs
          && (o_not_check_req o || complete ffs (map fst fs))
        | None => false
        end
      | TList e, VList et es => forallb (full f e) es
      | TSet e, VSet et es => forallb (full f e) es
      | TMap k e, VMap kt vt es => forallb (fun p => full f k (fst p) && full f e (snd p)) es
      | _, _ => false
      end
    end.
End Conf.

(* descriptor tables as the IDL parser produces them: field ids are int16, scalar type codes are the seven scalar kinds *)
Fixpoint ty_valid (t : ty) : bool :=
  match t with
  | TScalar c => is_scalar c
  | TStruct _ => true
  | TList e | TSet e => ty_valid e
  | TMap k e => ty_valid k && ty_valid e
  end.
Definition defs_okb (d : defs) : bool := forallb (forallb (fun f => in_sb 16 (fld_id f) && ty_valid (fld_ty f))) d.
