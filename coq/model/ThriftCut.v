(* Cutting (Value.MarshalTo): projection of a value described by one descriptor onto another.
   Type shapes are trees over a table of struct definitions (so that "the same descriptor" is expressible). *)
From Coq Require Import ZArith List Bool.
From DG Require Import ProtoWireRef ThriftWire CaseFormat.
Import ListNotations.
Local Open Scope Z_scope.

Inductive ty := TScalar (t : Z) | TStruct (idx : Z) | TList (e : ty) | TSet (e : ty) | TMap (k e : ty).
Definition fdesc : Type := Z * Z * ty.                (* id, requiredness (0 default, 1 required, 2 optional), type *)
Definition defs : Type := list (list fdesc).

Definition type_code (t : ty) : Z :=
  match t with TScalar c => c | TStruct _ => T_STRUCT | TList _ => T_LIST | TSet _ => T_SET | TMap _ _ => T_MAP end.

Definition zero_of (t : ty) : option tval :=
  match t with
  | TScalar c =>
    if c =? T_BOOL then Some (VBool 0) else if c =? T_BYTE then Some (VByte 0) else if c =? T_I16 then Some (VI16 0)
    else if c =? T_I32 then Some (VI32 0) else if c =? T_I64 then Some (VI64 0) else if c =? T_DOUBLE then Some (VDouble 0)
    else if c =? T_STRING then Some (VString []) else None
  | TStruct _ => Some (VStruct [])
  | TList e => Some (VList (type_code e) [])
  | TSet e => Some (VList (type_code e) [])       (* WriteEmpty writes a list header for both *)
  | TMap k e => Some (VMap (type_code k) (type_code e) [])
  end.

Definition struct_def (d : defs) (i : Z) : option (list fdesc) := if i <? 0 then None else nth_error d (Z.to_nat i).
Definition fld_id (f : fdesc) : Z := fst (fst f).
Definition fld_req (f : fdesc) : Z := snd (fst f).
Definition fld_ty (f : fdesc) : ty := snd f.
Definition find_fld (id : Z) (fs : list fdesc) : option fdesc := find (fun f => fld_id f =? id) fs.

Record cut_opts := { o_disallow_unknown : bool; o_not_check_req : bool; o_write_default : bool; o_shared : bool }.

(* errors: 1 unknown field, 2 type mismatch, 3 missing required, 4 malformed descriptor / other *)
Inductive cres (A : Type) := COk (a : A) | CErr (code : Z).
Arguments COk {A} _. Arguments CErr {A} _.

Definition insert_sorted_fld (f : fdesc) (l : list fdesc) : list fdesc :=
  (fix go (l : list fdesc) := match l with [] => [f] | g :: r => if fld_id f <? fld_id g then f :: l else g :: go r end) l.
Definition sort_flds (l : list fdesc) : list fdesc := fold_right insert_sorted_fld [] l.

Section Cut.
  Variable d : defs.
  Variable o : cut_opts.

  (* fields owed at STOP: target fields (ascending id) that are required/default and were not written *)
  Fixpoint owed (tfs : list fdesc) (written : list Z) : cres (list (Z * tval)) :=
    match tfs with
    | [] => COk []
    | f :: r =>
      if existsb (Z.eqb (fld_id f)) written || (fld_req f =? 2) then owed r written
      else if fld_req f =? 1 then CErr 3
      else if negb (o_write_default o) then owed r written
      else match zero_of (fld_ty f), owed r written with
           | Some z, COk l => COk ((fld_id f, z) :: l)
           | None, _ => CErr 4
           | _, CErr c => CErr c
           end
    end.

  Fixpoint project (fuel : nat) (from to : ty) (v : tval) {struct fuel} : cres tval :=
    match fuel with
    | O => CErr 4
    | S fuel' =>
      match to, from, v with
      | TStruct b, TStruct a, VStruct fs =>
        if o_shared o && (a =? b) then COk v else
        match struct_def d a, struct_def d b with
        | Some ffs, Some tfs =>
          (fix walk (fs : list (Z * tval)) (acc : list (Z * tval)) (written : list Z) : cres tval :=
             match fs with
             | [] =>
               if o_not_check_req o then COk (VStruct (rev acc))
               else match owed (sort_flds tfs) written with
                    | COk extra => COk (VStruct (rev acc ++ extra))
                    | CErr c => CErr c
                    end
             | (id, x) :: r =>
               match find_fld id ffs with
               | None => if o_disallow_unknown o then CErr 1 else walk r acc written
               | Some ff =>
                 if negb (type_of x =? type_code (fld_ty ff)) then CErr 2 else
                 match find_fld id tfs with
                 | None => walk r acc written
                 | Some tf =>
                   match project fuel' (fld_ty ff) (fld_ty tf) x with
                   | COk x' => walk r ((id, x') :: acc) (id :: written)
                   | CErr c => CErr c
                   end
                 end
               end
             end) fs [] []
        | _, _ => CErr 4
        end
      | TList te, TList fe, VList et es | TList te, TSet fe, VList et es | TSet te, TList fe, VList et es | TSet te, TSet fe, VList et es =>
        (fix go (es : list tval) (acc : list tval) : cres tval :=
           match es with
           | [] => COk (VList et (rev acc))
           | x :: r => match project fuel' fe te x with COk x' => go r (x' :: acc) | CErr c => CErr c end
           end) es []
      | TList te, TList fe, VSet et es | TList te, TSet fe, VSet et es | TSet te, TList fe, VSet et es | TSet te, TSet fe, VSet et es =>
        (fix go (es : list tval) (acc : list tval) : cres tval :=
           match es with
           | [] => COk (VSet et (rev acc))
           | x :: r => match project fuel' fe te x with COk x' => go r (x' :: acc) | CErr c => CErr c end
           end) es []
      | TMap tk te, TMap fk fe, VMap kt vt es =>
        (fix go (es : list (tval * tval)) (acc : list (tval * tval)) : cres tval :=
           match es with
           | [] => COk (VMap kt vt (rev acc))
           | (k, x) :: r =>
             match project fuel' fk tk k with
             | COk k' => match project fuel' fe te x with COk x' => go r ((k', x') :: acc) | CErr c => CErr c end
             | CErr c => CErr c
             end
           end) es []
      | TScalar tc, _, _ => if type_code from =? tc then COk v else CErr 2
      | _, _, _ => CErr 2
      end
    end.
End Cut.
