(* The descriptor-carrying (typed) read layer of thrift/generic/value.go over the byte-level search of ThriftGeneric.
   Value = Node + *TypeDescriptor. Model only — proofs are in proofs/ThriftTypedProofs.v.
   A descriptor is a finite tree (a recursive IDL type is its unfolding as deep as the value that is read). *)
From Coq Require Import ZArith List Bool.
From DG Require Import ProtoWireRef ThriftWire CaseFormat ThriftGeneric.
Import ListNotations.
Local Open Scope Z_scope.

Inductive tdesc :=
| DScalar (t : Z)
| DStruct (fs : list (Z * list Z * tdesc))        (* field id, field name (key), type *)
| DList (e : tdesc)
| DSet (e : tdesc)
| DMap (k e : tdesc).

Definition desc_type (d : tdesc) : Z :=
  match d with DScalar t => t | DStruct _ => T_STRUCT | DList _ => T_LIST | DSet _ => T_SET | DMap _ _ => T_MAP end.

(* StructDescriptor.FieldById / FieldByKey *)
Fixpoint fby_id (id : Z) (fs : list (Z * list Z * tdesc)) : option tdesc :=
  match fs with
  | [] => None
  | (i, _, d) :: r => if i =? id then Some d else fby_id id r
  end.
Fixpoint fby_name (nm : list Z) (fs : list (Z * list Z * tdesc)) : option (Z * tdesc) :=
  match fs with
  | [] => None
  | (i, n, d) :: r => if bytes_eqb n nm then Some (i, d) else fby_name nm r
  end.

(* typed path steps: the untyped ones plus PathFieldName *)
Inductive tstep := TField (id : Z) | TName (nm : list Z) | TIndex (i : Z) | TStrKey (s : list Z) | TIntKey (k : Z) | TBinKey (b : list Z).

(* pathFitsType *)
Definition tfits (s : tstep) (t : Z) : bool :=
  match s with
  | TField _ => t =? T_STRUCT | TName _ => t =? T_STRUCT
  | TIndex _ => (t =? T_LIST) || (t =? T_SET)
  | _ => t =? T_MAP
  end.

(* the untyped step a typed step stands for when no descriptor is consulted (a name has none: any struct step) *)
Definition plain (s : tstep) : pstep :=
  match s with
  | TField id => PField id | TName _ => PField 0 | TIndex i => PIndex i
  | TStrKey k => PStrKey k | TIntKey k => PIntKey k | TBinKey b => PBinKey b
  end.

(* one step against the descriptor: the untyped step to search for and the descriptor of the child
   (FieldById / FieldByKey -> f.Type(); desc.Elem()); None = the field is not defined in the IDL *)
Definition step_desc (d : tdesc) (s : tstep) : option (pstep * tdesc) :=
  match s, d with
  | TField id, DStruct fs => match fby_id id fs with Some fd => Some (PField id, fd) | None => None end
  | TName nm, DStruct fs => match fby_name nm fs with Some (id, fd) => Some (PField id, fd) | None => None end
  | TIndex i, DList e => Some (PIndex i, e)
  | TIndex i, DSet e => Some (PIndex i, e)
  | TStrKey k, DMap _ e => Some (PStrKey k, e)
  | TIntKey k, DMap _ e => Some (PIntKey k, e)
  | TBinKey b, DMap _ e => Some (PBinKey b, e)
  | _, _ => None
  end.

(* Value.GetByPath (value.go): per step the kind must fit the wire type AND the descriptor type, the field must be
   defined in the IDL (by id or by name), then the same search functions as Node.GetByPath run; the final skip and the
   type of the result come from the DESCRIPTOR *)
Fixpoint vget_by_path (d : tdesc) (t : Z) (bs : list Z) (off : Z) (p : list tstep) : gres :=
  match p with
  | [] => match skip_go (desc_type d) bs with
          | Some r => GFound (desc_type d) off (off + (zlen bs - zlen r))
          | None => GErr
          end
  | s :: p' =>
    if negb (tfits s t && tfits s (desc_type d)) then GErr else
    match step_desc d s with
    | None => GErr                                   (* ErrUnknownField *)
    | Some (us, d') =>
      match search1 t us bs with
      | SFound t' o rest => vget_by_path d' t' rest (off + o) p'
      | SNotFound => GNotFound
      | SErr => GErr
      end
    end
  end.

(* the descriptor attached to the result (= what a correct GetDescByPath returns) *)
Fixpoint vdesc_by_path (d : tdesc) (p : list tstep) : option tdesc :=
  match p with
  | [] => Some d
  | s :: p' => if negb (tfits s (desc_type d)) then None else
               match step_desc d s with Some (_, d') => vdesc_by_path d' p' | None => None end
  end.

(* Value.FieldByName: descriptor lookup by name, then a scan for the field id; a field whose wire type differs from
   the declared type is an error (ErrDismatchType) *)
Definition vfield_by_name (d : tdesc) (t : Z) (bs : list Z) (off : Z) (nm : list Z) : gres :=
  if negb (t =? T_STRUCT) then GErr else
  match d with
  | DStruct fs =>
    match fby_name nm fs with
    | None => GErr
    | Some (id, fd) =>
      match search_field (S (length bs)) id bs 0 with
      | SFound t' o rest =>
        if negb (t' =? desc_type fd) then GErr else
        match skip_go t' rest with
        | Some r => GFound (desc_type fd) (off + o) (off + o + (zlen rest - zlen r))
        | None => GErr
        end
      | SNotFound => GNotFound
      | SErr => GErr
      end
    end
  | _ => GErr
  end.

(* typed single-step accessors Value.Field / Index / GetByStr / GetByInt: the untyped accessor of the embedded Node, then
   the child descriptor is attached (Field: an id that is not defined in the IDL is an error AFTER a successful search) *)
Definition vsingle (d : tdesc) (t : Z) (bs : list Z) (off : Z) (s : tstep) : gres :=
  match get_by_path t bs off [plain s] with
  | GFound ty a b => match step_desc d s with Some _ => GFound ty a b | None => GErr end
  | r => r
  end.

(* ---- the name-free path a typed path denotes ---- *)
(* resolved prefix, and whether the whole path could be resolved against the descriptor *)
Fixpoint resolve (d : tdesc) (p : list tstep) : list pstep * bool :=
  match p with
  | [] => ([], true)
  | s :: p' =>
    if negb (tfits s (desc_type d)) then ([plain s], false) else
    match step_desc d s with
    | None => ([], false)
    | Some (us, d') => let r := resolve d' p' in (us :: fst r, snd r)
    end
  end.

(* what the typed access returns in terms of the untyped access g on the resolved path: the same result; if the path stops
   resolving (unknown field / kind that does not fit the descriptor) the untyped result of the resolved prefix when that
   already fails, an error otherwise *)
Definition typed_spec (r : list pstep * bool) (g : list pstep -> gres) : gres :=
  if snd r then g (fst r) else match g (fst r) with GFound _ _ _ => GErr | x => x end.

(* ---- conformance of a value to a descriptor: every DECLARED field / element has the declared type (recursively);
   fields the descriptor does not declare are unconstrained ---- *)
Fixpoint conforms (d : tdesc) (v : tval) {struct v} : bool :=
  match v, d with
  | VStruct fs, DStruct dfs =>
      forallb (fun f => match fby_id (fst f) dfs with Some fd => conforms fd (snd f) | None => true end) fs
  | VList _ es, DList e => forallb (conforms e) es
  | VSet _ es, DSet e => forallb (conforms e) es
  | VMap _ _ es, DMap _ e => forallb (fun en => conforms e (snd en)) es
  | VStruct _, _ => false | VList _ _, _ => false | VSet _ _, _ => false | VMap _ _ _, _ => false
  | _, DScalar t => type_of v =? t
  | _, _ => false
  end.

(* descriptor sanity: field ids of a struct are pairwise distinct (so FieldByKey(name).Type() = FieldById(its id).Type()) *)
Fixpoint id_in (id : Z) (fs : list (Z * list Z * tdesc)) : bool :=
  match fs with [] => false | (i, _, _) :: r => (i =? id) || id_in id r end.
Fixpoint ids_distinct (fs : list (Z * list Z * tdesc)) : bool :=
  match fs with [] => true | (i, _, _) :: r => negb (id_in i r) && ids_distinct r end.
Fixpoint desc_ok (d : tdesc) : bool :=
  match d with
  | DScalar _ => true
  | DStruct fs => ids_distinct fs && forallb (fun f => desc_ok (snd f)) fs
  | DList e => desc_ok e
  | DSet e => desc_ok e
  | DMap k e => desc_ok k && desc_ok e
  end.
