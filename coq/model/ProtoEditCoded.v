(* C10: the edit entry points of proto/generic AS CODED (pinned tree), over bytes, statement by statement:
   Value.getByPath + searchFieldId/searchIndex/searchStrKey/searchIntKey (value.go l.95-471),
   SetByPath (l.473-527) with Node.setNotFound / Path.ToRaw / Node.replace (node.go l.103-178, path.go l.113-155),
   updateByteLen (ProtoRelen.relen_coded), UnsetByPath + findDeleteChild (value.go l.598-832),
   SetMany on the root (value.go l.1058-1130, node.go Fields / replaceMany).
   Purpose: when the implementation deviates from the specification (ProtoEdit.v) the checker accepts the deviation
   as a KNOWN finding only if the bytes / error class / flag are EXACTLY what this transcription computes and the
   case belongs to the recorded defect class.  Only kind-correct paths over a schema are modelled (others: CUnmodelled).
   No theorem is stated about this file except the refutation witnesses in props/Properties_C10.v. *)
From Coq Require Import ZArith List Bool.
From DG Require Import CaseFormat ProtoWireRef ProtoMsg ProtoRelen ProtoEdit.
Import ListNotations.
Local Open Scope Z_scope.

(* CSet: path, bytes of the sub node, proto.Type of the sub NODE (the API contract wants the type of the addressed element) *)
Inductive cop := CSet (p : list pstep) (sub : list Z) (nk : Z) | CUnset (p : list pstep) | CSetMany (l : list (Z * list Z)).

(* ---------------------------------------------------------------- errors *)
(* ENode c: an error that is a generic.Node (c = 1 errNotFound, 2 other); EPlain: any other error value
   (`err.(Node)` panics on it); EPanic: the Go code panics *)
Inductive eres (A : Type) := EOk (a : A) | ENode (c : Z) | EPlain | EPanic.
Arguments EOk {A} a.  Arguments ENode {A} c.  Arguments EPlain {A}.  Arguments EPanic {A}.
Definition ebind {A B} (x : eres A) (f : A -> eres B) : eres B :=
  match x with EOk a => f a | ENode c => ENode c | EPlain => EPlain | EPanic => EPanic end.
Notation "'elet' x ':=' e 'in' k" := (ebind e (fun x => k)) (at level 200, x name, right associativity).
Notation "'elet' ' p ':=' e 'in' k" := (ebind e (fun p => k)) (at level 200, p strict pattern, right associativity).
(* errNode(meta.ErrRead, ..., err): every failure becomes a Node error *)
Definition as_node {A} (x : eres A) : eres A := match x with EPlain => ENode 2 | o => o end.
Definition as_plain {A} (x : eres A) : eres A := match x with ENode _ => EPlain | o => o end.

(* ---------------------------------------------------------------- descriptors *)
Inductive tdesc := DScalar (k : Z) | DMsg (name : list Z) | DList (id : Z) (e : tdesc) | DMap (id : Z) (kk : Z) (e : tdesc).
Definition T_LIST := 100.  Definition T_MAP := 101.
Definition td_base (t : ftype) : tdesc := match t with TScalar k => DScalar k | TMsg n => DMsg n end.
Definition td_of_field (fd : fdesc) : tdesc :=
  match fd_label fd with
  | LSingular => td_base (fd_type fd)
  | LRepeated _ => DList (fd_num fd) (td_base (fd_type fd))
  | LMap kk => DMap (fd_num fd) kk (td_base (fd_type fd))
  end.
Definition td_type (d : tdesc) : Z := match d with DScalar k => k | DMsg _ => 11 | DList _ _ => T_LIST | DMap _ _ _ => T_MAP end.
Definition type_packed (t : Z) : bool := negb ((t =? 9) || (t =? 11) || (t =? 12)).     (* Type.IsPacked *)
Definition td_packed (d : tdesc) : bool := match d with DList _ e => type_packed (td_type e) | _ => false end.
Definition td_baseid (d : tdesc) : Z := match d with DList id _ => id | DMap id _ _ => id | _ => 0 end.
Definition wire_of_type (t : Z) : Z := if t =? T_MAP then 2 else wt_of_kind t.          (* Kind2Wire[t.TypeToKind()] *)
Definition td_ewt (d : tdesc) : Z := match d with DList _ e => wire_of_type (td_type e) | _ => 2 end.
Definition td_msg (S : schema) (d : tdesc) : option mdesc :=
  match d with DMsg n => find_msg S n | DList _ (DMsg n) => find_msg S n | _ => None end.
Definition by_name (md : mdesc) (s : list Z) : option fdesc :=
  find (fun f => bytes_eqb (fd_name f) s || bytes_eqb (fd_json f) s) (md_fields md).

(* ---------------------------------------------------------------- repair states of /repo
   One flag per repair, so that every partial state of the tree stays judgeable (false = as on the pinned tree cac81b1).
   Upstream (other builders, merged in /repo):
     fx_noderr    d826271 errCodeOf instead of err.(Node)                      (panic part of 1004)
     fx_idxrange  34dac25 searchIndex: idx < 0 / idx >= len is not found       (1003)
     fx_idx0      d8167f5 index 0 of an unpacked list: cursor back on the tag  (1003)
     fx_bound     77bf020+d02f250 getByPath narrows p.Buf to the message of every field step (getByPath twin of 1010)
     fx_skipall   3f1bf28 SkipAllElementsOf: packed elements by wire type, end checks (1006)
     fx_skipbytes 283e275 SkipBytesType compares the length with the remaining input
     fx_loadempty 280f066 handleChild accepts messageLen == 0                  (1007)
     fx_loadbound d8f3205 the recursive scan is bounded by the child node      (1010)
   Proposed by C10 (patch series in /tmp/c10-fixwt):
     fx_mapentry  1001; fx_insert 1002; fx_readint 1004/1008 (fixed32/fixed64 keys); fx_emptied 1005; fx_sintkey 1009;
     fx_elemaddr  rest of 1003 (address of an unpacked list element = its tag)
     fx_stalenext 1013 (handleChild truncates the Next of a recycled slot) *)
Record fixes := mk_fixes {
  fx_noderr : bool; fx_idxrange : bool; fx_idx0 : bool; fx_bound : bool; fx_skipall : bool; fx_skipbytes : bool;
  fx_loadempty : bool; fx_loadbound : bool;
  fx_mapentry : bool; fx_insert : bool; fx_readint : bool; fx_emptied : bool; fx_sintkey : bool; fx_elemaddr : bool;
  fx_stalenext : bool }.
Definition no_fixes : fixes := mk_fixes false false false false false false false false false false false false false false false.
(* /repo before the six C10 repairs (d02f250) *)
Definition pre_c10_fixes : fixes := mk_fixes true true true true true true true true false false false false false false false.
(* /repo HEAD: the six C10 repairs are in (e78089f c54d65f b0cbc62 4e6b95d 75b35b7 a0b81ab) *)
Definition head_fixes : fixes := mk_fixes true true true true true true true true true true true true true true false.
Definition all_fixes : fixes := mk_fixes true true true true true true true true true true true true true true true.

Section Fx.
Variable fx : fixes.

(* ---------------------------------------------------------------- BinaryProtocol reads (buf, Read) *)
Definition at_ (buf : list Z) (rd : Z) : list Z := skipn (Z.to_nat rd) buf.
Definition goint (v : Z) : Z := to_s 64 v.

Definition c_tag_peek (buf : list Z) (rd : Z) : eres (Z * Z * Z) :=        (* ConsumeTagWithoutMove: num, wire type, n *)
  let '(v, n) := varint_dec (at_ buf rd) in
  if n <? 0 then EPlain
  else if v / 8 >? 2147483647 then EPlain
  else if v / 8 <? 1 then EPlain
  else EOk (v / 8, v mod 8, n).
Definition c_tag (buf : list Z) (rd : Z) : eres (Z * Z * Z) :=             (* ConsumeTag: num, wire type, new Read *)
  elet '(num, wt, n) := c_tag_peek buf rd in EOk (num, wt, rd + n).
Definition c_len (buf : list Z) (rd : Z) : eres (Z * Z) :=                 (* ReadLength: int(value), new Read *)
  let '(v, n) := varint_dec (at_ buf rd) in
  if n <? 0 then EPlain else EOk (goint v, rd + n).
Definition c_next (buf : list Z) (rd size : Z) : eres Z :=
  if size <=? 0 then EPanic else if rd + size >? blen buf then EPlain else EOk (rd + size).
Definition c_skip (buf : list Z) (rd wt : Z) : eres Z :=
  if wt =? 0 then let '(_, n) := varint_dec (at_ buf rd) in if n <? 0 then EPlain else EOk (rd + n)
  else if wt =? 5 then c_next buf rd 4
  else if wt =? 1 then c_next buf rd 8
  else if wt =? 2 then
    let '(v, n) := varint_dec (at_ buf rd) in
    if n <? 0 then EPlain
    else if fx_skipbytes fx && (v >? blen buf - rd - n) then EPlain
    else c_next buf rd (goint v + n)
  else EOk rd.
(* ReadString: the key bytes and the new Read *)
Definition c_string (buf : list Z) (rd : Z) : eres (list Z * Z) :=
  let b := at_ buf rd in
  let '(m, n) := varint_dec b in
  if n <? 0 then EPlain
  else if m >? blen b - n then EPlain
  else elet rd' := c_next buf rd (n + m) in EOk (firstn (Z.to_nat m) (skipn (Z.to_nat n) b), rd').
(* ReadInt(t): Go int *)
Definition c_int (buf : list Z) (rd t : Z) : eres (Z * Z) :=
  let b := at_ buf rd in
  if (t =? 5) || (t =? 17) || (t =? 13) || (t =? 3) || (t =? 18) || (t =? 4) then
    let '(v, n) := varint_dec b in
    if n <? 0 then EPlain else
    let x := if t =? 5 then to_s 32 (v mod 2 ^ 32)
             else if t =? 17 then to_s 32 (zigzag_dec (v mod 2 ^ 32) mod 2 ^ 32)
             else if t =? 13 then v mod 2 ^ 32
             else if t =? 18 then zigzag_dec v
             else goint v in
    EOk (x, rd + n)
  else if t =? 15 then (if blen b <? 4 then EPlain else EOk (to_s 32 (le_dec 4 b), rd + 4))
  else if t =? 16 then (if blen b <? 8 then EPlain else EOk (goint (le_dec 8 b), rd + 8))
  else if fx_readint fx && (t =? 7) then (if blen b <? 4 then EPlain else EOk (le_dec 4 b, rd + 4))
  else if fx_readint fx && (t =? 6) then (if blen b <? 8 then EPlain else EOk (goint (le_dec 8 b), rd + 8))
  else EPlain.

(* ---------------------------------------------------------------- search functions: (position, new Read, found) *)
Fixpoint search_field (fuel : nat) (buf : list Z) (rd id stop : Z) : eres (Z * Z * bool) :=
  match fuel with
  | O => EPanic
  | S f =>
    if rd <? stop then
      elet '(num, wt, n) := c_tag_peek buf rd in
      if num =? id then EOk (rd, rd, true)
      else elet rd' := as_node (c_skip buf (rd + n) wt) in search_field f buf rd' id stop
    else EOk (rd, rd, false)
  end.

Fixpoint search_index_packed (fuel : nat) (buf : list Z) (rd stop cnt idx ewt : Z) : eres (Z * Z) :=   (* Read, cnt *)
  match fuel with
  | O => EPanic
  | S f =>
    if (rd <? stop) && (cnt <? idx) then
      elet rd' := as_node (c_skip buf rd ewt) in search_index_packed f buf rd' stop (cnt + 1) idx ewt
    else EOk (rd, cnt)
  end.
(* unpacked: state Read, cnt, result, exists *)
Fixpoint search_index_unpacked (fuel : nat) (buf : list Z) (rd cnt res idx ewt fnum : Z) (ex : bool) : eres (Z * Z * Z * bool) :=
  match fuel with
  | O => EPanic
  | S f =>
    if (rd <? blen buf) && (cnt <? idx) then
      elet rd1 := as_node (c_skip buf rd ewt) in
      let cnt1 := cnt + 1 in
      if rd1 <? blen buf then
        elet '(num, _, n) := c_tag_peek buf rd1 in
        if negb (num =? fnum) then EOk (rd1, cnt1, res, false)
        else
          let rd2 := if cnt1 <? idx then rd1 + n else rd1 in
          search_index_unpacked f buf rd2 cnt1 (rd2 + n) idx ewt fnum true
      else search_index_unpacked f buf rd1 cnt1 res idx ewt fnum false
    else EOk (rd, cnt, res, ex)
  end.
Definition search_index (buf : list Z) (rd idx ewt : Z) (packed : bool) (fnum : Z) : eres (Z * Z * bool) :=
  let fuel := S (length buf) in
  if fx_idxrange fx && (idx <? 0) then EOk (rd, rd, false) else
  if packed then
    elet '(len, rd0) := c_len buf rd in
    elet '(rd1, cnt) := search_index_packed fuel buf rd0 (rd0 + len) 0 idx ewt in
    if fx_idxrange fx && (rd1 >=? rd0 + len) then EOk (rd1, rd1, false)
    else if cnt <? idx then EOk (rd1, rd1, false) else EOk (rd1, rd1, true)
  else
    let rdb := if fx_idx0 fx && (idx =? 0) then rd - blen (varint_enc (fnum * 8 + ewt)) else rd in
    elet '(rd1, cnt, res, ex) := search_index_unpacked fuel buf rdb 0 rd idx ewt fnum true in
    if fx_idxrange fx && negb ex then EOk (rd1, rd1, false)
    else if cnt <? idx then EOk (rd1, rd1, false) else EOk (res, rd1, true).

(* keys: str key = Some bytes, int key = None + Go int; ptag = tag offset of the ptag being read.
   Result: position, new Read, found, tag offset of the matched ptag (-1: none) *)
Fixpoint search_key (fuel : nat) (buf : list Z) (rd : Z) (skey : option (list Z)) (ikey kt fnum ptag : Z)
  : eres (Z * Z * bool * Z) :=
  match fuel with
  | O => EPanic
  | S f =>
    if rd <? blen buf then
      elet '(_, rd1) := as_plain (c_len buf rd) in
      elet '(_, _, rd2) := as_plain (c_tag buf rd1) in
      elet '(hit, rd3) :=
        match skey with
        | Some k => elet '(s, r) := as_plain (c_string buf rd2) in EOk (bytes_eqb s k, r)
        | None => elet '(x, r) := as_plain (c_int buf rd2 kt) in EOk (x =? ikey, r)
        end in
      if hit then EOk (rd3, rd3, true, ptag)
      else
        elet '(_, vwt, rd4) := as_plain (c_tag buf rd3) in
        elet rd5 := as_node (c_skip buf rd4 vwt) in
        if rd5 >=? blen buf then EOk (rd5, rd5, false, -1)
        else
          elet '(num, _, n) := c_tag_peek buf rd5 in
          if negb (num =? fnum) then EOk (rd5, rd5, false, -1)
          else search_key f buf (rd5 + n) skey ikey kt fnum rd5
    else EOk (rd, rd, false, -1)
  end.

(* SkipAllElements: (size, new Read); all errors are plain *)
Fixpoint skip_packed (fuel : nat) (buf : list Z) (rd stop size ewt : Z) : eres (Z * Z) :=
  match fuel with
  | O => EPanic
  | S f =>
    if rd <? stop then elet rd' := c_skip buf rd ewt in skip_packed f buf rd' stop (size + 1) ewt
    else EOk (size, rd)
  end.
Fixpoint skip_unpacked (fuel : nat) (buf : list Z) (rd fnum size : Z) : eres (Z * Z) :=
  match fuel with
  | O => EPanic
  | S f =>
    if rd <? blen buf then
      elet '(num, wt, n) := c_tag_peek buf rd in
      if negb (num =? fnum) then EOk (size, rd)
      else elet rd1 := c_next buf rd n in
           elet rd2 := c_skip buf rd1 wt in skip_unpacked f buf rd2 fnum (size + 1)
    else EOk (size, rd)
  end.
(* SkipAllElements(fieldNumber, packed) / SkipAllElementsOf(desc): ewt = wire type of a packed element *)
Definition skip_all (buf : list Z) (rd fnum : Z) (packed : bool) (ewt : Z) : eres (Z * Z) :=
  as_plain (
  if packed then
    elet '(_, _, rd1) := c_tag buf rd in
    elet '(len, rd2) := c_len buf rd1 in
    if fx_skipall fx then
      if (len <? 0) || (rd2 + len >? blen buf) then EPlain else
      elet '(size, rd3) := skip_packed (S (length buf)) buf rd2 (rd2 + len) 0 ewt in
      if rd3 =? rd2 + len then EOk (size, rd3) else EPlain
    else skip_packed (S (length buf)) buf rd2 (rd2 + len) 0 0
  else skip_unpacked (S (length buf)) buf rd fnum 0).

(* ---------------------------------------------------------------- getByPath on the root value *)
Record gnode := mk_gnode { g_start : Z; g_end : Z; g_t : Z; g_kt : Z; g_size : Z; g_desc : tdesc; g_root : bool }.
Inductive gres :=
| GFound (n : gnode) (addr : list Z)
| GNotFoundLast (pos : Z) (parent : Z) (addr : list Z)       (* errNotFoundLast(ptr, tty) *)
| GErr (notfound : bool) (addr : list Z)                     (* errValue(code): ErrNotFound or another code *)
| GPanic
| GUnmodelled.

Definition is_last {A} (l : list A) : bool := match l with [] => true | _ => false end.

(* one path step: the (possibly narrowed) buffer, the search result, desc', type when found, type when not found *)
Definition narrow (buf : list Z) (rd mlen : Z) : list Z :=
  if fx_bound fx && (0 <=? mlen) && (mlen <? blen buf - rd) then firstn (Z.to_nat (rd + mlen)) buf else buf.

Definition gstep (S : schema) (buf : list Z) (rd : Z) (desc : tdesc) (isRoot : bool) (st : pstep)
  : option (list Z * eres (Z * Z * bool * Z) * tdesc * Z * Z) :=
  let fuel := Datatypes.S (length buf) in
  let nopair (r : eres (Z * Z * bool)) : eres (Z * Z * bool * Z) := elet '(a, b, c) := r in EOk (a, b, c, -2) in
  match st with
  | PField _ | PName _ =>
    match td_msg S desc with
    | None => None
    | Some md =>
      let ofd := match st with PField id => find_field md id | PName s => by_name md s | _ => None end in
      match ofd with
      | None => None                                   (* unknown fields are not generated *)
      | Some fd =>
        let '(buf1, r) :=
          if isRoot then (buf, nopair (search_field fuel buf rd (fd_num fd) (rd + blen buf)))
          else match c_len buf rd with
               | EOk (mlen, rd1) => let b1 := narrow buf rd1 mlen in
                                    (b1, nopair (search_field fuel b1 rd1 (fd_num fd) (rd1 + mlen)))
               | _ => (buf, ENode 2)                   (* errValue(ErrRead) *)
               end in
        Some (buf1, r, td_of_field fd, td_type (td_of_field fd), 11)
      end
    end
  | PIndex idx =>
    match desc with
    | DList id e => Some (buf, nopair (search_index buf rd idx (wire_of_type (td_type e)) (td_packed desc) id), desc, td_type e, T_LIST)
    | _ => None
    end
  | PStrKey k =>
    match desc with
    | DMap id kk e => Some (buf, search_key fuel buf rd (Some k) 0 9 id (rd - blen (varint_enc (id * 8 + 2))), e, td_type e, T_MAP)
    | _ => None
    end
  | PIntKey k =>
    match desc with
    | DMap id kk e => Some (buf, search_key fuel buf rd None k kk id (rd - blen (varint_enc (id * 8 + 2))), e, td_type e, T_MAP)
    | _ => None
    end
  end.

Fixpoint gwalk (S : schema) (buf : list Z) (rd : Z) (desc : tdesc) (isRoot : bool) (p : list pstep) (addr : list Z)
  {struct p} : gres :=
  match p with
  | [] => GUnmodelled
  | st :: rest =>
    match gstep S buf rd desc isRoot st with
    | None => GUnmodelled
    | Some (buf, r, desc', tty, ttynf) =>
      match r with
      | EPanic => GPanic
      | EPlain => if fx_noderr fx then GErr false (addr ++ [0]) else GPanic      (* en := err.(Node) / errCodeOf *)
      | ENode c => GErr (c =? 1) (addr ++ [0])
      | EOk (start, rd1, found, ptag) =>
        (* fx_mapentry: the slot of the map field carries the tag offset of the matched ptag (-1: none);
           fx_elemaddr: an element of an unpacked list is addressed by its tag *)
        let addr0 := match addr with
                     | _ :: _ => if fx_mapentry fx && negb (ptag =? -2) then removelast addr ++ [ptag] else addr
                     | [] => addr
                     end in
        let start_a := match st, desc with
                       | PIndex _, DList id e =>
                         if fx_elemaddr fx && found && negb (td_packed desc)
                         then start - blen (varint_enc (id * 8 + wire_of_type (td_type e))) else start
                       | _, _ => start
                       end in
        let addr' := addr0 ++ [start_a] in
        if negb found then
          (if is_last rest then GNotFoundLast start ttynf addr' else GErr true addr')
        else
          match rest with
          | _ :: _ =>
            match c_tag buf rd1 with
            | EOk (_, _, rd2) => gwalk S buf rd2 desc' false rest addr'
            | EPanic => GPanic
            | _ => GErr false addr'
            end
          | [] =>
            (* the result node *)
            if (tty =? T_MAP) || (tty =? T_LIST) then
              match skip_all buf rd1 (td_baseid desc') (td_packed desc') (td_ewt desc') with
              | EOk (size, rd2) =>
                GFound (mk_gnode start rd2 tty (match desc' with DMap _ kk _ => kk | _ => 0 end) size desc' false) addr'
              | EPanic => GPanic
              | _ => if fx_noderr fx then GErr false addr' else GPanic
              end
            else
              let r1 := if td_packed desc' then EOk (start, rd1)
                        else match c_tag buf rd1 with EOk (_, _, rd2) => EOk (rd2, rd2) | ENode c => ENode c | EPlain => EPlain | EPanic => EPanic end in
              match r1 with
              | EOk (start1, rd2) =>
                let d2 := match desc' with DList _ e => e | d => d end in
                match c_skip buf rd2 (wire_of_type (td_type d2)) with
                | EOk rd3 => GFound (mk_gnode start1 rd3 tty 0 0 d2 false) addr'
                | EPanic => GPanic
                | _ => GErr false addr'
                end
              | EPanic => GPanic
              | _ => GErr false addr'
              end
          end
      end
    end
  end.

Definition get_by_path (S : schema) (root : list Z) (buf : list Z) (p : list pstep) : gres :=
  match p with
  | [] => GFound (mk_gnode 0 (blen buf) 11 0 0 (DMsg root) true) []
  | _ => gwalk S buf 0 (DMsg root) true p []
  end.

(* getDescByPath *)
Fixpoint desc_by_path (S : schema) (desc : tdesc) (p : list pstep) : option tdesc :=
  match p with
  | [] => Some desc
  | st :: rest =>
    match desc with
    | DMsg n =>
      match find_msg S n with
      | Some md =>
        match (match st with PField id => find_field md id | PName s => by_name md s | _ => None end) with
        | Some fd => desc_by_path S (td_of_field fd) rest
        | None => None
        end
      | None => None
      end
    | DList _ e => desc_by_path S e rest
    | DMap _ _ e => desc_by_path S e rest
    | DScalar _ => None
    end
  end.

Definition pt_of_step (st : pstep) : Z :=
  match st with PField _ | PName _ => PT_FIELD | PIndex _ => PT_INDEX | _ => PT_KEY end.

Definition levels (addr : list Z) (p : list pstep) : list (Z * Z) :=
  rev (combine addr (map pt_of_step p)).

(* updateByteLen under the repair flags (with all flags off this is ProtoRelen.relen_coded, see relen_coded_g_old):
   fx_emptied: tag and length are dropped only when an emptied PACKED LIST is re-patched (drop = previousType is LIST);
   fx_mapentry: a level below a map-key step is re-patched at the recorded ptag tag (address >= 0), and the in-place
   branch no longer skips the previousType / isPacked update *)
Definition relen_step_g (drop : bool) (b : list Z) (diff : Z) (addr : nat) : list Z * Z * bool :=
  let buf := skipn addr b in
  let '(_, tagOff) := varint_dec buf in
  let '(len, lenOff) := varint_dec (skipn (Z.to_nat tagOff) buf) in
  let newLength := len + diff in
  let zero := (newLength =? 0) && drop in
  let newBytes := if zero then [] else varint_enc (newLength mod 2 ^ 64) in
  let subLen := blen newBytes - lenOff in
  if subLen =? 0 then
    (overwrite b (addr + Z.to_nat tagOff) newBytes, diff, true)
  else
    let head := if zero then addr else (addr + Z.to_nat tagOff)%nat in
    let subLen' := if zero then subLen - tagOff else subLen in
    (firstn head b ++ newBytes ++ skipn (addr + Z.to_nat tagOff + Z.to_nat lenOff) b, diff + subLen', false).

Definition relen_coded_step_g (st : rstate) (lv : Z * Z) : rstate :=
  let '(addr, pt) := lv in
  if (rs_prev st =? 1) || (fx_mapentry fx && (rs_prev st =? 3) && (addr >=? 0)) || ((rs_prev st =? 2) && rs_packed st) then
    let drop := if fx_emptied fx then rs_prev st =? 2 else true in
    let '(b', d', inplace) := relen_step_g drop (rs_buf st) (rs_diff st) (Z.to_nat addr) in
    if inplace && negb (fx_mapentry fx) then mk_rstate b' d' (rs_prev st) (rs_packed st)
    else mk_rstate b' d' (prev_of_pt pt) false
  else mk_rstate (rs_buf st) (rs_diff st) (prev_of_pt pt) (rs_packed st).

Definition relen_coded_g (b : list Z) (diff : Z) (isPacked : bool) (lvls : list (Z * Z)) : list Z :=
  rs_buf (fold_left relen_coded_step_g lvls (mk_rstate b diff 0 isPacked)).

(* the declared type a path addresses, whatever the key kinds (the code does not check them) *)
Fixpoint path_type_lax (S : schema) (lbl : flabel) (t : ftype) (p : list pstep) {struct p} : option (flabel * ftype) :=
  match p with
  | [] => Some (lbl, t)
  | st :: rest =>
    match lbl with
    | LSingular =>
      match t with
      | TMsg name =>
        match find_msg S name with
        | Some md => match resolve_field md st with
                     | Some fd => path_type_lax S (fd_label fd) (fd_type fd) rest
                     | None => None
                     end
        | None => None
        end
      | TScalar _ => None
      end
    | LRepeated _ => match st with PIndex _ => path_type_lax S LSingular t rest | _ => None end
    | LMap kk => match st with
                 | PStrKey _ | PIntKey _ => path_type_lax S LSingular t rest
                 | _ => None
                 end
    end
  end.

(* ---------------------------------------------------------------- results *)
Inductive cres := CRes (err : Z) (ex : bool) (bytes : list Z) | CPanic | CUnmodelled.

Definition last_step (p : list pstep) : option pstep := last (map Some p) None.

(* Path.ToRaw(t) *)
Definition to_raw (st : pstep) (t : Z) : option (list Z) :=
  match st with
  | PField id => Some (if (t =? T_LIST) || (t =? T_MAP) then [] else varint_enc ((id * 8 + wire_of_type t) mod 2 ^ 64))
  | PStrKey k => Some (varint_enc (Z.lor 8 9) ++ varint_enc (blen k) ++ k)     (* tag := 1<<3 | proto.STRING (a Type, 9): 0x09 *)
  | PIntKey k =>
    let tag := varint_enc (Z.lor 8 (wire_of_type t)) in
    let key := if t =? 5 then varint_enc (to_s 32 (k mod 2 ^ 32) mod 2 ^ 64)
               else if t =? 17 then varint_enc (zigzag_enc (to_s 32 (k mod 2 ^ 32)) mod 2 ^ 32)
               else if t =? 15 then le_enc 4 (k mod 2 ^ 32)
               else if t =? 3 then varint_enc (k mod 2 ^ 64)
               else if t =? 18 then varint_enc (zigzag_enc k mod 2 ^ 64)
               else if t =? 16 then le_enc 8 (k mod 2 ^ 64)
               else [] in
    Some (tag ++ key)
  | _ => None
  end.

(* Node.setNotFound: the bytes that are inserted *)
Definition set_not_found (parent : Z) (st : pstep) (nt : Z) (src : list Z) (desc : tdesc) : option (list Z) :=
  if parent =? 11 then
    match to_raw st nt with Some tag => Some (tag ++ src) | None => None end
  else if parent =? T_LIST then
    Some (if td_packed desc then src else varint_enc (td_baseid desc * 8 + 2) ++ src)
  else if parent =? T_MAP then
    match desc with
    | DMap id kk e =>
      (* fx_insert: the key is encoded as the KEY type (wire type in the tag, all integer kinds), the value is field 2 *)
      let okb := if fx_insert fx then
                   match st with
                   | PStrKey k => Some (varint_enc 10 ++ varint_enc (blen k) ++ k)
                   | PIntKey k =>
                     Some (varint_enc (Z.lor 8 (wire_of_type kk)) ++
                           (if kk =? 13 then varint_enc (k mod 2 ^ 32)
                            else if kk =? 4 then varint_enc (k mod 2 ^ 64)
                            else if kk =? 7 then le_enc 4 (k mod 2 ^ 32)
                            else if kk =? 6 then le_enc 8 (k mod 2 ^ 64)
                            else match to_raw (PIntKey k) kk with Some b => skipn 1 b | None => [] end))
                   | _ => None
                   end
                 else to_raw st nt in
      match okb with
      | Some kb =>
        let body := kb ++ varint_enc ((if fx_insert fx then 16 else 8) + wire_of_type (td_type e)) ++ src in
        Some (varint_enc (id * 8 + 2) ++ varint_enc (blen body) ++ body)
      | None => None
      end
    | _ => None
    end
  else None.

(* SetByPath(sub, path...) on the root value; the sub node has the type of the addressed element *)
Definition coded_set_t (S : schema) (root : list Z) (buf : list Z) (p : list pstep) (sub : list Z) (nt : Z) : cres :=
  match path_type_lax S LSingular (TMsg root) p, last_step p with
  | Some (LSingular, t), Some lst =>
    let finish (s e : Z) (x : list Z) (addr : list Z) (ex : bool) :=
      let b1 := splice buf (Z.to_nat s) (Z.to_nat e) x in
      let packed := match lst with PIndex _ => type_packed nt | _ => false end in
      CRes 0 ex (relen_coded_g b1 (blen b1 - blen buf) packed (levels addr p)) in
    match get_by_path S root buf p with
    | GFound n addr =>
      if g_t n =? nt then finish (g_start n) (g_end n) sub addr true
      else CRes 1 true buf          (* replace: type mismatch; updateByteLen with diff 0 rewrites the same lengths *)
    | GNotFoundLast pos parent addr =>
      match desc_by_path S (DMsg root) (removelast p) with
      | None => CRes 1 false buf
      | Some d0 =>
        (* a name step is exchanged for the id step and desc becomes the field's type *)
        let '(tp, d) := match lst, td_msg S d0 with
                        | PName s, Some md => match by_name md s with
                                              | Some fd => (PField (fd_num fd), td_of_field fd)
                                              | None => (lst, d0)
                                              end
                        | _, _ => (lst, d0)
                        end in
        match set_not_found parent tp nt sub d with
        | Some x => finish pos pos x addr false
        | None => CRes 1 false buf
        end
      end
    | GErr nf addr =>
      if nf then CRes 1 false buf           (* errValue(ErrNotFound) passes isErrNotFoundLast; setNotFound fails on kt = UNKNOWN *)
      else CRes 1 false buf
    | GPanic => CPanic
    | GUnmodelled => CUnmodelled
    end
  | _, _ => CUnmodelled
  end.

(* the sub node has the type of the addressed element *)
Definition coded_set (S : schema) (root : list Z) (buf : list Z) (p : list pstep) (sub : list Z) : cres :=
  match path_type_lax S LSingular (TMsg root) p with
  | Some (LSingular, t) => coded_set_t S root buf p sub (td_type (td_base t))
  | _ => CUnmodelled
  end.

(* ---------------------------------------------------------------- UnsetByPath *)
(* findDeleteChild on the parent node [n] (its bytes are buf[g_start, g_end)); offsets are relative to the node *)
Fixpoint fdc_msg (fuel : nat) (nb : list Z) (rd stop id : Z) (acc : option (Z * Z)) : eres (option (Z * Z)) :=
  match fuel with
  | O => EPanic
  | S f =>
    if rd <? stop then
      elet '(num, wt, rd1) := as_node (c_tag nb rd) in
      elet rd2 := as_node (c_skip nb rd1 wt) in
      let acc' := if num =? id then
                    match acc with
                    | None => Some (rd, rd2)
                    | Some (s, e) => Some (Z.min s rd, Z.max e rd2)
                    end
                  else acc in
      fdc_msg f nb rd2 stop id acc'
    else EOk acc
  end.
Fixpoint fdc_list (fuel : nat) (nb : list Z) (rd stop li idx ewt : Z) (packed : bool) (s e : Z) : eres (Z * Z) :=
  match fuel with
  | O => EPanic
  | S f =>
    if (rd <? stop) && (li <=? idx) then
      elet rd1 := (if packed then EOk rd else elet '(_, _, r) := as_node (c_tag nb rd) in EOk r) in
      elet rd2 := as_node (c_skip nb rd1 ewt) in
      fdc_list f nb rd2 stop (li + 1) idx ewt packed rd rd2
    else EOk (s, e)
  end.
Fixpoint fdc_map (fuel : nat) (nb : list Z) (rd stop : Z) (skey : option (list Z)) (ikey kt : Z) : eres (option (Z * Z)) :=
  match fuel with
  | O => EPanic
  | S f =>
    if rd <? stop then
      elet '(_, _, rd1) := as_node (c_tag nb rd) in
      elet '(_, rd2) := as_node (c_len nb rd1) in
      elet '(_, _, rd3) := as_node (c_tag nb rd2) in
      elet '(hit, rd4) :=
        match skey with
        | Some k => elet '(s, r) := as_node (c_string nb rd3) in EOk (bytes_eqb s k, r)
        | None => elet '(x, r) := as_node (c_int nb rd3 kt) in EOk (x =? ikey, r)
        end in
      (* value: the tag error is ignored *)
      let '(vwt, rd5) := match c_tag nb rd4 with EOk (_, w, r) => (w, r) | _ => (0, rd4) end in
      elet rd6 := as_node (c_skip nb rd5 vwt) in
      if hit then EOk (Some (rd, rd6)) else fdc_map f nb rd6 stop skey ikey kt
    else EOk None
  end.

Definition is_int_type (t : Z) : bool :=
  (t =? 5) || (t =? 3) || (t =? 15) || (t =? 16) || (t =? 18) || (t =? 17) || (t =? 13) || (t =? 4) || (t =? 7) || (t =? 6).

(* Some (start, end) relative to the node; ENode 1 = errNotFound *)
Definition find_delete_child (n : gnode) (nb : list Z) (st : pstep) : eres (Z * Z) :=
  let fuel := S (length nb) in
  let vlen := blen nb in
  if g_t n =? 11 then
    match st with
    | PField id =>
      elet '(valueLen, rd0) := (if g_root n then EOk (vlen, 0) else as_node (c_len nb 0)) in
      elet r := fdc_msg fuel nb rd0 (rd0 + valueLen) id None in
      match r with Some se => EOk se | None => ENode 1 end
    | _ => ENode 2
    end
  else if g_t n =? T_LIST then
    match st, g_desc n with
    | PIndex idx, DList _ e =>
      if (g_size n >? 0) && (idx >=? g_size n) then ENode 1
      else
        let ewt := wire_of_type (td_type e) in
        if td_packed (g_desc n) then
          elet '(_, _, rd1) := as_node (c_tag nb 0) in
          elet '(_, rd2) := as_node (c_len nb rd1) in
          fdc_list fuel nb rd2 vlen 0 idx ewt true 0 0
        else fdc_list fuel nb 0 vlen 0 idx ewt false 0 0
    | _, _ => ENode 2
    end
  else if g_t n =? T_MAP then
    let r := match st with
             | PStrKey k => if g_kt n =? 9 then fdc_map fuel nb 0 vlen (Some k) 0 9 else EOk None
             | PIntKey k => if g_kt n =? 9 then EOk None
                            else if is_int_type (g_kt n) then fdc_map fuel nb 0 vlen None k (g_kt n) else EOk None
             | _ => EOk None
             end in
    elet o := r in match o with Some se => EOk se | None => ENode 1 end
  else ENode 1.

Definition coded_unset (S : schema) (root : list Z) (buf : list Z) (p : list pstep) : cres :=
  match last_step p with
  | None => CUnmodelled
  | Some lst =>
    let pp := removelast p in
    match get_by_path S root buf pp with
    | GPanic => CPanic
    | GUnmodelled => CUnmodelled
    | GNotFoundLast _ _ _ => CRes 0 false buf
    | GErr nf _ => if nf then CRes 0 false buf else CRes 1 false buf
    | GFound n addr =>
      match desc_by_path S (DMsg root) pp with
      | None => CRes 1 false buf
      | Some d0 =>
        let packed := td_packed d0 in
        let tp := match lst, td_msg S d0 with
                  | PName s, Some md => match by_name md s with Some fd => Some (PField (fd_num fd)) | None => None end
                  | PName _, None => None
                  | _, _ => Some lst
                  end in
        match tp with
        | None => CPanic                                      (* nil FieldDescriptor dereference *)
        | Some tp =>
          let nb := firstn (Z.to_nat (g_end n - g_start n)) (at_ buf (g_start n)) in
          match find_delete_child n nb tp with
          | EOk (s, e) =>
            let b1 := splice buf (Z.to_nat (g_start n + s)) (Z.to_nat (g_start n + e)) [] in
            let addr1 := match lst, addr with
                         | (PStrKey _ | PIntKey _), _ :: _ => if fx_mapentry fx then removelast addr ++ [-1] else addr
                         | _, _ => addr
                         end in
            CRes 0 false (relen_coded_g b1 (blen b1 - blen buf) packed (levels (addr1 ++ [s]) p))
          | ENode _ => CRes 1 false buf
          | EPlain => CRes 1 false buf
          | EPanic => CPanic
          end
        end
      end
    end
  end.

(* ---------------------------------------------------------------- SetMany on the root (field ids, singular fields) *)
(* Node.Fields: the value spans of the wanted ids (the last occurrence wins; count stops the scan) *)
Fixpoint fields_scan (fuel : nat) (S : schema) (md : mdesc) (buf : list Z) (rd : Z) (ids : list Z) (count : Z)
                     (acc : list (Z * (Z * Z))) : eres (list (Z * (Z * Z))) :=
  match fuel with
  | O => EPanic
  | Datatypes.S f =>
    if (rd <? blen buf) && (count <? blen ids) then
      match c_tag buf rd with
      | EOk (num, wt, rd1) =>
        match c_skip buf rd1 wt with
        | EOk rd2 =>
          match find_field md num with
          | None => EPanic                               (* f.Type() on a nil FieldDescriptor *)
          | Some fd =>
            let d := td_of_field fd in
            elet '(s, e) := (match d with
                             | DList _ _ | DMap _ _ _ =>
                               match skip_all buf rd (td_baseid d) (td_packed d) (td_ewt d) with
                               | EOk (_, r) => EOk (rd, r)
                               | _ => ENode 2
                               end
                             | _ => EOk (rd1, rd2)
                             end) in
            if existsb (Z.eqb num) ids
            then fields_scan f S md buf e ids (count + 1) ((num, (s, e)) :: filter (fun x => negb (fst x =? num)) acc)
            else fields_scan f S md buf e ids count acc
          end
        | EPanic => EPanic
        | _ => ENode 2
        end
      | EPanic => EPanic
      | _ => ENode 2
      end
    else EOk acc
  end.

Definition coded_set_many (S : schema) (root : list Z) (buf : list Z) (l : list (Z * list Z)) : cres :=
  match find_msg S root with
  | None => CUnmodelled
  | Some md =>
    match l with
    | [] => CRes 0 false buf
    | _ =>
      match fields_scan (Datatypes.S (length buf)) S md buf 0 (map fst l) 0 [] with
      | EOk found =>
        let spans := map (fun ib =>
                            let '(id, b) := ib in
                            match find (fun x => fst x =? id) found, find_field md id with
                            | Some (_, (s, e)), _ => Some (Z.to_nat s, Z.to_nat e, b)
                            | None, Some fd =>
                              let nt := td_type (td_of_field fd) in
                              Some (length buf, length buf, varint_enc ((id * 8 + wire_of_type nt) mod 2 ^ 64) ++ b)
                            | None, None => None
                            end) l in
        if forallb (fun o => match o with Some _ => true | None => false end) spans then
          let sp := flat_map (fun o => match o with Some x => [x] | None => [] end) spans in
          CRes 0 false (replace_many buf (span_sort sp))
        else CUnmodelled
      | EPanic => CPanic
      | _ => CRes 1 false buf
      end
    end
  end.

Definition coded_op (S : schema) (root : list Z) (buf : list Z) (o : cop) : cres :=
  match o with
  | CSet p sub nk => coded_set_t S root buf p sub nk
  | CUnset p => coded_unset S root buf p
  | CSetMany l => coded_set_many S root buf l
  end.

(* ---------------------------------------------------------------- PathNode.Load(recurse=true) + Marshal as coded, on bytes
   (path.go scanChildren / handleChild l.287-520, marshal l.639-802).  The protocol cursor is global: a nested scan works on
   p.Buf[start:], whose END is the end of the whole buffer, and the parent continues where the child stopped. *)
Definition lm_tag (num wt : Z) : list Z := varint_enc ((num * 8 + wt) mod 2 ^ 64).
Definition lm_len (x : list Z) : list Z := varint_enc (blen x) ++ x.          (* Append/FinishSpeculativeLength *)
Definition slice_ (buf : list Z) (s e : Z) : list Z := firstn (Z.to_nat (e - s)) (at_ buf s).

Section LoadLoops.
  (* the child handler at the next smaller recursion fuel: desc, Read after the tag, tag length -> marshalled child, new Read *)
  Variable rec : tdesc -> Z -> Z -> eres (list Z * Z).
  Variable S : schema.
  Variable buf : list Z.

  (* skip the remaining records with the same field number (to the end of the buffer) *)
  Fixpoint lm_absorb (fuel : nat) (rd fnum : Z) : eres Z :=
    match fuel with
    | O => EPanic
    | Datatypes.S f =>
      if rd <? blen buf then
        elet '(num, wt, n) := c_tag_peek buf rd in
        if negb (num =? fnum) then EOk rd
        else elet rd1 := c_skip buf (rd + n) wt in lm_absorb f rd1 fnum
      else EOk rd
    end.

  Fixpoint lm_msg_loop (fuel : nat) (md : mdesc) (rd stop : Z) (acc : list Z) : eres (list Z * Z) :=
    match fuel with
    | O => EPanic
    | Datatypes.S f =>
      if rd <? stop then
        elet '(num, wt, rd1) := c_tag buf rd in
        match find_field md num with
        | None =>                                     (* handleUnknownChild: the whole run is kept as raw bytes *)
          elet rd2 := c_skip buf rd1 wt in
          elet rd3 := lm_absorb fuel rd2 num in
          lm_msg_loop f md rd3 stop (acc ++ slice_ buf rd rd3)
        | Some fd =>
          let d := td_of_field fd in
          elet '(o, rd2) := rec d rd1 (rd1 - rd) in
          let tag := match d with DList _ _ | DMap _ _ _ => [] | _ => lm_tag num (wire_of_type (td_type d)) end in
          lm_msg_loop f md rd2 stop (acc ++ tag ++ o)
        end
      else EOk (acc, rd)
    end.

  Fixpoint lm_packed_loop (fuel : nat) (e : tdesc) (rd stop : Z) (acc : list Z) (n : Z) : eres (list Z * Z * Z) :=
    match fuel with
    | O => EPanic
    | Datatypes.S f =>
      if rd <? stop then
        elet '(o, rd1) := rec e rd 0 in lm_packed_loop f e rd1 stop (acc ++ o) (n + 1)
      else EOk (acc, rd, n)
    end.

  Fixpoint lm_unpacked_loop (fuel : nat) (e : tdesc) (fnum : Z) (rd : Z) (acc : list Z) (n : Z) : eres (list Z * Z * Z) :=
    match fuel with
    | O => EPanic
    | Datatypes.S f =>
      if rd <? blen buf then
        elet '(num, _, tl) := c_tag_peek buf rd in
        if negb (num =? fnum) then EOk (acc, rd, n)
        else
          elet '(o, rd1) := rec e (rd + tl) tl in
          lm_unpacked_loop f e fnum rd1 (acc ++ lm_tag fnum (wire_of_type (td_type e)) ++ o) (n + 1)
      else EOk (acc, rd, n)
    end.

  Fixpoint lm_map_loop (fuel : nat) (fnum kk : Z) (e : tdesc) (rd : Z) (acc : list Z) (n : Z) : eres (list Z * Z * Z) :=
    match fuel with
    | O => EPanic
    | Datatypes.S f =>
      if rd <? blen buf then
        elet '(num, _, tl) := c_tag_peek buf rd in
        if negb (num =? fnum) then EOk (acc, rd, n)
        else
          elet '(plen_, rd1) := c_len buf (rd + tl) in
          if plen_ <=? 0 then EPlain else
          elet '(_, _, rd2) := c_tag buf rd1 in
          elet '(keyb, rd3) :=
            (if kk =? 9 then elet '(s, r) := c_string buf rd2 in EOk (lm_tag 1 2 ++ varint_enc (blen s) ++ s, r)
             else if is_int_type kk then
               elet '(x, r) := c_int buf rd2 kk in
               let wt := wire_of_type kk in
               EOk (lm_tag 1 wt ++ (if fx_sintkey fx && ((kk =? 17) || (kk =? 18)) then varint_enc (zigzag_enc x mod 2 ^ 64)
                                    else if wt =? 0 then varint_enc (x mod 2 ^ 64)
                                    else if wt =? 5 then le_enc 4 (x mod 2 ^ 32) else le_enc 8 (x mod 2 ^ 64)), r)
             else EPlain) in
          elet '(_, _, rd4) := c_tag buf rd3 in
          elet '(o, rd5) := rec e rd4 (rd4 - rd3) in
          let vtag := lm_tag 2 (wire_of_type (td_type e)) in
          lm_map_loop f fnum kk e rd5 (acc ++ lm_tag fnum 2 ++ lm_len (keyb ++ vtag ++ o)) (n + 1)
      else EOk (acc, rd, n)
    end.
End LoadLoops.

Definition body_is_nil (b : list Z) : bool := match b with [] => true | _ => false end.

Fixpoint lm_child (fuel : nat) (S : schema) (buf : list Z) (d : tdesc) (rd tagL : Z) {struct fuel} : eres (list Z * Z) :=
  match fuel with
  | O => EPanic
  | Datatypes.S f =>
    let bf := Datatypes.S (length buf) in
    let tty := td_type d in
    let container := (tty =? T_LIST) || (tty =? T_MAP) in
    let start := if container then rd - tagL else rd in
    if start <? 0 then EPlain else
    elet rd1 := c_skip buf rd (if container then 2 else wire_of_type tty) in
    elet rd2 := (if ((tty =? T_LIST) && negb (td_packed d)) || (tty =? T_MAP)
                 then lm_absorb buf bf rd1 (td_baseid d) else EOk rd1) in
    (* the buffer of the recursive scan: p.Buf[start:] or, bounded, p.Buf[start:p.Read] (same offsets) *)
    let cb := if fx_loadbound fx then firstn (Z.to_nat rd2) buf else buf in
    let cbf := Datatypes.S (length cb) in
    match d with
    | DScalar _ => EOk (slice_ buf start rd2, rd2)
    | DMsg name =>
      match find_msg S name with
      | None => EPanic
      | Some md =>
        elet '(mlen, r0) := c_len cb start in
        if (if fx_loadempty fx then mlen <? 0 else mlen <=? 0) then EPlain else
        elet '(body, rdE) := lm_msg_loop (lm_child f S cb) cb cbf md r0 (r0 + mlen) [] in
        EOk ((if body_is_nil body then slice_ buf start rd2 else lm_len body), rdE)
      end
    | DList id e =>
      if td_packed d then
        elet '(_, _, r0) := c_tag cb start in
        elet '(llen, r1) := c_len cb r0 in
        elet '(body, rdE, n) := lm_packed_loop (lm_child f S cb) cbf e r1 (r1 + llen) [] 0 in
        EOk ((if n =? 0 then slice_ buf start rd2 else lm_tag id 2 ++ lm_len body), rdE)
      else
        elet '(body, rdE, n) := lm_unpacked_loop (lm_child f S cb) cb cbf e id start [] 0 in
        EOk ((if n =? 0 then slice_ buf start rd2 else body), rdE)
    | DMap id kk e =>
      elet '(body, rdE, n) := lm_map_loop (lm_child f S cb) cb cbf id kk e start [] 0 in
      EOk ((if n =? 0 then slice_ buf start rd2 else body), rdE)
    end
  end.

Definition coded_load_marshal (S : schema) (root : list Z) (buf : list Z) : eres (list Z) :=
  match find_msg S root with
  | None => EPanic
  | Some md =>
    let fuel := Datatypes.S (2 * length buf) in
    elet '(o, _) := lm_msg_loop (lm_child fuel S buf) buf (Datatypes.S (length buf)) md 0 (blen buf) [] in EOk o
  end.

End Fx.

(* ---------------------------------------------------------------- PathNode trees that are RE-USED (stateful transcription)
   Load writes into the slots of the previous tree: scanChildren starts from self.Next[:0], handleChild re-exposes slot l
   of the backing array (guardPathNodeSlice re-allocates only when l reaches the capacity: the first l slots are copied,
   DefaultNodeSliceCap = 16 zeroed slots are added) and overwrites Node (and the caller Path) only.  The Next of a slot
   is refilled only when the child is scanned recursively; Marshal prefers Next over the raw bytes whenever it is not
   empty.  fx_stalenext: handleChild / handleUnknownChild truncate the Next of the slot they hand out (finding 1013). *)
Inductive ppath := PPNone | PPId (n : Z) | PPIdx (i : Z) | PPStr (s : list Z) | PPInt (k : Z).
Inductive slot := Slot (t : Z) (raw : list Z) (et kt : Z) (path : ppath) (nlen : nat) (arr : list slot).
Definition slot0 : slot := Slot 0 [] 0 0 PPNone 0 [].
Definition sl_t (s : slot) := match s with Slot t _ _ _ _ _ _ => t end.
Definition sl_nlen (s : slot) := match s with Slot _ _ _ _ _ n _ => n end.
Definition sl_arr (s : slot) := match s with Slot _ _ _ _ _ _ a => a end.
Definition sl_path (s : slot) := match s with Slot _ _ _ _ p _ _ => p end.
Definition sl_set_path (p : ppath) (s : slot) : slot := match s with Slot t r e k _ n a => Slot t r e k p n a end.
Definition path_id (p : ppath) : Z := match p with PPId n => n | _ => 0 end.
Definition path_int (p : ppath) : Z :=
  match p with PPId n => n | PPIdx i => i | PPInt k => k | PPStr s => blen s | PPNone => 0 end.
Definition path_str (p : ppath) : list Z := match p with PPStr s => s | _ => [] end.

(* guardPathNodeSlice + con[:l+1]: the array in which slot l can be written *)
Definition arr_guard (arr : list slot) (l : nat) : list slot :=
  if (length arr <=? l)%nat then firstn l arr ++ repeat slot0 16 else arr.
Fixpoint arr_set (arr : list slot) (l : nat) (x : slot) : list slot :=
  match arr, l with
  | [], _ => []
  | _ :: r, O => x :: r
  | y :: r, S l' => y :: arr_set r l' x
  end.

Section Reuse.
  Variable fx : fixes.
  Variable recurse : bool.
  Let stalefix := fx_stalenext fx.
  Variable S : schema.
  Variable buf : list Z.

  Section TLoops.
    (* child handler at smaller fuel: (narrowed) buffer, desc, Read after the tag, tag length, the old slot -> new slot (no path), new Read *)
    Variable rec : list Z -> tdesc -> Z -> Z -> slot -> eres (slot * Z).
    Variable cb : list Z.

    Fixpoint tl_msg_loop (fuel : nat) (md : mdesc) (rd stop : Z) (arr : list slot) (l : nat) : eres (list slot * nat * Z) :=
      match fuel with
      | O => EPanic
      | Datatypes.S f =>
        if rd <? stop then
          elet '(num, wt, rd1) := c_tag cb rd in
          let arr1 := arr_guard arr l in
          let old := nth l arr1 slot0 in
          match find_field md num with
          | None =>
            elet rd2 := c_skip fx cb rd1 wt in
            elet rd3 := lm_absorb fx cb (Datatypes.S (length cb)) rd2 num in
            let v := Slot 0 (slice_ cb rd rd3) 0 0 (PPId num)
                          (if stalefix then O else sl_nlen old) (sl_arr old) in
            tl_msg_loop f md rd3 stop (arr_set arr1 l v) (Datatypes.S l)
          | Some fd =>
            elet '(v, rd2) := rec cb (td_of_field fd) rd1 (rd1 - rd) old in
            tl_msg_loop f md rd2 stop (arr_set arr1 l (sl_set_path (PPId num) v)) (Datatypes.S l)
          end
        else EOk (arr, l, rd)
      end.

    Fixpoint tl_packed_loop (fuel : nat) (e : tdesc) (rd stop : Z) (arr : list slot) (l : nat) : eres (list slot * nat * Z) :=
      match fuel with
      | O => EPanic
      | Datatypes.S f =>
        if rd <? stop then
          let arr1 := arr_guard arr l in
          elet '(v, rd1) := rec cb e rd 0 (nth l arr1 slot0) in
          tl_packed_loop f e rd1 stop (arr_set arr1 l (sl_set_path (PPIdx (Z.of_nat l)) v)) (Datatypes.S l)
        else EOk (arr, l, rd)
      end.

    Fixpoint tl_unpacked_loop (fuel : nat) (e : tdesc) (fnum rd : Z) (arr : list slot) (l : nat) : eres (list slot * nat * Z) :=
      match fuel with
      | O => EPanic
      | Datatypes.S f =>
        if rd <? blen cb then
          elet '(num, _, tl) := c_tag_peek cb rd in
          if negb (num =? fnum) then EOk (arr, l, rd)
          else
            let arr1 := arr_guard arr l in
            elet '(v, rd1) := rec cb e (rd + tl) tl (nth l arr1 slot0) in
            tl_unpacked_loop f e fnum rd1 (arr_set arr1 l (sl_set_path (PPIdx (Z.of_nat l)) v)) (Datatypes.S l)
        else EOk (arr, l, rd)
      end.

    Fixpoint tl_map_loop (fuel : nat) (fnum kk : Z) (e : tdesc) (rd : Z) (arr : list slot) (l : nat) : eres (list slot * nat * Z) :=
      match fuel with
      | O => EPanic
      | Datatypes.S f =>
        if rd <? blen cb then
          elet '(num, _, tl) := c_tag_peek cb rd in
          if negb (num =? fnum) then EOk (arr, l, rd)
          else
            elet '(plen_, rd1) := c_len cb (rd + tl) in
            if plen_ <=? 0 then EPlain else
            elet '(_, _, rd2) := c_tag cb rd1 in
            elet '(key, rd3) :=
              (if kk =? 9 then elet '(s, r) := c_string cb rd2 in EOk (PPStr s, r)
               else if is_int_type kk then elet '(x, r) := c_int fx cb rd2 kk in EOk (PPInt x, r)
               else EPlain) in
            elet '(_, _, rd4) := c_tag cb rd3 in
            let arr1 := arr_guard arr l in
            elet '(v, rd5) := rec cb e rd4 (rd4 - rd3) (nth l arr1 slot0) in
            tl_map_loop f fnum kk e rd5 (arr_set arr1 l (sl_set_path key v)) (Datatypes.S l)
        else EOk (arr, l, rd)
      end.
  End TLoops.

  (* handleChild *)
  Fixpoint tl_child (fuel : nat) (pb : list Z) (d : tdesc) (rd tagL : Z) (old : slot) {struct fuel} : eres (slot * Z) :=
    match fuel with
    | O => EPanic
    | Datatypes.S f =>
      let tty := td_type d in
      let container := (tty =? T_LIST) || (tty =? T_MAP) in
      let start := if container then rd - tagL else rd in
      if start <? 0 then EPlain else
      elet rd1 := c_skip fx pb rd (if container then 2 else wire_of_type tty) in
      elet rd2 := (if ((tty =? T_LIST) && negb (td_packed d)) || (tty =? T_MAP)
                   then lm_absorb fx pb (Datatypes.S (length pb)) rd1 (td_baseid d) else EOk rd1) in
      let raw := slice_ pb start rd2 in
      let on := if stalefix then O else sl_nlen old in
      let oa := sl_arr old in
      let cb := firstn (Z.to_nat rd2) pb in
      let cbf := Datatypes.S (length cb) in
      match d with
      | DScalar _ => EOk (Slot tty raw 0 0 PPNone on oa, rd2)
      | DMsg name =>
        if negb recurse then EOk (Slot tty raw 0 0 PPNone on oa, rd2) else
        match find_msg S name with
        | None => EPanic
        | Some md =>
          elet '(mlen, r0) := c_len cb start in
          if mlen <? 0 then EPlain else
          elet '(arr, n, rdE) := tl_msg_loop (tl_child f) cb cbf md r0 (r0 + mlen) oa O in
          EOk (Slot tty raw 0 0 PPNone n arr, rdE)
        end
      | DList id e =>
        let et := td_type e in
        if negb recurse then EOk (Slot tty raw et 0 PPNone on oa, rd2) else
        if td_packed d then
          elet '(_, _, r0) := c_tag cb start in
          elet '(llen, r1) := c_len cb r0 in
          elet '(arr, n, rdE) := tl_packed_loop (tl_child f) cb cbf e r1 (r1 + llen) oa O in
          EOk (Slot tty raw et 0 PPNone n arr, rdE)
        else
          elet '(arr, n, rdE) := tl_unpacked_loop (tl_child f) cb cbf e id start oa O in
          EOk (Slot tty raw et 0 PPNone n arr, rdE)
      | DMap id kk e =>
        let et := td_type e in
        if negb recurse then EOk (Slot tty raw et kk PPNone on oa, rd2) else
        elet '(arr, n, rdE) := tl_map_loop (tl_child f) cb cbf id kk e start oa O in
        EOk (Slot tty raw et kk PPNone n arr, rdE)
      end
    end.

  (* PathNode.Load on the root slot *)
  Definition tl_load (root : list Z) (old : slot) : eres slot :=
    match find_msg S root with
    | None => EPanic
    | Some md =>
      elet '(arr, n, _) := tl_msg_loop (tl_child (Datatypes.S (2 * length buf))) buf (Datatypes.S (length buf)) md 0 (blen buf) (sl_arr old) O in
      EOk (Slot 11 buf 0 0 (sl_path old) n arr)
    end.
End Reuse.

(* PathNode.marshal *)
Definition tag_ok (num : Z) : bool := (1 <=? num) && (num <=? 536870911).
Definition wire_of_type0 (t : Z) : Z := let w := wire_of_type t in if w <? 0 then 0 else w.
Fixpoint tl_concat (l : list (eres (list Z))) : eres (list Z) :=
  match l with
  | [] => EOk []
  | x :: r => elet a := x in elet b := tl_concat r in EOk (a ++ b)
  end.
Fixpoint tl_marshal (fx : fixes) (fuel : nat) (rootLayer : bool) (s : slot) {struct fuel} : eres (list Z) :=
  match fuel with
  | O => EPanic
  | Datatypes.S f =>
    match s with
    | Slot t raw et kt path nlen arr =>
      let kids := firstn nlen arr in
      match kids with
      | [] => EOk raw
      | _ =>
        if t =? 11 then
          elet body := tl_concat (map (fun k =>
                          elet tg := (if (sl_t k =? T_LIST) || (sl_t k =? T_MAP) || (sl_t k =? 0) then EOk []
                                      else if tag_ok (path_id (sl_path k)) then EOk (lm_tag (path_id (sl_path k)) (wire_of_type0 (sl_t k)))
                                      else EPlain) in
                          elet o := tl_marshal fx f false k in EOk (tg ++ o)) kids) in
          EOk (if rootLayer then body else lm_len body)
        else if t =? T_LIST then
          let num := path_id path in
          if type_packed et then
            if negb (tag_ok num) then EPlain else
            elet body := tl_concat (map (tl_marshal fx f false) kids) in
            EOk (lm_tag num 2 ++ lm_len body)
          else
            tl_concat (map (fun k => if sl_t k =? T_LIST then EPanic          (* Type.TypeToKind panics on LIST *)
                                     else if negb (tag_ok num) then EPlain
                                     else elet o := tl_marshal fx f false k in EOk (lm_tag num (wire_of_type0 (sl_t k)) ++ o)) kids)
        else if t =? T_MAP then
          let num := path_id path in
          tl_concat (map (fun k =>
            if negb (tag_ok num) then EPlain else
            elet keyb :=
              (if kt =? 9 then EOk (lm_tag 1 2 ++ varint_enc (blen (path_str (sl_path k))) ++ path_str (sl_path k))
               else if is_int_type kt then
                 let x := path_int (sl_path k) in
                 let wt := wire_of_type kt in
                 EOk (lm_tag 1 wt ++ (if fx_sintkey fx && (kt =? 17) then varint_enc (zigzag_enc (to_s 32 (x mod 2 ^ 32)) mod 2 ^ 64)
                                      else if fx_sintkey fx && (kt =? 18) then varint_enc (zigzag_enc x mod 2 ^ 64)
                                      else if wt =? 0 then varint_enc (x mod 2 ^ 64)
                                      else if wt =? 5 then le_enc 4 (x mod 2 ^ 32) else le_enc 8 (x mod 2 ^ 64)))
               else EPlain) in
            let vtag := if (sl_t k =? T_LIST) || (sl_t k =? T_MAP) then [] else lm_tag 2 (wire_of_type0 et) in
            elet o := tl_marshal fx f false k in
            EOk (lm_tag num 2 ++ lm_len (keyb ++ vtag ++ o))) kids)
        else if existsb (Z.eqb t) [8; 5; 17; 13; 7; 15; 3; 18; 4; 6; 16; 2; 1; 9; 12; 0] then EOk raw
        else EPlain
      end
    end
  end.

(* the whole re-use sequence: (error class, bytes); None = the FIRST load fails (the harness emits no such case) *)
Definition coded_reuse (fx : fixes) (S : schema) (root : list Z) (bA bB : list Z) (recA recB : bool) (mode : Z)
  : option (eres (list Z)) :=
  let fuel := fun b : list Z => Datatypes.S (2 * length b) in
  match tl_load fx recA S bA root slot0 with
  | EOk tA =>
    Some (
    elet tB := tl_load fx recB S bB root tA in
    if mode =? 2 then
      elet _ := tl_marshal fx (fuel bB + fuel bA) true tB in
      elet tA2 := tl_load fx recA S bA root tB in
      tl_marshal fx (fuel bB + fuel bA) true tA2
    else tl_marshal fx (fuel bB + fuel bA) true tB)
  | _ => None
  end.

(* ---------------------------------------------------------------- defect classes (selectors on the case)
   ids are listed in findings/C10.json.  OPEN on the current tree (a deviation is accepted as KNOWN only if it equals the
   transcription under [cur_fixes]):
   1001 edit at / below a MAP VALUE: the enclosing map-entry length is never re-patched
   1002 insertion of an absent map key writes a malformed entry
   1005 a message emptied by the edit is removed together with its tag
   1008 recursive Load fails on maps keyed by fixed32 / fixed64 / bool
   1009 Marshal writes sint32 / sint64 map keys without zig-zag
   1011 SetByPath / UnsetByPath below an element of an unpacked list: the recorded address is BEHIND the element tag, so
        updateByteLen re-patches garbage instead of the element length
   1012 int-key step on a map keyed by fixed32 / fixed64: ReadInt has no case -> error
   REPAIRED upstream (kept as regression recognisers: a deviation that equals the transcription of the OLD code is
   reported under the old id, which is no longer an open finding, hence a violation):
   1003 list index addressing (index 0 of unpacked lists, index >= len found), 1004 `err.(Node)` panic,
   1006 SetMany / SkipAllElements on packed non-varint lists, 1007 Load rejects empty nested messages,
   1010 repeated / map runs scanned beyond the enclosing message *)
Definition is_key (s : pstep) : bool := pt_of_step s =? PT_KEY.
Definition is_index (s : pstep) : bool := pt_of_step s =? PT_INDEX.

(* the key kinds of the maps the path goes through with an int key *)
Fixpoint bad_intkey (S : schema) (lbl : flabel) (t : ftype) (p : list pstep) {struct p} : bool :=
  match p with
  | [] => false
  | st :: rest =>
    match lbl with
    | LSingular =>
      match t with
      | TMsg name =>
        match find_msg S name with
        | Some md => match (match st with PField id => find_field md id | PName s => by_name md s | _ => None end) with
                     | Some fd => bad_intkey S (fd_label fd) (fd_type fd) rest
                     | None => false
                     end
        | None => false
        end
      | TScalar _ => false
      end
    | LRepeated _ => bad_intkey S LSingular t rest
    | LMap kk =>
      match st with
      | PIntKey _ => (kk =? 6) || (kk =? 7) || (kk =? 8) || bad_intkey S LSingular t rest
      | _ => bad_intkey S LSingular t rest
      end
    end
  end.

Fixpoint first_container (p : list pstep) : Z :=
  match p with
  | [] => 0
  | s :: r => if is_key s then PT_KEY else if is_index s then PT_INDEX else first_container r
  end.

Fixpoint has_empty_msg (v : pval) : bool :=
  match v with
  | VMsg [] => true
  | VMsg fs => existsb (fun nv => has_empty_msg (snd nv)) fs
  | VList _ vs => existsb has_empty_msg vs
  | VMap kvs => existsb (fun kx => has_empty_msg (snd kx)) kvs
  | _ => false
  end.
Definition key_kind_of (k : mkey) : Z := match k with KInt kk _ => kk | KStr _ => 9 end.
Fixpoint has_key_kind (f : Z -> bool) (v : pval) : bool :=
  match v with
  | VMsg fs => existsb (fun nv => has_key_kind f (snd nv)) fs
  | VList _ vs => existsb (has_key_kind f) vs
  | VMap kvs => existsb (fun kx => f (key_kind_of (fst kx)) || has_key_kind f (snd kx)) kvs
  | _ => false
  end.

(* the repair state of the tree this branch is aligned with *)
Definition cur_fixes : fixes := all_fixes.

Definition cres_matches (o : cop) (r : cres) (err ex : Z) (res : list Z) : option bool :=      (* Some coded_ex *)
  match r with
  | CRes e x b =>
    if (err =? e) && bytes_eqb res b && (match o with CSet _ _ _ => (err =? 1) || (ex =? Z.b2z x) | _ => true end)
    then Some x else None
  | CPanic => if err =? 2 then Some true else None
  | CUnmodelled => None
  end.

Definition class_of (S : schema) (root : list Z) (o : cop) (coded_ex : bool) : Z :=
  match o with
  | CSetMany _ => 1006
  | CSet p _ _ | CUnset p =>
    if bad_intkey S LSingular (TMsg root) p then 1012
    else if (match o with CSet _ _ _ => true | _ => false end) && negb coded_ex &&
            match last_step p with Some s => is_key s | None => false end then 1002
    else if first_container p =? PT_KEY then 1001
    else if first_container p =? PT_INDEX then 1011
    else 1005
  end.
(* the class of a deviation that only the OLD code shows *)
Definition regress_class_of (S : schema) (root : list Z) (o : cop) : Z :=
  match o with
  | CSetMany _ => 1006
  | CSet p _ _ | CUnset p =>
    if bad_intkey S LSingular (TMsg root) p then 1004
    else if existsb is_index p then 1003
    else 1010
  end.

Definition known_class (S : schema) (root : list Z) (prev : list Z) (o : cop) (err ex : Z) (res : list Z) : option Z :=
  match cres_matches o (coded_op cur_fixes S root prev o) err ex res with
  | Some x => Some (class_of S root o x)
  | None =>
    (* regression recognisers: the tree before the six C10 repairs (d02f250), then the pinned tree *)
    match cres_matches o (coded_op pre_c10_fixes S root prev o) err ex res with
    | Some x => Some (class_of S root o x)
    | None =>
      match cres_matches o (coded_op no_fixes S root prev o) err ex res with
      | Some _ => Some (regress_class_of S root o)
      | None => None
      end
    end
  end.

(* does the transcription predict exactly what the implementation returned? (drift detection on conforming steps) *)
Definition coded_agrees (S : schema) (root : list Z) (prev : list Z) (o : cop) (err ex : Z) (res : list Z) : bool :=
  match coded_op cur_fixes S root prev o with
  | CUnmodelled => true
  | r => match cres_matches o r err ex res with Some _ => true | None => false end
  end.

Definition load_matches (r : eres (list Z)) (err : Z) (outb : list Z) : bool :=
  match r with
  | EOk o => (err =? 0) && bytes_eqb outb o
  | EPanic => err =? 2
  | _ => err =? 1
  end.

Definition known_load (S : schema) (root : list Z) (m0 : pmsg) (b0 : list Z) (rec err : Z) (outb : list Z) : option Z :=
  if negb (rec =? 1) then None else
  let v := VMsg m0 in
  let empty := existsb (fun nv => has_empty_msg (snd nv)) m0 in
  let badkey := has_key_kind (fun k => (k =? 6) || (k =? 7) || (k =? 8)) v in
  let sint := has_key_kind (fun k => (k =? 17) || (k =? 18)) v in
  if load_matches (coded_load_marshal cur_fixes S root b0) err outb then
    Some (if err =? 0 then (if sint then 1009 else 1010) else if badkey then 1008 else 1010)
  else if load_matches (coded_load_marshal pre_c10_fixes S root b0) err outb then
    Some (if err =? 0 then (if sint then 1009 else 1010) else if badkey then 1008 else 1010)
  else if load_matches (coded_load_marshal no_fixes S root b0) err outb then
    Some (if (err =? 1) && empty then 1007 else 1010)
  else None.

(* 1013 a recycled PathNode slot keeps the children (Next) of its previous occupant unless the new child is scanned
   recursively; Marshal re-encodes from them *)
Definition known_reuse (S : schema) (root : list Z) (bA bB : list Z) (recA recB mode err : Z) (outb : list Z) : option Z :=
  match coded_reuse cur_fixes S root bA bB (recA =? 1) (recB =? 1) mode with
  | Some r => if load_matches r err outb then Some 1013 else None
  | None => None
  end.
Definition reuse_agrees (S : schema) (root : list Z) (bA bB : list Z) (recA recB mode err : Z) (outb : list Z) : bool :=
  match coded_reuse cur_fixes S root bA bB (recA =? 1) (recB =? 1) mode with
  | Some r => load_matches r err outb
  | None => true
  end.
