(* Protobuf messages (proto3 subset): flat wire trees, schemas, typed message AST, canonical
   encoder (what protobuf-go emits: packed repeated scalars, one record per map pair) and a
   schema-directed decoder that accepts any field order, packed or unpacked repeated fields,
   last-wins singular scalars, merged singular sub-messages, replaced map keys, and skips unknown
   fields / fields whose wire type does not fit (as protobuf-go does).
   Model only - the proofs are in proofs/ProtoMsgProofs.v.
   Numbers are Z, bytes are list Z, names are byte strings, floats are their IEEE bit patterns. *)
From Coq Require Import ZArith List Bool.
From DG Require Import CaseFormat ProtoWireRef.
Import ListNotations.
Local Open Scope Z_scope.

Definition plen {A} (l : list A) : Z := Z.of_nat (length l).

(* ---------------------------------------------------------------- kinds (protoreflect.Kind numbers) *)
Definition K_DOUBLE := 1.  Definition K_FLOAT := 2.    Definition K_INT64 := 3.   Definition K_UINT64 := 4.
Definition K_INT32 := 5.   Definition K_FIXED64 := 6.  Definition K_FIXED32 := 7. Definition K_BOOL := 8.
Definition K_STRING := 9.  Definition K_MESSAGE := 11. Definition K_BYTES := 12.  Definition K_UINT32 := 13.
Definition K_ENUM := 14.   Definition K_SFIXED32 := 15. Definition K_SFIXED64 := 16.
Definition K_SINT32 := 17. Definition K_SINT64 := 18.

(* wire types: 0 varint, 1 fixed64, 2 length-delimited, 5 fixed32; -1 = not a kind *)
Definition wt_of_kind (k : Z) : Z :=
  if (k =? 3) || (k =? 4) || (k =? 5) || (k =? 8) || (k =? 13) || (k =? 14) || (k =? 17) || (k =? 18) then 0
  else if (k =? 1) || (k =? 6) || (k =? 16) then 1
  else if (k =? 2) || (k =? 7) || (k =? 15) then 5
  else if (k =? 9) || (k =? 11) || (k =? 12) then 2
  else -1.
Definition is_byteskind (k : Z) : bool := (k =? 9) || (k =? 12).
(* numeric scalar kinds (incl. bool and enum): the kinds that may be packed *)
Definition is_numeric (k : Z) : bool :=
  let w := wt_of_kind k in (w =? 0) || (w =? 1) || (w =? 5).

(* ---------------------------------------------------------------- wire level *)
Inductive wval := WVarint (v : Z) | WFix64 (v : Z) | WFix32 (v : Z) | WBytes (bs : list Z).
Definition wfield := (Z * wval)%type.            (* field number, value *)

Definition wt_of_wval (w : wval) : Z :=
  match w with WVarint _ => 0 | WFix64 _ => 1 | WBytes _ => 2 | WFix32 _ => 5 end.

Definition wenc_val (w : wval) : list Z :=
  match w with
  | WVarint v => varint_enc v
  | WFix64 v => le_enc 8 v
  | WFix32 v => le_enc 4 v
  | WBytes bs => varint_enc (plen bs) ++ bs
  end.
Definition wenc_field (f : wfield) : list Z :=
  varint_enc (fst f * 8 + wt_of_wval (snd f)) ++ wenc_val (snd f).
Definition wenc (w : list wfield) : list Z := flat_map wenc_field w.

Definition MAX_FIELD_NUMBER := 536870911.   (* 2^29 - 1 *)

Definition wf_wval (w : wval) : bool :=
  match w with
  | WVarint v => (0 <=? v) && (v <? 2 ^ 64)
  | WFix64 v => (0 <=? v) && (v <? 2 ^ 64)
  | WFix32 v => (0 <=? v) && (v <? 2 ^ 32)
  | WBytes bs => plen bs <? 2 ^ 64
  end.
Definition wf_wfield (f : wfield) : bool := (1 <=? fst f) && (fst f <=? MAX_FIELD_NUMBER) && wf_wval (snd f).
Definition wf_wire (w : list wfield) : bool := forallb wf_wfield w.

Definition take (n : Z) (bs : list Z) : option (list Z * list Z) :=
  if (0 <=? n) && (n <=? plen bs) then Some (firstn (Z.to_nat n) bs, skipn (Z.to_nat n) bs) else None.

(* one value of wire type wt at the head of bs *)
Definition wdec_val (wt : Z) (bs : list Z) : option (wval * list Z) :=
  if wt =? 0 then
    let '(v, n) := varint_dec bs in
    if n <? 0 then None else Some (WVarint v, skipn (Z.to_nat n) bs)
  else if wt =? 1 then
    match take 8 bs with Some (x, r) => Some (WFix64 (le_dec 8 x), r) | None => None end
  else if wt =? 5 then
    match take 4 bs with Some (x, r) => Some (WFix32 (le_dec 4 x), r) | None => None end
  else if wt =? 2 then
    let '(l, n) := varint_dec bs in
    if n <? 0 then None
    else match take l (skipn (Z.to_nat n) bs) with Some (x, r) => Some (WBytes x, r) | None => None end
  else None.      (* groups (3/4) and 6/7 are rejected *)

(* tag + value *)
Definition wdec_field (bs : list Z) : option (wfield * list Z) :=
  let '(tag, n) := varint_dec bs in
  if n <? 0 then None
  else
    let num := tag / 8 in
    if (num <? 1) || (num >? MAX_FIELD_NUMBER) then None
    else match wdec_val (tag mod 8) (skipn (Z.to_nat n) bs) with
         | Some (v, r) => Some ((num, v), r)
         | None => None
         end.

(* all fields up to the end of the buffer; every field consumes a byte, so fuel = length suffices *)
Fixpoint wdec_loop (fuel : nat) (bs : list Z) : option (list wfield) :=
  match bs with
  | [] => Some []
  | _ :: _ =>
    match fuel with
    | O => None
    | S f =>
      match wdec_field bs with
      | None => None
      | Some (fl, r) => match wdec_loop f r with Some w => Some (fl :: w) | None => None end
      end
    end
  end.
Definition wdec (bs : list Z) : option (list wfield) := wdec_loop (length bs) bs.

(* ---------------------------------------------------------------- schema *)
Inductive ftype := TScalar (k : Z) | TMsg (name : list Z).
(* LRepeated p: p = the field is declared packed (proto3 default for numeric kinds) *)
Inductive flabel := LSingular | LRepeated (packed : bool) | LMap (keykind : Z).
Record fdesc := mk_fdesc { fd_num : Z; fd_name : list Z; fd_json : list Z; fd_label : flabel; fd_type : ftype }.
Record mdesc := mk_mdesc { md_name : list Z; md_fields : list fdesc }.
Definition schema := list mdesc.

Definition find_msg (S : schema) (name : list Z) : option mdesc :=
  find (fun m => bytes_eqb (md_name m) name) S.
Definition find_field (md : mdesc) (n : Z) : option fdesc :=
  find (fun f => fd_num f =? n) (md_fields md).
Definition find_field_name (md : mdesc) (s : list Z) : option fdesc :=
  find (fun f => bytes_eqb (fd_name f) s || bytes_eqb (fd_json f) s) (md_fields md).

Definition type_numeric (t : ftype) : bool := match t with TScalar k => is_numeric k | TMsg _ => false end.
Definition kind_of_type (t : ftype) : Z := match t with TScalar k => k | TMsg _ => K_MESSAGE end.

(* ---------------------------------------------------------------- typed AST *)
Inductive mkey := KInt (k : Z) (v : Z) | KStr (bs : list Z).
Inductive pval :=
| VScalar (k : Z) (v : Z)            (* numeric kinds, bool (0/1), enum; float/double as IEEE bits *)
| VBytes (k : Z) (bs : list Z)       (* k = 9 string | 12 bytes *)
| VMsg (fs : list (Z * pval))        (* (field number, value) in wire order *)
| VList (packed : bool) (vs : list pval)
| VMap (kvs : list (mkey * pval)).
Definition pmsg := list (Z * pval).

Definition mkey_eqb (a b : mkey) : bool :=
  match a, b with
  | KInt k x, KInt k' y => (k =? k') && (x =? y)
  | KStr x, KStr y => bytes_eqb x y
  | _, _ => false
  end.

(* ---- scalar <-> wire value *)
Definition scalar_to_wire (k v : Z) : wval :=
  if (k =? 17) || (k =? 18) then WVarint (zigzag_enc v)
  else if wt_of_kind k =? 0 then WVarint (v mod 2 ^ 64)     (* negative int32/int64/enum: sign-extended to 64 bits *)
  else if wt_of_kind k =? 1 then WFix64 (v mod 2 ^ 64)
  else WFix32 (v mod 2 ^ 32).

(* from the unsigned number on the wire, as protobuf-go converts it *)
Definition scalar_of_u (k u : Z) : Z :=
  if (k =? 5) || (k =? 14) || (k =? 15) then to_s 32 u
  else if (k =? 3) || (k =? 16) then to_s 64 u
  else if k =? 13 then u mod 2 ^ 32
  else if k =? 8 then (if u =? 0 then 0 else 1)
  else if k =? 17 then zigzag_dec (u mod 2 ^ 32)
  else if k =? 18 then zigzag_dec u
  else u.                                  (* uint64, fixed32, fixed64, float, double *)

Definition scalar_of_wire (k : Z) (w : wval) : option Z :=
  if is_numeric k && (wt_of_wval w =? wt_of_kind k) then
    match w with
    | WVarint u => Some (scalar_of_u k u)
    | WFix64 u => Some (scalar_of_u k u)
    | WFix32 u => Some (scalar_of_u k u)
    | WBytes _ => None
    end
  else None.

Definition in_sb (k : Z) (z : Z) : bool := (- 2 ^ (k - 1) <=? z) && (z <? 2 ^ (k - 1)).
Definition in_ub (k : Z) (z : Z) : bool := (0 <=? z) && (z <? 2 ^ k).
Definition scalar_okb (k v : Z) : bool :=
  if (k =? 5) || (k =? 14) || (k =? 15) || (k =? 17) then in_sb 32 v
  else if (k =? 3) || (k =? 16) || (k =? 18) then in_sb 64 v
  else if (k =? 13) || (k =? 7) || (k =? 2) then in_ub 32 v
  else if (k =? 4) || (k =? 6) || (k =? 1) then in_ub 64 v
  else if k =? 8 then (v =? 0) || (v =? 1)
  else false.

(* ---- canonical encoder (no schema needed: the AST carries kinds and packedness) *)
Definition key_field (k : mkey) : wfield :=
  match k with KInt kk v => (1, scalar_to_wire kk v) | KStr bs => (1, WBytes bs) end.
Definition packed_elem (v : pval) : list Z :=
  match v with VScalar k x => wenc_val (scalar_to_wire k x) | _ => [] end.

(* the wire records of field number n holding v *)
Fixpoint wfld (n : Z) (v : pval) {struct v} : list wfield :=
  match v with
  | VScalar k x => [(n, scalar_to_wire k x)]
  | VBytes _ bs => [(n, WBytes bs)]
  | VMsg fs => [(n, WBytes (wenc (flat_map (fun nv => wfld (fst nv) (snd nv)) fs)))]
  | VList true vs => [(n, WBytes (flat_map packed_elem vs))]
  | VList false vs => flat_map (fun x => wfld n x) vs
  | VMap kvs => map (fun kx => (n, WBytes (wenc (key_field (fst kx) :: wfld 2 (snd kx))))) kvs
  end.
Definition msg_wire (fs : pmsg) : list wfield := flat_map (fun nv => wfld (fst nv) (snd nv)) fs.
Definition encode_msg (fs : pmsg) : list Z := wenc (msg_wire fs).
(* the bytes of a sub-value as they appear after its tag (length prefix included for len-delimited) *)
Definition encode_elem (v : pval) : list Z :=
  match wfld 1 v with [(_, w)] => wenc_val w | _ => [] end.

(* ---------------------------------------------------------------- grouping by field number *)
Definition groups := list (Z * list wval).
Fixpoint gvals (n : Z) (g : groups) : list wval :=
  match g with [] => [] | (m, vs) :: r => if m =? n then vs else gvals n r end.
Fixpoint gremove (n : Z) (g : groups) : groups :=
  match g with [] => [] | (m, vs) :: r => if m =? n then r else (m, vs) :: gremove n r end.
(* order of first occurrence; the values of one number in wire order *)
Fixpoint group (w : list wfield) : groups :=
  match w with
  | [] => []
  | (n, v) :: r => let g := group r in (n, v :: gvals n g) :: gremove n g
  end.

(* ---------------------------------------------------------------- typed decoder *)
(* the last element on which f is defined *)
Definition last_some {A B} (f : A -> option B) (l : list A) : option B :=
  fold_left (fun acc x => match f x with Some y => Some y | None => acc end) l None.

Fixpoint flat_map_opt {A B} (f : A -> option (list B)) (l : list A) : option (list B) :=
  match l with
  | [] => Some []
  | x :: r => match f x, flat_map_opt f r with Some a, Some b => Some (a ++ b) | _, _ => None end
  end.

(* the elements of a packed payload *)
Fixpoint unpack (fuel : nat) (k : Z) (bs : list Z) : option (list Z) :=
  match bs with
  | [] => Some []
  | _ :: _ =>
    match fuel with
    | O => None
    | S f =>
      match wdec_val (wt_of_kind k) bs with
      | None => None
      | Some (w, r) =>
        match scalar_of_wire k w, unpack f k r with
        | Some x, Some xs => Some (x :: xs)
        | _, _ => None
        end
      end
    end
  end.

(* one wire record of a repeated numeric field: a packed run, one element, or (wrong wire type) nothing *)
Definition rep_scalar_vals (k : Z) (v : wval) : option (list Z) :=
  match v with
  | WBytes bs => unpack (length bs) k bs
  | _ => match scalar_of_wire k v with Some x => Some [x] | None => Some [] end
  end.

Definition payloads (vs : list wval) : list (list Z) :=
  flat_map (fun v => match v with WBytes b => [b] | _ => [] end) vs.

Fixpoint upsert (k : mkey) (v : pval) (l : list (mkey * pval)) : list (mkey * pval) :=
  match l with
  | [] => [(k, v)]
  | (k', v') :: r => if mkey_eqb k k' then (k, v) :: r else (k', v') :: upsert k v r
  end.

Section Typed.
  (* decoder of a named message at the next smaller nesting fuel *)
  Variable rec : list Z -> list Z -> option pmsg.

  (* None = malformed; Some None = absent *)
  Definition dec_single (t : ftype) (vs : list wval) : option (option pval) :=
    match t with
    | TScalar k =>
      if is_byteskind k
      then Some (last_some (fun v => match v with WBytes b => Some (VBytes k b) | _ => None end) vs)
      else Some (last_some (fun v => match scalar_of_wire k v with Some x => Some (VScalar k x) | None => None end) vs)
    | TMsg name =>
      match payloads vs with
      | [] => Some None
      | ps => match rec name (concat ps) with Some fs => Some (Some (VMsg fs)) | None => None end   (* merge = decode the concatenation *)
      end
    end.

  Definition dec_elems (t : ftype) (vs : list wval) : option (list pval) :=
    match t with
    | TScalar k =>
      if is_byteskind k
      then Some (flat_map (fun v => match v with WBytes b => [VBytes k b] | _ => [] end) vs)
      else match flat_map_opt (rep_scalar_vals k) vs with
           | Some xs => Some (map (VScalar k) xs)
           | None => None
           end
    | TMsg name =>
      flat_map_opt (fun v => match v with
                             | WBytes b => match rec name b with Some fs => Some [VMsg fs] | None => None end
                             | _ => Some []
                             end) vs
    end.

  Definition default_val (t : ftype) : pval :=
    match t with
    | TScalar k => if is_byteskind k then VBytes k [] else VScalar k 0
    | TMsg _ => VMsg []
    end.

  Definition dec_key (kk : Z) (vs : list wval) : mkey :=
    if kk =? 9
    then match last_some (fun v => match v with WBytes b => Some b | _ => None end) vs with
         | Some b => KStr b | None => KStr [] end
    else match last_some (scalar_of_wire kk) vs with
         | Some x => KInt kk x | None => KInt kk 0 end.

  Definition dec_entry (kk : Z) (t : ftype) (payload : list Z) : option (mkey * pval) :=
    match wdec payload with
    | None => None
    | Some w =>
      let g := group w in
      match dec_single t (gvals 2 g) with
      | None => None
      | Some ov => Some (dec_key kk (gvals 1 g), match ov with Some v => v | None => default_val t end)
      end
    end.

  Definition dec_map (kk : Z) (t : ftype) (vs : list wval) : option (list (mkey * pval)) :=
    fold_left (fun acc v =>
                 match acc with
                 | None => None
                 | Some l =>
                   match v with
                   | WBytes b => match dec_entry kk t b with Some (k, x) => Some (upsert k x l) | None => None end
                   | _ => Some l
                   end
                 end) vs (Some []).

  Definition dec_field (fd : fdesc) (vs : list wval) : option (option pval) :=
    match fd_label fd with
    | LSingular => dec_single (fd_type fd) vs
    | LRepeated p =>
      match dec_elems (fd_type fd) vs with
      | None => None
      | Some [] => Some None
      | Some es => Some (Some (VList (p && type_numeric (fd_type fd)) es))
      end
    | LMap kk =>
      match dec_map kk (fd_type fd) vs with
      | None => None
      | Some [] => Some None
      | Some kvs => Some (Some (VMap kvs))
      end
    end.

  Fixpoint dec_groups (md : mdesc) (g : groups) : option pmsg :=
    match g with
    | [] => Some []
    | (n, vs) :: r =>
      match find_field md n with
      | None => dec_groups md r                       (* unknown field: skipped *)
      | Some fd =>
        match dec_field fd vs, dec_groups md r with
        | Some (Some v), Some fs => Some ((n, v) :: fs)
        | Some None, Some fs => Some fs
        | _, _ => None
        end
      end
    end.
End Typed.

(* fuel bounds the message nesting depth *)
Fixpoint decode_msg (S : schema) (fuel : nat) (name : list Z) (bs : list Z) : option pmsg :=
  match fuel with
  | O => None
  | Datatypes.S f =>
    match find_msg S name with
    | None => None
    | Some md =>
      match wdec bs with
      | None => None
      | Some w => dec_groups (decode_msg S f) md (group w)
      end
    end
  end.
(* nesting is bounded by the input length (every level costs at least a tag and a length byte) *)
Definition decode_top (S : schema) (name : list Z) (bs : list Z) : option pmsg :=
  decode_msg S (Datatypes.S (length bs)) name bs.

(* ---------------------------------------------------------------- well-formedness w.r.t. a schema (boolean) *)
Definition is_nil {A} (l : list A) : bool := match l with [] => true | _ => false end.
Fixpoint nodupb {A} (eqb : A -> A -> bool) (l : list A) : bool :=
  match l with [] => true | x :: r => negb (existsb (eqb x) r) && nodupb eqb r end.

Definition key_okb (kk : Z) (k : mkey) : bool :=
  match k with
  | KInt k' v => (k' =? kk) && is_numeric kk && scalar_okb kk v
  | KStr bs => (kk =? 9) && (plen bs <? 2 ^ 64)
  end.

(* v is a legal content of a field with label lbl and type t (LSingular also stands for "one element") *)
Fixpoint wf_fld (S : schema) (lbl : flabel) (t : ftype) (v : pval) {struct v} : bool :=
  match lbl with
  | LSingular =>
    match v with
    | VScalar k x => match t with TScalar k' => (k =? k') && is_numeric k && scalar_okb k x | TMsg _ => false end
    | VBytes k b => match t with TScalar k' => (k =? k') && is_byteskind k && (plen b <? 2 ^ 64) | TMsg _ => false end
    | VMsg fs =>
      match t with
      | TMsg name =>
        match find_msg S name with
        | Some md =>
          nodupb Z.eqb (map fst fs) &&
          (plen (wenc (flat_map (fun nv => wfld (fst nv) (snd nv)) fs)) <? 2 ^ 64) &&
          forallb (fun nv => match find_field md (fst nv) with
                             | Some fd => (1 <=? fst nv) && (fst nv <=? MAX_FIELD_NUMBER) &&
                                          wf_fld S (fd_label fd) (fd_type fd) (snd nv)
                             | None => false
                             end) fs
        | None => false
        end
      | TScalar _ => false
      end
    | _ => false
    end
  | LRepeated p =>
    match v with
    | VList q vs =>
      Bool.eqb q (p && type_numeric t) && negb (is_nil vs) &&
      (negb q || (plen (flat_map packed_elem vs) <? 2 ^ 64)) &&
      forallb (fun x => wf_fld S LSingular t x) vs
    | _ => false
    end
  | LMap kk =>
    match v with
    | VMap kvs =>
      negb (is_nil kvs) && nodupb mkey_eqb (map fst kvs) &&
      forallb (fun kx => key_okb kk (fst kx) && wf_fld S LSingular t (snd kx) &&
                         (plen (wenc (key_field (fst kx) :: wfld 2 (snd kx))) <? 2 ^ 64)) kvs
    | _ => false
    end
  end.

Definition wf_msg (S : schema) (name : list Z) (fs : pmsg) : bool := wf_fld S LSingular (TMsg name) (VMsg fs).

(* message nesting depth *)
Fixpoint depth (v : pval) : nat :=
  match v with
  | VMsg fs => Datatypes.S (fold_right (fun nv m => Nat.max (depth (snd nv)) m) O fs)
  | VList _ vs => fold_right (fun x m => Nat.max (depth x) m) O vs
  | VMap kvs => fold_right (fun kx m => Nat.max (depth (snd kx)) m) O kvs
  | _ => O
  end.

(* ---------------------------------------------------------------- order-insensitive comparison (cross-checks against the reference) *)
Fixpoint assoc_z {B} (n : Z) (l : list (Z * B)) : option B :=
  match l with [] => None | (m, x) :: r => if m =? n then Some x else assoc_z n r end.
Fixpoint assoc_key {B} (k : mkey) (l : list (mkey * B)) : option B :=
  match l with [] => None | (m, x) :: r => if mkey_eqb m k then Some x else assoc_key k r end.

Fixpoint pval_eqv (a b : pval) {struct a} : bool :=
  match a, b with
  | VScalar k x, VScalar k' y => (k =? k') && (x =? y)
  | VBytes k x, VBytes k' y => (k =? k') && bytes_eqb x y
  | VMsg fs, VMsg gs =>
    (length fs =? length gs)%nat &&
    forallb (fun nv => match assoc_z (fst nv) gs with Some y => pval_eqv (snd nv) y | None => false end) fs
  | VList p xs, VList q ys =>
    Bool.eqb p q &&
    (fix go (l : list pval) (m : list pval) {struct l} : bool :=
       match l, m with
       | [], [] => true
       | x :: l', y :: m' => pval_eqv x y && go l' m'
       | _, _ => false
       end) xs ys
  | VMap kvs, VMap lws =>
    (length kvs =? length lws)%nat &&
    forallb (fun kx => match assoc_key (fst kx) lws with Some y => pval_eqv (snd kx) y | None => false end) kvs
  | _, _ => false
  end.
