(* Generic reads on Thrift values.
   Spec level: lookup on the decoded AST with the byte offset of the addressed element.
   Algorithm level: get_by_path over BYTES by chained skip (mirrors thrift/generic/node.go searchXxx). *)
From Coq Require Import ZArith List Bool.
From DG Require Import ProtoWireRef ThriftWire CaseFormat.
Import ListNotations.
Local Open Scope Z_scope.

Inductive pstep := PField (id : Z) | PIndex (i : Z) | PStrKey (s : list Z) | PIntKey (k : Z) | PBinKey (b : list Z).

(* result of a lookup: found sub-value at byte offset [off] of the root's encoding *)
Inductive lres := LFound (sub : tval) (off : Z) | LNotFound | LErr.

Definition is_int_type (t : Z) : bool := (t =? T_BYTE) || (t =? T_I16) || (t =? T_I32) || (t =? T_I64).

Fixpoint find_field (id : Z) (fs : list (Z * tval)) (off : Z) : lres :=
  match fs with
  | [] => LNotFound
  | f :: r => if fst f =? id then LFound (snd f) (off + 3) else find_field id r (off + 3 + zlen (encode (snd f)))
  end.

Fixpoint find_index (n : nat) (es : list tval) (off : Z) : lres :=
  match es with
  | [] => LNotFound
  | x :: r => match n with O => LFound x off | S n' => find_index n' r (off + zlen (encode x)) end
  end.

Fixpoint find_key (p : tval -> bool) (es : list (tval * tval)) (off : Z) : lres :=
  match es with
  | [] => LNotFound
  | e :: r => if p (fst e) then LFound (snd e) (off + zlen (encode (fst e)))
              else find_key p r (off + zlen (encode (fst e)) + zlen (encode (snd e)))
  end.

(* integer image of a key as the code reads it (ReadInt): I08 goes through an unsigned byte *)
Definition int_of_key (k : tval) : option Z :=
  match k with
  | VByte z => Some (z mod 256)
  | VI16 z => Some z | VI32 z => Some z | VI64 z => Some z
  | _ => None
  end.

Definition str_key_is (s : list Z) (k : tval) : bool := match k with VString x => bytes_eqb x s | _ => false end.
Definition int_key_is (n : Z) (k : tval) : bool := match int_of_key k with Some z => z =? n | None => false end.
Definition bin_key_is (b : list Z) (k : tval) : bool := bytes_eqb (encode k) b.

Definition lookup1 (v : tval) (s : pstep) : lres :=
  match s, v with
  | PField id, VStruct fs => find_field id fs 0
  | PIndex i, VList _ es => if i <? 0 then LErr else find_index (Z.to_nat i) es 5
  | PIndex i, VSet _ es => if i <? 0 then LErr else find_index (Z.to_nat i) es 5
  | PStrKey s, VMap kt _ es => if kt =? T_STRING then find_key (str_key_is s) es 6 else LErr
  | PIntKey n, VMap kt _ es => if is_int_type kt then find_key (int_key_is n) es 6 else LErr
  | PBinKey b, VMap _ _ es => find_key (bin_key_is b) es 6
  | _, _ => LErr
  end.

(* whole path; offsets accumulate; an absent element anywhere is NotFound, a kind mismatch is Err *)
Fixpoint lookup (v : tval) (off : Z) (p : list pstep) : lres :=
  match p with
  | [] => LFound v off
  | s :: p' =>
    match lookup1 v s with
    | LFound sub o => lookup sub (off + o) p'
    | r => r
    end
  end.

(* ---------------- algorithm level: over bytes, by chained skip ---------------- *)

(* result of the byte-level search: type of the element, offset of its first byte, remaining bytes from there *)
Inductive sres := SFound (t : Z) (off : Z) (rest : list Z) | SNotFound | SErr.

Fixpoint search_field (fuel : nat) (id : Z) (bs : list Z) (off : Z) : sres :=
  match fuel with
  | O => SErr
  | S f =>
    match bs with
    | [] => SErr
    | t :: r =>
      if t =? 0 then SNotFound
      else match take 2 r with
           | None => SErr
           | Some (idb, r2) =>
             if dec_int idb =? id then SFound t (off + 3) r2
             else match skip_go t r2 with
                  | None => SErr
                  | Some r3 => search_field f id r3 (off + 3 + (zlen r2 - zlen r3))
                  end
           end
    end
  end.

Fixpoint search_nth (n : nat) (et : Z) (bs : list Z) (off : Z) : sres :=
  match n with
  | O => SFound et off bs
  | S n' => match skip_go et bs with
            | None => SErr
            | Some r => search_nth n' et r (off + (zlen bs - zlen r))
            end
  end.

Definition search_index (i : Z) (bs : list Z) : sres :=
  match bs with
  | et :: r =>
    match skip_count r with
    | None => SErr
    | Some (sz, r2) => if i <? 0 then SErr else if i >=? sz then SNotFound else search_nth (Z.to_nat i) et r2 5
    end
  | [] => SErr
  end.

(* generic key loop: [rdkey] reads one key and says whether it matches *)
Fixpoint search_pairs (n : nat) (rdkey : list Z -> option (bool * list Z)) (vt : Z) (bs : list Z) (off : Z) : sres :=
  match n with
  | O => SNotFound
  | S n' =>
    match rdkey bs with
    | None => SErr
    | Some (hit, r) =>
      let off' := off + (zlen bs - zlen r) in
      if hit then SFound vt off' r
      else match skip_go vt r with
           | None => SErr
           | Some r2 => search_pairs n' rdkey vt r2 (off' + (zlen r - zlen r2))
           end
    end
  end.

Definition rd_str_key (s : list Z) (bs : list Z) : option (bool * list Z) :=
  match dec_scalar T_STRING bs with
  | Some (VString x, r) => Some (bytes_eqb x s, r)
  | _ => None
  end.

Definition rd_int_key (kt n : Z) (bs : list Z) : option (bool * list Z) :=
  match dec_scalar kt bs with
  | Some (k, r) => match int_of_key k with Some z => Some (z =? n, r) | None => None end
  | None => None
  end.

Definition rd_bin_key (kt : Z) (b : list Z) (bs : list Z) : option (bool * list Z) :=
  match skip_go kt bs with
  | Some r => Some (bytes_eqb (firstn (length bs - length r) bs) b, r)
  | None => None
  end.

Definition search_map (s : pstep) (bs : list Z) : sres :=
  match bs with
  | kt :: vt :: r =>
    match skip_count r with
    | None => SErr
    | Some (sz, r2) =>
      let n := Z.to_nat (Z.min sz (zlen r2 + 1)) in
      match s with
      | PStrKey k => if kt =? T_STRING then search_pairs n (rd_str_key k) vt r2 6 else SErr
      | PIntKey k => if is_int_type kt then search_pairs n (rd_int_key kt k) vt r2 6 else SErr
      | PBinKey k => search_pairs n (rd_bin_key kt k) vt r2 6
      | _ => SErr
      end
    end
  | _ => SErr
  end.

Definition search1 (t : Z) (s : pstep) (bs : list Z) : sres :=
  match s with
  | PField id => if t =? T_STRUCT then search_field (S (length bs)) id bs 0 else SErr
  | PIndex i => if (t =? T_LIST) || (t =? T_SET) then search_index i bs else SErr
  | _ => if t =? T_MAP then search_map s bs else SErr
  end.

(* get_by_path: returns (type, start, end) offsets into the root buffer *)
Inductive gres := GFound (t : Z) (s e : Z) | GNotFound | GErr.

Fixpoint get_by_path (t : Z) (bs : list Z) (off : Z) (p : list pstep) : gres :=
  match p with
  | [] => match skip_go t bs with
          | Some r => GFound t off (off + (zlen bs - zlen r))
          | None => GErr
          end
  | s :: p' =>
    match search1 t s bs with
    | SFound t' o rest => get_by_path t' rest (off + o) p'
    | SNotFound => GNotFound
    | SErr => GErr
    end
  end.

(* children of a container with their spans (spec level) *)
Fixpoint spans_fields (fs : list (Z * tval)) (off : Z) : list (Z * Z * Z * Z) :=  (* id, type, start, end *)
  match fs with
  | [] => []
  | f :: r => let l := zlen (encode (snd f)) in (fst f, type_of (snd f), off + 3, off + 3 + l) :: spans_fields r (off + 3 + l)
  end.
Fixpoint spans_elems (es : list tval) (off : Z) : list (Z * Z * Z) :=               (* type, start, end *)
  match es with
  | [] => []
  | x :: r => let l := zlen (encode x) in (type_of x, off, off + l) :: spans_elems r (off + l)
  end.
Fixpoint spans_pairs (es : list (tval * tval)) (off : Z) : list (Z * Z * Z * Z) :=  (* key start, value type, value start, value end *)
  match es with
  | [] => []
  | e :: r => let lk := zlen (encode (fst e)) in let lv := zlen (encode (snd e)) in
              (off, type_of (snd e), off + lk, off + lk + lv) :: spans_pairs r (off + lk + lv)
  end.
