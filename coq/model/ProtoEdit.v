(* C10, spec level: SetByPath / UnsetByPath / SetMany of proto/generic on the typed message AST of
   ProtoMsg.v, and the PathNode tree (Load / Marshal) with speculative lengths.
   Model only - theorems in proofs/ProtoEditProofs.v. *)
From Coq Require Import ZArith List Bool.
From DG Require Import CaseFormat ProtoWireRef ProtoMsg ProtoSpecLen.
Import ListNotations.
Local Open Scope Z_scope.

(* ---------------------------------------------------------------- paths *)
Inductive pstep :=
| PField (n : Z)            (* NewPathFieldId *)
| PName (s : list Z)        (* NewPathFieldName *)
| PIndex (i : Z)            (* NewPathIndex *)
| PStrKey (k : list Z)      (* NewPathStrKey *)
| PIntKey (k : Z).          (* NewPathIntKey: the Go int (two's complement 64 bit image of the key) *)

Definition resolve_field (md : mdesc) (st : pstep) : option fdesc :=
  match st with
  | PField n => find_field md n
  | PName s => find (fun f => bytes_eqb (fd_name f) s) (md_fields md)
  | _ => None
  end.

(* the map key a step denotes for key kind kk: int keys are given as the Go int image *)
Definition key_of_step (kk : Z) (st : pstep) : option mkey :=
  match st with
  | PStrKey b => if kk =? 9 then Some (KStr b) else None
  | PIntKey k => if (kk =? 9) || (kk =? 8) || negb (is_numeric kk) then None     (* bool keys cannot be addressed by the API *)
                 else
                   let u := k mod 2 ^ 64 in
                   Some (KInt kk (if kk =? 17 then to_s 32 u else if kk =? 18 then to_s 64 u else scalar_of_u kk u))
  | _ => None
  end.

Fixpoint set_assoc {B} (n : Z) (x : B) (l : list (Z * B)) : list (Z * B) :=
  match l with [] => [] | (m, y) :: r => if m =? n then (m, x) :: r else (m, y) :: set_assoc n x r end.
Fixpoint del_assoc {B} (n : Z) (l : list (Z * B)) : list (Z * B) :=
  match l with [] => [] | (m, y) :: r => if m =? n then r else (m, y) :: del_assoc n r end.
Fixpoint set_key {B} (k : mkey) (x : B) (l : list (mkey * B)) : list (mkey * B) :=
  match l with [] => [] | (m, y) :: r => if mkey_eqb m k then (m, x) :: r else (m, y) :: set_key k x r end.
Fixpoint del_key {B} (k : mkey) (l : list (mkey * B)) : list (mkey * B) :=
  match l with [] => [] | (m, y) :: r => if mkey_eqb m k then r else (m, y) :: del_key k r end.
Fixpoint set_nth {B} (i : nat) (x : B) (l : list B) : list B :=
  match l, i with [], _ => [] | _ :: r, O => x :: r | y :: r, S j => y :: set_nth j x r end.
Fixpoint del_nth {B} (i : nat) (l : list B) : list B :=
  match l, i with [], _ => [] | _ :: r, O => r | y :: r, S j => y :: del_nth j r end.

(* ---------------------------------------------------------------- set
   v is the content of a field of label lbl / type t; the path addresses a descendant of v.
   Result: new content and "existed".  None = error (unknown field, step of the wrong kind, an
   inner step that addresses nothing, a sub value of the wrong shape). *)
Fixpoint pset_at (S : schema) (lbl : flabel) (t : ftype) (v : pval) (p : list pstep) (x : pval)
  {struct p} : option (pval * bool) :=
  match p with
  | [] => if wf_fld S lbl t x then Some (x, true) else None
  | st :: rest =>
    match lbl, v with
    | LSingular, VMsg fs =>
      match t with
      | TMsg name =>
        match find_msg S name with
        | Some md =>
          match resolve_field md st with
          | Some fd =>
            match assoc_z (fd_num fd) fs with
            | Some child =>
              match pset_at S (fd_label fd) (fd_type fd) child rest x with
              | Some (c', e) => Some (VMsg (set_assoc (fd_num fd) c' fs), e)
              | None => None
              end
            | None =>
              match rest with
              | [] => if wf_fld S (fd_label fd) (fd_type fd) x then Some (VMsg (fs ++ [(fd_num fd, x)]), false) else None
              | _ => None
              end
            end
          | None => None
          end
        | None => None
        end
      | TScalar _ => None
      end
    | LRepeated _, VList pk vs =>
      match st with
      | PIndex i =>
        if i <? 0 then None
        else if i <? plen vs then
          match nth_error vs (Z.to_nat i) with
          | Some child =>
            match pset_at S LSingular t child rest x with
            | Some (c', e) => Some (VList pk (set_nth (Z.to_nat i) c' vs), e)
            | None => None
            end
          | None => None
          end
        else match rest with
             | [] => if wf_fld S LSingular t x then Some (VList pk (vs ++ [x]), false) else None   (* index past the end = append *)
             | _ => None
             end
      | _ => None
      end
    | LMap kk, VMap kvs =>
      match key_of_step kk st with
      | Some k =>
        match assoc_key k kvs with
        | Some child =>
          match pset_at S LSingular t child rest x with
          | Some (c', e) => Some (VMap (set_key k c' kvs), e)
          | None => None
          end
        | None =>
          match rest with
          | [] => if wf_fld S LSingular t x && key_okb kk k then Some (VMap (kvs ++ [(k, x)]), false) else None
          | _ => None
          end
        end
      | None => None
      end
    | _, _ => None
    end
  end.

(* the empty path replaces the root (type check only); the result must stay a legal message *)
Definition pset (S : schema) (root : list Z) (m : pmsg) (p : list pstep) (x : pval) : option (pmsg * bool) :=
  match pset_at S LSingular (TMsg root) (VMsg m) p x with
  | Some (VMsg m', e) => if wf_msg S root m' then Some (m', e) else None
  | _ => None
  end.

(* ---------------------------------------------------------------- unset
   Some (Some v') removed -> content v'; Some None -> the field itself disappears (last element of a list,
   last entry of a map); None = the path addresses nothing / error *)
Inductive unres := UErr | UAbsent | UGone | UNew (v : pval).

Fixpoint punset_at (S : schema) (lbl : flabel) (t : ftype) (v : pval) (p : list pstep) {struct p} : unres :=
  match p with
  | [] => UGone
  | st :: rest =>
    match lbl, v with
    | LSingular, VMsg fs =>
      match t with
      | TMsg name =>
        match find_msg S name with
        | Some md =>
          match resolve_field md st with
          | Some fd =>
            match assoc_z (fd_num fd) fs with
            | Some child =>
              match punset_at S (fd_label fd) (fd_type fd) child rest with
              | UGone => UNew (VMsg (del_assoc (fd_num fd) fs))
              | UNew c' => UNew (VMsg (set_assoc (fd_num fd) c' fs))
              | r => r
              end
            | None => match rest with [] => UAbsent | _ => UErr end
            end
          | None => UErr
          end
        | None => UErr
        end
      | TScalar _ => UErr
      end
    | LRepeated _, VList pk vs =>
      match st with
      | PIndex i =>
        if (0 <=? i) && (i <? plen vs) then
          match nth_error vs (Z.to_nat i) with
          | Some child =>
            match punset_at S LSingular t child rest with
            | UGone => match del_nth (Z.to_nat i) vs with [] => UGone | vs' => UNew (VList pk vs') end
            | UNew c' => UNew (VList pk (set_nth (Z.to_nat i) c' vs))
            | r => r
            end
          | None => UErr
          end
        else match rest with [] => UAbsent | _ => UErr end
      | _ => UErr
      end
    | LMap kk, VMap kvs =>
      match key_of_step kk st with
      | Some k =>
        match assoc_key k kvs with
        | Some child =>
          match punset_at S LSingular t child rest with
          | UGone => match del_key k kvs with [] => UGone | kvs' => UNew (VMap kvs') end
          | UNew c' => UNew (VMap (set_key k c' kvs))
          | r => r
          end
        | None => match rest with [] => UAbsent | _ => UErr end
        end
      | None => UErr
      end
    | _, _ => UErr
    end
  end.

(* Some (m', removed) ; None = error *)
Definition punset (S : schema) (root : list Z) (m : pmsg) (p : list pstep) : option (pmsg * bool) :=
  match p with
  | [] => None                         (* the Go API resets the whole Value; outside the property *)
  | _ =>
    match punset_at S LSingular (TMsg root) (VMsg m) p with
    | UNew (VMsg m') => if wf_msg S root m' then Some (m', true) else None
    | UAbsent => Some (m, false)
    | _ => None
    end
  end.

(* ---------------------------------------------------------------- set many (root level: distinct field numbers) *)
Fixpoint pset_many (S : schema) (root : list Z) (m : pmsg) (xs : list (Z * pval)) : option pmsg :=
  match xs with
  | [] => Some m
  | (n, x) :: r =>
    match pset S root m [PField n] x with
    | Some (m', _) => pset_many S root m' r
    | None => None
    end
  end.

(* ---------------------------------------------------------------- histories *)
Inductive pop :=
| OSet (p : list pstep) (x : pval)
| OUnset (p : list pstep)
| OSetMany (xs : list (Z * pval)).

Definition pstep_op (S : schema) (root : list Z) (m : pmsg) (o : pop) : option pmsg :=
  match o with
  | OSet p x => match pset S root m p x with Some (m', _) => Some m' | None => None end
  | OUnset p => match punset S root m p with Some (m', _) => Some m' | None => None end
  | OSetMany xs => match xs with [] => Some m | _ => if nodupb Z.eqb (map fst xs) then pset_many S root m xs else None end
  end.
(* a failed operation leaves the message unchanged *)
Definition pstep_total (S : schema) (root : list Z) (m : pmsg) (o : pop) : pmsg :=
  match pstep_op S root m o with Some m' => m' | None => m end.

(* ---------------------------------------------------------------- sub values from raw node bytes
   A Node handed to SetByPath holds the bytes that follow the tag: varint / fixed / length+payload.
   For a whole LIST / MAP field the node holds the complete tagged records. *)
Definition decode_elem (S : schema) (t : ftype) (bs : list Z) : option pval :=
  match t with
  | TScalar k =>
    if is_byteskind k then
      match wdec_val 2 bs with Some (WBytes b, []) => Some (VBytes k b) | _ => None end
    else
      match wdec_val (wt_of_kind k) bs with
      | Some (w, []) => match scalar_of_wire k w with Some x => Some (VScalar k x) | None => None end
      | _ => None
      end
  | TMsg name =>
    match wdec_val 2 bs with
    | Some (WBytes b, []) => match decode_top S name b with Some fs => Some (VMsg fs) | None => None end
    | _ => None
    end
  end.

(* the type a path addresses (None: not a legal path of the schema) *)
Fixpoint path_type (S : schema) (lbl : flabel) (t : ftype) (p : list pstep) {struct p} : option (flabel * ftype) :=
  match p with
  | [] => Some (lbl, t)
  | st :: rest =>
    match lbl with
    | LSingular =>
      match t with
      | TMsg name =>
        match find_msg S name with
        | Some md => match resolve_field md st with
                     | Some fd => path_type S (fd_label fd) (fd_type fd) rest
                     | None => None
                     end
        | None => None
        end
      | TScalar _ => None
      end
    | LRepeated _ => match st with PIndex _ => path_type S LSingular t rest | _ => None end
    | LMap kk => match key_of_step kk st with Some _ => path_type S LSingular t rest | None => None end
    end
  end.

(* ---------------------------------------------------------------- PathNode.Load (recursive) + Marshal
   The loaded tree of a message is its typed AST (Load = the decoder); PathNode.marshal (path.go l.639-802) walks the
   tree appending into ONE buffer: tag, then for a message / packed list / map entry a one-byte speculative length,
   the children, and FinishSpeculativeLength (ProtoSpecLen.finish_spec: shifts the payload when the real length needs
   more than one byte).  [jk b] is the arbitrary content of the spare capacity behind buffer b. *)
Section Marshal.
  Variable jk : list Z -> list Z.

  Definition with_spec (b : list Z) (body : list Z -> list Z) : list Z :=
    let '(b1, pos) := append_spec b in
    let b2 := body b1 in
    finish_spec b2 (jk b2) pos.

  Definition tag_bytes (n wt : Z) : list Z := varint_enc (n * 8 + wt).

  Fixpoint mar_fld (n : Z) (v : pval) (b : list Z) {struct v} : list Z :=
    match v with
    | VScalar k x => b ++ wenc_field (n, scalar_to_wire k x)           (* AppendTag + the node's raw bytes *)
    | VBytes _ bs => b ++ wenc_field (n, WBytes bs)
    | VMsg fs =>
      with_spec (b ++ tag_bytes n 2) (fun b1 => fold_left (fun acc nv => mar_fld (fst nv) (snd nv) acc) fs b1)
    | VList true vs => with_spec (b ++ tag_bytes n 2) (fun b1 => b1 ++ flat_map packed_elem vs)
    | VList false vs => fold_left (fun acc x => mar_fld n x acc) vs b
    | VMap kvs =>
      fold_left (fun acc kx =>
                   with_spec (acc ++ tag_bytes n 2)
                             (fun b1 => mar_fld 2 (snd kx) (b1 ++ wenc_field (key_field (fst kx))))) kvs b
    end.

  (* the root layer writes no length *)
  Definition pmarshal (m : pmsg) : list Z := fold_left (fun acc nv => mar_fld (fst nv) (snd nv) acc) m [].
End Marshal.

Definition pload (S : schema) (root : list Z) (bs : list Z) : option pmsg := decode_top S root bs.

(* every length-delimited payload the marshaller writes is shorter than 2^31 (Go int / slice limits) *)
Fixpoint sizes_okb (v : pval) : bool :=
  match v with
  | VScalar _ _ | VBytes _ _ => true
  | VMsg fs => (plen (wenc (flat_map (fun nv => wfld (fst nv) (snd nv)) fs)) <? 2 ^ 31) &&
               forallb (fun nv => sizes_okb (snd nv)) fs
  | VList true vs => plen (flat_map packed_elem vs) <? 2 ^ 31
  | VList false vs => forallb sizes_okb vs
  | VMap kvs => forallb (fun kx => (plen (wenc (key_field (fst kx) :: wfld 2 (snd kx))) <? 2 ^ 31) &&
                                   sizes_okb (snd kx)) kvs
  end.
