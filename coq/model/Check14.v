(* Correspondence checks for C14 (Thrift descriptors mirror the IDL; lookups exact).
   1401 FieldIDMap   1402 FieldNameMap   1403 caching.TrieTree / HashMap   1404 DJBHash32 / ascii2Int (go2coq tie)
   1405 IDL -> descriptor dump vs elab   1406 lookup sweeps on parsed struct descriptors (Go + native twin)
   Findings 1401-1406 are fixed in /repo (bd82c3d, 0d2d3ac, 86994e0, cc65c3e, c521848): everything is judged against the
   specification.  The VKnown verdicts below are regression recognisers only (the pre-fix behaviour re-appearing at the
   FieldNameMap / descriptor level); the orchestrator reports a VKnown of a fixed finding as a violation.
   The residual quirks of the building blocks caching.HashMap / native hm_get driven DIRECTLY with keys that FieldNameMap.Build no
   longer hands to them (DJB hash 0, bytes >= 0x80) are not field lookups: VDrift 61 / 62. *)
From Coq Require Import ZArith List Bool.
From DG Require Import CaseFormat GoSem Lookup Idl IdlParse Gen_caching.
(* the domain predicate of C14_parse_refines_elab is re-stated here (model files do not import proofs) *)
Import ListNotations.
Local Open Scope Z_scope.

(* ------------------------------------------------------------------ token parsers *)

Definition P (A : Type) := list field -> option (A * list field).

Definition pZ : P Z := fun t => match t with FZ z :: r => Some (z, r) | _ => None end.
Definition pB : P (list Z) := fun t => match t with FB b :: r => Some (b, r) | _ => None end.
Definition pBool : P bool := fun t => match t with FZ z :: r => Some (negb (z =? 0), r) | _ => None end.

Definition bind {A B} (p : P A) (f : A -> P B) : P B :=
  fun t => match p t with Some (a, r) => f a r | None => None end.
Definition ret {A} (a : A) : P A := fun t => Some (a, t).
Notation "x <- p ;; q" := (bind p (fun x => q)) (at level 61, p at next level, right associativity).

Fixpoint pRep {A} (p : P A) (n : nat) : P (list A) :=
  match n with
  | O => ret []
  | S n' => x <- p ;; xs <- pRep p n' ;; ret (x :: xs)
  end.
(* counted list; counts above 100000 are rejected (a nat that large is never built) *)
Definition pList {A} (p : P A) : P (list A) :=
  n <- pZ ;; if (n <? 0) || (100000 <? n) then (fun _ => None) else pRep p (Z.to_nat n).

Fixpoint pTexpr (fuel : nat) : P texpr :=
  match fuel with O => fun _ => None | S f =>
  tag <- pZ ;;
  if tag =? 0 then (b <- pZ ;; ret (TBase b))
  else if tag =? 1 then (e <- pTexpr f ;; ret (TList e))
  else if tag =? 2 then (e <- pTexpr f ;; ret (TSet e))
  else if tag =? 3 then (k <- pTexpr f ;; v <- pTexpr f ;; ret (TMap k v))
  else (n <- pB ;; ret (TNamed n))
  end.

Definition pConst : P constval :=
  tag <- pZ ;;
  if tag =? 0 then ret CNone
  else if tag =? 1 then (z <- pZ ;; ret (CInt z))
  else if tag =? 2 then (z <- pZ ;; ret (CDouble z))
  else if tag =? 3 then (s <- pB ;; ret (CStr s))
  else if tag =? 4 then (s <- pB ;; ret (CIdent s))
  else ret COther.

Definition pAnno : P anno := k <- pB ;; vs <- pList pB ;; ret (Anno k vs).

Definition pField : P ifield :=
  id <- pZ ;; nm <- pB ;; t <- pTexpr 16 ;; rq <- pZ ;; d <- pConst ;; an <- pList pAnno ;; ret (IField id nm t rq d an).

Definition pStruct : P slike :=
  k <- pZ ;; nm <- pB ;; fs <- pList pField ;; an <- pList pAnno ;; ret (SLike k nm fs an).

Definition pFunc : P ifunc :=
  nm <- pB ;; ow <- pBool ;; rt <- pTexpr 16 ;; args <- pList pField ;; thr <- pList pField ;; ret (IFunc nm ow rt args thr).

Definition pSvc : P isvc := nm <- pB ;; ext <- pB ;; fns <- pList pFunc ;; ret (ISvc nm ext fns).

Definition pPair {A B} (a : P A) (b : P B) : P (A * B) := x <- a ;; y <- b ;; ret (x, y).

Definition pFile : P ifile :=
  path <- pB ;; ns <- pList (pPair pB pB) ;; inc <- pList (pPair pB pZ) ;; tds <- pList (pPair pB (pTexpr 16)) ;;
  ens <- pList (pPair pB (pList (pPair pB pZ))) ;; cs <- pList (pPair pB pConst) ;; sts <- pList pStruct ;; svs <- pList pSvc ;;
  ret (IFile path ns inc tds ens cs sts svs).

Definition pProgram : P program := pList pFile.

Definition pOpts : P popts :=
  mw <- pZ ;; e64 <- pBool ;; ob <- pBool ;; ud <- pBool ;; fm <- pZ ;; sm <- pZ ;; sn <- pB ;; bs <- pBool ;; bf <- pBool ;;
  pn <- pBool ;; pf <- pBool ;; ret (POpts mw e64 ob ud fm sm sn bs bf pn pf).

(* ------------------------------------------------------------------ verdict helpers *)

(* worst verdict of a list of per-probe verdicts: VBad > VKnown > VDrift > VOk *)
Definition rank (v : verdict) : Z := match v with VBad _ _ => 4 | VKnown _ => 3 | VDrift _ => 2 | VSkip => 1 | VOk => 0 end.
Definition worse (a b : verdict) : verdict := if rank a <? rank b then b else a.
Definition worst (l : list verdict) : verdict := fold_left worse l VOk.

Definition optZ (o : option Z) (none : Z) : Z := match o with Some z => z | None => none end.

Fixpoint index_list (i : Z) (l : list key) : list (key * Z) :=
  match l with [] => [] | k :: r => (k, i) :: index_list (i + 1) r end.

Fixpoint first_diff (i : Z) (a b : list field) : list field :=
  match a, b with
  | [], [] => []
  | x :: a', y :: b' => if field_eqb x y then first_diff (i + 1) a' b' else [FZ i; x; y]
  | x :: _, [] => [FZ i; x]
  | [], y :: _ => [FZ i; FZ (-1); y]
  end.

Definition has_high_byte (k : key) : bool := existsb (fun c => 128 <=? c) k.
Definition zero_hash_declared (kvs : list (key * Z)) : bool := existsb (fun kv => djb (fst kv) =? 0) kvs.

(* ------------------------------------------------------------------ 1401 FieldIDMap *)

Fixpoint index_ids (i : Z) (l : list Z) : list (Z * Z) :=
  match l with [] => [] | id :: r => (id, i) :: index_ids (i + 1) r end.

Fixpoint strictly_increasing (prev : Z) (l : list (Z * Z)) : bool :=
  match l with [] => true | (id, _) :: r => (prev <? id) && strictly_increasing id r end.

(* fields: n ids*, panicked, [nfound (id val)*, nall val*, size, nneg (id val)*] *)
Definition check_1401 (fs : list field) : verdict :=
  match (ids <- pList pZ ;; pk <- pBool ;; ret (ids, pk)) fs with
  | Some ((ids, panicked), rest) =>
    let decl := index_ids 1 ids in
    match fid_build decl with
    | None => expect 1 panicked []                          (* negative id: index out of range *)
    | Some m =>
      if panicked then VBad 2 [] else
      match (found <- pList (pPair pZ pZ) ;; all <- pList pZ ;; sz <- pZ ;; neg <- pList (pPair pZ pZ) ;; ret (found, all, sz, neg)) rest with
      | Some ((found, all, sz, neg), []) =>
        (* Get of a negative id returns nil (no panic) *)
        vand (expect 8 (forallb (fun f => (fst f <? 0) && (snd f =? 0) && negb (is_some (fid_get m (fst f)))) neg) [])
       (vand (expect 3 (strictly_increasing (-1) found) [])
       (vand (expect 4 (forallb (fun f => (fst f <? 65536) && (optZ (fid_get m (fst f)) 0 =? snd f)
                                          && (optZ (assocZ (fst f) (rev decl)) 0 =? snd f)) found) [])
       (* every declared id below 65536 was found by the sweep *)
       (vand (expect 5 (forallb (fun d => (65536 <=? fst d) || existsb (fun f => fst f =? fst d) found) decl) [])
       (vand (expect 6 (list_eqb Z.eqb all (map snd (fid_all m))) (map FZ (map snd (fid_all m))))
             (if sz =? Z.of_nat (length (fid_m m)) then VOk else VDrift 7)))))
      | _ => VBad 98 []
      end
    end
  | None => VBad 99 []
  end.

(* ------------------------------------------------------------------ probes against a FieldNameMap *)

(* one probe of a FieldNameMap / descriptor: spec value, algorithm-level value (repaired Build), what the Build before fix
   bd82c3d computed, what Go returned ([none] encodes nil) *)
Definition judge_go (spec algo : option Z) (old : fnmap Z) (k : key) (got none : Z) : verdict :=
  if got =? optZ spec none then (if got =? optZ algo none then VOk else VDrift 20)
  else
    let old_hash := match fn_impl old with FHash _ => true | _ => false end in
    let old_val := match fnm_get old k with Some v => optZ v none | None => none end in
    if old_hash && (djb k =? 0) && (got =? old_val) then VKnown 1401      (* regression: the hash-0 key is lost again *)
    else VBad 21 [FB k; FZ (optZ spec none); FZ got].

(* one probe of caching.HashMap driven directly (a building block, not a field lookup) *)
Definition judge_hashmap (spec algo : option Z) (k : key) (got : Z) : verdict :=
  if got =? optZ spec 0 then (if got =? optZ algo 0 then VOk else VDrift 20)
  else if (got =? optZ algo 0) && (djb k =? 0) then VDrift 61              (* hash 0 = empty-slot marker *)
  else VBad 23 [FB k; FZ (optZ spec 0); FZ got].

(* ------------------------------------------------------------------ 1402 FieldNameMap *)

(* fields: nkeys key*, kind, pos, size, nprobes (probe got)* *)
Definition check_1402 (fs : list field) : verdict :=
  match (keys <- pList pB ;; kind <- pZ ;; pos <- pZ ;; sz <- pZ ;; probes <- pList (pPair pB pZ) ;; ret (keys, kind, pos, sz, probes)) fs with
  | Some ((keys, kind, pos, sz, probes), []) =>
    let kvs := index_list 1 keys in
    let m := fnm_build (fnm_of_list kvs) in
    let old := fnm_build_prefix (fnm_of_list kvs) in
    let structure := if (fst (fnm_kind m) =? kind) && (snd (fnm_kind m) =? pos) then VOk else VDrift 10 in
    worse structure
      (worst (map (fun pg =>
         let k := fst pg in
         match fnm_get m k with
         | None => VBad 22 [FB k]                               (* model: the Go loop would not terminate *)
         | Some algo => judge_go (assoc k (rev kvs)) algo old k (snd pg) 0
         end) probes))
  | _ => VBad 99 []
  end.

(* ------------------------------------------------------------------ 1403 TrieTree / HashMap used directly *)

(* fields: which, npos pos*, load, nkeys key*, size, nprobes (probe got native)*
   got / native: value found, 0 nil, -3 panic / fault, native -5 = not attempted *)
Definition check_1403 (fs : list field) : verdict :=
  match (w <- pZ ;; ps <- pList pZ ;; load <- pZ ;; keys <- pList pB ;; sz <- pZ ;; probes <- pList (pPair pB (pPair pZ pZ)) ;;
         ret (w, ps, load, keys, sz, probes)) fs with
  | Some ((w, ps, load, keys, sz, probes), []) =>
    let kvs := index_list 1 keys in
    if w =? 0 then
      let t := trie_build ps kvs in
      worse (if sz =? t_count t then VOk else VDrift 11)
      (worst (map (fun pg =>
         let k := fst pg in
         let got := fst (snd pg) in
         let nat := snd (snd pg) in
         if trie_get_panics t k then expect 30 (got =? -3) [FB k]   (* nil Leaves dereference, as the model predicts (state unreachable through Build; the native twin is not constrained here) *)
         else
           let spec := assoc k (rev kvs) in
           let algo := trie_get t k in
           worse (if got =? optZ spec 0 then (if got =? optZ algo 0 then VOk else VDrift 31)
                  else VBad 32 [FB k; FZ (optZ spec 0); FZ got])
                 (if (nat =? -5) || (nat =? optZ spec 0) then VOk
                  else match k with
                       | [] => VBad 34 [FB k; FZ nat]
                       | _ => match tn_get_native_nospare ps k (t_root t) with
                              | None => VKnown 1403       (* regression: the read past the index array is not absorbed by a spare node *)
                              | Some _ => VBad 35 [FB k; FZ (optZ spec 0); FZ nat]
                              end
                       end)) probes))
    else
      let T := hm_build (Z.to_nat load) kvs in
      worst (map (fun pg =>
         let k := fst pg in
         let got := fst (snd pg) in
         let nat := snd (snd pg) in
         match hm_get T k with
         | None => VBad 33 [FB k]
         | Some algo =>
           worse (judge_hashmap (assoc k kvs) algo k got)
                 (if (nat =? -5) || (nat =? optZ (assoc k kvs) 0) then VOk
                  else if has_high_byte k && (nat =? match hm_get_native T k with Some (Some v) => v | _ => 0 end) then VDrift 62
                  else if (nat =? optZ algo 0) && (djb k =? 0) then VDrift 61
                  else VBad 36 [FB k; FZ (optZ (assoc k kvs) 0); FZ nat])
         end) probes)
  | _ => VBad 99 []
  end.

(* ------------------------------------------------------------------ 1404 generated leaf functions *)

(* fields: 0, image of ascii2Int over 0..255  |  1, key, DJBHash32 *)
Definition check_1404 (fs : list field) : verdict :=
  match fs with
  | [FZ 0; FB img] =>
    expect 1 (list_eqb Z.eqb img (map Gen_caching.ascii2Int (seqZ 0 256)) && list_eqb Z.eqb img (map ascii2int (seqZ 0 256)))
           [FB (map ascii2int (seqZ 0 256))]
  | [FZ 1; FB k; FZ h] => expect 2 ((Gen_caching.DJBHash32 k =? h) && (djb k =? h)) [FZ (djb k)]
  | _ => VBad 99 []
  end.

(* ------------------------------------------------------------------ 1405 IDL elaboration *)

(* finding 1408 (fixed by d1874f3; this quirk model is only the recogniser of a regression): the functions a service inherits from a service of an INCLUDED file are compiled with the included file's tree but
   with the compiling cache of the main file (thrift/idl.go parse: one structsCache for all funcTreePairs), so a bare struct
   name of the included file that also names a struct-like of the main file compiled before (same parse target) resolves to the
   main file's descriptor.  Quirk model: the included files' struct-likes shadowed by the main file's of the same name. *)
Definition shadow_file (main f : ifile) : ifile :=
  IFile (fl_path f) (fl_ns f) (fl_includes f) (fl_typedefs f) (fl_enums f) (fl_consts f)
        (map (fun s => match get_slike main (s_name s) with Some s' => s' | None => s end) (fl_structs f)) (fl_svcs f).
Definition shadow (p : program) : program :=
  match p with main :: rest => main :: map (shadow_file main) rest | [] => [] end.
Definition main_extends_crossfile (p : program) : bool :=
  match p with
  | main :: _ => existsb (fun s => match split_last_dot (sv_extends s) with (_ :: _, _) => true | _ => false end) (fl_svcs main)
  | [] => false
  end.

Definition field_negative_id (p : program) : bool :=
  existsb (fun f => existsb (fun s => existsb (fun fd => f_id fd <? 0) (s_fields s)) (fl_structs f)) p.

(* fields: opts, program, sdepth, outcome (0 ok, 1 error, 2 panic), dump *)
Definition check_1405 (fs : list field) : verdict :=
  match (o <- pOpts ;; p <- pProgram ;; sd <- pZ ;; oc <- pZ ;; ret (o, p, sd, oc)) fs with
  | Some ((o, p, sd, oc), dump) =>
    let d := Z.to_nat sd in
    let spec := ser_service (elab true true d p o) in
    (* regression recogniser of finding 1405: a negative field id makes the parse panic *)
    if field_negative_id p && (oc =? 2) then VKnown 1405
    else if oc =? 2 then VBad 2 []
    else
      let impl := if oc =? 0 then dump else [FZ 0] in
      if list_eqb field_eqb impl spec then
        (* a reachable field with a negative id is rejected by both sides: outside the supported domain (FieldID is a uint16) *)
        (if field_negative_id p && (oc =? 1) then VSkip else VOk)
      else
        let coded := ser_service (elab false false d p o) in
        if list_eqb field_eqb impl coded then
          (if list_eqb field_eqb (ser_service (elab true false d p o)) coded then VKnown 1406 else VKnown 1404)
        else if main_extends_crossfile p && list_eqb field_eqb impl (ser_service (elab true true d (shadow p) o)) then VKnown 1408
        else VBad 1 (first_diff 0 spec impl)
  | None => VBad 99 []
  end.

(* ------------------------------------------------------------------ 1406 lookup sweeps on a parsed struct *)

Fixpoint insert_z (x : Z) (l : list Z) : list Z :=
  match l with [] => [x] | y :: r => if x <? y then x :: l else if x =? y then l else y :: insert_z x r end.
Definition sort_ids (l : list Z) : list Z := fold_right insert_z [] l.

(* native twin of one probe. got: >= 0 id written, -1 unknown field, -2 other error, -3 panic, -4 found (id not visible),
   -5 not attempted, -6 not attempted because the harness predicts the out-of-bounds read *)
Definition judge_native (m old : fnmap Z) (spec : option Z) (k : key) (got : Z) : verdict :=
  (* would the walk of the native trie_get leave the index array if there were no spare node behind it? *)
  let boundary := match fn_impl m with
                  | FTrie t => match k with
                               | [] => false
                               | _ => match tn_leaves (t_root t) with
                                      | None => false
                                      | Some _ => match tn_get_native_nospare (t_positions t) k (t_root t) with None => true | Some _ => false end
                                      end
                               end
                  | _ => false
                  end in
  if got =? -5 then VOk
  else if got =? -2 then VOk                                    (* JSON rejected for another reason (e.g. invalid UTF-8 key): no information *)
  else
    let agrees := match spec with
                  | Some id => (got =? id) || (got =? -4)
                  | None => got =? -1
                  end in
    if agrees then VOk
    else if boundary then VKnown 1403                            (* regression: out-of-bounds read of the native trie_get *)
    else
      match fn_impl old with
      | FHash T =>
        let nat := match hm_get_native T k with Some (Some id) => id | _ => -1 end in
        if has_high_byte k && (got =? nat) then VKnown 1402      (* regression: non-ASCII key on the hash path *)
        else match hm_get T k with
             | Some algo => if (got =? optZ algo (-1)) && (djb k =? 0) then VKnown 1401 else VBad 41 [FB k; FZ (optZ spec (-1)); FZ got]
             | None => VBad 42 [FB k]
             end
      | _ => VBad 43 [FB k; FZ (optZ spec (-1)); FZ got]
      end.

(* fields: mapway, nfields (id name alias)*, kind, pos, nfound (id fid)*, nprobes (key go native)* *)
Definition check_1406 (fs : list field) : verdict :=
  match (mw <- pZ ;; flds <- pList (pPair pZ (pPair pB pB)) ;; kind <- pZ ;; pos <- pZ ;; found <- pList (pPair pZ pZ) ;;
         probes <- pList (pPair pB (pPair pZ pZ)) ;; ret (mw, flds, kind, pos, found, probes)) fs with
  | Some ((mw, flds, kind, pos, found, probes), []) =>
    let kvs := flat_map (fun f => reg_keys mw (fst f) (fst (snd f)) (snd (snd f))) flds in
    let m := fnm_build (fnm_of_list kvs) in
    let old := fnm_build_prefix (fnm_of_list kvs) in
    let structure := if (fst (fnm_kind m) =? kind) && (snd (fnm_kind m) =? pos) then VOk else VDrift 10 in
    (* FieldById over all 65536 ids finds exactly the exposed ids, each mapped to itself *)
    let ids := sort_ids (map fst flds) in
    let byid := expect 50 (list_eqb Z.eqb (map fst found) ids && forallb (fun f => fst f =? snd f) found) (map FZ ids) in
    worse byid (worse structure
      (worst (map (fun pg =>
         let k := fst pg in
         let spec := assoc k (rev kvs) in
         match fnm_get m k with
         | None => VBad 22 [FB k]
         | Some algo => worse (judge_go spec algo old k (fst (snd pg)) (-1)) (judge_native m old spec k (snd (snd pg)))
         end) probes)))
  | _ => VBad 99 []
  end.

(* 1407: the probes of a sweep on which the native trie_get reads index[len] (absorbed by the spare node since fix 0d2d3ac; run
   under debug.SetPanicOnFault); same fields as 1406 *)
Definition check_1407 (fs : list field) : verdict := check_1406 fs.

(* 1408: witness family of finding 1408 (same fields as 1405): main.thrift and a.thrift both declare struct N,
   `service Main extends a.Base`, both services have a function taking N *)
Definition check_1408 (fs : list field) : verdict := check_1405 fs.

(* 1409: the transcription of the compiler as coded (coq/model/IdlParse.v: parse with its explicit compiling caches and descriptor
   graph) evaluated on the generated AST and read back with [unroll]: every column of the real descriptors must agree with it
   (same fields as 1405).  Theorem C14_parse_refines_elab relates the transcription to the specification [elab]. *)
Definition check_1409 (fs : list field) : verdict :=
  match (o <- pOpts ;; p <- pProgram ;; sd <- pZ ;; oc <- pZ ;; ret (o, p, sd, oc)) fs with
  | Some ((o, p, sd, oc), dump) =>
    if oc =? 2 then VBad 2 []
    else
      let impl := if oc =? 0 then dump else [FZ 0] in
      let coded := ser_service (unroll_service (Z.to_nat sd) (parse p o)) in
      if list_eqb field_eqb impl coded then VOk else VBad 60 (first_diff 0 coded impl)
  | None => VBad 99 []
  end.
