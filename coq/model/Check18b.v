(* C18, check 1807: every flavour (avx2, avx, sse, portable) against THE SAME model function — the J2T model of C02 (model/J2T.v,
   strict policy).  Agreement of every output with the model's bytes implies pairwise agreement (C18Proofs.check_1807_ok_agree).
   The model does not fill in absent fields (C16's business), so the check is restricted to cases without write options, and a document
   that leaves a required field without a value is expected to be rejected by everybody.  The VALUE of the output is C02's property:
   a difference between an implementation and the model is reported here as drift only (C02's own check judges it); the violation
   verdicts of C18 are those of check 1801. *)
From Coq Require Import ZArith List Bool.
From DG Require Import CaseFormat ProtoWireRef ThriftWire Json Num Base64 J2T Check18.
Import ListNotations.
Local Open Scope Z_scope.

Fixpoint to_ty (t : jty) : option ty :=
  match t with
  | JScalar c b =>
    if c =? T_BOOL then Some TBool else if c =? T_BYTE then Some TByte else if c =? T_I16 then Some TI16
    else if c =? T_I32 then Some TI32 else if c =? T_I64 then Some TI64 else if c =? T_DOUBLE then Some TDouble
    else if c =? T_STRING then Some (if b then TBinary else TString) else None
  | JStruct i => if i <? 0 then None else Some (TStruct (Z.to_nat i))
  | JList e => option_map TList (to_ty e)
  | JSet e => option_map TSet (to_ty e)
  | JMap k e => match to_ty k, to_ty e with Some k', Some e' => Some (TMap k' e') | _, _ => None end
  end.

Fixpoint all_some {A} (l : list (option A)) : option (list A) :=
  match l with
  | [] => Some []
  | Some x :: r => option_map (cons x) (all_some r)
  | None :: _ => None
  end.

Definition to_fld (f : jfld) : option fld :=
  option_map (fun t => mkFld (jf_id f) [jf_name f] t (jf_req f) false) (to_ty (jf_ty f)).
Definition to_defs (ds : jdefs) : option defs := all_some (map (fun sd => all_some (map to_fld sd)) ds).

(* some struct value reached in the document gives no (non-null) value to a REQUIRED field *)
Fixpoint missing_req (fuel : nat) (ds : jdefs) (t : jty) (j : json) : bool :=
  match fuel with
  | O => false
  | S f =>
    match t, j with
    | JStruct i, JObj ms =>
      match (if i <? 0 then None else nth_error ds (Z.to_nat i)) with
      | None => false
      | Some sd =>
        existsb (fun fd => (jf_req fd =? 1) &&
                           match Check18.find_member ms (jf_name fd) with Some v => Check18.is_null v | None => true end) sd ||
        existsb (fun m => match find_fld sd (fst m) with Some fd => missing_req f ds (jf_ty fd) (snd m) | None => false end) ms
      end
    | (JList e | JSet e), JArr xs => existsb (missing_req f ds e) xs
    | JMap _ e, JObj ms => existsb (fun m => missing_req f ds e (snd m)) ms
    | _, _ => false
    end
  end.

(* the model's verdict on a document: the expected bytes, or "everybody must reject" *)
Definition model_1807 (ds : jdefs) (root ob : Z) (doc : list Z) : option res :=
  match to_defs ds with
  | None => None
  | Some D =>
    if root <? 0 then None else
    let o := mkOpts (Z.testbit ob 3) (Z.testbit ob 4) (Z.testbit ob 5) false in
    match json_parse doc with
    | Some j => if missing_req (S (length doc)) ds (JStruct root) j then Some (Err 100)
                else Some (j2t_text strict D o (TStruct (Z.to_nat root)) doc)
    | None => Some (Err E_PARSE)
    end
  end.

Definition judge_1807 (m : res) (known : bool) (nats : list (Z * list Z)) (p : Z * list Z) : verdict :=
  match m with
  | Ok bs =>
    if forallb (out_is bs) (p :: nats) then VOk
    else if known && forallb (out_is bs) nats then VSkip   (* the portable output deviates as a recorded finding does (judged by 1801) *)
    else VDrift 7
  | Err _ => if forallb (fun r => negb (fst r =? 0)) (p :: nats) then VOk else VDrift 8
  end.

(* 1807. fields: as 1801 (emitted by the harness for the cases without write options) *)
Definition check_1807 (fs : list field) : verdict :=
  match parse_shape fs with
  | Some (ds, root, [FZ ob; FB doc; FZ mask; FB o0; FZ e0; FB o1; FZ e1; FB o2; FZ e2; FB op; FZ ep]) =>
    if negb (Z.land ob 7 =? 0) then VSkip else
    let nats := sel mask [(e0, o0); (e1, o1); (e2, o2)] in
    match model_1807 ds root ob doc with
    | None => VSkip
    | Some m =>
      judge_1807 m (match judge_1801 ds root ob doc nats (ep, op) with VKnown _ => true | _ => false end) nats (ep, op)
    end
  | _ => VBad 99 []
  end.
