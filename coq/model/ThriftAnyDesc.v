(* thrift/binary.go WriteAnyWithDesc / ReadAnyWithDesc (and the descriptor-free WriteAny / ReadAny) transcribed AS CODED
   over explicit byte lists.
     - Go values (interface{}) are [gval]s: the Go type of every scalar is recorded, Go maps are association lists whose
       ORDER stands for the iteration order the Go runtime happened to choose (every permutation of the list is the same
       Go map; the theorems quantify over all lists, hence over all orders). A pointer to a container (the form container
       keys of a map[interface{}]interface{} take) is [GPtr].
     - descriptors are finite trees [adesc] (a recursive IDL type is its unfolding as deep as the value at hand); a field is
       (id as thrift.FieldID 0..65535, key, type) where the key stands for FieldDescriptor.Alias() AND for the key
       StructDescriptor.FieldByKey resolves (the default Options.MapFieldWay). A descriptor of type STOP (never produced by
       an IDL) is outside the model: it is treated like every other unsupported type code.
     - the writer threads the output buffer and a status: 0 nil error, 1 error, 2 outside the model (the text conversions of
       floats in the cast mode - strconv.ParseFloat / FormatFloat / fmt %v through internal/primitive - and fuel exhausted).
       The numeric conversions of the cast mode are transcribed: ToBool tests the ORIGINAL value against zero, ToInt64
       truncates floats toward zero (out of range / NaN: the amd64 result -2^63), ToFloat64 rounds integers correctly.
     - the reader works on the bytes left in the buffer and answers the value and the bytes left after it (None = error).
       A container count larger than the number of bytes left is rejected at once: every element of every supported type
       takes at least one byte, so the element loop of the code fails with EOF before the count is reached.
   Model only - the theorems are in proofs/ThriftAnyDescProofs.v. *)
From Coq Require Import ZArith List Bool.
From DG Require Import CaseFormat ProtoWireRef ThriftWire ThriftGeneric ThriftEnvelope.
From DG Require Num P2J J2P.
Import ListNotations.
Local Open Scope Z_scope.

(* ---------------------------------------------------------------- descriptors *)
Inductive adesc :=
| AScalar (t : Z)                                   (* BOOL BYTE I16 I32 I64 DOUBLE; any other code: errUnsupportedType *)
| AString (bin : bool)                              (* STRING; bin = TypeDescriptor.IsBinary() *)
| AStruct (fs : list (Z * list Z * adesc))          (* field id, key, type *)
| AList (e : adesc)
| ASet (e : adesc)
| AMap (k e : adesc).

Definition dtype (d : adesc) : Z :=
  match d with
  | AScalar t => t | AString _ => T_STRING | AStruct _ => T_STRUCT | AList _ => T_LIST | ASet _ => T_SET | AMap _ _ => T_MAP
  end.
Definition delem (d : adesc) : adesc := match d with AList e | ASet e | AMap _ e => e | _ => AScalar 0 end.
Definition dkey (d : adesc) : adesc := match d with AMap k _ => k | _ => AScalar 0 end.
Definition dfields (d : adesc) : list (Z * list Z * adesc) := match d with AStruct fs => fs | _ => [] end.

(* StructDescriptor.FieldById / FieldByKey *)
Fixpoint afby_id (id : Z) (fs : list (Z * list Z * adesc)) : option (list Z * adesc) :=
  match fs with
  | [] => None
  | (i, n, d) :: r => if i =? id then Some (n, d) else afby_id id r
  end.
Fixpoint afby_name (nm : list Z) (fs : list (Z * list Z * adesc)) : option (Z * adesc) :=
  match fs with
  | [] => None
  | (i, n, d) :: r => if bytes_eqb n nm then Some (i, d) else afby_name nm r
  end.

(* ---------------------------------------------------------------- Go values *)
Definition GT_I8 := 1.  Definition GT_I16 := 2.  Definition GT_I32 := 3.  Definition GT_I64 := 4.  Definition GT_INT := 5.
Definition GT_U8 := 6.  Definition GT_U16 := 7.  Definition GT_U32 := 8.  Definition GT_U64 := 9.  Definition GT_UINT := 10.

Inductive gval :=
| GNil                                      (* nil interface *)
| GBool (b : bool)
| GInt (t : Z) (z : Z)                      (* t = GT_*; z = the mathematical value *)
| GF32 (bits : Z)
| GF64 (bits : Z)
| GStr (s : list Z)
| GBytes (s : list Z)
| GList (l : list gval)                     (* []interface{} *)
| GMapS (es : list (list Z * gval))         (* map[string]interface{}: a string-keyed map, or a struct by field name *)
| GMapI (t : Z) (es : list (Z * gval))      (* map[int] / map[int8] / map[int16] / map[int32] / map[int64] (t = GT_* of the key) *)
| GMapA (es : list (gval * gval))           (* map[interface{}]interface{} *)
| GStructN (fs : list (Z * gval))           (* map[thrift.FieldID]interface{} *)
| GPtr (g : gval).                          (* pointer to g *)

Definition is_goint (t : Z) : bool := (1 <=? t) && (t <=? 10).
(* the key types of the integer-keyed Go maps WriteAnyWithDesc accepts *)
Definition intmap_ok (t : Z) : bool := (1 <=? t) && (t <=? 5).

Definition f64_nan (b : Z) : bool := ((b / 2 ^ 52) mod 2048 =? 2047) && negb (b mod 2 ^ 52 =? 0).
Definition f64_key_eqb (a b : Z) : bool :=
  negb (f64_nan a) && negb (f64_nan b) && ((a =? b) || ((a mod 2 ^ 63 =? 0) && (b mod 2 ^ 63 =? 0))).

(* == of hashable interface values (map keys): same dynamic type, same value; pointers are fresh *)
Definition gkey_eqb (a b : gval) : bool :=
  match a, b with
  | GNil, GNil => true
  | GBool x, GBool y => Bool.eqb x y
  | GInt t x, GInt t' y => (t =? t') && (x =? y)
  | GF64 x, GF64 y => f64_key_eqb x y
  | GStr x, GStr y => bytes_eqb x y
  | _, _ => false
  end.

Fixpoint upsert_by {A B} (eqb : A -> A -> bool) (k : A) (v : B) (l : list (A * B)) : list (A * B) :=
  match l with
  | [] => [(k, v)]
  | (k', v') :: r => if eqb k k' then (k, v) :: r else (k', v') :: upsert_by eqb k v r
  end.
(* m[k] = v for every pair, in order *)
Definition build_map {A B} (eqb : A -> A -> bool) (l : list (A * B)) : list (A * B) :=
  fold_left (fun acc kv => upsert_by eqb (fst kv) (snd kv) acc) l [].

(* every key differs (as the map compares keys) from the keys before it: the list IS a Go map *)
Fixpoint fresh_from {A B} (eqb : A -> A -> bool) (seen : list A) (l : list (A * B)) : bool :=
  match l with
  | [] => true
  | kv :: r => forallb (fun k' => negb (eqb (fst kv) k')) seen && fresh_from eqb (seen ++ [fst kv]) r
  end.

(* ---------------------------------------------------------------- internal/primitive (cast mode) *)
Fixpoint digits_val (s : list Z) (acc : Z) : option Z :=
  match s with
  | [] => Some acc
  | c :: r => if (48 <=? c) && (c <=? 57) then digits_val r (acc * 10 + (c - 48)) else None
  end.
(* strconv.ParseInt(s, 10, 64): None = error (syntax or range) *)
Definition parse_int64 (s : list Z) : option Z :=
  let neg := match s with 45 :: _ => true | _ => false end in
  let ds := match s with 43 :: r => r | 45 :: r => r | _ => s end in
  match ds with
  | [] => None
  | _ => match digits_val ds 0 with
         | None => None
         | Some n => let z := if neg then - n else n in if in_sb 64 z then Some z else None
         end
  end.

Fixpoint dec_digits (fuel : nat) (n : Z) (acc : list Z) : list Z :=
  match fuel with
  | O => acc
  | S f => let acc' := (48 + n mod 10) :: acc in if n <? 10 then acc' else dec_digits f (n / 10) acc'
  end.
Definition dec_text (n : Z) : list Z := if n <? 0 then 45 :: dec_digits 25 (- n) [] else dec_digits 25 n [].

(* int64(v) for a float64 v: truncation toward zero; a NaN, an infinity or a value outside int64 gives what the amd64
   conversion instruction (CVTTSD2SQ) gives, the 'integer indefinite' -2^63 (the Go specification leaves it open) *)
Definition f64_to_int64 (b : Z) : Z :=
  if negb (Num.f64_is_finite b) then - 2 ^ 63 else
  let '(neg, M, k) := P2J.f64_decomp b in
  let mag := if 0 <=? k then M * 2 ^ k else M / 2 ^ (- k) in
  let z := if neg then - mag else mag in
  if in_sb 64 z then z else - 2 ^ 63.

(* Some (Some x) value, Some None error, None outside the model *)
Definition to_int64 (g : gval) : option (option Z) :=
  match g with
  | GBool b => Some (Some (if b then 1 else 0))
  | GInt t z => if is_goint t then Some (Some (to_s 64 z)) else Some None
  | GF32 b => Some (Some (f64_to_int64 (P2J.widen32 b)))
  | GF64 b => Some (Some (f64_to_int64 b))
  | GStr s | GBytes s => Some (parse_int64 s)
  | _ => Some None
  end.
Definition to_bool (g : gval) : option (option bool) :=
  match g with
  | GBool b => Some (Some b)
  | GInt t z => if is_goint t then Some (Some (negb (z =? 0))) else Some None
  | GF32 b => Some (Some (negb (b mod 2 ^ 31 =? 0)))
  | GF64 b => Some (Some (negb (b mod 2 ^ 63 =? 0)))
  | GStr s | GBytes s => Some (Some (match s with [] => false | _ => true end))
  | _ => Some None
  end.
Definition to_float64 (g : gval) : option (option Z) :=
  match g with
  | GBool b => Some (Some (if b then 4607182418800017408 else 0))
  | GF64 b => Some (Some b)
  | GInt t z => if is_goint t then Some (Some (J2P.int2f64 z)) else Some None     (* float64(v), correctly rounded *)
  | GF32 b => Some (Some (P2J.widen32 b))                                         (* exact (quiet NaNs only) *)
  | GStr _ | GBytes _ => None                                                     (* strconv.ParseFloat *)
  | _ => Some None
  end.
Definition to_string (g : gval) : option (option (list Z)) :=
  match g with
  | GStr s | GBytes s => Some (Some s)
  | GBool b => Some (Some (if b then [116; 114; 117; 101] else [102; 97; 108; 115; 101]))
  | GInt t z => if is_goint t then Some (Some (dec_text z)) else None
  | _ => None                                    (* strconv.FormatFloat / fmt.Sprintf("%v") *)
  end.

(* ---------------------------------------------------------------- writer *)
Definition wst := (list Z * Z)%type.       (* buffer, status *)
Definition wbind (r : wst) (k : list Z -> wst) : wst := if snd r =? 0 then k (fst r) else r.

Definition casted {A} (cast : bool) (r : option (option A)) : A + Z :=
  if cast then match r with Some (Some x) => inl x | Some None => inr 1 | None => inr 2 end else inr 1.
Definition with_val {A} (r : A + Z) (b : list Z) (f : A -> list Z) : wst :=
  match r with inl z => (b ++ f z, 0) | inr c => (b, c) end.

(* v, ok := val.(T); if !ok { if !cast {error}; vv := ToInt64(val); v = T(vv) } *)
Definition get_int (cast : bool) (ty : Z) (g : gval) : Z + Z :=
  match g with
  | GInt t z => if t =? ty then inl z else casted cast (to_int64 g)
  | _ => casted cast (to_int64 g)
  end.

(* the BOOL .. DOUBLE cases *)
Definition write_scalar (cast : bool) (t : Z) (b : list Z) (g : gval) : wst :=
  if t =? T_BOOL then
    with_val (match g with GBool v => inl v | _ => casted cast (to_bool g) end) b (fun v : bool => [if v then 1 else 0])
  else if t =? T_BYTE then
    with_val (match g with
              | GInt ty z => if (ty =? GT_U8) || (ty =? GT_I8) then inl z else casted cast (to_int64 g)
              | _ => casted cast (to_int64 g)
              end) b (fun z => [z mod 256])
  else if t =? T_I16 then with_val (get_int cast GT_I16 g) b (enc_int 2)
  else if t =? T_I32 then with_val (get_int cast GT_I32 g) b (enc_int 4)
  else if t =? T_I64 then with_val (get_int cast GT_I64 g) b (enc_int 8)
  else if t =? T_DOUBLE then
    with_val (match g with GF64 x => inl x | _ => casted cast (to_float64 g) end) b (enc_int 8)
  else (b, 1).

Definition str_bytes (s : list Z) : list Z := enc_int 4 (zlen s) ++ s.
(* the STRING case: string, []byte, else ToString *)
Definition write_str (cast : bool) (b : list Z) (g : gval) : wst :=
  with_val (match g with GStr s => inl s | GBytes s => inl s | _ => casted cast (to_string g) end) b str_bytes.

(* WriteInt(kt, int(k)) *)
Definition write_int_key (kt : Z) (k : Z) (b : list Z) : wst :=
  if kt =? T_BYTE then (b ++ [k mod 256], 0)
  else if kt =? T_I16 then (b ++ enc_int 2 k, 0)
  else if kt =? T_I32 then (b ++ enc_int 4 k, 0)
  else if kt =? T_I64 then (b ++ enc_int 8 k, 0)
  else (b, 1).

(* the pointer types a map[interface{}]interface{} key is dereferenced for *)
Definition ptr_target_ok (g : gval) : bool :=
  match g with
  | GList _ | GMapS _ | GMapA _ | GStructN _ => true
  | GMapI t _ => intmap_ok t
  | _ => false
  end.

Section Writer.
  Variables cast disallow byname : bool.

  Section Loops.
    (* WriteAnyWithDesc one level further down *)
    Variable rec : adesc -> list Z -> gval -> wst.

    Fixpoint write_elems (e : adesc) (b : list Z) (vs : list gval) : wst :=
      match vs with
      | [] => (b, 0)
      | v :: r => wbind (rec e b v) (fun b' => write_elems e b' r)
      end.

    Fixpoint write_entries {K} (wk : K -> list Z -> wst) (e : adesc) (b : list Z) (es : list (K * gval)) : wst :=
      match es with
      | [] => (b, 0)
      | kv :: r => wbind (wk (fst kv) b) (fun b1 => wbind (rec e b1 (snd kv)) (fun b2 => write_entries wk e b2 r))
      end.

    Definition write_key (kd : adesc) (k : gval) (b : list Z) : wst :=
      match k with
      | GPtr g => if ptr_target_ok g then rec kd b g else rec kd b k
      | _ => rec kd b k
      end.

    Definition write_map (k e : adesc) (b : list Z) (g : gval) : wst :=
      let hdr := fun n : Z => b ++ dtype k :: dtype e :: enc_int 4 n in
      if dtype k =? T_STRING then
        match g with
        | GMapS es => write_entries (fun s b' => (b' ++ str_bytes s, 0)) e (hdr (zlen es)) es
        | _ => (b, 1)
        end
      else if is_int_type (dtype k) then
        match g with
        | GMapI t es => if intmap_ok t then write_entries (write_int_key (dtype k)) e (hdr (zlen es)) es else (b, 1)
        | _ => (b, 1)
        end
      else
        match g with
        | GMapA es => write_entries (write_key k) e (hdr (zlen es)) es
        | _ => (b, 1)
        end.

    (* the member loop of the STRUCT case, in the order the map iteration delivers the members *)
    Fixpoint write_fields {K} (lookup : K -> option (Z * adesc)) (b : list Z) (ms : list (K * gval)) : wst :=
      match ms with
      | [] => (b, 0)
      | m :: r =>
        match lookup (fst m) with
        | None => if disallow then (b, 1) else write_fields lookup b r
        | Some (id, fd) => wbind (rec fd (b ++ dtype fd :: enc_int 2 id) (snd m)) (fun b2 => write_fields lookup b2 r)
        end
      end.
  End Loops.

  Definition by_id (fs : list (Z * list Z * adesc)) (id : Z) : option (Z * adesc) :=
    match afby_id id fs with Some (_, fd) => Some (id, fd) | None => None end.
  Definition wstop (b : list Z) : wst := (b ++ [0], 0).

  (* WriteAnyWithDesc(desc, val, cast, disallowUnknown, useFieldName); fuel bounds the nesting *)
  Fixpoint write_any_desc (fuel : nat) (d : adesc) (b : list Z) (g : gval) : wst :=
    match fuel with
    | O => (b, 2)
    | S f =>
      match d with
      | AScalar t => write_scalar cast t b g
      | AString _ => write_str cast b g
      | AList e | ASet e =>
        match g with
        | GList vs => write_elems (write_any_desc f) e (b ++ dtype e :: enc_int 4 (zlen vs)) vs
        | _ => (b, 1)
        end
      | AMap k e => write_map (write_any_desc f) k e b g
      | AStruct fs =>
        if byname then
          match g with
          | GMapS ms => wbind (write_fields (write_any_desc f) (fun nm => afby_name nm fs) b ms) wstop
          | _ => (b, 1)
          end
        else
          match g with
          | GStructN ms => wbind (write_fields (write_any_desc f) (by_id fs) b ms) wstop
          | _ => (b, 1)
          end
      end
    end.
End Writer.

(* the top-level kind test of every case (cast off): the Go value has a type the case accepts *)
Definition gkind_ok (byname : bool) (d : adesc) (g : gval) : bool :=
  match d with
  | AScalar t =>
    if t =? T_BOOL then match g with GBool _ => true | _ => false end
    else if t =? T_BYTE then match g with GInt ty _ => (ty =? GT_U8) || (ty =? GT_I8) | _ => false end
    else if t =? T_I16 then match g with GInt ty _ => ty =? GT_I16 | _ => false end
    else if t =? T_I32 then match g with GInt ty _ => ty =? GT_I32 | _ => false end
    else if t =? T_I64 then match g with GInt ty _ => ty =? GT_I64 | _ => false end
    else if t =? T_DOUBLE then match g with GF64 _ => true | _ => false end
    else false
  | AString _ => match g with GStr _ | GBytes _ => true | _ => false end
  | AList _ | ASet _ => match g with GList _ => true | _ => false end
  | AMap k _ =>
    if dtype k =? T_STRING then match g with GMapS _ => true | _ => false end
    else if is_int_type (dtype k) then match g with GMapI t _ => intmap_ok t | _ => false end
    else match g with GMapA _ => true | _ => false end
  | AStruct _ => if byname then match g with GMapS _ => true | _ => false end else match g with GStructN _ => true | _ => false end
  end.

(* ---------------------------------------------------------------- reader *)
(* ReadString / ReadBinary: length, then the bytes *)
Definition read_strbytes (bs : list Z) : option (list Z * list Z) :=
  match take 4 bs with
  | None => None
  | Some (x, r) =>
    let n := dec_int x in
    if (n <? 0) || (n >? zlen r) then None else Some (firstn (Z.to_nat n) r, skipn (Z.to_nat n) r)
  end.

(* the size word of ReadMapBegin / ReadSetBegin *)
Definition read_count (bs : list Z) : option (Z * list Z) :=
  match take 4 bs with
  | None => None
  | Some (x, r) => let n := dec_int x in if n <? 0 then None else Some (n, r)
  end.

(* ReadInt(kt): a BYTE key is read as an UNSIGNED byte *)
Definition read_int_key (kt : Z) (bs : list Z) : option (Z * list Z) :=
  if kt =? T_BYTE then match bs with x :: r => Some (x, r) | [] => None end
  else if kt =? T_I16 then match take 2 bs with Some (x, r) => Some (dec_int x, r) | None => None end
  else if kt =? T_I32 then match take 4 bs with Some (x, r) => Some (dec_int x, r) | None => None end
  else if kt =? T_I64 then match take 8 bs with Some (x, r) => Some (dec_int x, r) | None => None end
  else None.

(* container keys of a map[interface{}]interface{} are stored as pointers *)
Definition wrap_key (g : gval) : gval :=
  match g with
  | GList _ | GMapS _ | GMapI _ _ | GMapA _ | GStructN _ => GPtr g
  | _ => g
  end.

Section Reader.
  Variable skp : Z -> list Z -> option (list Z).          (* p.Skip(type): SkipGo *)
  (* raw = true: the association lists are kept as read (no m[k] = v collapsing); used by the checks only *)
  Variables u8 disallow byname raw : bool.

  Definition mk_map {A B} (eqb : A -> A -> bool) (l : list (A * B)) : list (A * B) := if raw then l else build_map eqb l.

  Definition read_scalar (t : Z) (bs : list Z) : option (gval * list Z) :=
    if t =? T_BOOL then match bs with x :: r => Some (GBool (x =? 1), r) | [] => None end
    else if t =? T_BYTE then
      match bs with x :: r => Some ((if u8 then GInt GT_U8 x else GInt GT_I8 (to_s 8 x)), r) | [] => None end
    else if t =? T_I16 then match take 2 bs with Some (x, r) => Some (GInt GT_I16 (dec_int x), r) | None => None end
    else if t =? T_I32 then match take 4 bs with Some (x, r) => Some (GInt GT_I32 (dec_int x), r) | None => None end
    else if t =? T_I64 then match take 8 bs with Some (x, r) => Some (GInt GT_I64 (dec_int x), r) | None => None end
    else if t =? T_DOUBLE then match take 8 bs with Some (x, r) => Some (GF64 (dec_uint x), r) | None => None end
    else None.

  Section Loops.
    Variable rec : adesc -> list Z -> option (gval * list Z).

    Fixpoint read_elems (n : nat) (e : adesc) (bs : list Z) : option (list gval * list Z) :=
      match n with
      | O => Some ([], bs)
      | S n' =>
        match rec e bs with
        | None => None
        | Some (x, r) => match read_elems n' e r with Some (xs, r') => Some (x :: xs, r') | None => None end
        end
      end.

    Fixpoint read_pairs {K} (rk : list Z -> option (K * list Z)) (n : nat) (e : adesc) (bs : list Z)
      : option (list (K * gval) * list Z) :=
      match n with
      | O => Some ([], bs)
      | S n' =>
        match rk bs with
        | None => None
        | Some (k, r) =>
          match rec e r with
          | None => None
          | Some (x, r2) => match read_pairs rk n' e r2 with Some (es, r3) => Some ((k, x) :: es, r3) | None => None end
          end
        end
      end.

    (* the field loop of the STRUCT case: (FieldID, key, value) per declared field read, in wire order;
       fuel = bytes + 1 (a field takes at least 3 bytes) *)
    Fixpoint read_fields (fuel : nat) (fs : list (Z * list Z * adesc)) (bs : list Z)
      : option (list (Z * list Z * gval) * list Z) :=
      match fuel with
      | O => None
      | S f =>
        match bs with
        | [] => None
        | t :: r =>
          if negb (type_valid t) then None
          else if t =? 0 then Some ([], r)
          else match take 2 r with
               | None => None
               | Some (idb, r2) =>
                 let id := dec_int idb mod 65536 in
                 match afby_id id fs with
                 | None =>
                   if disallow then None
                   else match skp t r2 with None => None | Some r3 => read_fields f fs r3 end
                 | Some (nm, fd) =>
                   match rec fd r2 with
                   | None => None
                   | Some (x, r3) =>
                     match read_fields f fs r3 with
                     | Some (l, r4) => Some ((id, nm, x) :: l, r4)
                     | None => None
                     end
                   end
                 end
               end
        end
      end.
  End Loops.

  Definition rd_key (rd : adesc -> list Z -> option (gval * list Z)) (k : adesc) (bs : list Z) : option (gval * list Z) :=
    match rd k bs with Some (g, r) => Some (wrap_key g, r) | None => None end.

  (* ReadAnyWithDesc(desc, byteAsUint8, copyString, disallowUnknown, useFieldName); fuel bounds the nesting *)
  Fixpoint read_any_gen (fuel : nat) (d : adesc) (bs : list Z) : option (gval * list Z) :=
    match fuel with
    | O => None
    | S f =>
      match d with
      | AScalar t => read_scalar t bs
      | AString bin =>
        match read_strbytes bs with
        | Some (s, r) => Some ((if bin then GBytes s else GStr s), r)
        | None => None
        end
      | AList e | ASet e =>
        match bs with
        | [] => None
        | et :: r =>
          if negb (type_valid et) then None else
          match read_count r with
          | None => None
          | Some (n, r2) =>
            if negb (dtype e =? et) then None
            else if n >? zlen r2 then None
            else match read_elems (read_any_gen f) (Z.to_nat n) e r2 with
                 | Some (l, r3) => Some (GList l, r3)
                 | None => None
                 end
          end
        end
      | AMap k e =>
        match bs with
        | kt :: vt :: r =>
          if negb (type_valid kt) then None else
          if negb (type_valid vt) then None else
          match read_count r with
          | None => None
          | Some (n, r2) =>
            if negb (dtype e =? vt) || negb (kt =? dtype k) then None
            else if n >? zlen r2 then None
            else if kt =? T_STRING then
              match read_pairs (read_any_gen f) read_strbytes (Z.to_nat n) e r2 with
              | Some (l, r3) => Some (GMapS (mk_map bytes_eqb l), r3)
              | None => None
              end
            else if is_int_type kt then
              match read_pairs (read_any_gen f) (read_int_key kt) (Z.to_nat n) e r2 with
              | Some (l, r3) => Some (GMapI GT_INT (mk_map Z.eqb l), r3)
              | None => None
              end
            else
              match read_pairs (read_any_gen f) (rd_key (read_any_gen f) k) (Z.to_nat n) e r2 with
              | Some (l, r3) => Some (GMapA (mk_map gkey_eqb l), r3)
              | None => None
              end
          end
        | _ => None
        end
      | AStruct fs =>
        match read_fields (read_any_gen f) (S (length bs)) fs bs with
        | Some (l, r) =>
          Some ((if byname then GMapS (mk_map bytes_eqb (map (fun m => (snd (fst m), snd m)) l))
                 else GStructN (mk_map Z.eqb (map (fun m => (fst (fst m), snd m)) l))), r)
        | None => None
        end
      end
    end.
End Reader.

(* p.Skip = SkipGo(MaxSkipDepth) *)
Definition read_any_desc (u8 disallow byname : bool) (fuel : nat) (d : adesc) (bs : list Z) : option (gval * list Z) :=
  read_any_gen skip_go u8 disallow byname false fuel d bs.

(* ---------------------------------------------------------------- the Go value of a wire value under a descriptor *)
Definition gint_key (k : tval) : Z :=
  match k with VByte z => z mod 256 | VI16 z | VI32 z | VI64 z => z | _ => 0 end.
Definition gstr_key (k : tval) : list Z := match k with VString s => s | _ => [] end.

(* the declared members of a struct value, keyed by [mk id key]; members the descriptor does not declare are dropped *)
Definition members {K} (mk : Z -> list Z -> K) (gv : adesc -> tval -> gval) (dfs : list (Z * list Z * adesc))
  (fs : list (Z * tval)) : list (K * gval) :=
  flat_map (fun f => match afby_id (fst f mod 65536) dfs with
                     | Some (nm, fd) => [(mk (fst f mod 65536) nm, gv fd (snd f))]
                     | None => []
                     end) fs.

Section GvalOf.
  (* u8: a BYTE is presented as uint8 (else int8); byname: structs are presented as map[string] (else map[FieldID]) *)
  Variables u8 byname : bool.

  Fixpoint gval_of (d : adesc) (v : tval) {struct v} : gval :=
    match v with
    | VBool raw => GBool (raw =? 1)
    | VByte z => if u8 then GInt GT_U8 (z mod 256) else GInt GT_I8 z
    | VI16 z => GInt GT_I16 z
    | VI32 z => GInt GT_I32 z
    | VI64 z => GInt GT_I64 z
    | VDouble b => GF64 b
    | VString s => match d with AString true => GBytes s | _ => GStr s end
    | VList _ es => GList (map (gval_of (delem d)) es)
    | VSet _ es => GList (map (gval_of (delem d)) es)
    | VMap kt _ es =>
      if kt =? T_STRING then GMapS (map (fun e => (gstr_key (fst e), gval_of (delem d) (snd e))) es)
      else if is_int_type kt then GMapI GT_INT (map (fun e => (gint_key (fst e), gval_of (delem d) (snd e))) es)
      else GMapA (map (fun e => (wrap_key (gval_of (dkey d) (fst e)), gval_of (delem d) (snd e))) es)
    | VStruct fs =>
      if byname then GMapS (members (fun _ nm => nm) gval_of (dfields d) fs)
      else GStructN (members (fun id _ => id) gval_of (dfields d) fs)
    end.
End GvalOf.

(* ---------------------------------------------------------------- side conditions of the theorems *)
(* the value has the shape the descriptor declares: container headers carry the declared element types (which are
   Thrift types, also when the container is empty), every declared member has its declared type; members the descriptor does not declare are allowed unless [strict] *)
Fixpoint conf (strict : bool) (d : adesc) (v : tval) {struct v} : bool :=
  match v, d with
  | VBool _, AScalar t => t =? T_BOOL
  | VByte _, AScalar t => t =? T_BYTE
  | VI16 _, AScalar t => t =? T_I16
  | VI32 _, AScalar t => t =? T_I32
  | VI64 _, AScalar t => t =? T_I64
  | VDouble _, AScalar t => t =? T_DOUBLE
  | VString _, AString _ => true
  | VList et es, AList e => (et =? dtype e) && valid_type et && forallb (conf strict e) es
  | VSet et es, ASet e => (et =? dtype e) && valid_type et && forallb (conf strict e) es
  | VMap kt vt es, AMap k e =>
    (kt =? dtype k) && (vt =? dtype e) && valid_type kt && valid_type vt && forallb (fun en => conf strict k (fst en) && conf strict e (snd en)) es
  | VStruct fs, AStruct dfs =>
    forallb (fun f => match afby_id (fst f mod 65536) dfs with
                      | Some (_, fd) => conf strict fd (snd f)
                      | None => negb strict
                      end) fs
  | _, _ => false
  end.

(* every BOOL byte is 0 or 1 (WriteBool writes nothing else) *)
Fixpoint bools01 (v : tval) : bool :=
  match v with
  | VBool raw => (raw =? 0) || (raw =? 1)
  | VStruct fs => forallb (fun f => bools01 (snd f)) fs
  | VMap _ _ es => forallb (fun e => bools01 (fst e) && bools01 (snd e)) es
  | VSet _ es => forallb bools01 es
  | VList _ es => forallb bools01 es
  | _ => true
  end.

(* the keys of every struct are pairwise distinct (a key resolves to its own field) *)
Fixpoint name_in (nm : list Z) (fs : list (Z * list Z * adesc)) : bool :=
  match fs with [] => false | (_, n, _) :: r => bytes_eqb n nm || name_in nm r end.
Fixpoint names_nodup (fs : list (Z * list Z * adesc)) : bool :=
  match fs with [] => true | (_, n, _) :: r => negb (name_in n r) && names_nodup r end.
Fixpoint names_ok (d : adesc) : bool :=
  match d with
  | AScalar _ | AString _ => true
  | AStruct fs => names_nodup fs && forallb (fun f => names_ok (snd f)) fs
  | AList e | ASet e => names_ok e
  | AMap k e => names_ok k && names_ok e
  end.

(* the Go value is a genuine Go value: no map holds the same key twice *)
Fixpoint gfresh (g : gval) : bool :=
  match g with
  | GList l => forallb gfresh l
  | GMapS es => fresh_from bytes_eqb [] es && forallb (fun e => gfresh (snd e)) es
  | GMapI _ es => fresh_from Z.eqb [] es && forallb (fun e => gfresh (snd e)) es
  | GMapA es => fresh_from gkey_eqb [] es && forallb (fun e => gfresh (fst e) && gfresh (snd e)) es
  | GStructN fs => fresh_from Z.eqb [] fs && forallb (fun e => gfresh (snd e)) fs
  | GPtr g' => gfresh g'
  | _ => true
  end.
