(* Correspondence checks for C03 (Thrift -> JSON, conv/t2j).
   301: one conversion.  The thrift bytes are decoded by the proved decoder of ThriftWire.v, the implementation's
        text is parsed by the proved parser of Json.v, and the document is compared with the denotation [t2j_spec]
        (numbers by value: integers exactly, doubles through the correctly rounded dec2f64).
   302/303: the number / text base models against Go's reference libraries and the implementation's leaf encoders. *)
From Coq Require Import ZArith List Bool.
From DG Require Import CaseFormat ProtoWireRef ThriftWire Json Num Base64 T2J T2JUnset.
Import ListNotations.
Local Open Scope Z_scope.

(* ---- descriptor shape parser (prefix order, see harness/c03.go descFields) ---- *)
Section DescLoops.
  Variable pd : list field -> option (tdesc * list field).
  Fixpoint parse_dfields (n : nat) (fs : list field) : option (list (fmeta * tdesc) * list field) :=
    match n with
    | O => Some ([], fs)
    | S n' =>
      match fs with
      | FZ id :: FB key :: FZ req :: FZ flags :: r =>
        match pd r with
        | Some (t, r2) =>
          match parse_dfields n' r2 with
          | Some (l, r3) => Some (({| f_id := id; f_key := key; f_req := req; f_flags := flags |}, t) :: l, r3)
          | None => None
          end
        | None => None
        end
      | _ => None
      end
    end.
End DescLoops.

Fixpoint parse_desc (fuel : nat) (fs : list field) : option (tdesc * list field) :=
  match fuel with
  | O => None
  | S f =>
    match fs with
    | FZ k :: r =>
      if is_num_scalar k then Some (DScalar k, r)
      else if k =? T_STRING then match r with FZ b :: r' => Some (DString (b =? 1), r') | _ => None end
      else if k =? T_STRUCT then
        match r with
        | FZ n :: r' =>
          if (n <? 0) || (n >? zlen r') then None else
          match parse_dfields (parse_desc f) (Z.to_nat n) r' with
          | Some (l, r2) => Some (DStruct l, r2)
          | None => None
          end
        | _ => None
        end
      else if k =? T_MAP then
        match parse_desc f r with
        | Some (dk, r2) => match parse_desc f r2 with Some (dv, r3) => Some (DMap dk dv, r3) | None => None end
        | None => None
        end
      else if (k =? T_SET) || (k =? T_LIST) then
        match parse_desc f r with Some (de, r2) => Some (DList (k =? T_SET) de, r2) | None => None end
      else None
    | _ => None
    end
  end.

(* ---- recorded findings 301-303, ALL REPAIRED in /repo (301: 780cc58, 302: eb8c8a0, 303: c24267f): the selector holds on the
   expected tree AND the text is exactly what the defect produced; they are recognised only so that a regression is reported
   under its id (a VKnown verdict whose finding has status fixed is an alarm); matched independently of each other ---- *)
Definition quirk_verdict (e : jexp) (out : list Z) (fallback : verdict) : verdict :=
  let s1 := negb (jexp_finite e) in
  let s2 := has_raw_string e in
  let s3 := has_neg_bytev e in
  let m (a b c : bool) := match qmatch a b c e out with Some [] => true | _ => false end in
  (* 303 alone (js_conv byte printed as uint8 with ByteAsUint8 off; repaired by /repo c24267f): ONLY the js_conv byte members
     deviate, every other member — js_conv strings included — must be the text of the spec *)
  if s3 && m false false true then VKnown 303
  (* 302 / 301: each is tried with and
     without the other deviations, because they are independent of each other *)
  else if s2 && (m false true false || (s3 && m false true true)) then VKnown 302
  else if s1 && (m true false false || (s3 && m true false true) || (s2 && (m true true false || (s3 && m true true true)))) then VKnown 301
  else fallback.

(* ---- thrift base (extracted into the context): compare with what the message carries ---- *)
Fixpoint parse_pairs (n : nat) (fs : list field) : option (list (list Z * list Z)) :=
  match n, fs with
  | O, [] => Some []
  | S n', FB k :: FB v :: r => match parse_pairs n' r with Some l => Some ((k, v) :: l) | None => None end
  | _, _ => None
  end.

Definition base_field (bv : option tval) (id : Z) : option tval :=
  match bv with
  | Some (VStruct vs) => match find (fun iv => fst iv =? id) vs with Some iv => Some (snd iv) | None => None end
  | _ => None
  end.

Definition pair_in (p : list Z * list Z) (es : list (tval * tval)) : bool :=
  existsb (fun e => match e with (VString k, VString v) => zlist_eqb k (fst p) && zlist_eqb v (snd p) | _ => false end) es.

Definition base_matches (bv : option tval) (msg : list Z) (code : Z) (extra : list (list Z * list Z)) : bool :=
  (match base_field bv 1 with Some (VString s) => zlist_eqb s msg | None => is_nil msg | _ => false end) &&
  (match base_field bv 2 with Some (VI32 z) => z =? code | None => code =? 0 | _ => false end) &&
  (match base_field bv 3 with
   | Some (VMap _ _ es) => (zlen es =? zlen extra) && forallb (fun p => pair_in p es) extra
   | None => is_nil extra
   | _ => false
   end).

Definition check_base (o : Z) (bv : option tval) (brest : list field) : verdict :=
  if o_base_in_ctx o then
    match brest with
    | FZ 1 :: FB msg :: FZ code :: FZ n :: prs =>
      if (n <? 0) || (n >? zlen prs) then VBad 99 [] else
      match parse_pairs (Z.to_nat n) prs with
      | Some extra =>
        if o_thrift_base o then expect 10 (base_matches bv msg code extra) []
        else expect 11 (is_nil msg && (code =? 0) && is_nil extra) []     (* option off: the context object is not touched *)
      | None => VBad 99 []
      end
    | _ => VBad 99 []
    end
  else VOk.

Definition exp_text (e : jexp) : list Z := json_print (to_json e).

(* a result carrying a document (okclass = 0: returned text with nil error; 2: the text of the exception error) *)
Definition judge_doc (e : jexp) (ec okclass : Z) (out : list Z) (prefix_ok : Z) : verdict :=
  if negb (jexp_finite e) then
    (* no JSON spelling for NaN / Inf: an error is what the property allows *)
    (if negb (ec =? 0) then VOk else if okclass =? 0 then quirk_verdict e out (VBad 4 []) else VBad 4 [])
  else if negb (ec =? okclass) then VBad 1 [FB (exp_text e)]
  else
    match json_parse out with
    | None => quirk_verdict e out (VBad 2 [FB (exp_text e)])       (* malformed JSON together with a nil error *)
    | Some j =>
      if negb (jmatch e j) then quirk_verdict e out (VBad 3 [FB (exp_text e)])
      else if negb (jexp_utf8 e) then VDrift 31               (* input strings that are not UTF-8 pass through byte for byte: outside the domain *)
      else if prefix_ok =? 1 then VOk else VDrift 33          (* DoInto dropped the caller's prefix: not a statement of the property *)
    end.

(* 301: fields = options, mode, descriptor shape..., thrift bytes, error class (0 nil, 1 dynamicgo error, 2 other error = exception text,
   3 panic), output text (error text for class 2), prefix intact, base present [, StatusMessage, StatusCode, n, (key, value)*] *)
Definition check_301 (fs : list field) : verdict :=
  match fs with
  | FZ o :: FZ mode :: rest =>
    match parse_desc (S (length rest)) rest with
    | Some (d, FB tb :: FZ ec :: FB out :: FZ prefix_ok :: brest) =>
      match decode_all (desc_type d) tb with
      | None => VSkip
      | Some v =>
        if negb (wf v && conforms v d) then VSkip else
        if ec =? 3 then VBad 8 [] else
        let '(res, bv) := t2j_specw o d v in
        match res with
        | TOk e => vand (judge_doc e ec 0 out prefix_ok) (if ec =? 0 then check_base o bv brest else VOk)
        | TExc e => judge_doc e ec 2 out 1
        | TErr c =>
          if negb (ec =? 0) then VOk
          else if (c =? E_UNKNOWN) || (c =? E_NONFINITE) then VBad 6 []
          else match json_parse out with Some _ => VDrift 32 | None => VBad 7 [] end
        end
      end
    | _ => VBad 99 []
    end
  | _ => VBad 99 []
  end.

(* 302: number lexeme against strconv.ParseFloat (reference): a disagreement is a defect of the MODEL (code 21) *)
Definition check_302 (fs : list field) : verdict :=
  match fs with
  | [FB lex; FZ b64; FZ b32] =>
    match lex2f64 lex, lex2f32 lex with
    | Some x, Some y => expect 21 ((x =? b64) && (y =? b32) && lex_is_f64 lex b64 && lex_is_f32 lex b32) [FZ x; FZ y]
    | _, _ => VBad 21 []
    end
  | _ => VBad 99 []
  end.

(* 303: leaf encoders. kind 1 int (value, implementation text, strconv text); 2 base64 (bytes, implementation literal, reference text);
   3 string (bytes, implementation literal, utf8.Valid); 4 double (bits, implementation text) *)
Definition check_303 (fs : list field) : verdict :=
  match fs with
  | [FZ 1; FZ v; FB impl; FB ref] =>
    vand (expect 22 (zlist_eqb (fmt_int v) ref) [FB (fmt_int v)])
         (if negb (lex_eq_int impl v) then VBad 1 [FB (fmt_int v)]
          else if zlist_eqb impl (fmt_int v) then VOk else VDrift 34)
  | [FZ 2; FB b; FB impl; FB ref] =>
    vand (expect 23 (zlist_eqb (b64_encode b) ref) [FB (b64_encode b)])
         (match unquote impl with
          | Some t => expect 2 (zlist_eqb t (b64_encode b) && match b64_decode t with Some b' => zlist_eqb b' b | None => false end) [FB (b64_encode b)]
          | None => VBad 2 []
          end)
  | [FZ 3; FB s; FB impl; FZ valid] =>
    vand (expect 24 (Bool.eqb (utf8_valid s) (valid =? 1)) [])
         (match unquote impl with
          | Some t => if negb (zlist_eqb t s) then VBad 3 [FB (quote_ref s)]
                      else if zlist_eqb impl (quote_ref s) then VOk else VDrift 35
          | None => VBad 3 [FB (quote_ref s)]
          end)
  | [FZ 4; FZ bits; FB impl; FB _] =>
    match lex2f64 impl with
    | Some b => expect 4 (lex_is_f64 impl bits) [FZ b]
    | None => VBad 4 []
    end
  | _ => VBad 99 []
  end.
