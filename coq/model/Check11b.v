(* Correspondence check for C11, Protobuf half (proto/generic Value.MarshalTo). *)
From Coq Require Import ZArith List Bool.
From DG Require Import CaseFormat ProtoWireRef ThriftCut ProtoCut.
Import ListNotations.
Local Open Scope Z_scope.

Fixpoint parse_pflds (n : nat) (fs : list field) : option (list pfield * list field) :=
  match n with
  | O => Some ([], fs)
  | S n' =>
    match fs with
    | FZ num :: FZ kind :: FZ sub :: r =>
      match parse_pflds n' r with Some (l, r') => Some ((num, kind, sub) :: l, r') | None => None end
    | _ => None
    end
  end.

Fixpoint parse_pmsgs (n : nat) (fs : list field) : option (pdefs * list field) :=
  match n with
  | O => Some ([], fs)
  | S n' =>
    match fs with
    | FZ nf :: r =>
      if (nf <? 0) || (nf >? 10000) then None else
      match parse_pflds (Z.to_nat nf) r with
      | Some (l, r') => match parse_pmsgs n' r' with Some (d, r'') => Some (l :: d, r'') | None => None end
      | None => None
      end
    | _ => None
    end
  end.

Definition parse_pdefs (fs : list field) : option (pdefs * list field) :=
  match fs with
  | FZ n :: r => if (n <? 0) || (n >? 10000) then None else parse_pmsgs (Z.to_nat n) r
  | _ => None
  end.

Definition pobs (r : pres) : Z * list Z := let '(c, _, o) := r in if c =? 0 then (0, o) else (c, []).
Definition pobs_eqb (a b : Z * list Z) : bool := (fst a =? fst b) && bytes_eqb (snd a) (snd b).
(* model class 4 = an error outside the three named classes; 9 = panic *)
Definition pobs_match (model impl : Z * list Z) : bool :=
  if fst model =? 4 then (fst impl =? 4) && bytes_eqb (snd impl) [] else pobs_eqb model impl.

(* 1102: message table, from index, to index, option bits (0 DisallowUnknown), input bytes, err class (9 = panic), output.
   The expectation is the sequential spec [pspec] on the whole buffer as one complete frame with nothing beyond it; inputs it
   classifies as outside the domain (code 5) are skipped. The byte-level mirror [pbcut] must agree with it (excluded by
   pbcut_refines_pspec: code 98), and on success the declarative projection [pproject] must give the same tree (code 97). *)
Definition check_1102 (fs : list field) : verdict :=
  match parse_pdefs fs with
  | Some (d, [FZ fi; FZ ti; FZ bits; FB bs; FZ err; FB out]) =>
    let dis := Z.testbit bits 0 in
    let fuel := S (length bs) in
    let impl := (err, out) in
    match pspec d dis fuel fi ti bs false true with
    | CErr 5 => VSkip
    | sp =>
      let spec := match sp with COk l => (0, enc_forest l) | CErr c => (c, []) end in
      let alg := pobs (pbcut d dis false fuel fi ti bs 0) in
      let decl_ok := match sp with
                     | COk l => match pproject d dis fuel fi ti bs with COk l' => bytes_eqb (enc_forest l) (enc_forest l') | CErr _ => false end
                     | CErr _ => true
                     end in
      if negb (pobs_eqb spec alg) then VBad 98 [FZ (fst alg); FB (snd alg)]
      else if negb decl_ok then VBad 97 []
      else if pobs_match spec impl then VOk
      else
        let q := pobs (pbcut d dis true fuel fi ti bs 0) in
        if negb (pobs_eqb q alg) && pobs_match q impl then VKnown 1102
        else if (err =? 0) && (fst spec =? 0) &&
                match to_tree d fuel ti out with Some t => bytes_eqb (enc_forest t) (snd spec) | None => false end then VDrift 3
        else VBad 1 [FZ (fst spec); FB (snd spec)]
    end
  | _ => VBad 99 []
  end.
