(* Correspondence check for C02 (JSON -> Thrift, conv/j2t).
   201: fields = descriptor (struct table, root type), option bits, document text, then the distinct observations of the
        implementation over Do and the DoInto capacity / dirty-prefix sweep: (capacity, prefix, error class, buffer).
        The checker recomputes j2t_text with the STRICT model; every observation must be  prefix ++ model bytes  (error <-> model error).
   Deviations that are genuine recorded defects are recognised by re-running the model under the policy that describes what the
   code does there ([num_code], key prefix parse, ...) and demanding byte equality with it. *)
From Coq Require Import ZArith List Bool.
From DG Require Import CaseFormat ProtoWireRef ThriftWire Json Num Base64 J2T J2TWalk.
Import ListNotations.
Local Open Scope Z_scope.

(* type := 2 | 3 | 4 | 6 | 8 | 10 | 11 | 111 (binary) | 12 idx | 15 elem | 14 elem | 13 key elem *)
Fixpoint parse_ty02 (fuel : nat) (fs : list field) : option (ty * list field) :=
  match fuel with
  | O => None
  | S f =>
    match fs with
    | FZ c :: r =>
      if c =? 2 then Some (TBool, r) else if c =? 3 then Some (TByte, r) else if c =? 4 then Some (TDouble, r)
      else if c =? 6 then Some (TI16, r) else if c =? 8 then Some (TI32, r) else if c =? 10 then Some (TI64, r)
      else if c =? 11 then Some (TString, r) else if c =? 111 then Some (TBinary, r)
      else if c =? 12 then match r with FZ i :: r' => if i <? 0 then None else Some (TStruct (Z.to_nat i), r') | _ => None end
      else if c =? 15 then match parse_ty02 f r with Some (e, r') => Some (TList e, r') | None => None end
      else if c =? 14 then match parse_ty02 f r with Some (e, r') => Some (TSet e, r') | None => None end
      else if c =? 13 then
        match parse_ty02 f r with
        | Some (k, r') => match parse_ty02 f r' with Some (e, r'') => Some (TMap k e, r'') | None => None end
        | None => None
        end
      else None
    | _ => None
    end
  end.

Fixpoint parse_keys02 (n : nat) (fs : list field) : option (list (list Z) * list field) :=
  match n with
  | O => Some ([], fs)
  | S n' => match fs with
            | FB k :: r => match parse_keys02 n' r with Some (ks, r') => Some (k :: ks, r') | None => None end
            | _ => None
            end
  end.

Fixpoint parse_flds02 (n : nat) (fs : list field) : option (list fld * list field) :=
  match n with
  | O => Some ([], fs)
  | S n' =>
    match fs with
    | FZ id :: FZ req :: FZ vm :: FZ nk :: r =>
      if (nk <? 0) || (nk >? 16) then None else
      match parse_keys02 (Z.to_nat nk) r with
      | Some (ks, r1) =>
        match parse_ty02 (S (length r1)) r1 with
        | Some (t, r2) => match parse_flds02 n' r2 with Some (l, r3) => Some (mkFld id ks t req (negb (vm =? 0)) :: l, r3) | None => None end
        | None => None
        end
      | None => None
      end
    | _ => None
    end
  end.

Fixpoint parse_structs02 (n : nat) (fs : list field) : option (defs * list field) :=
  match n with
  | O => Some ([], fs)
  | S n' =>
    match fs with
    | FZ nf :: r =>
      if (nf <? 0) || (nf >? 10000) then None else
      match parse_flds02 (Z.to_nat nf) r with
      | Some (l, r') => match parse_structs02 n' r' with Some (d, r'') => Some (l :: d, r'') | None => None end
      | None => None
      end
    | _ => None
    end
  end.

Definition parse_defs02 (fs : list field) : option (defs * list field) :=
  match fs with
  | FZ n :: r => if (n <? 0) || (n >? 10000) then None else parse_structs02 (Z.to_nat n) r
  | _ => None
  end.

(* observations: (capacity, prefix, error class, buffer) *)
Fixpoint parse_obs02 (n : nat) (fs : list field) : option (list (Z * list Z * Z * list Z)) :=
  match n with
  | O => match fs with [] => Some [] | _ => None end
  | S n' =>
    match fs with
    | FZ cp :: FB pre :: FZ ec :: FB out :: r =>
      match parse_obs02 n' r with Some l => Some ((cp, pre, ec, out) :: l) | None => None end
    | _ => None
    end
  end.

Definition opts02 (bits : Z) : jopts := mkOpts (Z.odd bits) (Z.odd (bits / 2)) (Z.odd (bits / 4)) (Z.odd (bits / 8)).

(* ---- text transformations used to recognise recorded deviations ---- *)

(* raw control bytes inside string literals -> \u00xx (what an RFC 8259 writer would have had to write) *)
Fixpoint repair_ctl (instr esc : bool) (bs : list Z) : list Z :=
  match bs with
  | [] => []
  | c :: r =>
    if instr then
      if esc then c :: repair_ctl true false r
      else if c =? 92 then c :: repair_ctl true true r
      else if c =? 34 then c :: repair_ctl false false r
      else if (0 <=? c) && (c <? 32) then 92 :: 117 :: 48 :: 48 :: hex_digit (c / 16) :: hex_digit (c mod 16) :: repair_ctl true false r
      else c :: repair_ctl true false r
    else if c =? 34 then c :: repair_ctl true false r
    else c :: repair_ctl false false r
  end.

(* raw body of a string literal up to the closing quote, and the text after it *)
Fixpoint raw_str (bs : list Z) (esc : bool) : list Z * list Z :=
  match bs with
  | [] => ([], [])
  | c :: r =>
    if esc then let (b, t) := raw_str r false in (c :: b, t)
    else if c =? 34 then ([], r)
    else let (b, t) := raw_str r (c =? 92) in (c :: b, t)
  end.

(* every escape sequence becomes \u0001: a byte that is neither base64 nor part of a number *)
Fixpoint poison_body (b : list Z) : list Z :=
  match b with
  | [] => []
  | c :: r =>
    if c =? 92 then
      match r with
      | e :: r2 =>
        if e =? 117 then
          match r2 with
          | _ :: _ :: _ :: _ :: r3 => 92 :: 117 :: 48 :: 48 :: 48 :: 49 :: poison_body r3
          | _ => [92; 117; 48; 48; 48; 49]
          end
        else 92 :: 117 :: 48 :: 48 :: 48 :: 49 :: poison_body r2
      | [] => [92]
      end
    else c :: poison_body r
  end.

(* poison the escapes of string VALUES (a literal followed by ':' is a key and is left alone: keys are unescaped by the code) *)
Fixpoint poison (fuel : nat) (bs : list Z) : list Z :=
  match fuel with
  | O => bs
  | S f =>
    match bs with
    | [] => []
    | c :: r =>
      if c =? 34 then
        let (b, t) := raw_str r false in
        let iskey := match skip_ws t with c2 :: _ => c2 =? 58 | [] => false end in
        34 :: (if iskey then b else poison_body b) ++ 34 :: poison f t
      else c :: poison f r
    end
  end.

(* self-check of the number oracle: for every number lexeme of the document (values, and strings / keys that spell a number),
   the bits computed by the algorithm dec2f64 satisfy the independent decidable specification of round-to-nearest-even
   (Num.f64_rounds_to).  A disagreement is an alarm about the MODEL (verdict code 90), never a silent acceptance. *)
Definition lex_consistent (l : list Z) : bool :=
  if (length l <=? 15)%nat && forallb (fun c => is_digit c || (c =? 45)) l then true else   (* short plain integers are exact in binary64: nothing to round *)
  match lex_decimal l with
  | Some d => f64_rounds_to d (dec2f64 d)
  | None => true
  end.
Fixpoint nums_consistent (j : json) : bool :=
  match j with
  | JNum l => lex_consistent l
  | JStr x => lex_consistent x
  | JArr xs => forallb nums_consistent xs
  | JObj ms => forallb (fun m => lex_consistent (fst m) && nums_consistent (snd m)) ms
  | _ => true
  end.

Definition res_is (r : res) (pre out : list Z) : bool :=
  match r with Ok b => bytes_eqb out (pre ++ b) | Err _ => false end.

Definition worse (a b : verdict) : verdict :=
  match a, b with
  | VBad _ _, _ => a
  | _, VBad _ _ => b
  | VKnown _, _ => a
  | _, VKnown _ => b
  | VDrift _, _ => a
  | _, VDrift _ => b
  | VSkip, _ => a
  | _, _ => b
  end.

Section Judge.
  Variable D : defs.
  Variable o : jopts.
  Variable t : ty.
  Variable text : list Z.
  Variable m : res.    (* the strict model result, computed once *)
  Variable oob : Z.    (* number of struct-level key lookups of this document that hit the native trie's off-by-one bound test (finding 207, fixed by a spare node on the Go side) *)

  Definition judge02 (ob : Z * list Z * Z * list Z) : verdict :=
    let '(cp, pre, ec, out) := ob in
    if ec =? 9 then VBad 9 [FZ cp] else          (* a panic is never an acceptable outcome *)
    if ec =? 11 then VBad 11 [] else             (* a result returned by an earlier Do changed its bytes during this Do (aliases the pooled buffer) *)
    if ec =? 10 then VBad 10 [FZ cp; FZ oob] else   (* memory fault inside the native code (finding 207 is fixed: never acceptable; oob = number of
                                                       key lookups of the document that reach the native trie's off-by-one bound test) *)
    match m with
    | Ok b =>
      if ec =? 0 then
        if bytes_eqb out (pre ++ b) then VOk
        else if res_is (j2t_do (mkPolicy num_drift false false) D o t text) pre out then VDrift 1   (* "-0" for a double; integers beyond 2^53 spelled with fraction/exponent *)
        else if res_is (j2t_do (mkPolicy num_drift false true) D o t text) pre out then VKnown 208  (* api.js_conv on an i16 field: one extra byte *)
        else VBad 1 [FB b; FZ cp]
      else
        (* finding 203: an escape sequence inside a base64 binary / a string-spelled number is not unescaped by the code *)
        match j2t_do strict D o t (poison (length text) text) with
        | Err _ => VKnown 203
        | Ok _ =>
          (* finding 209: a null member for an api.js_conv field is an error instead of being omitted *)
          match j2t_do (mkPolicy num_strict false true) D o t text with
          | Err _ => VKnown 209
          | Ok _ => VBad 2 [FB b; FZ cp; FZ ec]
          end
        end
    | Err c =>
      if negb (ec =? 0) then (if (c =? E_UNKNOWN) && negb (ec =? 1) then VDrift 3 else VOk)
      else
        match text with
        | [] => VBad 3 [FZ cp]
        | _ =>
          match json_parse_prefix text with
          | Some (JNull, _) => if bytes_eqb out pre then VKnown 204 else VBad 4 [FZ cp]
          | Some _ =>
            if res_is (j2t_do (mkPolicy num_code false false) D o t text) pre out then VKnown 202
            else if res_is (j2t_do (mkPolicy num_code true false) D o t text) pre out then VKnown 206
            else if res_is (j2t_do (mkPolicy num_code true true) D o t text) pre out then VKnown 208
            else VBad 5 [FZ c; FZ cp]
          | None =>
            if res_is (j2t_do strict D o t (repair_ctl false false text)) pre out then VKnown 205
            (* finding 213: a top-level string literal cut off by the end of the text whose body is a multiple of 32 bytes is accepted
               with its last byte taken for the closing quote (native advance_string: `ch` is read uninitialised when the SIMD
               rounds consume everything) *)
            else if is_str_ty t && (match text with c :: _ => c =? 34 | [] => false end)
                    && ((Z.of_nat (length text) - 1) mod 32 =? 0)
                    && res_is (j2t_do strict D o t (repair_ctl false false (removelast text ++ [34]))) pre out then VKnown 213
            else VBad 6 [FZ cp]
          end
        end
    end.
End Judge.

Definition check_201 (fs : list field) : verdict :=
  match parse_defs02 fs with
  | None => VBad 99 []
  | Some (D, r) =>
    match parse_ty02 (S (length r)) r with
    | Some (t, FZ bits :: FZ oob :: FB text :: FZ n :: r') =>
      if (n <? 0) || (n >? 100000) then VBad 98 [] else
      match parse_obs02 (Z.to_nat n) r' with
      | None => VBad 97 []
      | Some obs =>
        let o := opts02 bits in
        let m := j2t_do strict D o t text in
        if negb (match json_parse_prefix text with Some (j, _) => nums_consistent j | None => true end) then VBad 90 [] else
        fold_left (fun acc ob => worse acc (judge02 D o t text m oob ob)) obs VOk
      end
    | _ => VBad 96 []
    end
  end.

(* ---- 202: capacity independence under the write options (model-free; what is filled in for absent fields is C16's subject).
        fields = option bits, document text, observations; the first observation (Do, pooled buffer) is the reference. ---- *)

(* out = ref with some 3-byte blocks inserted (a stale field header: type byte + id) *)
Fixpoint ins3 (fuel : nat) (ref out : list Z) : bool :=
  match fuel with
  | O => false
  | S f =>
    match out with
    | [] => match ref with [] => true | _ => false end
    | y :: o' =>
      (match ref with x :: r' => (x =? y) && ins3 f r' o' | [] => false end) ||
      (match out with _ :: _ :: _ :: o3 => ins3 f ref o3 | _ => false end)
    end
  end.

(* the text has a member value `null` directly before a closing brace *)
Fixpoint null_last (bs : list Z) : bool :=
  match bs with
  | [] => false
  | c :: r =>
    (if c =? 110 then
       match match_lit [117; 108; 108] r with
       | Some r' => match skip_ws r' with c2 :: _ => c2 =? 125 | [] => false end
       | None => false
       end
     else false) || null_last r
  end.

Definition check_202 (fs : list field) : verdict :=
  match fs with
  | FZ bits :: FB text :: FZ n :: r =>
    if (n <? 1) || (n >? 100000) then VBad 98 [] else
    match parse_obs02 (Z.to_nat n) r with
    | Some ((_, _, ec0, ref) :: obs) =>
      if (ec0 =? 9) || (ec0 =? 10) || (ec0 =? 11) then VBad 9 [] else
      fold_left (fun acc ob =>
        let '(cp, pre, ec, out) := ob in
        worse acc
          (if (ec =? 9) || (ec =? 10) || (ec =? 11) then VBad 9 [FZ cp]
           else if negb (ec0 =? 0) then (if negb (ec =? 0) then VOk else VBad 2 [FZ cp])
           else if negb (ec =? 0) then VBad 3 [FZ cp; FZ ec]
           else if bytes_eqb out (pre ++ ref) then VOk
           (* finding 210: the buffer ran out while the absent fields were being written after a null LAST member:
              the unwound field header comes back (native J2T_STORE restores buf->len to its value before the unwinding) *)
           else if null_last text && negb (bits =? 0) && ins3 (S (2 * length out)) (pre ++ ref) out then VKnown 210
           else VBad 1 [FB (pre ++ ref); FZ cp])) obs VOk
    | _ => VBad 97 []
    end
  | _ => VBad 99 []
  end.

(* ---- 211: the ALGORITHM-level model (J2TWalk.j2t_walk, the transcription of the portable converter's doRecurse) against the
        PORTABLE converter (conv/j2tportable) on every generated document: bytes and error class must be exactly the walk's.
        fields = descriptor, root type, option bits (1 DisallowUnknownField 2 String2Int64 4 NoBase64Binary 8 EnableValueMapping
        16 WriteDefaultField 32 WriteRequireField 64 WriteOptionalField), text, error class, output. ---- *)
Definition wopts02 (bits : Z) : wopts :=
  mkWopts (Z.odd bits) (Z.odd (bits / 2)) (Z.odd (bits / 4)) (Z.odd (bits / 8)) (Z.odd (bits / 32)) (Z.odd (bits / 16)) (Z.odd (bits / 64)).

Definition check_211 (fs : list field) : verdict :=
  match parse_defs02 fs with
  | None => VBad 99 []
  | Some (D, r) =>
    match parse_ty02 (S (length r)) r with
    | Some (t, [FZ bits; FB text; FZ ec; FB out]) =>
      if (ec =? 9) || (ec =? 10) then VBad 9 [] else
      match j2t_walk D (wopts02 bits) t text with
      | TUnmod => VSkip
      | TOk b =>
        if (ec =? 0) && bytes_eqb out b then VOk
        else VBad 1 [FB b; FZ ec]
      | TErr c => if ec =? 0 then VBad 2 [FZ c] else if ec =? c then VOk else VBad 3 [FZ c; FZ ec]
      end
    | _ => VBad 96 []
    end
  end.
