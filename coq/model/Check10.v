(* Correspondence checks for C10 (Protobuf edits and DOM marshalling). Format: harness/c10.go. *)
From Coq Require Import ZArith List Bool.
From DG Require Import CaseFormat ProtoWireRef ProtoMsg ProtoCase ProtoRelen ProtoEdit ProtoEditCoded.
Import ListNotations.
Local Open Scope Z_scope.

(* ---- parsing *)
Fixpoint parse_steps (n : nat) (fs : list field) : option (list pstep * list field) :=
  match n with
  | O => Some ([], fs)
  | S n' =>
    match fs with
    | FZ 1 :: FZ id :: r => match parse_steps n' r with Some (p, r') => Some (PField id :: p, r') | None => None end
    | FZ 2 :: FB s :: r => match parse_steps n' r with Some (p, r') => Some (PName s :: p, r') | None => None end
    | FZ 3 :: FZ i :: r => match parse_steps n' r with Some (p, r') => Some (PIndex i :: p, r') | None => None end
    | FZ 4 :: FB k :: r => match parse_steps n' r with Some (p, r') => Some (PStrKey k :: p, r') | None => None end
    | FZ 5 :: FZ k :: r => match parse_steps n' r with Some (p, r') => Some (PIntKey k :: p, r') | None => None end
    | _ => None
    end
  end.
Definition parse_path10 (fs : list field) : option (list pstep * list field) :=
  match fs with
  | FZ n :: r => if count_ok n then parse_steps (Z.to_nat n) r else None
  | _ => None
  end.

Fixpoint parse_many (n : nat) (fs : list field) : option (list (Z * list Z) * list field) :=
  match n with
  | O => Some ([], fs)
  | S n' =>
    match fs with
    | FZ id :: FB b :: r => match parse_many n' r with Some (l, r') => Some ((id, b) :: l, r') | None => None end
    | _ => None
    end
  end.

Definition msg_eqv (a b : pmsg) : bool := pval_eqv (VMsg a) (VMsg b) && pval_eqv (VMsg b) (VMsg a).

(* sub values of a SetMany: every id must be a singular field of the root *)
Fixpoint many_vals (S : schema) (md : mdesc) (l : list (Z * list Z)) : option (list (Z * pval)) :=
  match l with
  | [] => Some []
  | (id, b) :: r =>
    match find_field md id with
    | Some fd =>
      match fd_label fd with
      | LSingular =>
        match decode_elem S (fd_type fd) b, many_vals S md r with
        | Some x, Some xs => Some ((id, x) :: xs)
        | _, _ => None
        end
      | _ => None
      end
    | None => None
    end
  end.

(* the abstract operation of a step; None = the case is outside the domain (harness) *)
Inductive op10 := Op (o : pop) | OpSkip.

(* verdict of one step + next model state + next "previous bytes" *)
Definition judge (idx : Z) (S : schema) (root : list Z) (m : pmsg) (prev : list Z) (o : pop) (co : cop)
                 (err ex : Z) (res : list Z) (acc : Z) : verdict * option (pmsg * list Z) :=
  let unchanged := bytes_eqb res prev in
  let impl := if (err =? 0) && (acc =? 1) then decode_top S root res else None in
  let spec := match o with
              | OSet p x => match pset S root m p x with Some (m', e) => Some (m', Some e) | None => None end
              | OUnset p => match punset S root m p with Some (m', r) => Some (m', if r then None else Some false) | None => None end
              | OSetMany _ => match pstep_op S root m o with Some m' => Some (m', None) | None => None end
              end in
  let good :=
    match spec with
    | Some (m', fl) =>
      match o, fl with
      | OUnset _, Some false =>        (* absent last element: nothing to remove; error or not, bytes unchanged *)
        if ((err =? 0) || (err =? 1)) && unchanged then Some (m, prev) else None
      | _, _ =>
        match impl with
        | Some mi =>
          if msg_eqv mi m' && match fl with Some e => ex =? Z.b2z e | None => true end then Some (m', res) else None
        | None => None
        end
      end
    | None => (* the path addresses nothing / wrong kinds: an error (UnsetByPath may also return nil), bytes unchanged *)
      if ((err =? 1) || (match o with OUnset _ => err =? 0 | _ => false end)) && unchanged then Some (m, prev) else None
    end in
  match good with
  | Some st => ((if coded_agrees S root prev co err ex res then VOk else VDrift 1), Some st)
  | None =>
    (* deviation: is it exactly what the code as written does in one of the recorded defect classes? *)
    match known_class S root prev co err ex res with
    | Some id =>
      (VKnown id,
       if err =? 0 then match impl with Some mi => if wf_msg S root mi then Some (mi, res) else None | None => None end
       else if unchanged then Some (m, prev) else None)
    | None =>
      (VBad (100 + idx) [FZ (match spec with Some _ => 0 | None => 1 end);
                         FB (match spec with Some (m', _) => encode_msg m' | None => prev end)], None)
    end
  end.

Definition first_nonok (a b : verdict) : verdict := match a with VOk => b | _ => a end.

(* Buffers are VALUES in the model: an operation yields new bytes and cannot change bytes that were handed out before.
   So after every operation (successful, failed, or deviating in a recorded way) the caller's input slice and a second
   root value made over it still hold the original bytes b0, and the slice the value held before the operation still
   holds prev. *)
Definition immutable_ok (b0 prev inp wit ali : list Z) : bool :=
  bytes_eqb inp b0 && bytes_eqb wit b0 && bytes_eqb ali prev.

Fixpoint run_1001 (n : nat) (idx : Z) (b0 : list Z) (S : schema) (root : list Z) (md : mdesc) (m : pmsg) (prev : list Z)
                  (fs : list field) : verdict :=
  match n with
  | O => match fs with [] => VOk | _ => VBad 97 [] end
  | Datatypes.S n' =>
    let continue (v : verdict * option (pmsg * list Z)) (rest : list field) :=
      match v with
      | (VOk, Some (m', prev')) => run_1001 n' (idx + 1) b0 S root md m' prev' rest
      | (VDrift c, Some (m', prev')) => match run_1001 n' (idx + 1) b0 S root md m' prev' rest with VOk => VDrift c | o => o end
      | (VKnown id, Some (m', prev')) => first_nonok (VKnown id) (match run_1001 n' (idx + 1) b0 S root md m' prev' rest with
                                                                  | VBad c d => VBad c d | _ => VKnown id end)
      | (o, _) => o
      end in
    match fs with
    | FZ 1 :: r =>
      match parse_path10 r with
      | Some (p, FB sub :: FZ nk :: FZ err :: FZ ex :: FB res :: FZ acc :: FB inp :: FB wit :: FB ali :: rest) =>
        if negb (immutable_ok b0 prev inp wit ali) then VBad (400 + idx) [FB b0; FB prev] else
        match path_type_lax S LSingular (TMsg root) p with
        | Some (LSingular, t) =>
          if negb (nk =? kind_of_type t) then
            (* an ill-typed node (API contract: the node has the type of the addressed element): an error, the buffer
               unchanged; the dummy value makes the specified set fail at its type check *)
            continue (judge idx S root m prev (OSet p (VList false [])) (CSet p sub nk) err ex res acc) rest
          else
          match decode_elem S t sub with
          | Some x => continue (judge idx S root m prev (OSet p x) (CSet p sub nk) err ex res acc) rest
          | None => VSkip
          end
        | _ => VSkip
        end
      | _ => VBad 96 []
      end
    | FZ 2 :: r =>
      match parse_path10 r with
      | Some (p, FZ err :: FZ ex :: FB res :: FZ acc :: FB inp :: FB wit :: FB ali :: rest) =>
        if negb (immutable_ok b0 prev inp wit ali) then VBad (400 + idx) [FB b0; FB prev] else
        continue (judge idx S root m prev (OUnset p) (CUnset p) err ex res acc) rest
      | _ => VBad 96 []
      end
    | FZ 3 :: FZ k :: r =>
      if negb (count_ok k) then VBad 96 [] else
      match parse_many (Z.to_nat k) r with
      | Some (l, FZ err :: FZ ex :: FB res :: FZ acc :: FB inp :: FB wit :: FB ali :: rest) =>
        if negb (immutable_ok b0 prev inp wit ali) then VBad (400 + idx) [FB b0; FB prev] else
        match many_vals S md l with
        | Some xs => continue (judge idx S root m prev (OSetMany xs) (CSetMany l) err ex res acc) rest
        | None => VSkip
        end
      | _ => VBad 96 []
      end
    | _ => VBad 95 []
    end
  end.

Definition check_1001 (fs : list field) : verdict :=
  match parse_schema fs with
  | Some (root, sc, FB b0 :: FZ nops :: rest) =>
    match find_msg sc root, decode_top sc root b0 with
    | Some md, Some m0 =>
      if negb (wf_msg sc root m0) then VSkip
      else if (nops <? 0) || (nops >? 1000) then VBad 99 []
      else run_1001 (Z.to_nat nops) 0 b0 sc root md m0 b0 rest
    | _, _ => VSkip
    end
  | _ => VBad 99 []
  end.

(* ---- Load + Marshal: the output must be accepted by the reference and decode to the same message *)
Definition judge_load (sc : schema) (root b0 : list Z) (rec err : Z) (outb : list Z) (acc : Z) : verdict :=
  match decode_top sc root b0 with
  | Some m0 =>
    if negb (wf_msg sc root m0) then VSkip else
    let good := (err =? 0) && (acc =? 1) &&
                match decode_top sc root outb with Some mo => msg_eqv mo m0 | None => false end in
    if good then
      (if negb (rec =? 1) then VOk
       else match coded_load_marshal cur_fixes sc root b0 with
            | EOk o => if bytes_eqb o outb then VOk else VDrift 2
            | _ => VDrift 2
            end)
    else match known_load sc root m0 b0 rec err outb with
         | Some id => VKnown id
         | None => VBad 200 [FB (encode_msg m0)]
         end
  | None => VSkip
  end.

Definition check_1002 (fs : list field) : verdict :=
  match parse_schema fs with
  | Some (root, sc, [FB b0; FZ rec; FZ err; FB outb; FZ acc; FB rnow; FB rthen]) =>
    if negb (bytes_eqb rnow rthen) then VBad 210 [FB rthen] else judge_load sc root b0 rec err outb acc
  | _ => VBad 99 []
  end.

(* ---- tree reuse: whatever was loaded into the PathNode before, Load + Marshal of the LAST message must behave as on
   a fresh tree (the model has no state to go stale): same judgement as 1002 against the last message *)
Definition check_1003 (fs : list field) : verdict :=
  match parse_schema fs with
  | Some (root, sc, [FB bA; FB bB; FZ recA; FZ recB; FZ mode; FZ err; FB outb; FZ acc; FB rnow; FB rthen]) =>
    if negb (bytes_eqb rnow rthen) then VBad 310 [FB rthen] else
    let bl := if mode =? 2 then bA else bB in
    let recl := if mode =? 2 then recA else recB in
    let stale := known_reuse sc root bA bB recA recB mode err outb in
    let fresh := (recl =? 1) && load_matches (coded_load_marshal cur_fixes sc root bl) err outb in
    (* mode 2 (A, B, A): an error may stem from the intermediate Load / Marshal of B on its own (e.g. bool keys) *)
    let mid := if (mode =? 2) && (err =? 1)
               then match decode_top sc root bB with
                    | Some mB => if load_matches (coded_load_marshal cur_fixes sc root bB) err outb
                                 then known_load sc root mB bB recB err outb else None
                    | None => None
                    end
               else None in
    match judge_load sc root bl recl err outb acc with
    | VOk | VDrift _ => if reuse_agrees sc root bA bB recA recB mode err outb then VOk else VDrift 3
    | VSkip => VSkip
    | VKnown id =>                       (* a fresh tree deviates in the same way (e.g. bool keys): not a matter of re-use *)
      match mid, stale with
      | Some mid_id, _ => VKnown mid_id
      | None, Some sid => if fresh then VKnown id else VKnown sid
      | None, None => VKnown id
      end
    | VBad _ d =>
      match mid, stale with
      | Some mid_id, _ => VKnown mid_id
      | None, Some sid => VKnown sid
      | None, None => VBad 300 d
      end
    end
  | _ => VBad 99 []
  end.
