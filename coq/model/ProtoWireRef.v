(* Reference (specification-level) Protobuf wire primitives, written by recursion.
   The generated definitions in gen/Gen_protowire.v are proved equal to these. *)
From Coq Require Import ZArith List Bool.
Import ListNotations.
Local Open Scope Z_scope.

Definition byte_ok (b : Z) : Prop := 0 <= b < 256.
Definition bytes_ok (bs : list Z) : Prop := Forall byte_ok bs.
Definition byte_okb (b : Z) : bool := (0 <=? b) && (b <? 256).
Definition bytes_okb (bs : list Z) : bool := forallb byte_okb bs.

(* base-128 little-endian varint; fuel = maximum number of bytes *)
Fixpoint venc (fuel : nat) (v : Z) : list Z :=
  match fuel with
  | O => []
  | S f => if v <? 128 then [v] else (v mod 128 + 128) :: venc f (v / 128)
  end.
Definition varint_enc (v : Z) : list Z := venc 10 v.

(* decoder: k = number of bytes that may still carry a continuation bit (9 at the start);
   returns (value, bytes consumed) or (0, -1) truncated / (0, -3) overflow, as protowire does *)
Fixpoint vdec (k : nat) (shift acc n : Z) (bs : list Z) : Z * Z :=
  match bs with
  | [] => (0, -1)
  | y :: r =>
    match k with
    | O => if y <? 2 then (acc + y * 2 ^ shift, n + 1) else (0, -3)
    | S k' => if y <? 128 then (acc + y * 2 ^ shift, n + 1)
              else vdec k' (shift + 7) (acc + (y - 128) * 2 ^ shift) (n + 1) r
    end
  end.
Definition varint_dec (bs : list Z) : Z * Z := vdec 9 0 0 0 bs.

(* zig-zag on int64 <-> uint64 *)
Definition zigzag_enc (v : Z) : Z := if v <? 0 then -2 * v - 1 else 2 * v.
Definition zigzag_dec (x : Z) : Z := if Z.even x then x / 2 else - ((x + 1) / 2).

(* little-endian fixed width *)
Fixpoint le_enc (n : nat) (v : Z) : list Z :=
  match n with O => [] | S n' => (v mod 256) :: le_enc n' (v / 256) end.
Fixpoint le_dec (n : nat) (bs : list Z) : Z :=
  match n with O => 0 | S n' => match bs with [] => 0 | x :: r => x + 256 * le_dec n' r end end.

(* two's complement views *)
Definition to_u (k : Z) (x : Z) : Z := x mod 2 ^ k.
Definition to_s (k : Z) (x : Z) : Z := (x + 2 ^ (k - 1)) mod 2 ^ k - 2 ^ (k - 1).
Definition in_u (k : Z) (x : Z) : Prop := 0 <= x < 2 ^ k.
Definition in_s (k : Z) (x : Z) : Prop := - 2 ^ (k - 1) <= x < 2 ^ (k - 1).
