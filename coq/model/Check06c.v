(* Correspondence checks for C06, third part: DOM load and protobuf path search on MALFORMED input against their
   byte-level models (ThriftDom.load: totality / linear node count / raw slices inside the buffer are proved in
   proofs/RobustThriftWalk.v; ProtoGenericAlg.gbp: proofs/RobustProtoWalk.v).  Policy as for 611-613: the code may reject
   what the model accepts (drift), it may not succeed where the model errs, nor panic. *)
From Coq Require Import ZArith List Bool.
From DG Require Import CaseFormat ProtoWireRef ThriftWire ThriftGeneric ThriftDom ProtoMsg ProtoCase ProtoGeneric ProtoGenericAlg Check07.
Import ListNotations.
Local Open Scope Z_scope.

Fixpoint tree_count (x : tree) : Z :=
  match x with T _ _ _ _ kids => 1 + fold_right (fun kc acc => (if t_empty (snd kc) then 0 else tree_count (snd kc)) + acc) 0 kids end.

(* 614: PathNode.Load.  fields: type, bytes, recurse, NotScanParentNode, status (0 ok, 1 error, 3 panic), number of nodes *)
Definition check_614 (fs : list field) : verdict :=
  match fs with
  | [FZ t; FB bs; FZ rec; FZ ns; FZ st; FZ nodes] =>
    if st =? 3 then VBad 3 [] else
    (* what the implementation built is at most linear in the input, whatever the model says *)
    if (st =? 0) && (nodes >? zlen bs + 1) then VBad 4 [FZ (zlen bs + 1)] else
    (* the bounded skip first: a buffer that does not hold one complete value must be refused; and only after it has
       validated every length prefix is the load model run (its string reads convert the length to nat) *)
    match skip_go t bs with
    | None => expect 5 (negb (st =? 0)) [FZ 1]
    | Some _ =>
      match load (negb (rec =? 0)) (negb (ns =? 0)) t bs with
      | Some tr =>
        if st =? 0 then (if nodes =? tree_count tr then VOk else VDrift 4) else VDrift 1
      (* the buffer holds one complete value (skip accepts it) but the load model refuses it: the model is stricter than
         the code on details outside this property (ThriftDom checks the key/element type bytes of a map with
         ThriftWire.valid_type, the code with Type.Valid, which also admits STOP/VOID/UTF8/UTF16): drift, not a failure *)
      | None => if st =? 0 then VDrift 6 else VOk
      end
    end
  | _ => VBad 99 []
  end.

Definition all_on : fixes := fx_of [].

Definition judge_615 (sc : schema) (root : list Z) (bs : list Z) (p : list pstep) (st ty : Z) (raw : list Z) (_ : qextra) : verdict :=
  if st =? 3 then VBad 3 [] else
  match gbp all_on sc root bs p with
  | GUnmodelled => VSkip
  | g =>
    if obs_matches_alg g st ty raw then VOk else
    match g with
    | GFoundA t r _ => if st =? 0 then VBad 1 [FZ t; FB r] else VDrift 1
    | _ => if st =? 0 then VBad 2 [FZ 1] else VDrift 2
    end
  end.

(* 615: proto/generic Value.GetByPath by ids.  fields: schema, bytes, api (1), #queries, { path, status, type, raw } *)
Definition check_615 (fs : list field) : verdict :=
  match parse_head fs with
  | Some (root, sc, bs, FZ _ :: FZ nq :: r) =>
    if negb (count_ok nq) then VBad 99 [] else
    run_queries (judge_615 sc root bs) false false (Z.to_nat nq) 0 r VOk []
  | _ => VBad 99 []
  end.
