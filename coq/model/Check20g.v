(* Correspondence checks for the definitions go2coq generates in its abstract-environment mode (tools/go2coq/abs.go):
   the harness calls the REAL Go function on boundary-exhaustive + random inputs, the checker compares with the generated
   definition (this validates the translator, code 1 of every check) and with the hand model the theorems tie it to (code 2..).
   Ids x9y: 291/1691 toFlags (C02/C16), 1692 convertRequireness, 1693/1193 HandleRequires / CheckRequires decisions, 1591.. proto kinds. *)
From Coq Require Import ZArith List Bool.
From DG Require Import GoSem CaseFormat NativeFlags Gen_nativetypes Gen_j2tflags.
Import ListNotations.
Local Open Scope Z_scope.

(* ------------------------------------------------------------------ conv/j2t toFlags *)
(* bit i of b = option i in the order documented at NativeFlags.nflags_of_bits *)
Definition opts_of_bits (b : Z) : toFlags_opts :=
  {| toFlags_opts_WriteDefaultField := Z.testbit b 0; toFlags_opts_DisallowUnknownField := Z.testbit b 1;
     toFlags_opts_EnableValueMapping := Z.testbit b 2; toFlags_opts_EnableHttpMapping := Z.testbit b 3;
     toFlags_opts_String2Int64 := Z.testbit b 4; toFlags_opts_WriteRequireField := Z.testbit b 5;
     toFlags_opts_NoBase64Binary := Z.testbit b 6; toFlags_opts_WriteOptionalField := Z.testbit b 7;
     toFlags_opts_ReadHttpValueFallback := Z.testbit b 8 |}.

Definition go_flag_list : list Z :=
  [F_ALLOW_UNKNOWN; F_WRITE_DEFAULT; F_VALUE_MAPPING; F_HTTP_MAPPING; F_STRING_INT; F_WRITE_REQUIRE; F_NO_BASE64; F_WRITE_OPTIONAL; F_TRACE_BACK].

(* fields:  b, other (settings of the options toFlags does not look at; informative), flags = toFlags(opts) of the real function
        or  the nine Go constants types.F_* in the order of native_flag_list, then 0 *)
Definition check_toflags (fs : list field) : verdict :=
  match fs with
  | [FZ b; FZ other; FZ flags] =>
    vand (expect 1 (toFlags (opts_of_bits b) =? flags) [FZ (toFlags (opts_of_bits b))])
         (expect 2 (nflags_of_bits b =? flags) [FZ (nflags_of_bits b)])
  | [FZ c0; FZ c1; FZ c2; FZ c3; FZ c4; FZ c5; FZ c6; FZ c7; FZ c8; FZ 0] =>
    let cs := [c0; c1; c2; c3; c4; c5; c6; c7; c8] in
    vand (expect 3 (list_eqb Z.eqb cs go_flag_list) (map FZ go_flag_list))
         (expect 4 (list_eqb Z.eqb cs native_flag_list) (map FZ native_flag_list))
  | _ => VBad 99 []
  end.

Definition check_291 (fs : list field) : verdict := check_toflags fs.
Definition check_1691 (fs : list field) : verdict := check_toflags fs.
