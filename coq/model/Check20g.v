(* Correspondence checks for the definitions go2coq generates in its abstract-environment mode (tools/go2coq/abs.go):
   the harness calls the REAL Go function on boundary-exhaustive + random inputs, the checker compares with the generated
   definition (this validates the translator, code 1 of every check) and with the hand model the theorems tie it to (code 2..).
   Ids x9y: 291/1691 toFlags (C02/C16), 1692 convertRequireness, 1693/1193 HandleRequires / CheckRequires decisions, 1591.. proto kinds. *)
From Coq Require Import ZArith List Bool.
From DG Require Import GoSem CaseFormat NativeFlags Gen_nativetypes Gen_j2tflags.
Import ListNotations.
Local Open Scope Z_scope.

(* ------------------------------------------------------------------ conv/j2t toFlags *)
(* bit i of b = option i in the order documented at NativeFlags.nflags_of_bits *)
Definition opts_of_bits (b : Z) : toFlags_opts :=
  {| toFlags_opts_WriteDefaultField := Z.testbit b 0; toFlags_opts_DisallowUnknownField := Z.testbit b 1;
     toFlags_opts_EnableValueMapping := Z.testbit b 2; toFlags_opts_EnableHttpMapping := Z.testbit b 3;
     toFlags_opts_String2Int64 := Z.testbit b 4; toFlags_opts_WriteRequireField := Z.testbit b 5;
     toFlags_opts_NoBase64Binary := Z.testbit b 6; toFlags_opts_WriteOptionalField := Z.testbit b 7;
     toFlags_opts_ReadHttpValueFallback := Z.testbit b 8 |}.

Definition go_flag_list : list Z :=
  [F_ALLOW_UNKNOWN; F_WRITE_DEFAULT; F_VALUE_MAPPING; F_HTTP_MAPPING; F_STRING_INT; F_WRITE_REQUIRE; F_NO_BASE64; F_WRITE_OPTIONAL; F_TRACE_BACK].

(* fields:  b, other (settings of the options toFlags does not look at; informative), flags = toFlags(opts) of the real function
        or  the nine Go constants types.F_* in the order of native_flag_list, then 0 *)
Definition check_toflags (fs : list field) : verdict :=
  match fs with
  | [FZ b; FZ other; FZ flags] =>
    vand (expect 1 (toFlags (opts_of_bits b) =? flags) [FZ (toFlags (opts_of_bits b))])
         (expect 2 (nflags_of_bits b =? flags) [FZ (nflags_of_bits b)])
  | [FZ c0; FZ c1; FZ c2; FZ c3; FZ c4; FZ c5; FZ c6; FZ c7; FZ c8; FZ 0] =>
    let cs := [c0; c1; c2; c3; c4; c5; c6; c7; c8] in
    vand (expect 3 (list_eqb Z.eqb cs go_flag_list) (map FZ go_flag_list))
         (expect 4 (list_eqb Z.eqb cs native_flag_list) (map FZ native_flag_list))
  | _ => VBad 99 []
  end.

Definition check_291 (fs : list field) : verdict := check_toflags fs.
Definition check_1691 (fs : list field) : verdict := check_toflags fs.

(* ------------------------------------------------------------------ thrift/idl.go convertRequireness, thrift/utils.go marked-bit decisions *)
From DG Require Import Requireness Gen_thriftreq.

(* the model's f_req is the IDL's parser.FieldType (0 default, 1 required, 2 optional); thrift.Requireness numbers them differently *)
Definition go_req (r : Z) : Z := if r =? 0 then DefaultRequireness else if r =? 1 then RequiredRequireness else OptionalRequireness.
Definition model_req (g : Z) : Z := if g =? DefaultRequireness then 0 else if g =? RequiredRequireness then 1 else 2.
(* RequiresBitmap.Set(id, val): Required / Default mark the bit, Optional clears it (thrift/utils.go:50) *)
Definition set_marks (req : Z) : bool := (req =? RequiredRequireness) || (req =? DefaultRequireness).
Definition zb (z : Z) : bool := negb (z =? 0).

(* 1692 fields: r, id, isRequestBase, isResponseBase, SetOptionalBitmap, bitmap bit before, f.required before,
                f.required after, bitmap bit after, panicked *)
Definition check_1692 (fs : list field) : verdict :=
  match fs with
  | [FZ rq; FZ id; FZ reqBase; FZ respBase; FZ setOpt; FZ before; FZ old; FZ required; FZ after; FZ panicked] =>
    let g := convertRequireness rq
               {| convertRequireness_f_id := id; convertRequireness_f_isRequestBase := zb reqBase;
                  convertRequireness_f_isResponseBase := zb respBase; convertRequireness_f_required := old |}
               {| convertRequireness_opts_SetOptionalBitmap := zb setOpt |} in
    match g with
    | None => expect 1 ((panicked =? 1) && (required =? old) && (after =? before)) []
    | Some (req', [(e, [eid; req])]) =>
      vand (expect 1 ((panicked =? 0) && (required =? req') && (e =? Eff_Set) && (eid =? id) && (Z.b2z (set_marks req) =? after))
                   [FZ req'; FZ req])
           (* the model: f.required is the IDL requiredness, the bit is [tracked] (never for the thrift base fields) *)
           (expect 2 ((required =? go_req rq) &&
                      (Z.b2z (negb (zb reqBase || zb respBase) &&
                              tracked {| p_opt_bitmap := zb setOpt; p_use_default := false |} {| f_id := id; f_req := rq; f_hasdef := false |}) =? after))
                   [FZ (go_req rq)])
    | Some _ => VBad 3 []
    end
  | _ => VBad 99 []
  end.

(* what one marked bit leads to, as observed from outside: (an error came back, id the handler got or -1, number of handler calls) *)
Definition decode_marked (res : Z * Z * list (Z * list Z)) : option (Z * Z * Z) :=
  let '(out, _, eff) := res in
  match eff with
  | [(e1, [id])] => if (e1 =? Eff_FieldById) && (out =? Out_continue) then Some (0, -1, 0) else None
  | [(e1, [id]); (e2, _)] =>
    if negb (e1 =? Eff_FieldById) then None
    else if (out =? Out_return) && ((e2 =? Eff_errMissRequiredField) || (e2 =? Eff_errInvalidBitmapId)) then Some (1, -1, 0)
    else if (out =? Out_fall) && (e2 =? Eff_handler) then Some (0, id, 1)
    else None
  | _ => None
  end.
Definition obs_of_action (a : action) (id : Z) : Z * Z * Z :=
  match a with AMissing => (1, -1, 0) | ASkip => (0, -1, 0) | _ => (0, id, 1) end.
Definition obs_eqb (a b : Z * Z * Z) : bool :=
  let '(a1, a2, a3) := a in let '(b1, b2, b3) := b in (a1 =? b1) && (a2 =? b2) && (a3 =? b3).
Definition obs_fields (o : Z * Z * Z) : list field := let '(a, b, c) := o in [FZ a; FZ b; FZ c].

(* 1693 fields: id, thrift.Requireness of the field, has default value, writeRequired, writeDefault, writeOptional,
                error came back, id the handler was called with (-1 none), f.Required(), f.DefaultValue()==nil, handler calls *)
Definition check_1693 (fs : list field) : verdict :=
  match fs with
  | [FZ fid; FZ req; FZ hasdef; FZ wr; FZ wd; FZ wo; FZ errd; FZ handled; FZ goReq; FZ defNil; FZ calls] =>
    let obs := (errd, handled, calls) in
    let g := HandleRequires_marked (zb wr) (zb wd) (zb wo) (fid / 64) 1 (fid mod 64)
               {| HandleRequires_marked_f_DefaultValue_isnil := zb defNil; HandleRequires_marked_f_Required := goReq |} in
    let p := {| p_opt_bitmap := true; p_use_default := true |} in
    let w := {| w_require := zb wr; w_default := zb wd; w_optional := zb wo; w_disallow_unknown := false |} in
    let f := {| f_id := fid; f_req := model_req req; f_hasdef := zb hasdef |} in
    vand (expect 1 (match decode_marked g with Some o => obs_eqb o obs | None => false end)
                 (match decode_marked g with Some o => obs_fields o | None => [] end))
   (vand (expect 2 ((goReq =? req) && (Bool.eqb (zb defNil) (negb (zb hasdef)))) [])
         (expect 3 (obs_eqb (obs_of_action (handle_requires_decision p w f) fid) obs) (obs_fields (obs_of_action (handle_requires_decision p w f) fid))))
  | _ => VBad 99 []
  end.

(* 1193 fields: id, thrift.Requireness, the marked bit has no field, writeDefault, error came back, handled id, f.Required() (-1 no field), calls *)
Definition check_1193 (fs : list field) : verdict :=
  match fs with
  | [FZ fid; FZ req; FZ nofield; FZ wd; FZ errd; FZ handled; FZ goReq; FZ calls] =>
    let obs := (errd, handled, calls) in
    let g := CheckRequires_marked (zb wd) (fid / 64) 1 (fid mod 64)
               {| CheckRequires_marked_f_Required := (if zb nofield then 0 else goReq); CheckRequires_marked_f_isnil := zb nofield |} in
    let f := {| f_id := fid; f_req := model_req req; f_hasdef := false |} in
    let m := if zb nofield then (1, -1, 0) else obs_of_action (check_requires_decision (zb wd) f) fid in
    vand (expect 1 (match decode_marked g with Some o => obs_eqb o obs | None => false end)
                 (match decode_marked g with Some o => obs_fields o | None => [] end))
   (vand (expect 2 (if zb nofield then goReq =? -1 else goReq =? req) [])
         (expect 3 (obs_eqb m obs) (obs_fields m)))
  | _ => VBad 99 []
  end.

(* ------------------------------------------------------------------ proto/type.go, proto/descriptor.go kind functions *)
From DG Require Gen_proto.
From DG Require Import Gen_protokind.
From DG Require ProtoMsg PIdl J2P.

Definition opt_z_eqb (g : option Z) (ok v : Z) : bool := match g with None => ok =? 0 | Some x => (ok =? 1) && (x =? v) end.
Definition opt_b_eqb (g : option bool) (ok v : Z) : bool := match g with None => ok =? 0 | Some x => (ok =? 1) && (Z.b2z x =? v) end.
Definition opt_z_fields (g : option Z) : list field := match g with None => [FZ 0] | Some x => [FZ 1; FZ x] end.
Definition opt_b_fields (g : option bool) : list field := match g with None => [FZ 0] | Some x => [FZ 1; FZ (Z.b2z x)] end.
(* ProtoKind is int8 *)
Definition kind8 (t : Z) : Z := if t <? 128 then t else t - 256.

(* the kinds of the models: every protoreflect kind except the deprecated group *)
Definition model_kind (k : Z) : bool := negb (ProtoMsg.wt_of_kind k =? -1).

Definition check_protokinds (fs : list field) : verdict :=
  match fs with
  | [FZ 0; FZ t; FZ pok; FZ pv; FZ kok; FZ kv; FZ nv; FZ isint; FZ valid; FZ k2w; FZ t00; FZ t10; FZ t01; FZ t11] =>
    let k := kind8 t in
    vand (expect 1 (opt_b_eqb (Type_IsPacked t) pok pv) (opt_b_fields (Type_IsPacked t)))
   (vand (expect 2 (opt_z_eqb (Type_TypeToKind t) kok kv) (opt_z_fields (Type_TypeToKind t)))
   (vand (expect 3 ((Z.b2z (Gen_proto.Type_NeedVarint t) =? nv) && (Z.b2z (Gen_proto.Type_IsInt t) =? isint) && (Z.b2z (Gen_proto.Type_Valid t) =? valid)) [])
   (vand (expect 4 ((Kind2Wire k =? k2w) && (Gen_proto.Kind2Wire k =? k2w)) [FZ (Kind2Wire k)])
   (vand (expect 5 ((Gen_proto.FromProtoKindToType k false false =? t00) && (Gen_proto.FromProtoKindToType k true false =? t10) &&
                    (Gen_proto.FromProtoKindToType k false true =? t01) && (Gen_proto.FromProtoKindToType k true true =? t11)) [])
         (* the models' tables on the kinds they cover *)
         (if model_kind t
          then expect 6 ((ProtoMsg.wt_of_kind t =? k2w) && (Z.b2z (ProtoMsg.is_numeric t) =? pv) && (pok =? 1) && (Z.b2z (PIdl.packable t) =? pv) &&
                         (Z.b2z (J2P.is_int_kind t) =? isint) && (Z.b2z (ProtoMsg.wt_of_kind t =? 0) =? nv) && (kok =? 1) && (kv =? t))
                        [FZ (ProtoMsg.wt_of_kind t); FZ (Z.b2z (ProtoMsg.is_numeric t))]
          else VOk)))))
  | [FZ kind; FZ t; FZ e; FZ u; FZ pok; FZ pv; FZ wok; FZ wv; FZ ismap; FZ islist] =>
    if (kind =? 1) || (kind =? 2) then
      let e' := if e <? 0 then 0 else e in
      let gp := if (e <? 0) && (t =? 19) then None   (* a LIST without element descriptor: nil dereference *)
                else TypeDescriptor_IsPacked {| TypeDescriptor_IsPacked_t_elem_typ := e'; TypeDescriptor_IsPacked_t_typ := t;
                                                TypeDescriptor_IsPacked_t_unpacked := zb u |} in
      let gw := TypeDescriptor_WireType {| TypeDescriptor_WireType_f_typ := t |} in
      vand (expect 11 (opt_b_eqb gp pok pv) (opt_b_fields gp))
     (vand (expect 12 (opt_z_eqb gw wok wv) (opt_z_fields gw))
     (vand (expect 13 ((Z.b2z (TypeDescriptor_IsMap {| TypeDescriptor_IsMap_f_typ := t |}) =? ismap) &&
                       (Z.b2z (TypeDescriptor_IsList {| TypeDescriptor_IsList_f_typ := t |}) =? islist)) [])
           (* real descriptors (kind 2): a list is packed iff its element kind is numeric and it is not declared [packed = false];
              the wire type of a scalar / message descriptor is the model's, a map is length-delimited, a list has none *)
           (if kind =? 2 then
              expect 14 ((if t =? 19 then (pok =? 1) && (Z.b2z (PIdl.packable e && negb (zb u)) =? pv) else (pok =? 1) && (pv =? 0)) &&
                         (if t =? 19 then wok =? 0 else if t =? 20 then (wok =? 1) && (wv =? 2) else (wok =? 1) && (wv =? ProtoMsg.wt_of_kind t))) []
            else VOk)))
    else VBad 98 []
  | _ => VBad 99 []
  end.

Definition check_1591 (fs : list field) : verdict := check_protokinds fs.
Definition check_791 (fs : list field) : verdict := check_protokinds fs.
Definition check_2091 (fs : list field) : verdict := check_protokinds fs.
