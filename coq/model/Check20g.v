(* Correspondence checks for the definitions go2coq generates in its abstract-environment mode (tools/go2coq/abs.go):
   the harness calls the REAL Go function on boundary-exhaustive + random inputs, the checker compares with the generated
   definition (this validates the translator, code 1 of every check) and with the hand model the theorems tie it to (code 2..).
   Ids x9y: 291/1691 toFlags (C02/C16), 1692 convertRequireness, 1693/1193 HandleRequires / CheckRequires decisions, 1591.. proto kinds. *)
From Coq Require Import ZArith List Bool.
From DG Require Import GoSem CaseFormat NativeFlags Gen_nativetypes Gen_j2tflags.
Import ListNotations.
Local Open Scope Z_scope.

(* ------------------------------------------------------------------ conv/j2t toFlags *)
(* bit i of b = option i in the order documented at NativeFlags.nflags_of_bits *)
Definition opts_of_bits (b : Z) : toFlags_opts :=
  {| toFlags_opts_WriteDefaultField := Z.testbit b 0; toFlags_opts_DisallowUnknownField := Z.testbit b 1;
     toFlags_opts_EnableValueMapping := Z.testbit b 2; toFlags_opts_EnableHttpMapping := Z.testbit b 3;
     toFlags_opts_String2Int64 := Z.testbit b 4; toFlags_opts_WriteRequireField := Z.testbit b 5;
     toFlags_opts_NoBase64Binary := Z.testbit b 6; toFlags_opts_WriteOptionalField := Z.testbit b 7;
     toFlags_opts_ReadHttpValueFallback := Z.testbit b 8; toFlags_opts_TracebackRequredOrRootFields := Z.testbit b 9 |}.

Definition go_flag_list : list Z :=
  [F_ALLOW_UNKNOWN; F_WRITE_DEFAULT; F_VALUE_MAPPING; F_HTTP_MAPPING; F_STRING_INT; F_WRITE_REQUIRE; F_NO_BASE64; F_WRITE_OPTIONAL; F_TRACE_BACK].

(* fields:  b, other (settings of the options toFlags does not look at; informative), flags = toFlags(opts) of the real function
        or  the nine Go constants types.F_* in the order of native_flag_list, then 0 *)
Definition check_toflags (fs : list field) : verdict :=
  match fs with
  | [FZ b; FZ other; FZ flags] =>
    vand (expect 1 (toFlags (opts_of_bits b) =? flags) [FZ (toFlags (opts_of_bits b))])
         (expect 2 (nflags_of_bits b =? flags) [FZ (nflags_of_bits b)])
  | [FZ c0; FZ c1; FZ c2; FZ c3; FZ c4; FZ c5; FZ c6; FZ c7; FZ c8; FZ 0] =>
    let cs := [c0; c1; c2; c3; c4; c5; c6; c7; c8] in
    vand (expect 3 (list_eqb Z.eqb cs go_flag_list) (map FZ go_flag_list))
         (expect 4 (list_eqb Z.eqb cs native_flag_list) (map FZ native_flag_list))
  | _ => VBad 99 []
  end.

Definition check_291 (fs : list field) : verdict := check_toflags fs.
Definition check_1691 (fs : list field) : verdict := check_toflags fs.
Definition check_1791 (fs : list field) : verdict := check_toflags fs.

(* ------------------------------------------------------------------ thrift/idl.go convertRequireness, thrift/utils.go marked-bit decisions *)
From DG Require Import Requireness Gen_thriftreq.

(* the model's f_req is the IDL's parser.FieldType (0 default, 1 required, 2 optional); thrift.Requireness numbers them differently *)
Definition go_req (r : Z) : Z := if r =? 0 then DefaultRequireness else if r =? 1 then RequiredRequireness else OptionalRequireness.
Definition model_req (g : Z) : Z := if g =? DefaultRequireness then 0 else if g =? RequiredRequireness then 1 else 2.
(* RequiresBitmap.Set(id, val): Required / Default mark the bit, Optional clears it (thrift/utils.go:50) *)
Definition set_marks (req : Z) : bool := (req =? RequiredRequireness) || (req =? DefaultRequireness).
Definition zb (z : Z) : bool := negb (z =? 0).

(* 1692 fields: r, id, isRequestBase, isResponseBase, SetOptionalBitmap, bitmap bit before, f.required before,
                f.required after, bitmap bit after, panicked *)
Definition check_1692 (fs : list field) : verdict :=
  match fs with
  | [FZ rq; FZ id; FZ reqBase; FZ respBase; FZ setOpt; FZ before; FZ old; FZ required; FZ after; FZ panicked] =>
    let g := convertRequireness rq
               {| convertRequireness_f_id := id; convertRequireness_f_isRequestBase := zb reqBase;
                  convertRequireness_f_isResponseBase := zb respBase; convertRequireness_f_required := old |}
               {| convertRequireness_opts_SetOptionalBitmap := zb setOpt |} in
    match g with
    | None => expect 1 ((panicked =? 1) && (required =? old) && (after =? before)) []
    | Some (req', [(e, [eid; req])]) =>
      vand (expect 1 ((panicked =? 0) && (required =? req') && (e =? Eff_Set) && (eid =? id) && (Z.b2z (set_marks req) =? after))
                   [FZ req'; FZ req])
           (* the model: f.required is the IDL requiredness, the bit is [tracked] (never for the thrift base fields) *)
           (expect 2 ((required =? go_req rq) &&
                      (Z.b2z (negb (zb reqBase || zb respBase) &&
                              tracked {| p_opt_bitmap := zb setOpt; p_use_default := false |} {| f_id := id; f_req := rq; f_hasdef := false |}) =? after))
                   [FZ (go_req rq)])
    | Some _ => VBad 3 []
    end
  | _ => VBad 99 []
  end.

(* what one marked bit leads to, as observed from outside: (an error came back, id the handler got or -1, number of handler calls) *)
Definition decode_marked (res : Z * Z * list (Z * list Z)) : option (Z * Z * Z) :=
  let '(out, _, eff) := res in
  match eff with
  | [(e1, [id])] => if (e1 =? Eff_FieldById) && (out =? Out_continue) then Some (0, -1, 0) else None
  | [(e1, [id]); (e2, _)] =>
    if negb (e1 =? Eff_FieldById) then None
    else if (out =? Out_return) && ((e2 =? Eff_errMissRequiredField) || (e2 =? Eff_errInvalidBitmapId)) then Some (1, -1, 0)
    else if (out =? Out_fall) && (e2 =? Eff_handler) then Some (0, id, 1)
    else None
  | _ => None
  end.
Definition obs_of_action (a : action) (id : Z) : Z * Z * Z :=
  match a with AMissing => (1, -1, 0) | ASkip => (0, -1, 0) | _ => (0, id, 1) end.
Definition obs_eqb (a b : Z * Z * Z) : bool :=
  let '(a1, a2, a3) := a in let '(b1, b2, b3) := b in (a1 =? b1) && (a2 =? b2) && (a3 =? b3).
Definition obs_fields (o : Z * Z * Z) : list field := let '(a, b, c) := o in [FZ a; FZ b; FZ c].

(* 1693 fields: id, thrift.Requireness of the field, has default value, writeRequired, writeDefault, writeOptional,
                error came back, id the handler was called with (-1 none), f.Required(), f.DefaultValue()==nil, handler calls *)
Definition check_1693 (fs : list field) : verdict :=
  match fs with
  | [FZ fid; FZ req; FZ hasdef; FZ wr; FZ wd; FZ wo; FZ errd; FZ handled; FZ goReq; FZ defNil; FZ calls] =>
    let obs := (errd, handled, calls) in
    let g := HandleRequires_marked (zb wr) (zb wd) (zb wo) (fid / 64) 1 (fid mod 64)
               {| HandleRequires_marked_f_DefaultValue_isnil := zb defNil; HandleRequires_marked_f_Required := goReq |} in
    let p := {| p_opt_bitmap := true; p_use_default := true |} in
    let w := {| w_require := zb wr; w_default := zb wd; w_optional := zb wo; w_disallow_unknown := false |} in
    let f := {| f_id := fid; f_req := model_req req; f_hasdef := zb hasdef |} in
    vand (expect 1 (match decode_marked g with Some o => obs_eqb o obs | None => false end)
                 (match decode_marked g with Some o => obs_fields o | None => [] end))
   (vand (expect 2 ((goReq =? req) && (Bool.eqb (zb defNil) (negb (zb hasdef)))) [])
         (expect 3 (obs_eqb (obs_of_action (handle_requires_decision p w f) fid) obs) (obs_fields (obs_of_action (handle_requires_decision p w f) fid))))
  | _ => VBad 99 []
  end.

(* 1193 fields: id, thrift.Requireness, the marked bit has no field, writeDefault, error came back, handled id, f.Required() (-1 no field), calls *)
Definition check_1193 (fs : list field) : verdict :=
  match fs with
  | [FZ fid; FZ req; FZ nofield; FZ wd; FZ errd; FZ handled; FZ goReq; FZ calls] =>
    let obs := (errd, handled, calls) in
    let g := CheckRequires_marked (zb wd) (fid / 64) 1 (fid mod 64)
               {| CheckRequires_marked_f_Required := (if zb nofield then 0 else goReq); CheckRequires_marked_f_isnil := zb nofield |} in
    let f := {| f_id := fid; f_req := model_req req; f_hasdef := false |} in
    let m := if zb nofield then (1, -1, 0) else obs_of_action (check_requires_decision (zb wd) f) fid in
    vand (expect 1 (match decode_marked g with Some o => obs_eqb o obs | None => false end)
                 (match decode_marked g with Some o => obs_fields o | None => [] end))
   (vand (expect 2 (if zb nofield then goReq =? -1 else goReq =? req) [])
         (expect 3 (obs_eqb m obs) (obs_fields m)))
  | _ => VBad 99 []
  end.

(* ------------------------------------------------------------------ proto/type.go, proto/descriptor.go kind functions *)
From DG Require Gen_proto.
From DG Require Import Gen_protokind.
From DG Require ProtoMsg PIdl J2P.

Definition opt_z_eqb (g : option Z) (ok v : Z) : bool := match g with None => ok =? 0 | Some x => (ok =? 1) && (x =? v) end.
Definition opt_b_eqb (g : option bool) (ok v : Z) : bool := match g with None => ok =? 0 | Some x => (ok =? 1) && (Z.b2z x =? v) end.
Definition opt_z_fields (g : option Z) : list field := match g with None => [FZ 0] | Some x => [FZ 1; FZ x] end.
Definition opt_b_fields (g : option bool) : list field := match g with None => [FZ 0] | Some x => [FZ 1; FZ (Z.b2z x)] end.
(* ProtoKind is int8 *)
Definition kind8 (t : Z) : Z := if t <? 128 then t else t - 256.

(* the kinds of the models: every protoreflect kind except the deprecated group *)
Definition model_kind (k : Z) : bool := negb (ProtoMsg.wt_of_kind k =? -1).

Definition check_protokinds (fs : list field) : verdict :=
  match fs with
  | [FZ 0; FZ t; FZ pok; FZ pv; FZ kok; FZ kv; FZ nv; FZ isint; FZ valid; FZ k2w; FZ t00; FZ t10; FZ t01; FZ t11] =>
    let k := kind8 t in
    vand (expect 1 (opt_b_eqb (Type_IsPacked t) pok pv) (opt_b_fields (Type_IsPacked t)))
   (vand (expect 2 (opt_z_eqb (Type_TypeToKind t) kok kv) (opt_z_fields (Type_TypeToKind t)))
   (vand (expect 3 ((Z.b2z (Gen_proto.Type_NeedVarint t) =? nv) && (Z.b2z (Gen_proto.Type_IsInt t) =? isint) && (Z.b2z (Gen_proto.Type_Valid t) =? valid)) [])
   (vand (expect 4 ((Kind2Wire k =? k2w) && (Gen_proto.Kind2Wire k =? k2w)) [FZ (Kind2Wire k)])
   (vand (expect 5 ((Gen_proto.FromProtoKindToType k false false =? t00) && (Gen_proto.FromProtoKindToType k true false =? t10) &&
                    (Gen_proto.FromProtoKindToType k false true =? t01) && (Gen_proto.FromProtoKindToType k true true =? t11)) [])
         (* the models' tables on the kinds they cover *)
         (if model_kind t
          then expect 6 ((ProtoMsg.wt_of_kind t =? k2w) && (Z.b2z (ProtoMsg.is_numeric t) =? pv) && (pok =? 1) && (Z.b2z (PIdl.packable t) =? pv) &&
                         (Z.b2z (J2P.is_int_kind t) =? isint) && (Z.b2z (ProtoMsg.wt_of_kind t =? 0) =? nv) && (kok =? 1) && (kv =? t))
                        [FZ (ProtoMsg.wt_of_kind t); FZ (Z.b2z (ProtoMsg.is_numeric t))]
          else VOk)))))
  | [FZ kind; FZ t; FZ e; FZ u; FZ pok; FZ pv; FZ wok; FZ wv; FZ ismap; FZ islist] =>
    if (kind =? 1) || (kind =? 2) then
      let e' := if e <? 0 then 0 else e in
      let gp := if (e <? 0) && (t =? 19) then None   (* a LIST without element descriptor: nil dereference *)
                else TypeDescriptor_IsPacked {| TypeDescriptor_IsPacked_t_elem_typ := e'; TypeDescriptor_IsPacked_t_typ := t;
                                                TypeDescriptor_IsPacked_t_unpacked := zb u |} in
      let gw := TypeDescriptor_WireType {| TypeDescriptor_WireType_f_typ := t |} in
      vand (expect 11 (opt_b_eqb gp pok pv) (opt_b_fields gp))
     (vand (expect 12 (opt_z_eqb gw wok wv) (opt_z_fields gw))
     (vand (expect 13 ((Z.b2z (TypeDescriptor_IsMap {| TypeDescriptor_IsMap_f_typ := t |}) =? ismap) &&
                       (Z.b2z (TypeDescriptor_IsList {| TypeDescriptor_IsList_f_typ := t |}) =? islist)) [])
           (* real descriptors (kind 2): a list is packed iff its element kind is numeric and it is not declared [packed = false];
              the wire type of a scalar / message descriptor is the model's, a map is length-delimited, a list has none *)
           (if kind =? 2 then
              expect 14 ((if t =? 19 then (pok =? 1) && (Z.b2z (PIdl.packable e && negb (zb u)) =? pv) else (pok =? 1) && (pv =? 0)) &&
                         (if t =? 19 then wok =? 0 else if t =? 20 then (wok =? 1) && (wv =? 2) else (wok =? 1) && (wv =? ProtoMsg.wt_of_kind t))) []
            else VOk)))
    else VBad 98 []
  | _ => VBad 99 []
  end.

Definition check_1591 (fs : list field) : verdict := check_protokinds fs.
Definition check_791 (fs : list field) : verdict := check_protokinds fs.
Definition check_2091 (fs : list field) : verdict := check_protokinds fs.

(* ------------------------------------------------------------------ thrift/binary.go: in-place leaf writers, envelope call sequences *)
From DG Require Gen_thriftbin ThriftWire ThriftEnvelope.

(* the first bytes of b overwritten by bs (copy semantics: never beyond len b) *)
Definition put_prefix (b bs : list Z) : list Z := firstn (length b) bs ++ skipn (length bs) b.
Definition opt_bytes_eqb (g : option (list Z)) (panicked : Z) (after : list Z) : bool :=
  match g with None => panicked =? 1 | Some b => (panicked =? 0) && bytes_eqb b after end.
Definition opt_bytes_fields (g : option (list Z)) : list field := match g with None => [FZ 1] | Some b => [FZ 0; FB b] end.

(* kinds: 0 EncodeBool, 1 EncodeByte, 2 EncodeInt16, 3 EncodeInt32, 4 EncodeInt64, 5 EncodeDouble (v = bits), 6 EncodeString, 7 EncodeBinary,
   8 EncodeFieldBegin (v = type, w = id) *)
Definition gen_encode (kind : Z) (b : list Z) (v w : Z) (s : list Z) : option (list Z) :=
  if kind =? 0 then Gen_thriftbin.BinaryEncoding_EncodeBool b (zb v) else if kind =? 1 then Gen_thriftbin.BinaryEncoding_EncodeByte b v
  else if kind =? 2 then Gen_thriftbin.BinaryEncoding_EncodeInt16 b v else if kind =? 3 then Gen_thriftbin.BinaryEncoding_EncodeInt32 b v
  else if kind =? 4 then Gen_thriftbin.BinaryEncoding_EncodeInt64 b v else if kind =? 5 then Gen_thriftbin.BinaryEncoding_EncodeDouble b v
  else if kind =? 6 then Gen_thriftbin.BinaryEncoding_EncodeString b s else if kind =? 7 then Gen_thriftbin.BinaryEncoding_EncodeBinary b s
  else Gen_thriftbin.BinaryEncoding_EncodeFieldBegin b v w.
(* the model: the canonical encoding (ThriftWire.enc_int) put over the first bytes; Go panics when the fixed part does not fit *)
Definition model_encode (kind : Z) (b : list Z) (v w : Z) (s : list Z) : option (list Z) :=
  let '(need, bs) :=
    if kind =? 0 then (1, [Z.b2z (zb v)]) else if kind =? 1 then (1, ThriftWire.enc_int 1 v)
    else if kind =? 2 then (2, ThriftWire.enc_int 2 v) else if kind =? 3 then (4, ThriftWire.enc_int 4 v)
    else if (kind =? 4) || (kind =? 5) then (8, ThriftWire.enc_int 8 v)
    else if (kind =? 6) || (kind =? 7) then (4, ThriftWire.enc_int 4 (ThriftWire.zlen s) ++ s)
    else (3, ThriftWire.enc_int 1 v ++ ThriftWire.enc_int 2 w) in
  if need <=? blen b then Some (put_prefix b bs) else None.

(* 1991 fields: kind, buffer before, v, w, s, panicked, buffer after *)
Definition check_1991 (fs : list field) : verdict :=
  match fs with
  | [FZ kind; FB b; FZ v; FZ w; FB s; FZ panicked; FB after] =>
    vand (expect 1 (opt_bytes_eqb (gen_encode kind b v w s) panicked after) (opt_bytes_fields (gen_encode kind b v w s)))
         (expect 2 (opt_bytes_eqb (model_encode kind b v w s) panicked after) (opt_bytes_fields (model_encode kind b v w s)))
  | _ => VBad 99 []
  end.

(* the write primitives of BinaryProtocol as the bytes they append (their own bodies use unsafe growth and are not translated; this
   reading is what the comparison with the real output validates) *)
Definition write_eff_bytes (str : list Z) (e : Z * list Z) : list Z :=
  match e with
  | (c, [v]) => if c =? Gen_thriftbin.Eff_WriteI32 then ThriftWire.enc_int 4 v else if c =? Gen_thriftbin.Eff_WriteI16 then ThriftWire.enc_int 2 v
                else if c =? Gen_thriftbin.Eff_WriteByte then ThriftWire.enc_int 1 v else []
  | (c, []) => if c =? Gen_thriftbin.Eff_WriteString then ThriftWire.enc_int 4 (ThriftWire.zlen str) ++ str else []
  | _ => []
  end.
Definition writes_bytes (str : list Z) (eff : list (Z * list Z)) : list Z := flat_map (write_eff_bytes str) eff.

(* kinds: 10 WriteMessageBegin(name, a = type, b = seq), 11 WriteFieldBegin(name, a = type, b = id), 12 WriteFieldStop,
   13 WriteMapBegin(a, b, c = size), 14 WriteListBegin(a, b = size), 15 WriteSetBegin(a, b = size); every primitive succeeds (oracles 0) *)
Definition gen_write_begin (kind : Z) (name : list Z) (a b c : Z) : Z * list (Z * list Z) :=
  if kind =? 10 then Gen_thriftbin.BinaryProtocol_WriteMessageBegin name a b 0 0 0
  else if kind =? 11 then Gen_thriftbin.BinaryProtocol_WriteFieldBegin name a b 0 0
  else if kind =? 12 then Gen_thriftbin.BinaryProtocol_WriteFieldStop 0
  else if kind =? 13 then Gen_thriftbin.BinaryProtocol_WriteMapBegin a b c 0 0 0
  else if kind =? 14 then Gen_thriftbin.BinaryProtocol_WriteListBegin a b 0 0
  else Gen_thriftbin.BinaryProtocol_WriteSetBegin a b 0 0.
Definition model_write_begin (kind : Z) (name : list Z) (a b c : Z) : list Z :=
  if kind =? 10 then ThriftWire.enc_int 4 (ThriftEnvelope.VERSION_1 + a) ++ ThriftWire.enc_int 4 (ThriftWire.zlen name) ++ name ++ ThriftWire.enc_int 4 b
  else if kind =? 11 then a :: ThriftWire.enc_int 2 b
  else if kind =? 12 then [0]
  else if kind =? 13 then a :: b :: ThriftWire.enc_int 4 c
  else a :: ThriftWire.enc_int 4 b.

(* 1992 fields: kind, name, a, b, c, bytes written, error (0 nil) *)
Definition check_1992 (fs : list field) : verdict :=
  match fs with
  | [FZ kind; FB name; FZ a; FZ b; FZ c; FB out; FZ err] =>
    let '(e, eff) := gen_write_begin kind name a b c in
    vand (expect 1 ((e =? 0) && (err =? 0) && bytes_eqb (writes_bytes name eff) out) [FB (writes_bytes name eff)])
         (expect 2 (bytes_eqb (model_write_begin kind name a b c) out) [FB (model_write_begin kind name a b c)])
  | _ => VBad 99 []
  end.

(* the read primitives of BinaryProtocol on (buf, pos): value, error code (0 nil), new position - next() does not advance on failure *)
Definition rd_fixed (n : Z) (buf : list Z) (pos : Z) : option (list Z) :=
  if pos + n <=? blen buf then Some (slice_range buf pos (pos + n)) else None.
Definition rd_int (n : Z) (buf : list Z) (pos : Z) : Z * Z * Z :=
  match rd_fixed n buf pos with Some bs => (ThriftWire.dec_int bs, 0, pos + n) | None => (0, Err_io_EOF, pos) end.
Definition rd_byte (buf : list Z) (pos : Z) : Z * Z * Z :=
  match rd_fixed 1 buf pos with Some bs => (idx bs 0, 0, pos + 1) | None => (0, Err_io_EOF, pos) end.
Definition rd_string (buf : list Z) (pos : Z) : list Z * Z * Z :=
  let '(n, e, p1) := rd_int 4 buf pos in
  if negb (e =? 0) then ([], e, p1)
  else if (n <? 0) || (n >? blen buf - p1) then ([], Gen_thriftbin.Err_errInvalidDataSize, p1)
  else (slice_range buf p1 (p1 + n), 0, p1 + n).
(* position after the reads of a trace *)
Definition reads_pos (buf : list Z) (eff : list (Z * list Z)) : Z :=
  fold_left (fun pos e =>
    let c := fst e in
    if c =? Gen_thriftbin.Eff_ReadI32 then snd (rd_int 4 buf pos) else if c =? Gen_thriftbin.Eff_ReadI16 then snd (rd_int 2 buf pos)
    else if c =? Gen_thriftbin.Eff_ReadByte then snd (rd_byte buf pos) else if c =? Gen_thriftbin.Eff_ReadString then snd (rd_string buf pos) else pos) eff 0.

(* kinds: 20 ReadMessageBegin -> (name, r1 = type, r2 = seq), 21 ReadFieldBegin -> (r1 = type, r2 = id), 22 ReadMapBegin -> (r1, r2, r3 = size),
   23 ReadListBegin / 24 ReadSetBegin -> (r1 = elem, r2 = size).  Result of the generated definition fed with the primitives' answers. *)
Definition gen_read_begin (kind : Z) (buf : list Z) (copy : bool) : list Z * Z * Z * Z * Z * list (Z * list Z) :=
  if kind =? 20 then
    let '(s, e1, p1) := rd_int 4 buf 0 in let '(nm, e2, p2) := rd_string buf p1 in let '(sq, e3, _) := rd_int 4 buf p2 in
    let '(name, ty, seq, err, eff) := Gen_thriftbin.BinaryProtocol_ReadMessageBegin copy s e1 nm e2 sq e3 in (name, ty, seq, 0, err, eff)
  else if kind =? 21 then
    let '(t, e1, p1) := rd_byte buf 0 in let '(x, e2, _) := rd_int 2 buf p1 in
    let '(name, ty, id, err, eff) := Gen_thriftbin.BinaryProtocol_ReadFieldBegin t e1 x e2 in (name, ty, id, 0, err, eff)
  else if kind =? 22 then
    let '(k, e1, p1) := rd_byte buf 0 in let '(v, e2, p2) := rd_byte buf p1 in let '(sz, e3, _) := rd_int 4 buf p2 in
    let '(kt, vt, size, err, eff) := Gen_thriftbin.BinaryProtocol_ReadMapBegin k e1 v e2 sz e3 in ([], kt, vt, size, err, eff)
  else
    let '(b, e1, p1) := rd_byte buf 0 in let '(sz, e2, _) := rd_int 4 buf p1 in
    let '(et, size, err, eff) := (if kind =? 23 then Gen_thriftbin.BinaryProtocol_ReadListBegin b e1 sz e2 else Gen_thriftbin.BinaryProtocol_ReadSetBegin b e1 sz e2) in
    ([], et, size, 0, err, eff).

(* 1993 fields: kind, buffer, copyString, name, r1, r2, r3, error (0 nil / 1), p.Read afterwards *)
Definition check_1993 (fs : list field) : verdict :=
  match fs with
  | [FZ kind; FB buf; FZ copy; FB name; FZ r1; FZ r2; FZ r3; FZ err; FZ rd] =>
    let '(gname, g1, g2, g3, gerr, eff) := gen_read_begin kind buf (zb copy) in
    vand (expect 1 (bytes_eqb gname name && (g1 =? r1) && (g2 =? r2) && (g3 =? r3) && Bool.eqb (gerr =? 0) (err =? 0))
                 [FB gname; FZ g1; FZ g2; FZ g3; FZ gerr])
         (expect 2 (reads_pos buf eff =? rd) [FZ (reads_pos buf eff)])
  | _ => VBad 99 []
  end.

(* ------------------------------------------------------------------ internal/json: IsSpace, the tables and per-byte steps of the portable quoteString *)
From DG Require Gen_rt Gen_json Gen_jsonportable Json.

(* the loop of quoteString around the two generated steps; runes other than U+2028 / U+2029 are skipped (stepping over their bytes one
   at a time is the same: bytes >= 0x80 are never ASCII and a continuation byte never starts E2 80 A8/A9) *)
Fixpoint qs_loop (fuel : nat) (s e : list Z) (start i : Z) : list Z :=
  match fuel with
  | O => e
  | S f =>
    if i <? blen s then
      let b := idx s i in
      if b <? 128 then
        let '(_, i', e', start') := Gen_jsonportable.quoteString_ascii e s start i b in qs_loop f s e' start' i'
      else if (b =? 226) && (idx s (i + 1) =? 128) && ((idx s (i + 2) =? 168) || (idx s (i + 2) =? 169)) && (i + 2 <? blen s) then
        let '(_, e', i', start') := Gen_jsonportable.quoteString_linesep e s start i (8232 + (idx s (i + 2) - 168)) 3 in qs_loop f s e' start' i'
      else qs_loop f s e start (i + 1)
    else if start <? blen s then e ++ slice_from s start else e
  end.
Definition quote_string_gen (prefix s : list Z) : list Z := qs_loop (S (length s)) s prefix 0 0.

(* the reference: esc_byte of Json.v per byte, and the six-character escapes of U+2028 / U+2029 *)
Fixpoint escape_portable (fuel : nat) (s : list Z) : list Z :=
  match fuel with
  | O => []
  | S f =>
    match s with
    | 226 :: 128 :: 168 :: r => [92; 117; 50; 48; 50; 56] ++ escape_portable f r
    | 226 :: 128 :: 169 :: r => [92; 117; 50; 48; 50; 57] ++ escape_portable f r
    | c :: r => Json.esc_byte c ++ escape_portable f r
    | [] => []
    end
  end.

(* check 391 / 1891 / 292 fields:
     0, image of IsSpace over 0..255 (one byte 0/1 each)
     1, image of rt.SafeSet over 0..127, rt.Hex
     2, prefix, s, prefix + NoQuote(s) of the portable quoteString *)
Definition b2zl (l : list bool) : list Z := map Z.b2z l.
Definition check_jsonleaf (fs : list field) : verdict :=
  match fs with
  | [FZ 0; FB img] =>
    vand (expect 1 (bytes_eqb img (b2zl (map Gen_json.IsSpace (seqZ 0 256)))) [FB (b2zl (map Gen_json.IsSpace (seqZ 0 256)))])
         (expect 2 (bytes_eqb img (b2zl (map Json.is_ws (seqZ 0 256)))) [FB (b2zl (map Json.is_ws (seqZ 0 256)))])
  | [FZ 1; FB safe; FB hex] =>
    vand (expect 3 (bytes_eqb safe (b2zl (map Gen_rt.SafeSet (seqZ 0 128))) && bytes_eqb hex (map Gen_rt.Hex (seqZ 0 16))) [])
         (expect 4 (bytes_eqb safe (b2zl (map (fun b => bytes_eqb (Json.esc_byte b) [b]) (seqZ 0 128))) &&
                    bytes_eqb hex (map Json.hex_digit (seqZ 0 16))) [])
  | [FZ 2; FB prefix; FB s; FB out] =>
    vand (expect 5 (bytes_eqb out (quote_string_gen prefix s)) [FB (quote_string_gen prefix s)])
         (expect 6 (bytes_eqb out (prefix ++ escape_portable (S (length s)) s)) [FB (prefix ++ escape_portable (S (length s)) s)])
  | _ => VBad 99 []
  end.
Definition check_292 (fs : list field) : verdict := check_jsonleaf fs.
Definition check_391 (fs : list field) : verdict := check_jsonleaf fs.
Definition check_1891 (fs : list field) : verdict := check_jsonleaf fs.

(* ------------------------------------------------------------------ thrift/binary.go WriteEmpty: the zero value of an absent field *)
From DG Require Gen_thriftempty Gen_thriftends ThriftCut.

(* the write calls of WriteEmpty as bytes: the scalar primitives as in write_eff_bytes; WriteListBegin / WriteMapBegin / WriteStructEnd /
   WriteBool are themselves call sequences over WriteByte / WriteI32 (gen/Gen_thriftbin.v, gen/Gen_thriftends.v), see GenThriftemptyProofs *)
Definition empty_eff_bytes (e : Z * list Z) : list Z :=
  let c := fst e in
  match snd e with
  | [] => if c =? Gen_thriftempty.Eff_WriteString then ThriftWire.enc_int 4 0
          else if c =? Gen_thriftempty.Eff_WriteStructEnd then [0] else []
  | [v] => if (c =? Gen_thriftempty.Eff_WriteBool) || (c =? Gen_thriftempty.Eff_WriteByte) then ThriftWire.enc_int 1 v
           else if c =? Gen_thriftempty.Eff_WriteI16 then ThriftWire.enc_int 2 v
           else if c =? Gen_thriftempty.Eff_WriteI32 then ThriftWire.enc_int 4 v
           else if (c =? Gen_thriftempty.Eff_WriteI64) || (c =? Gen_thriftempty.Eff_WriteDouble) then ThriftWire.enc_int 8 v else []
  | [t; n] => if c =? Gen_thriftempty.Eff_WriteListBegin then ThriftWire.enc_int 1 t ++ ThriftWire.enc_int 4 n else []
  | [k; v; n] => if c =? Gen_thriftempty.Eff_WriteMapBegin then ThriftWire.enc_int 1 k ++ ThriftWire.enc_int 1 v ++ ThriftWire.enc_int 4 n else []
  | _ => []
  end.
Definition empty_bytes (eff : list (Z * list Z)) : list Z := flat_map empty_eff_bytes eff.

Definition empty_desc (typ key elem : Z) : Gen_thriftempty.BinaryProtocol_WriteEmpty_desc :=
  {| Gen_thriftempty.BinaryProtocol_WriteEmpty_desc_Elem_Type := elem; Gen_thriftempty.BinaryProtocol_WriteEmpty_desc_Key_Type := key;
     Gen_thriftempty.BinaryProtocol_WriteEmpty_desc_Type := typ |}.
Definition gen_write_empty (typ key elem : Z) : Z * list (Z * list Z) :=
  Gen_thriftempty.BinaryProtocol_WriteEmpty (empty_desc typ key elem) 0 0 0 0 0 0 0 0 0 0.

(* the cutting model's type for a type byte with element / key type bytes (nested types only matter through their code) *)
Definition ty_of_codes (typ key elem : Z) : ThriftCut.ty :=
  if typ =? 12 then ThriftCut.TStruct 0 else if typ =? 15 then ThriftCut.TList (ThriftCut.TScalar elem)
  else if typ =? 14 then ThriftCut.TSet (ThriftCut.TScalar elem)
  else if typ =? 13 then ThriftCut.TMap (ThriftCut.TScalar key) (ThriftCut.TScalar elem) else ThriftCut.TScalar typ.

(* 1694 / 1194 fields: type, key type, element type, bytes written, error (0 nil) *)
Definition check_write_empty (fs : list field) : verdict :=
  match fs with
  | [FZ typ; FZ key; FZ elem; FB outb; FZ errd] =>
    let '(e, eff) := gen_write_empty typ key elem in
    vand (expect 1 (Bool.eqb (e =? 0) (errd =? 0) && bytes_eqb (empty_bytes eff) outb) [FZ e; FB (empty_bytes eff)])
         match ThriftCut.zero_of (ty_of_codes typ key elem) with
         | Some z => expect 2 ((errd =? 0) && bytes_eqb (ThriftWire.encode z) outb) [FB (ThriftWire.encode z)]
         | None => expect 3 ((errd =? 1) && bytes_eqb outb []) []
         end
  | _ => VBad 99 []
  end.
Definition check_1694 (fs : list field) : verdict := check_write_empty fs.
Definition check_1194 (fs : list field) : verdict := check_write_empty fs.
