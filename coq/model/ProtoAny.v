(* proto/binary/binary.go WriteAnyWithDesc / ReadAnyWithDesc and their callees (WriteBaseTypeWithDesc, WriteList,
   WriteMap, WriteMessageFields, ReadBaseTypeWithDesc, ReadList, ReadPair, ReadMap and the message reader), transcribed
   AS CODED over explicit byte lists.
     - Go values (interface{}) are [gval]s: the Go type of every scalar is recorded, Go maps are association lists
       whose ORDER stands for the iteration order the Go runtime happened to choose (every permutation of the list is
       the same Go map; the theorems quantify over all lists, hence over all orders).
     - the writer threads the output buffer [b] and a status (0 nil error, 1 error, 2 outside the model: float/text
       conversions of the cast mode, descriptor without message); the errors WriteMap and WriteString-callers drop are
       dropped here too; length prefixes go through AppendSpeculativeLength / FinishSpeculativeLength exactly as in
       model/ProtoSpecLen.v ([junk] = content of the spare capacity).
     - the reader works on the bytes left in the (bounded) buffer and answers the value and the bytes left after it.
     - descriptors are the abstract schema of ProtoMsg.v: TypeDescriptor = (base id, label, type).
   Scalar steps are written with the reference primitives of ProtoWireRef.v; gen/Gen_protowire.v (regenerated from
   the Go source on every run) is proved equal to them in proofs/GenProtowireProofs.v.
   Model only - the theorems are in proofs/ProtoAnyProofs.v. *)
From Coq Require Import ZArith List Bool.
From DG Require Import CaseFormat ProtoWireRef GoSem ProtoMsg ProtoSpecLen.
(* the conversions of internal/primitive (cast mode) are shared with the Thrift model of c19: float64 -> int64 truncation as
   amd64 does it, int -> float64 / float64 -> float32 correctly rounded, float32 -> float64 exact, ParseInt, Itoa *)
From DG Require ThriftAnyDesc J2P P2J.
Import ListNotations.
Local Open Scope Z_scope.

(* ---------------------------------------------------------------- Go values *)
(* Go integer types *)
Definition GT_I8 := 1.  Definition GT_I16 := 2.  Definition GT_I32 := 3.  Definition GT_I64 := 4.  Definition GT_INT := 5.
Definition GT_U8 := 6.  Definition GT_U16 := 7.  Definition GT_U32 := 8.  Definition GT_U64 := 9.  Definition GT_UINT := 10.
Definition GT_ENUM := 11.   (* proto.EnumNumber *)

Inductive gval :=
| GNil                                      (* nil interface *)
| GBool (b : bool)
| GInt (t : Z) (z : Z)                      (* t = GT_*; z = the mathematical value *)
| GF32 (bits : Z)
| GF64 (bits : Z)
| GStr (s : list Z)
| GBytes (s : list Z)
| GList (l : list gval)                     (* []interface{} *)
| GMapS (es : list (list Z * gval))         (* map[string]interface{}: a string-keyed map, or a message by field name *)
| GMapI (es : list (Z * gval))              (* map[int]interface{} *)
| GMapA (es : list (gval * gval))           (* map[interface{}]interface{} *)
| GMsgN (fs : list (Z * gval)).             (* map[proto.FieldNumber]interface{} *)

(* equality of hashable interface values (map keys): same dynamic type, same value *)
Definition gkey_eqb (a b : gval) : bool :=
  match a, b with
  | GNil, GNil => true
  | GBool x, GBool y => Bool.eqb x y
  | GInt t x, GInt t' y => (t =? t') && (x =? y)
  | GF32 x, GF32 y => x =? y
  | GF64 x, GF64 y => x =? y
  | GStr x, GStr y => bytes_eqb x y
  | _, _ => false
  end.

Fixpoint upsert_by {A B} (eqb : A -> A -> bool) (k : A) (v : B) (l : list (A * B)) : list (A * B) :=
  match l with
  | [] => [(k, v)]
  | (k', v') :: r => if eqb k k' then (k, v) :: r else (k', v') :: upsert_by eqb k v r
  end.
(* m[k] = v for every pair, in order *)
Definition build_map {A B} (eqb : A -> A -> bool) (l : list (A * B)) : list (A * B) :=
  fold_left (fun acc kv => upsert_by eqb (fst kv) (snd kv) acc) l [].

(* ---------------------------------------------------------------- descriptor helpers *)
(* proto.Kind2Wire[kind] (a Go map: 0 for a missing key) *)
Definition kind2wire (k : Z) : Z :=
  if k =? 10 then 3 else if wt_of_kind k <? 0 then 0 else wt_of_kind k.

(* AppendTag: status 1 and nothing written for a number outside [1, 2^29-1] *)
Definition append_tag (n wt : Z) (b : list Z) : list Z * Z :=
  if (n >? MAX_FIELD_NUMBER) || (n <? 1) then (b, 1) else (b ++ varint_enc (n * 8 + wt mod 8), 0).

(* ---------------------------------------------------------------- writer *)
Definition wst := (list Z * Z)%type.       (* buffer, status *)
Definition wbind (r : wst) (k : list Z -> wst) : wst := if snd r =? 0 then k (fst r) else r.

Definition is_goint (t : Z) : bool := (1 <=? t) && (t <=? 10).

(* internal/primitive ToInt64 / ToBool / ToFloat64 / ToString: Some (Some x) value, Some None error, None outside the model
   (strconv.ParseFloat, FormatFloat, fmt.Sprintf("%v")) *)
Definition to_int64 (g : gval) : option (option Z) :=
  match g with
  | GBool b => Some (Some (if b then 1 else 0))
  | GInt t z => if is_goint t then Some (Some (to_s 64 z)) else Some None
  | GF32 b => Some (Some (ThriftAnyDesc.f64_to_int64 (P2J.widen32 b)))
  | GF64 b => Some (Some (ThriftAnyDesc.f64_to_int64 b))
  | GStr s => Some (ThriftAnyDesc.parse_int64 s)
  | GBytes s => Some (ThriftAnyDesc.parse_int64 s)
  | _ => Some None
  end.
Definition to_bool (g : gval) : option (option bool) :=
  match g with
  | GBool b => Some (Some b)
  | GInt t z => if is_goint t then Some (Some (negb (z =? 0))) else Some None
  | GF32 b => Some (Some (negb (b mod 2 ^ 31 =? 0)))
  | GF64 b => Some (Some (negb (b mod 2 ^ 63 =? 0)))
  | GStr s => Some (Some (negb (is_nil s)))
  | GBytes s => Some (Some (negb (is_nil s)))
  | _ => Some None
  end.
Definition to_float64 (g : gval) : option (option Z) :=
  match g with
  | GBool b => Some (Some (if b then 4607182418800017408 else 0))
  | GF64 b => Some (Some b)
  | GInt t z => if is_goint t then Some (Some (J2P.int2f64 z)) else Some None     (* float64(v), correctly rounded *)
  | GF32 b => Some (Some (P2J.widen32 b))                                         (* exact *)
  | GStr _ | GBytes _ => None
  | _ => Some None
  end.
Definition to_string (g : gval) : option (option (list Z)) :=
  match g with
  | GStr s => Some (Some s)
  | GBytes s => Some (Some s)
  | GBool b => Some (Some (if b then [116; 114; 117; 101] else [102; 97; 108; 115; 101]))
  | GInt t z => if is_goint t then Some (Some (ThriftAnyDesc.dec_text z)) else None
  | _ => None
  end.
(* float32(v) for a float64 v: correctly rounded; infinities stay; NaN payloads are outside the model *)
Definition narrow32 (b : Z) : option Z :=
  match J2P.f32_of_f64 b with
  | Some x => Some x
  | None => if b mod 2 ^ 52 =? 0 then Some ((if 2 ^ 63 <=? b then 2 ^ 31 else 0) + 2139095040) else None
  end.

Definition as_goint (ty : Z) (g : gval) : option Z :=
  match g with GInt t z => if t =? ty then Some z else None | _ => None end.

(* v, ok := val.(T); if !ok { if !cast {error}; vv := ToInt64(val); v = T(vv) } *)
Definition get_int (cast : bool) (ty : Z) (conv : Z -> Z) (g : gval) : Z + Z :=
  match as_goint ty g with
  | Some z => inl z
  | None =>
    if cast then match to_int64 g with Some (Some z) => inl (conv z) | Some None => inr 1 | None => inr 2 end
    else inr 1
  end.
Definition with_val {A} (r : A + Z) (b : list Z) (f : A -> list Z) : wst :=
  match r with inl z => (b ++ f z, 0) | inr c => (b, c) end.
Definition casted {A} (cast : bool) (r : option (option A)) : A + Z :=
  if cast then match r with Some (Some x) => inl x | Some None => inr 1 | None => inr 2 end else inr 1.

(* WriteString: nothing is written for invalid UTF-8 (and every caller drops the error) *)
Definition str_bytes (s : list Z) : list Z := if utf8_valid s then varint_enc (plen s) ++ s else [].

(* the scalar cases of WriteBaseTypeWithDesc *)
Definition write_scalar (cast : bool) (k : Z) (b : list Z) (g : gval) : wst :=
  if k =? 8 then
    with_val (match g with GBool v => inl v | _ => casted cast (to_bool g) end) b
             (fun v : bool => varint_enc (if v then 1 else 0))
  else if k =? 14 then
    with_val (match as_goint GT_ENUM g with Some z => inl z | None => inr 1 end) b (fun z => varint_enc (z mod 2 ^ 64))
  else if k =? 5 then with_val (get_int cast GT_I32 (to_s 32) g) b (fun z => varint_enc (z mod 2 ^ 64))
  else if k =? 17 then with_val (get_int cast GT_I32 (to_s 32) g) b (fun z => varint_enc (zigzag_enc z))
  else if k =? 13 then with_val (get_int cast GT_U32 (fun z => z mod 2 ^ 32) g) b (fun z => varint_enc z)
  else if k =? 3 then with_val (get_int cast GT_I64 (fun z => z) g) b (fun z => varint_enc (z mod 2 ^ 64))
  else if k =? 18 then with_val (get_int cast GT_I64 (fun z => z) g) b (fun z => varint_enc (zigzag_enc z))
  else if k =? 4 then with_val (get_int cast GT_U64 (fun z => z mod 2 ^ 64) g) b (fun z => varint_enc z)
  else if (k =? 15) || (k =? 7) then with_val (get_int cast GT_I32 (to_s 32) g) b (fun z => le_enc 4 (z mod 2 ^ 32))
  else if (k =? 16) || (k =? 6) then with_val (get_int cast GT_I64 (fun z => z) g) b (fun z => le_enc 8 (z mod 2 ^ 64))
  else if k =? 2 then
    with_val (match g with GF32 x => inl x
                      | _ => match casted cast (to_float64 g) with
                             | inl d => match narrow32 d with Some x => inl x | None => inr 2 end
                             | inr c => inr c
                             end end) b
             (fun x => le_enc 4 x)
  else if k =? 1 then
    with_val (match g with GF64 x => inl x | _ => casted cast (to_float64 g) end) b (fun x => le_enc 8 x)
  else if k =? 9 then
    with_val (match g with GStr s => inl s | _ => casted cast (to_string g) end) b str_bytes
  else if k =? 12 then
    with_val (match g with GBytes s => inl s | _ => inr 1 end) b (fun s => varint_enc (plen s) ++ s)
  else (b, 1).

Section Writer.
  Variable SC : schema.
  Variables cast disallow byname : bool.
  Variable junk : list Z.
  (* true: the tag of an unpacked list element carries the wire type of the element (finding 2004 repaired);
     false: proto.BytesType whatever the element is, as coded before the repair *)
  Variable fix_unpacked : bool.

  Section Loops.
    (* WriteBaseTypeWithDesc one message level further down: type, NeedMessageLen, buffer, value *)
    Variable rec : ftype -> bool -> list Z -> gval -> wst.

    (* the loops of WriteList return at the first error *)
    Fixpoint write_elems (t : ftype) (b : list Z) (vs : list gval) : wst :=
      match vs with
      | [] => (b, 0)
      | v :: r => wbind (rec t true b v) (fun b' => write_elems t b' r)
      end.
    Fixpoint write_elems_tagged (n : Z) (t : ftype) (b : list Z) (vs : list gval) : wst :=
      match vs with
      | [] => (b, 0)
      | v :: r => wbind (append_tag n (if fix_unpacked then kind2wire (kind_of_type t) else 2) b)
                        (fun b1 => wbind (rec t true b1 v) (fun b' => write_elems_tagged n t b' r))
      end.

    Definition write_list (n : Z) (p : bool) (t : ftype) (b : list Z) (v : gval) : wst :=
      match v with
      | GList vs =>
        if p && type_numeric t && negb (is_nil vs) then
          let b0 := fst (append_tag n 2 b) in                 (* error dropped *)
          let r := write_elems t (b0 ++ [0]) vs in            (* AppendSpeculativeLength *)
          if snd r =? 0 then (finish_spec (fst r) junk (length b0), 0) else r
        else write_elems_tagged n t b vs
      | _ => (b, 1)
      end.

    (* one iteration of a WriteMap loop: every error is dropped; status 2 (outside the model) is kept *)
    Definition write_entry (n kk : Z) (t : ftype) (b : list Z) (wk : list Z -> wst) (v : gval) : wst :=
      let b0 := fst (append_tag n 2 b) in
      let b1 := b0 ++ [0] in
      let b2 := fst (append_tag 1 (kind2wire kk) b1) in
      let rk := wk b2 in
      let b4 := fst (append_tag 2 (kind2wire (kind_of_type t)) (fst rk)) in
      let rv := rec t true b4 v in
      (finish_spec (fst rv) junk (length b0), if (snd rk =? 2) || (snd rv =? 2) then 2 else 0).

    Fixpoint write_entries {A} (n kk : Z) (t : ftype) (wk : A -> list Z -> wst) (b : list Z) (es : list (A * gval)) : wst :=
      match es with
      | [] => (b, 0)
      | (k, v) :: r => wbind (write_entry n kk t b (wk k) v) (fun b' => write_entries n kk t wk b' r)
      end.

    Definition write_map (n kk : Z) (t : ftype) (b : list Z) (v : gval) : wst :=
      match v with
      | GMapS es => write_entries n kk t (fun k b' => (b' ++ str_bytes k, 0)) b es      (* p.WriteString(k) whatever the key kind *)
      | GMapI es => write_entries n kk t (fun k b' => rec (TScalar kk) true b' (GInt GT_INT k)) b es
      | GMapA es => write_entries n kk t (fun k b' => rec (TScalar kk) true b' k) b es
      | _ => (b, 1)
      end.

    (* WriteAnyWithDesc of a field's TypeDescriptor *)
    Definition write_any (n : Z) (lbl : flabel) (t : ftype) (needlen : bool) (b : list Z) (v : gval) : wst :=
      match lbl with
      | LRepeated p => write_list n p t b v
      | LMap kk => write_map n kk t b v
      | LSingular => rec t needlen b v
      end.

    (* WriteMessageFields: the members in the order the map iteration delivers them *)
    Fixpoint write_fields {A} (lookup : A -> option fdesc) (b : list Z) (fs : list (A * gval)) : wst :=
      match fs with
      | [] => (b, 0)
      | (key, v) :: r =>
        match lookup key with
        | None => if disallow then (b, 1) else write_fields lookup b r
        | Some fd =>
          wbind (match fd_label fd with
                 | LSingular => append_tag (fd_num fd) (kind2wire (kind_of_type (fd_type fd))) b
                 | _ => (b, 0)
                 end)
                (fun b1 => wbind (write_any (fd_num fd) (fd_label fd) (fd_type fd) true b1 v)
                                 (fun b2 => write_fields lookup b2 r))
        end
      end.
  End Loops.

  (* WriteBaseTypeWithDesc; fuel bounds the message nesting *)
  Fixpoint write_base (fuel : nat) (t : ftype) (needlen : bool) (b : list Z) (v : gval) : wst :=
    match fuel with
    | O => (b, 2)
    | S f =>
      match t with
      | TScalar k => write_scalar cast k b v
      | TMsg name =>
        let b1 := if needlen then b ++ [0] else b in
        match find_msg SC name with
        | None => (b1, 2)
        | Some md =>
          let r := if byname
                   then match v with GMapS fs => write_fields (write_base f) (find_field_name md) b1 fs | _ => (b1, 1) end
                   else match v with GMsgN fs => write_fields (write_base f) (find_field md) b1 fs | _ => (b1, 1) end in
          if snd r =? 0 then ((if needlen then finish_spec (fst r) junk (length b) else fst r), 0) else r
        end
      end
    end.

  (* WriteAnyWithDesc(desc, val, NeedMessageLen, cast, disallowUnknown, useFieldName) on an empty buffer *)
  Definition write_any_desc (fuel : nat) (n : Z) (lbl : flabel) (t : ftype) (needlen : bool) (v : gval) : wst :=
    write_any (write_base fuel) n lbl t needlen [] v.
End Writer.

(* ---------------------------------------------------------------- reader *)
Definition rd_varint (bs : list Z) : option (Z * list Z) :=
  let '(u, n) := varint_dec bs in if n <? 0 then None else Some (u, skipn (Z.to_nat n) bs).

(* ConsumeTag / ConsumeTagWithoutMove: number, wire type, bytes after the tag *)
Definition consume_tag (bs : list Z) : option (Z * Z * list Z) :=
  match rd_varint bs with
  | None => None
  | Some (v, r) =>
    if v / 8 >? 2147483647 then None
    else if v / 8 <? 1 then None
    else Some (v / 8, v mod 8, r)
  end.

(* ConsumeBytes *)
Definition rd_bytes (bs : list Z) : option (list Z * list Z) :=
  match rd_varint bs with
  | None => None
  | Some (m, r) => take m r
  end.

(* the scalar cases of ReadBaseTypeWithDesc *)
Definition read_scalar (k : Z) (bs : list Z) : option (gval * list Z) :=
  if wt_of_kind k =? 0 then
    match rd_varint bs with
    | None => None
    | Some (u, r) =>
      Some ((if k =? 8 then GBool (to_s 8 u =? 1)
             else if k =? 14 then GInt GT_ENUM (to_s 32 u)
             else if k =? 5 then GInt GT_I32 (to_s 32 u)
             else if k =? 17 then GInt GT_I32 (to_s 32 (zigzag_dec (u mod 2 ^ 32)))
             else if k =? 13 then GInt GT_U32 (u mod 2 ^ 32)
             else if k =? 3 then GInt GT_I64 (to_s 64 u)
             else if k =? 18 then GInt GT_I64 (zigzag_dec u)
             else GInt GT_U64 u), r)
    end
  else if wt_of_kind k =? 5 then
    match take 4 bs with
    | None => None
    | Some (x, r) => Some ((if k =? 2 then GF32 (le_dec 4 x) else GInt GT_I32 (to_s 32 (le_dec 4 x))), r)
    end
  else if wt_of_kind k =? 1 then
    match take 8 bs with
    | None => None
    | Some (x, r) => Some ((if k =? 1 then GF64 (le_dec 8 x) else GInt GT_I64 (to_s 64 (le_dec 8 x))), r)
    end
  else if (k =? 9) || (k =? 12) then
    match rd_bytes bs with
    | None => None
    | Some (x, r) => Some ((if k =? 9 then GStr x else GBytes x), r)
    end
  else None.

(* Skip(wireType): errors are dropped by the caller and nothing moves on an error *)
Definition skip_val (wt : Z) (bs : list Z) : list Z :=
  if wt =? 0 then match rd_varint bs with Some (_, r) => r | None => bs end
  else if wt =? 5 then match take 4 bs with Some (_, r) => r | None => bs end
  else if wt =? 1 then match take 8 bs with Some (_, r) => r | None => bs end
  else if wt =? 2 then match rd_bytes bs with Some (_, r) => r | None => bs end
  else bs.

Section Reader.
  Variable SC : schema.
  Variables disallow byname : bool.

  Section Loops.
    (* ReadBaseTypeWithDesc one message level further down: type, hasMessageLen, bytes *)
    Variable rec : ftype -> bool -> list Z -> option (gval * list Z).

    (* packed: for p.Read < start+length; [left] = start+length-p.Read *)
    Fixpoint read_packed (fuel : nat) (t : ftype) (left : Z) (bs : list Z) : option (list gval * list Z) :=
      if left <=? 0 then Some ([], bs) else
      match fuel with
      | O => None
      | S f =>
        match rec t true bs with
        | None => None
        | Some (v, r) =>
          match read_packed f t (left - (plen bs - plen r)) r with
          | Some (l, r') => Some (v :: l, r')
          | None => None
          end
        end
      end.

    (* unpacked: while bytes are left and the next tag carries the same number *)
    Fixpoint read_more (fuel : nat) (num : Z) (t : ftype) (bs : list Z) : option (list gval * list Z) :=
      match bs with
      | [] => Some ([], [])
      | _ :: _ =>
        match fuel with
        | O => None
        | S f =>
          match consume_tag bs with
          | None => None
          | Some (num', _, r) =>
            if negb (num' =? num) then Some ([], bs) else
            match rec t true r with
            | None => None
            | Some (v, r1) =>
              match read_more f num t r1 with
              | Some (l, r2) => Some (v :: l, r2)
              | None => None
              end
            end
          end
        end
      end.

    Definition read_list (p : bool) (t : ftype) (bs : list Z) : option (gval * list Z) :=
      match consume_tag bs with
      | None => None
      | Some (num, _, r) =>
        if p && type_numeric t then
          match rd_varint r with
          | None => None
          | Some (u, r1) =>
            match read_packed (S (length r1)) t (to_s 64 u) r1 with
            | Some (l, r2) => Some (GList l, r2)
            | None => None
            end
          end
        else
          match rec t true r with
          | None => None
          | Some (v, r1) =>
            match read_more (S (length r1)) num t r1 with
            | Some (l, r2) => Some (GList (v :: l), r2)
            | None => None
            end
          end
      end.

    (* ReadPair: the two tags are consumed without looking at them *)
    Definition read_pair (kk : Z) (t : ftype) (bs : list Z) : option (gval * gval * list Z) :=
      match consume_tag bs with
      | None => None
      | Some (_, _, r) =>
        match rec (TScalar kk) true r with
        | None => None
        | Some (k, r1) =>
          match consume_tag r1 with
          | None => None
          | Some (_, _, r2) =>
            match rec t true r2 with
            | None => None
            | Some (v, r3) => Some (k, v, r3)
            end
          end
        end
      end.

    Fixpoint read_more_pairs (fuel : nat) (num kk : Z) (t : ftype) (bs : list Z) : option (list (gval * gval) * list Z) :=
      match bs with
      | [] => Some ([], [])
      | _ :: _ =>
        match fuel with
        | O => None
        | S f =>
          match consume_tag bs with
          | None => None
          | Some (num', _, r) =>
            if negb (num' =? num) then Some ([], bs) else
            match rd_varint r with                         (* the pair length is read and not used *)
            | None => None
            | Some (_, r0) =>
              match read_pair kk t r0 with
              | None => None
              | Some (k, v, r1) =>
                match read_more_pairs f num kk t r1 with
                | Some (l, r2) => Some ((k, v) :: l, r2)
                | None => None
                end
              end
            end
          end
        end
      end.

    Definition read_map (kk : Z) (t : ftype) (bs : list Z) : option (gval * list Z) :=
      match consume_tag bs with
      | None => None
      | Some (num, wt, r) =>
        if negb (wt =? 2) then None else
        match rd_varint r with
        | None => None
        | Some (_, r0) =>
          match read_pair kk t r0 with
          | None => None
          | Some (k, v, r1) =>
            match read_more_pairs (S (length r1)) num kk t r1 with
            | Some (l, r2) => Some (GMapA (build_map gkey_eqb ((k, v) :: l)), r2)
            | None => None
            end
          end
        end
      end.

    (* ReadAnyWithDesc of a field's TypeDescriptor; for lists and maps [bs] starts at the tag *)
    Definition read_any (lbl : flabel) (t : ftype) (haslen : bool) (bs : list Z) : option (gval * list Z) :=
      match lbl with
      | LRepeated p => read_list p t bs
      | LMap kk => read_map kk t bs
      | LSingular => rec t haslen bs
      end.

    (* the field loop of the message case: (descriptor, value) per field read, in wire order *)
    Fixpoint read_fields (fuel : nat) (md : mdesc) (bs : list Z) : option (list (fdesc * gval)) :=
      match bs with
      | [] => Some []
      | _ :: _ =>
        match fuel with
        | O => None
        | S f =>
          match consume_tag bs with
          | None => None
          | Some (num, wt, r) =>
            match find_field md num with
            | None => if disallow then None else read_fields f md (skip_val wt r)
            | Some fd =>
              match read_any (fd_label fd) (fd_type fd) true
                             (match fd_label fd with LSingular => r | _ => bs end) with
              | None => None
              | Some (v, r') =>
                match read_fields f md r' with
                | Some l => Some ((fd, v) :: l)
                | None => None
                end
              end
            end
          end
        end
      end.
  End Loops.

  (* ret[name] = v / ret[number] = v *)
  Definition build_msg (l : list (fdesc * gval)) : gval :=
    if byname then GMapS (build_map bytes_eqb (map (fun fv => (fd_name (fst fv), snd fv)) l))
    else GMsgN (build_map Z.eqb (map (fun fv => (fd_num (fst fv), snd fv)) l)).

  Fixpoint read_base (fuel : nat) (t : ftype) (haslen : bool) (bs : list Z) : option (gval * list Z) :=
    match fuel with
    | O => None
    | S f =>
      match t with
      | TScalar k => read_scalar k bs
      | TMsg name =>
        match (if haslen then rd_varint bs else Some (plen bs, bs)) with
        | None => None
        | Some (u, r) =>
          let mlen := if haslen then to_s 64 u else u in
          if haslen && (mlen =? 0) then Some (GNil, r) else
          match find_msg SC name with
          | None => None
          | Some md =>
            match take mlen r with
            | None => None
            | Some (payload, after) =>
              match read_fields (read_base f) (S (length payload)) md payload with
              | Some l => Some (build_msg l, after)
              | None => None
              end
            end
          end
        end
      end
    end.

  (* ReadAnyWithDesc(desc, hasMessageLen, copyString, disallowUnknown, useFieldName) on a buffer *)
  Definition read_any_desc (fuel : nat) (lbl : flabel) (t : ftype) (haslen : bool) (bs : list Z) : option (gval * list Z) :=
    read_any (read_base fuel) lbl t haslen bs.
End Reader.

(* ---------------------------------------------------------------- the Go value of a typed message *)
(* the Go type each kind travels as (proto/binary: fixed32/fixed64 as int32/int64, enums as proto.EnumNumber) *)
Definition g_scalar (k v : Z) : gval :=
  if k =? 8 then GBool (negb (v =? 0))
  else if k =? 2 then GF32 v
  else if k =? 1 then GF64 v
  else if (k =? 5) || (k =? 15) || (k =? 17) then GInt GT_I32 v
  else if k =? 7 then GInt GT_I32 (to_s 32 v)
  else if k =? 14 then GInt GT_ENUM v
  else if (k =? 3) || (k =? 16) || (k =? 18) then GInt GT_I64 v
  else if k =? 6 then GInt GT_I64 (to_s 64 v)
  else if k =? 13 then GInt GT_U32 v
  else GInt GT_U64 v.
Definition g_key (k : mkey) : gval := match k with KInt kk v => g_scalar kk v | KStr s => GStr s end.

Section GvalOf.
  Variable SC : schema.
  Variable byname : bool.
  (* rd: the reader's rendering (an empty sub-message is nil) *)
  Variable rd : bool.

  Definition fld_of (t : ftype) (n : Z) : option fdesc :=
    match t with
    | TMsg name => match find_msg SC name with Some md => find_field md n | None => None end
    | TScalar _ => None
    end.
  Definition fld_type (t : ftype) (n : Z) : ftype := match fld_of t n with Some fd => fd_type fd | None => TScalar 0 end.
  Definition fld_name (t : ftype) (n : Z) : list Z := match fld_of t n with Some fd => fd_name fd | None => [] end.

  Fixpoint gval_of (t : ftype) (v : pval) {struct v} : gval :=
    match v with
    | VScalar k x => g_scalar k x
    | VBytes k s => if k =? 9 then GStr s else GBytes s
    | VMsg fs =>
      if rd && is_nil fs then GNil
      else if byname then GMapS (map (fun nv => (fld_name t (fst nv), gval_of (fld_type t (fst nv)) (snd nv))) fs)
      else GMsgN (map (fun nv => (fst nv, gval_of (fld_type t (fst nv)) (snd nv))) fs)
    | VList _ vs => GList (map (gval_of t) vs)
    | VMap kvs => GMapA (map (fun kx => (g_key (fst kx), gval_of t (snd kx))) kvs)
    end.

  (* the top-level message is never nil *)
  Definition gtop (name : list Z) (fs : pmsg) : gval :=
    if is_nil fs then (if byname then GMapS [] else GMsgN []) else gval_of (TMsg name) (VMsg fs).
End GvalOf.

(* ---------------------------------------------------------------- side conditions of the theorems *)
(* every string (and string key) is valid UTF-8: WriteString writes nothing otherwise *)
Fixpoint strs_ok (v : pval) : bool :=
  match v with
  | VBytes k s => negb (k =? 9) || utf8_valid s
  | VMsg fs => forallb (fun nv => strs_ok (snd nv)) fs
  | VList _ vs => forallb strs_ok vs
  | VMap kvs => forallb (fun kx => (match fst kx with KStr s => utf8_valid s | KInt _ _ => true end) && strs_ok (snd kx)) kvs
  | VScalar _ _ => true
  end.
(* every length-delimited payload is shorter than 2^31 bytes (Go int lengths; hypothesis of finish_spec_correct) *)
Fixpoint sizes_ok (v : pval) : bool :=
  match v with
  | VMsg fs => (plen (encode_msg fs) <? 2 ^ 31) && forallb (fun nv => sizes_ok (snd nv)) fs
  | VList p vs => (negb p || (plen (flat_map packed_elem vs) <? 2 ^ 31)) && forallb sizes_ok vs
  | VMap kvs => forallb (fun kx => (plen (wenc (key_field (fst kx) :: wfld 2 (snd kx))) <? 2 ^ 31) && sizes_ok (snd kx)) kvs
  | _ => true
  end.
(* no empty sub-message below the top level (the reader answers nil for those) *)
Fixpoint no_empty (v : pval) : bool :=
  match v with
  | VMsg fs => negb (is_nil fs) && forallb (fun nv => no_empty (snd nv)) fs
  | VList _ vs => forallb no_empty vs
  | VMap kvs => forallb (fun kx => no_empty (snd kx)) kvs
  | _ => true
  end.

(* ---------------------------------------------------------------- comparison modulo map order (for the checks) *)
Fixpoint gassoc {A B} (eqb : A -> A -> bool) (k : A) (l : list (A * B)) : option B :=
  match l with [] => None | (k', v) :: r => if eqb k k' then Some v else gassoc eqb k r end.

Fixpoint gval_eqv (a b : gval) {struct a} : bool :=
  match a, b with
  | GNil, GNil => true
  | GBool x, GBool y => Bool.eqb x y
  | GInt t x, GInt t' y => (t =? t') && (x =? y)
  | GF32 x, GF32 y => x =? y
  | GF64 x, GF64 y => x =? y
  | GStr x, GStr y => bytes_eqb x y
  | GBytes x, GBytes y => bytes_eqb x y
  | GList xs, GList ys =>
    (fix go (l m : list gval) {struct l} : bool :=
       match l, m with
       | [], [] => true
       | x :: l', y :: m' => gval_eqv x y && go l' m'
       | _, _ => false
       end) xs ys
  | GMapS xs, GMapS ys =>
    (length xs =? length ys)%nat &&
    forallb (fun kv => match gassoc bytes_eqb (fst kv) ys with Some y => gval_eqv (snd kv) y | None => false end) xs
  | GMapI xs, GMapI ys =>
    (length xs =? length ys)%nat &&
    forallb (fun kv => match gassoc Z.eqb (fst kv) ys with Some y => gval_eqv (snd kv) y | None => false end) xs
  | GMapA xs, GMapA ys =>
    (length xs =? length ys)%nat &&
    forallb (fun kv => match gassoc gkey_eqb (fst kv) ys with Some y => gval_eqv (snd kv) y | None => false end) xs
  | GMsgN xs, GMsgN ys =>
    (length xs =? length ys)%nat &&
    forallb (fun kv => match gassoc Z.eqb (fst kv) ys with Some y => gval_eqv (snd kv) y | None => false end) xs
  | _, _ => false
  end.

(* ---------------------------------------------------------------- by field name: every declared name resolves to its own field *)
Definition flabel_eqb (a b : flabel) : bool :=
  match a, b with
  | LSingular, LSingular => true
  | LRepeated p, LRepeated q => Bool.eqb p q
  | LMap k, LMap k' => k =? k'
  | _, _ => false
  end.
Definition ftype_eqb (a b : ftype) : bool :=
  match a, b with
  | TScalar k, TScalar k' => k =? k'
  | TMsg n, TMsg n' => bytes_eqb n n'
  | _, _ => false
  end.
Definition fdesc_eqb (a b : fdesc) : bool :=
  (fd_num a =? fd_num b) && bytes_eqb (fd_name a) (fd_name b) && bytes_eqb (fd_json a) (fd_json b) &&
  flabel_eqb (fd_label a) (fd_label b) && ftype_eqb (fd_type a) (fd_type b).
Definition names_okb (SC : schema) : bool :=
  forallb (fun md => forallb (fun fd => match find_field_name md (fd_name fd) with
                                        | Some fd' => fdesc_eqb fd' fd
                                        | None => false
                                        end) (md_fields md)) SC.
