(* Options consulted by the read APIs of thrift/generic, model level (no proofs here):
   - ClearDirtyValues (GetMany / Fields / Indexes / Gets): bulk lookup into a caller-provided slice of result slots;
   - MapStructById, CastStringAsBinary (Interface / List / StrMap / IntMap / InterfaceMap): the Go value as an AST [ival]
     whose serialisation [ser] is the dump compared by check 105 (gdump of Check01b = ser o to_ival, proved).
   UseNativeSkip / UseNativeSkipForGet: see ThriftGenericW.v. IterateStructByName only chooses the Path (name or id) handed
   to the Value.Foreach callback; DisallowUnknow only adds an error for fields the descriptor lacks. *)
From Coq Require Import ZArith List Bool.
From DG Require Import ProtoWireRef ThriftWire CaseFormat ThriftGeneric Check01b.
Import ListNotations.
Local Open Scope Z_scope.

(* ---- bulk lookup: a slot is empty or holds (sub-value, offset) ---- *)
Definition slot := option (tval * Z).
Definition bulk_get (clear : bool) (v : tval) (q : list (pstep * slot)) : list slot :=
  map (fun x => match lookup1 v (fst x) with
                | LFound sub o => Some (sub, o)
                | _ => if clear then None else snd x
                end) q.

(* ---- Go value returned by Interface() ---- *)
Inductive ival :=
| IBool (b : Z)                                   (* 0 / 1 *)
| IInt (z : Z)
| IDouble (bits : Z)
| IStr (bin : bool) (s : list Z)                  (* string, or []byte under CastStringAsBinary *)
| IList (l : list ival)
| IMap (sub : Z) (es : list (ival * ival))        (* sub: 1 map[string], 2 map[int], 3 map[interface{}] *)
| IStruct (byid : bool) (fs : list (Z * ival)).   (* map[int] or, under MapStructById, map[FieldID] *)

Fixpoint to_ival (obin obyid : bool) (v : tval) : ival :=
  match v with
  | VBool raw => IBool (if raw =? 0 then 0 else 1)
  | VByte z => IInt (z mod 256)
  | VI16 z => IInt z | VI32 z => IInt z | VI64 z => IInt z
  | VDouble b => IDouble b
  | VString s => IStr obin s
  | VList _ es => IList (map (to_ival obin obyid) es)
  | VSet _ es => IList (map (to_ival obin obyid) es)
  | VStruct fs => IStruct obyid (map (fun f => (fst f, to_ival obin obyid (snd f))) fs)
  | VMap kt _ es =>
      if kt =? T_STRING then
        IMap 1 (map (fun e => (match fst e with VString s => IStr false s | _ => IBool 255 end, to_ival obin obyid (snd e))) es)
      else if is_int_type kt then IMap 2 (map (fun e => (to_ival obin obyid (fst e), to_ival obin obyid (snd e))) es)
      else IMap 3 (map (fun e => (to_ival obin obyid (fst e), to_ival obin obyid (snd e))) es)
  end.

(* the canonical dump of check 105 *)
Fixpoint ser (x : ival) : list Z :=
  match x with
  | IBool b => if b =? 255 then [255] else [1; b]
  | IInt z => dump_int z
  | IDouble b => 3 :: enc_int 8 b
  | IStr bin s => (if bin then 5 else 4) :: enc_int 4 (zlen s) ++ s
  | IList l => 6 :: enc_int 4 (zlen l) ++ flat_map ser l
  | IMap sub es => dump_map sub (map (fun e => (ser (fst e), ser (snd e))) es)
  | IStruct byid fs => dump_map (if byid then 4 else 2) (map (fun f => (dump_int (fst f), ser (snd f))) fs)
  end.

(* forgetting what the two presentation options choose: string vs []byte, int vs FieldID keys *)
Fixpoint forget (x : ival) : ival :=
  match x with
  | IStr _ s => IStr false s
  | IList l => IList (map forget l)
  | IMap sub es => IMap sub (map (fun e => (forget (fst e), forget (snd e))) es)
  | IStruct _ fs => IStruct false (map (fun f => (fst f, forget (snd f))) fs)
  | _ => x
  end.
