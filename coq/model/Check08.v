(* Correspondence check for C08 (conv/p2j: Protobuf -> JSON).
   801: one conversion.  fields:
     <schema (ProtoCase.parse_schema)>  n<Int642String> n<DisallowUnknownField>  x<protobuf bytes>
     n<err class of Do: 0 nil, 1 error, 2 panic, 3 no answer within the watchdog>  x<output of Do>
     n<err class of DoInto>  x<buffer after DoInto>  x<content of the buffer before DoInto>
   The model decodes the bytes itself (ProtoMsg.decode_top, proved inverse of the canonical encoder), insists that the
   bytes ARE the canonical encoding of what it decoded plus unknown records (otherwise VSkip), computes the denotation
   (P2J.pj_of) and compares it with the implementation's text PARSED BY THE PROVED PARSER (Json.json_parse), numbers by
   value.  Output that does not parse, with a nil error, is a violation unless it deviates exactly as a recorded finding
   does (P2JQuirk). *)
From Coq Require Import ZArith List Bool.
From DG Require Import CaseFormat ProtoWireRef ProtoMsg ProtoCase Json Num Base64 P2J P2JQuirk.
Import ListNotations.
Local Open Scope Z_scope.

Fixpoint min_id (l : list Z) (acc : Z) : Z :=
  match l with [] => acc | x :: r => min_id r (if (acc =? 0) || (x <? acc) then x else acc) end.

(* ids -> verdict: nothing needed = VOk; only drift codes = VDrift; otherwise the smallest finding id *)
Definition verdict_of_ids (ids : list Z) : verdict :=
  match ids with
  | [] => VOk
  | _ => let m := min_id ids 0 in if 890 <=? m then VDrift m else VKnown m
  end.

(* the expected value as text for the replay file (floats shown as their binary64 bit pattern: the exact decimal
   expansion is only needed by the theorems) *)
Fixpoint pj_show_json (p : pj) : json :=
  match p with
  | PJF _ b => JStr ([102; 54; 52; 58] ++ fmt_int b)
  | PJArr xs => JArr (map pj_show_json xs)
  | PJObj ms => JObj (map (fun m => (fst m, pj_show_json (snd m))) ms)
  | PJMap _ ms => JObj (map (fun m => (key_str (fst m), pj_show_json (snd m))) ms)
  | _ => pj_json p
  end.
Definition pj_show (p : pj) : list Z := json_print (pj_show_json p).

Definition is_prefix_then (pre full rest : list Z) : bool := bytes_eqb full (pre ++ rest).

Definition check_801 (fs : list field) : verdict :=
  match parse_schema fs with
  | Some (root, Sc, [FZ i64s; FZ dis; FB bs; FZ err; FB out; FZ err2; FB out2; FB pre]) =>
    let o := mk_p2j_opts (negb (i64s =? 0)) (negb (dis =? 0)) in
    if negb (bytes_okb bs) then VBad 99 [] else
    match decode_top Sc root bs, strip_unknown Sc (Datatypes.S (length bs)) root bs with
    | Some m, Some stripped =>
      (* domain: canonical encoding of m, plus unknown records only *)
      if negb (bytes_eqb (encode_msg m) stripped) then VSkip else
      let unknown := negb (bytes_eqb stripped bs) in
      match pj_of Sc o root m with
      | None => VBad 97 []                       (* the decoded message does not fit the schema: model defect *)
      | Some p =>
        let ovr := overrun m in
        if (err =? 2) || (err =? 3) then
          (if ovr then VKnown F_OVERRUN else VBad 2 [FZ err])
        else if unknown && o_disallow_unknown o then
          (* the conversion must fail *)
          expect 10 (negb (err =? 0)) []
        else if negb (pj_finite p) then
          (* no JSON image: an error is the only correct answer *)
          if negb (err =? 0) then VOk
          else match json_parse_len out with
               | Some j =>
                 match pj_match true (o_int64_string o) p j with
                 | Some ids => VKnown (min_id (F_NONFINITE :: ids) 0)
                 | None => if ovr then VKnown F_OVERRUN else VBad 11 [FB out]
                 end
               | None => if ovr then VKnown F_OVERRUN else VBad 12 [FB out]
               end
        else if negb (err =? 0) then
          (if ovr then VKnown F_OVERRUN else VBad 20 [FB (pj_show p)])
        else
          let main :=
            match json_parse out with
            | Some j =>
              match pj_match false (o_int64_string o) p j with
              | Some ids => verdict_of_ids ids
              | None =>
                match pj_match true (o_int64_string o) p j with
                | Some ids => verdict_of_ids ids
                | None => if ovr then VKnown F_OVERRUN else VBad 40 [FB (pj_show p)]
                end
              end
            | None =>
              (* malformed JSON with a nil error *)
              match json_parse_len out with
              | Some j =>
                match pj_match true (o_int64_string o) p j with
                | Some [] => VBad 31 [FB (pj_show p)]          (* cannot happen: the strict parser would have accepted it *)
                | Some ids => verdict_of_ids ids
                | None => if ovr then VKnown F_OVERRUN else VBad 32 [FB (pj_show p)]
                end
              | None => if ovr then VKnown F_OVERRUN else VBad 30 [FB (pj_show p)]
              end
            end in
          match main with
          | VOk =>
            (* DoInto appends exactly the same text to the caller's buffer *)
            vand (expect 50 (err2 =? 0) [])
                 (expect 51 (is_prefix_then pre out2 out) [FB (pre ++ out)])
          | v => v
          end
      end
    | _, _ => VSkip
    end
  | _ => VBad 99 []
  end.
