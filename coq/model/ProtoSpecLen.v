(* proto/binary/binary.go AppendSpeculativeLength / FinishSpeculativeLength, statement by statement,
   over Go slice semantics made explicit: re-slicing within capacity exposes ARBITRARY old bytes
   ([junk]), copy() within one backing array is a memmove, AppendVarint(b[:pos], v) overwrites in place.
   Used by WriteList/WriteMap/WriteMessage (C20), j2p's SAX machine (C09), DOM marshal and MarshalTo (C10, C11).
   Model only — the theorem is in proofs/ProtoSpecLenProofs.v. *)
From Coq Require Import ZArith List Bool Arith.
From DG Require Import ProtoWireRef.
Import ListNotations.

Definition speculative_length : nat := 1.

(* b = append(b, "\x00"); pos = old len *)
Definition append_spec (b : list Z) : list Z * nat := (b ++ [0%Z], length b).

(* b[:n] for n <= cap: the bytes beyond len(b) are whatever the backing array holds;
   make+copy (the else branch) gives zeros there — both are instances of some [junk] *)
Definition reslice (b junk : list Z) (n : nat) : list Z := firstn n (b ++ junk).

(* copy(b[d:], b[s:]) inside one backing array: memmove of min(len-d, len-s) bytes *)
Definition copy_within (b : list Z) (d s : nat) : list Z :=
  let n := Nat.min (length b - d) (length b - s) in
  firstn d b ++ firstn n (skipn s b) ++ skipn (d + n) b.

(* AppendVarint(b[:pos], v) when cap suffices: writes the varint bytes at pos, len(b) unchanged *)
Definition overwrite_at (b : list Z) (pos : nat) (x : list Z) : list Z :=
  firstn pos b ++ x ++ skipn (pos + length x) b.

Definition finish_spec (b junk : list Z) (pos : nat) : list Z :=
  let mlen := (length b - pos - speculative_length)%nat in
  let venc_len := varint_enc (Z.of_nat mlen) in
  let msiz := length venc_len in
  let b1 := if Nat.eqb msiz speculative_length then b
            else copy_within (reslice b junk (pos + msiz + mlen)) (pos + msiz) (pos + speculative_length) in
  overwrite_at b1 pos venc_len.
