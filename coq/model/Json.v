(* JSON (RFC 8259) over byte lists: AST with number LEXEMES, total parser, canonical printer,
   string quoting.  Model only — proofs are in proofs/JsonProofs.v.

   Conventions (shared by C02/C03/C08/C09/C13/C18):
   * text and string contents are [list Z] of bytes 0..255; string contents are the UTF-8 bytes
     the literal denotes (escapes resolved, \uXXXX and surrogate pairs turned into UTF-8);
   * the parser is byte-level: raw bytes >= 0x80 inside strings are copied unchecked
     ([utf8_valid] is a separate predicate, so "valid JSON syntax" and "valid UTF-8" can be
     judged separately); raw control bytes (< 0x20) inside strings are rejected;
   * a lone surrogate escape (\uD800..\uDFFF not forming a pair) is REJECTED (it denotes no
     Unicode scalar value, hence no UTF-8 bytes);
   * numbers keep their lexeme; evaluation is in Num.v;
   * one fuel (any number > length of the input) bounds nesting, string and element loops:
     every loop iteration and every nesting level consumes at least one byte. *)
From Coq Require Import ZArith List Bool.
Import ListNotations.
Local Open Scope Z_scope.

Inductive json :=
| JNull
| JBool (b : bool)
| JNum (lex : list Z)                      (* the lexeme, e.g. "-1.5e3" as bytes *)
| JStr (s : list Z)                        (* denoted bytes (UTF-8) *)
| JArr (xs : list json)
| JObj (ms : list (list Z * json)).        (* members in document order, duplicates kept *)

(* ---- characters ---- *)
Definition is_ws (c : Z) : bool := (c =? 32) || (c =? 9) || (c =? 10) || (c =? 13).
Fixpoint skip_ws (bs : list Z) : list Z :=
  match bs with
  | c :: r => if is_ws c then skip_ws r else bs
  | [] => []
  end.
Definition is_digit (c : Z) : bool := (48 <=? c) && (c <=? 57).
Definition jbyte_okb (b : Z) : bool := (0 <=? b) && (b <? 256).
Definition jbytes_okb (bs : list Z) : bool := forallb jbyte_okb bs.

(* ---- UTF-8 ---- *)
Definition utf8_enc (cp : Z) : list Z :=
  if cp <? 128 then [cp]
  else if cp <? 2048 then [192 + cp / 64; 128 + cp mod 64]
  else if cp <? 65536 then [224 + cp / 4096; 128 + (cp / 64) mod 64; 128 + cp mod 64]
  else [240 + cp / 262144; 128 + (cp / 4096) mod 64; 128 + (cp / 64) mod 64; 128 + cp mod 64].

Definition is_cont (c : Z) : bool := (128 <=? c) && (c <=? 191).

(* well-formed UTF-8 (Unicode table 3-7: no overlongs, no surrogates, <= U+10FFFF) *)
Fixpoint utf8_valid (bs : list Z) : bool :=
  match bs with
  | [] => true
  | c :: r =>
    if (0 <=? c) && (c <? 128) then utf8_valid r else
    match r with
    | [] => false
    | c2 :: r2 =>
      if (194 <=? c) && (c <=? 223) then is_cont c2 && utf8_valid r2 else
      match r2 with
      | [] => false
      | c3 :: r3 =>
        if (224 <=? c) && (c <=? 239) then
          (if c =? 224 then (160 <=? c2) && (c2 <=? 191)
           else if c =? 237 then (128 <=? c2) && (c2 <=? 159)
           else is_cont c2) && is_cont c3 && utf8_valid r3
        else
        match r3 with
        | [] => false
        | c4 :: r4 =>
          if (240 <=? c) && (c <=? 244) then
            (if c =? 240 then (144 <=? c2) && (c2 <=? 191)
             else if c =? 244 then (128 <=? c2) && (c2 <=? 143)
             else is_cont c2) && is_cont c3 && is_cont c4 && utf8_valid r4
          else false
        end
      end
    end
  end.

(* ---- hex ---- *)
Definition hex_val (c : Z) : option Z :=
  if (48 <=? c) && (c <=? 57) then Some (c - 48)
  else if (97 <=? c) && (c <=? 102) then Some (c - 87)
  else if (65 <=? c) && (c <=? 70) then Some (c - 55)
  else None.

Definition hex4 (bs : list Z) : option (Z * list Z) :=
  match bs with
  | a :: b :: c :: d :: r =>
    match hex_val a, hex_val b, hex_val c, hex_val d with
    | Some x, Some y, Some z, Some w => Some (x * 4096 + y * 256 + z * 16 + w, r)
    | _, _, _, _ => None
    end
  | _ => None
  end.

Definition hex_digit (n : Z) : Z := if n <? 10 then 48 + n else 87 + n.   (* lower case *)

(* ---- strings ---- *)
Definition simple_escape (e : Z) : option Z :=
  if e =? 34 then Some 34 else if e =? 92 then Some 92 else if e =? 47 then Some 47
  else if e =? 98 then Some 8 else if e =? 102 then Some 12 else if e =? 110 then Some 10
  else if e =? 114 then Some 13 else if e =? 116 then Some 9 else None.

Definition app_res (pre : list Z) (x : option (list Z * list Z)) : option (list Z * list Z) :=
  match x with Some (s, r) => Some (pre ++ s, r) | None => None end.

Definition is_hi_sur (u : Z) : bool := (55296 <=? u) && (u <=? 56319).
Definition is_lo_sur (u : Z) : bool := (56320 <=? u) && (u <=? 57343).

(* the body of a string literal, after the opening quote; returns (denoted bytes, rest after the closing quote).
   fuel: any number > number of bytes up to the closing quote *)
Fixpoint parse_str (fuel : nat) (bs : list Z) : option (list Z * list Z) :=
  match fuel with
  | O => None
  | S f =>
    match bs with
    | [] => None
    | c :: r =>
      if c =? 34 then Some ([], r)
      else if c =? 92 then
        match r with
        | [] => None
        | e :: r2 =>
          if e =? 117 then
            match hex4 r2 with
            | None => None
            | Some (u, r3) =>
              if is_hi_sur u then
                match r3 with
                | b1 :: b2 :: r4 =>
                  if (b1 =? 92) && (b2 =? 117) then
                    match hex4 r4 with
                    | Some (lo, r5) =>
                      if is_lo_sur lo
                      then app_res (utf8_enc (65536 + (u - 55296) * 1024 + (lo - 56320))) (parse_str f r5)
                      else None
                    | None => None
                    end
                  else None
                | _ => None
                end
              else if is_lo_sur u then None
              else app_res (utf8_enc u) (parse_str f r3)
            end
          else match simple_escape e with
               | Some x => app_res [x] (parse_str f r2)
               | None => None
               end
        end
      else if (c <? 32) || (255 <? c) then None
      else app_res [c] (parse_str f r)
    end
  end.

(* reference quoting = what the native Quote / NoQuote of internal/json emit: backslash-quote, double backslash, \n \r \t, other
   control bytes as \u00xx (lower-case hex), every other byte (incl. >= 0x80, '/', U+2028/9) raw.
   (The portable quoteString additionally escapes U+2028/U+2029; both unquote to the same bytes.) *)
Definition esc_byte (c : Z) : list Z :=
  if c =? 34 then [92; 34] else if c =? 92 then [92; 92]
  else if c =? 10 then [92; 110] else if c =? 13 then [92; 114] else if c =? 9 then [92; 116]
  else if c <? 32 then [92; 117; 48; 48; hex_digit (c / 16); hex_digit (c mod 16)]
  else [c].
Definition escape (s : list Z) : list Z := flat_map esc_byte s.
Definition quote_ref (s : list Z) : list Z := 34 :: escape s ++ [34].

(* a complete string literal (nothing before or after) *)
Definition unquote (bs : list Z) : option (list Z) :=
  match bs with
  | c :: r => if c =? 34 then match parse_str (S (length r)) r with Some (s, []) => Some s | _ => None end else None
  | [] => None
  end.

(* ---- numbers: DFA of the RFC 8259 grammar
        number = [ minus ] int [ frac ] [ exp ]     int = zero / ( digit1-9 {DIGIT} )
        frac = decimal-point 1{DIGIT}               exp = e [ minus / plus ] 1{DIGIT}        ---- *)
Inductive nst := N0 | NMinus | NZero | NInt | NDot | NFrac | NE | NESign | NExp.

Definition is_e (c : Z) : bool := (c =? 101) || (c =? 69).
Definition num_step (st : nst) (c : Z) : option nst :=
  match st with
  | N0 => if c =? 45 then Some NMinus else if c =? 48 then Some NZero else if is_digit c then Some NInt else None
  | NMinus => if c =? 48 then Some NZero else if is_digit c then Some NInt else None
  | NZero => if c =? 46 then Some NDot else if is_e c then Some NE else None
  | NInt => if is_digit c then Some NInt else if c =? 46 then Some NDot else if is_e c then Some NE else None
  | NDot => if is_digit c then Some NFrac else None
  | NFrac => if is_digit c then Some NFrac else if is_e c then Some NE else None
  | NE => if (c =? 43) || (c =? 45) then Some NESign else if is_digit c then Some NExp else None
  | NESign => if is_digit c then Some NExp else None
  | NExp => if is_digit c then Some NExp else None
  end.
Definition num_acc (st : nst) : bool :=
  match st with NZero | NInt | NFrac | NExp => true | _ => false end.

(* longest prefix the DFA can read; it must end in an accepting state *)
Fixpoint scan_num (st : nst) (bs : list Z) : option (list Z * list Z) :=
  match bs with
  | c :: r =>
    match num_step st c with
    | Some st' => match scan_num st' r with Some (l, r') => Some (c :: l, r') | None => None end
    | None => if num_acc st then Some ([], bs) else None
    end
  | [] => if num_acc st then Some ([], []) else None
  end.

Definition num_okb (l : list Z) : bool :=
  match scan_num N0 l with Some (_, []) => true | _ => false end.

Definition is_numchar (c : Z) : bool := is_digit c || (c =? 45) || (c =? 43) || (c =? 46) || is_e c.
(* "the text after a value does not continue a number" *)
Definition stop (r : list Z) : bool := match r with [] => true | c :: _ => negb (is_numchar c) end.

(* ---- values ---- *)
Fixpoint match_lit (lit bs : list Z) : option (list Z) :=
  match lit with
  | [] => Some bs
  | x :: lit' => match bs with c :: r => if c =? x then match_lit lit' r else None | [] => None end
  end.

Section ParseLoops.
  Variable pv : list Z -> option (json * list Z).   (* the value parser at the smaller fuel *)

  (* elements after '[' (the empty array is handled by the caller): value (',' value)* ']' *)
  Fixpoint parse_elems (fuel : nat) (bs : list Z) : option (list json * list Z) :=
    match fuel with
    | O => None
    | S f =>
      match pv bs with
      | None => None
      | Some (x, r) =>
        match skip_ws r with
        | [] => None
        | c :: r2 =>
          if c =? 44 then match parse_elems f r2 with Some (xs, r3) => Some (x :: xs, r3) | None => None end
          else if c =? 93 then Some ([x], r2) else None
        end
      end
    end.

  (* members after '{' (the empty object is handled by the caller): string ':' value (',' ...)* '}' *)
  Fixpoint parse_members (fuel : nat) (bs : list Z) : option (list (list Z * json) * list Z) :=
    match fuel with
    | O => None
    | S f =>
      match skip_ws bs with
      | [] => None
      | q :: r =>
        if negb (q =? 34) then None else
        match parse_str fuel r with
        | None => None
        | Some (k, r2) =>
          match skip_ws r2 with
          | [] => None
          | c2 :: r3 =>
            if negb (c2 =? 58) then None else
            match pv r3 with
            | None => None
            | Some (x, r4) =>
              match skip_ws r4 with
              | [] => None
              | c3 :: r5 =>
                if c3 =? 44 then match parse_members f r5 with Some (ms, r6) => Some ((k, x) :: ms, r6) | None => None end
                else if c3 =? 125 then Some ([(k, x)], r5) else None
              end
            end
          end
        end
      end
    end.
End ParseLoops.

Definition lit_null := [110; 117; 108; 108].
Definition lit_true := [116; 114; 117; 101].
Definition lit_false := [102; 97; 108; 115; 101].

Fixpoint parse_value (d : nat) (bs : list Z) {struct d} : option (json * list Z) :=
  match d with
  | O => None
  | S d' =>
    match skip_ws bs with
    | [] => None
    | c :: r =>
      if c =? 110 then match match_lit [117; 108; 108] r with Some r' => Some (JNull, r') | None => None end
      else if c =? 116 then match match_lit [114; 117; 101] r with Some r' => Some (JBool true, r') | None => None end
      else if c =? 102 then match match_lit [97; 108; 115; 101] r with Some r' => Some (JBool false, r') | None => None end
      else if c =? 34 then match parse_str d' r with Some (s, r') => Some (JStr s, r') | None => None end
      else if c =? 91 then
        match skip_ws r with
        | [] => None
        | c2 :: r2 =>
          if c2 =? 93 then Some (JArr [], r2)
          else match parse_elems (parse_value d') d' r with Some (xs, r') => Some (JArr xs, r') | None => None end
        end
      else if c =? 123 then
        match skip_ws r with
        | [] => None
        | c2 :: r2 =>
          if c2 =? 125 then Some (JObj [], r2)
          else match parse_members (parse_value d') d' r with Some (ms, r') => Some (JObj ms, r') | None => None end
        end
      else match scan_num N0 (c :: r) with Some (l, r') => Some (JNum l, r') | None => None end
    end
  end.

(* one complete document: optional whitespace, one value, optional whitespace, end of input *)
Definition json_parse (bs : list Z) : option json :=
  match parse_value (S (S (length bs))) bs with
  | Some (j, r) => match skip_ws r with [] => Some j | _ => None end
  | None => None
  end.

(* prefix parse (first value, rest returned) — what a streaming consumer sees *)
Definition json_parse_prefix (bs : list Z) : option (json * list Z) := parse_value (S (S (length bs))) bs.

(* ---- printer (canonical: no whitespace, [quote_ref] strings, lexemes verbatim) ---- *)
Section PrintLoops.
  Variable pr : json -> list Z.
  Fixpoint print_tail (close : Z) (l : list json) : list Z :=
    match l with [] => [close] | y :: l' => 44 :: pr y ++ print_tail close l' end.
  Definition print_member (m : list Z * json) : list Z := quote_ref (fst m) ++ 58 :: pr (snd m).
  Fixpoint print_mtail (l : list (list Z * json)) : list Z :=
    match l with [] => [125] | m :: l' => 44 :: print_member m ++ print_mtail l' end.
End PrintLoops.

Fixpoint json_print (j : json) : list Z :=
  match j with
  | JNull => lit_null
  | JBool b => if b then lit_true else lit_false
  | JNum l => l
  | JStr s => quote_ref s
  | JArr xs => 91 :: match xs with [] => [93] | x :: l => json_print x ++ print_tail json_print 93 l end
  | JObj ms => 123 :: match ms with [] => [125] | m :: l => print_member json_print m ++ print_mtail json_print l end
  end.

(* well-formed AST: number lexemes follow the grammar, string contents are bytes *)
Fixpoint json_wf (j : json) : bool :=
  match j with
  | JNull | JBool _ => true
  | JNum l => num_okb l
  | JStr s => jbytes_okb s
  | JArr xs => forallb json_wf xs
  | JObj ms => forallb (fun m => jbytes_okb (fst m) && json_wf (snd m)) ms
  end.

(* all string contents (values and keys) are valid UTF-8 *)
Fixpoint json_utf8 (j : json) : bool :=
  match j with
  | JStr s => utf8_valid s
  | JArr xs => forallb json_utf8 xs
  | JObj ms => forallb (fun m => utf8_valid (fst m) && json_utf8 (snd m)) ms
  | _ => true
  end.

Fixpoint json_depth (j : json) : nat :=
  match j with
  | JArr xs => S (fold_right (fun x m => Nat.max (json_depth x) m) O xs)
  | JObj ms => S (fold_right (fun x m => Nat.max (json_depth (snd x)) m) O ms)
  | _ => 1%nat
  end.

(* structural equality *)
Definition zlist_eqb (a b : list Z) : bool :=
  (fix go (a b : list Z) : bool :=
     match a, b with [], [] => true | x :: a', y :: b' => (x =? y) && go a' b' | _, _ => false end) a b.

Fixpoint json_eqb (a b : json) {struct a} : bool :=
  match a, b with
  | JNull, JNull => true
  | JBool x, JBool y => Bool.eqb x y
  | JNum x, JNum y => zlist_eqb x y
  | JStr x, JStr y => zlist_eqb x y
  | JArr xs, JArr ys =>
    (fix go (xs ys : list json) : bool :=
       match xs, ys with [], [] => true | x :: xs', y :: ys' => json_eqb x y && go xs' ys' | _, _ => false end) xs ys
  | JObj xs, JObj ys =>
    (fix go (xs ys : list (list Z * json)) : bool :=
       match xs, ys with
       | [], [] => true
       | x :: xs', y :: ys' => zlist_eqb (fst x) (fst y) && json_eqb (snd x) (snd y) && go xs' ys'
       | _, _ => false
       end) xs ys
  | _, _ => false
  end.
