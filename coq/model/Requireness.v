(* C16: requiredness, defaults, unknown-field options.
   - RequiresBitmap (thrift/utils.go): list of 64-bit words taken from a pool whose memory may be dirty;
     Set / IsSet / CopyTo / growth (malloc).
   - the scan of HandleRequires / CheckRequires / native j2t_write_unset_fields over the bitmap;
   - the decision [rule] the property spells out, and its three implementations (Go HandleRequires, native, cutting).
   Model only - proofs in proofs/RequirenessProofs.v. *)
From Coq Require Import ZArith List Bool.
From DG Require Import ProtoWireRef ThriftWire ThriftCut.
Import ListNotations.
Local Open Scope Z_scope.

(* ---------------- bitmap ---------------- *)
(* a pooled slice: [words] = the visible part (len), [spare] = the rest of the backing array (cap - len), whose content
   is whatever the previous user left there *)
Record bm := { words : list Z; spare : list Z }.

Definition word_idx (id : Z) : nat := Z.to_nat (id / 64).
Definition bit_idx (id : Z) : Z := id mod 64.

Fixpoint upd_nth (n : nat) (f : Z -> Z) (l : list Z) : list Z :=
  match l, n with
  | [], _ => []
  | x :: r, O => f x :: r
  | x :: r, S n' => x :: upd_nth n' f r
  end.

(* RequiresBitmap.malloc: a fresh zeroed array of n+1 words (cap 2(n+1)), the visible words copied *)
Definition bm_grow (b : bm) (i : nat) : bm :=
  if (length (words b) <=? i)%nat
  then {| words := words b ++ repeat 0 (S i - length (words b)); spare := repeat 0 (S i) |}
  else b.

(* Set(id, val): val = true marks (Required / Default requiredness), false clears (Optional) *)
Definition bm_set (b : bm) (id : Z) (val : bool) : bm :=
  let b' := bm_grow b (word_idx id) in
  {| words := upd_nth (word_idx id) (fun w => if val then Z.setbit w (bit_idx id) else Z.clearbit w (bit_idx id)) (words b');
     spare := spare b' |}.

(* IsSet (the Go method panics beyond len; every caller stays inside, the model answers false there) *)
Definition bm_is_set (b : bm) (id : Z) : bool :=
  match nth_error (words b) (word_idx id) with Some w => Z.testbit w (bit_idx id) | None => false end.

(* CopyTo(src -> pooled slice with backing array [pool]): reuse the array when it is large enough (overwriting its
   first len(src) words), allocate otherwise *)
Definition overwrite (src pool : list Z) : list Z := src ++ skipn (length src) pool.
Definition bm_copy_to (src pool : list Z) : bm :=
  if (length pool <? length src)%nat then {| words := src; spare := [] |}
  else {| words := firstn (length src) (overwrite src pool); spare := skipn (length src) (overwrite src pool) |}.

(* ids of the set bits in scan order (word by word, bit 0 first) - the loop of HandleRequires / CheckRequires *)
Fixpoint seqZ_from (base : Z) (n : nat) : list Z := match n with O => [] | S n' => base :: seqZ_from (base + 1) n' end.
Fixpoint scan_words (ws : list Z) (base : Z) : list Z :=
  match ws with
  | [] => []
  | w :: r => map (fun j => base + j) (filter (fun j => Z.testbit w j) (seqZ_from 0 64)) ++ scan_words r (base + 64)
  end.
Definition bm_scan (b : bm) : list Z := scan_words (words b) 0.

(* ---------------- descriptors and options ---------------- *)
(* requiredness: 0 default, 1 required, 2 optional *)
Record fld := { f_id : Z; f_req : Z; f_hasdef : bool }.     (* f_hasdef: the IDL declares a default value *)
Record popts := { p_opt_bitmap : bool; p_use_default : bool }.                          (* parse options *)
Record wopts := { w_require : bool; w_default : bool; w_optional : bool; w_disallow_unknown : bool }.

(* thrift/idl.go convertRequireness: which requiredness value is Set in the descriptor's bitmap = is the bit marked *)
Definition tracked (p : popts) (f : fld) : bool := negb (f_req f =? 2) || p_opt_bitmap p.
Definition parsed_default (p : popts) (f : fld) : bool := p_use_default p && f_hasdef f.

(* the descriptor's bitmap: make(RequiresBitmap, len(fields)) then Set per field *)
Definition desc_bitmap (p : popts) (fs : list fld) : bm :=
  fold_left (fun b f => bm_set b (f_id f) (tracked p f)) fs {| words := repeat 0 (length fs); spare := [] |}.

(* what is done for a field that is still marked at the end of the struct *)
Inductive action := ASkip | AWriteDefault | AWriteZero | AMissing.

Definition write_action (p : popts) (f : fld) : action := if parsed_default p f then AWriteDefault else AWriteZero.

(* THE RULE as the property states it (and as Go's HandleRequires implements it) for a tracked absent field *)
Definition rule (p : popts) (w : wopts) (f : fld) : action :=
  if negb (tracked p f) then ASkip
  else if f_req f =? 1 then (if w_require w then write_action p f else AMissing)
  else if f_req f =? 0 then (if w_default w then write_action p f else ASkip)
  else (if w_optional w || parsed_default p f then write_action p f else ASkip).

(* thrift/utils.go HandleRequires, decision for a marked bit (mirror of the two conditions) *)
Definition handle_requires_decision (p : popts) (w : wopts) (f : fld) : action :=
  if (f_req f =? 1) && negb (w_require w) then AMissing
  else if ((f_req f =? 0) && negb (w_default w)) || ((f_req f =? 2) && negb (w_optional w) && negb (parsed_default p f)) then ASkip
  else write_action p f.

(* native/thrift.c j2t_write_unset_fields, decision for a marked bit *)
Definition native_decision (p : popts) (w : wopts) (f : fld) : action :=
  if negb (w_require w) && (f_req f =? 1) then AMissing
  else if (w_require w && (f_req f =? 1)) || (w_default w && (f_req f =? 0)) || (w_optional w && (f_req f =? 2)) then write_action p f
  else ASkip.

(* thrift/utils.go CheckRequires as used by cutting (handleUnsets writes WriteEmpty: always the zero value) *)
Definition check_requires_decision (write_default : bool) (f : fld) : action :=
  if f_req f =? 1 then AMissing else if negb write_default then ASkip else AWriteZero.

Definition find_fld16 (id : Z) (fs : list fld) : option fld := find (fun f => f_id f =? id) fs.

(* the loop over the marked bits: first missing-required aborts; result = ids written with their action, in scan order.
   HNil: a marked bit without a field (Go dereferences nil; cannot happen, see bitmap_refines_set) *)
Inductive hres := HOk (l : list (Z * action)) | HMissing | HNil.
Fixpoint handle_ids (decide : fld -> action) (fs : list fld) (ids : list Z) : hres :=
  match ids with
  | [] => HOk []
  | id :: r =>
    match find_fld16 id fs with
    | None => HNil
    | Some f =>
      match decide f with
      | AMissing => HMissing
      | ASkip => handle_ids decide fs r
      | a => match handle_ids decide fs r with HOk l => HOk ((id, a) :: l) | e => e end
      end
    end
  end.

(* one struct instance end to end: descriptor bitmap -> CopyTo a pooled (dirty) slice -> clear the bit of every field
   seen in the input -> scan *)
Definition run_struct (decide : fld -> action) (p : popts) (fs : list fld) (present : list Z) (pool : list Z) : hres :=
  let b0 := bm_copy_to (words (desc_bitmap p fs)) pool in
  let b1 := fold_left (fun b id => bm_set b id false) present b0 in
  handle_ids decide fs (bm_scan b1).

(* ---------------- the VALUE that is written for an unmet field ---------------- *)
(* a default literal as the IDL states it (thrift/idl.go makeDefaultValue accepts integer, double and string constants, the
   identifiers true / false on bool fields, and constant / enum-member identifiers, which resolve to an integer here) *)
Inductive dlit := DInt (z : Z) | DDouble (bits : Z) | DStr (s : list Z) | DBool (b : bool).

Definition is_int_code (tc : Z) : bool := (tc =? T_BYTE) || (tc =? T_I16) || (tc =? T_I32) || (tc =? T_I64).

(* SPEC: the declared default as a value of the field's OWN Thrift type (None: the literal does not fit the type -
   makeDefaultValue reports an error that idl.go ignores, the field then has no parsed default) *)
Definition lit_value (tc : Z) (l : dlit) : option tval :=
  match l with
  | DInt z => if tc =? T_BYTE then Some (VByte z) else if tc =? T_I16 then Some (VI16 z) else if tc =? T_I32 then Some (VI32 z)
              else if tc =? T_I64 then Some (VI64 z) else None
  | DDouble b => if tc =? T_DOUBLE then Some (VDouble b) else None
  | DStr s => if tc =? T_STRING then Some (VString s) else None
  | DBool b => if tc =? T_BOOL then Some (VBool (if b then 1 else 0)) else None
  end.

(* MIRROR of makeDefaultValue: the bytes stored as DefaultValue.thriftBinary - BinaryProtocol.WriteInt(typ, v) for integers
   (byte / int16 / int32 / int64 conversion of the Go int, big endian), EncodeDouble, EncodeString, 0x01 / 0x00 *)
Definition int_width (tc : Z) : nat := if tc =? T_BYTE then 1 else if tc =? T_I16 then 2 else if tc =? T_I32 then 4 else 8.
Definition make_default_bytes (tc : Z) (l : dlit) : option (list Z) :=
  match l with
  | DInt z => if is_int_code tc then Some (rev (le_enc (int_width tc) (z mod 256 ^ Z.of_nat (int_width tc)))) else None
  | DDouble b => if tc =? T_DOUBLE then Some (rev (le_enc 8 (b mod 2 ^ 64))) else None
  | DStr s => if tc =? T_STRING then Some (rev (le_enc 4 (Z.of_nat (length s) mod 2 ^ 32)) ++ s) else None
  | DBool b => if tc =? T_BOOL then Some [if b then 1 else 0] else None
  end.

(* a field with its type and its declared default *)
Record vfld := { v_f : fld; v_ty : ty; v_lit : option dlit }.
Definition vfld_ok (f : vfld) : bool :=
  Bool.eqb (f_hasdef (v_f f)) (match v_lit f with Some l => match lit_value (type_code (v_ty f)) l with Some _ => true | None => false end | None => false end).

(* SPEC: what an unmet field is filled with - the parsed IDL default, else the zero value of its type (empty struct for structs) *)
Definition default_or_zero (p : popts) (f : vfld) : option tval :=
  if parsed_default p (v_f f) then match v_lit f with Some l => lit_value (type_code (v_ty f)) l | None => None end
  else zero_of (v_ty f).

(* MIRROR of BinaryProtocol.WriteDefaultOrEmpty / native tb_write_default_or_empty: the stored thriftBinary when DefaultValue() != nil,
   else WriteEmpty (whose bytes are the encoding of zero_of: (G) C16_WriteEmpty_source_writes_zero) *)
Definition write_default_or_empty (p : popts) (f : vfld) : option (list Z) :=
  if parsed_default p (v_f f) then match v_lit f with Some l => make_default_bytes (type_code (v_ty f)) l | None => None end
  else match zero_of (v_ty f) with Some z => Some (encode z) | None => None end.

(* MIRROR of the handlers (writeStringValue with val = "" in j2t, handleUnsets in t2j's HTTP branch / cutting uses WriteEmpty):
   WriteFieldBegin(type, id) then WriteDefaultOrEmpty - for a field the decision [a] says to write *)
Definition unmet_field_bytes (p : popts) (a : action) (f : vfld) : option (list Z) :=
  match a with
  | AWriteDefault | AWriteZero =>
    match write_default_or_empty p f with
    | Some bs => Some (type_code (v_ty f) :: rev (le_enc 2 (f_id (v_f f) mod 2 ^ 16)) ++ bs)
    | None => None
    end
  | ASkip => Some []
  | AMissing => None
  end.
