(* C16: requiredness, defaults, unknown-field options.
   - RequiresBitmap (thrift/utils.go): list of 64-bit words taken from a pool whose memory may be dirty;
     Set / IsSet / CopyTo / growth (malloc).
   - the scan of HandleRequires / CheckRequires / native j2t_write_unset_fields over the bitmap;
   - the decision [rule] the property spells out, and its three implementations (Go HandleRequires, native, cutting).
   Model only - proofs in proofs/RequirenessProofs.v. *)
From Coq Require Import ZArith List Bool.
Import ListNotations.
Local Open Scope Z_scope.

(* ---------------- bitmap ---------------- *)
(* a pooled slice: [words] = the visible part (len), [spare] = the rest of the backing array (cap - len), whose content
   is whatever the previous user left there *)
Record bm := { words : list Z; spare : list Z }.

Definition word_idx (id : Z) : nat := Z.to_nat (id / 64).
Definition bit_idx (id : Z) : Z := id mod 64.

Fixpoint upd_nth (n : nat) (f : Z -> Z) (l : list Z) : list Z :=
  match l, n with
  | [], _ => []
  | x :: r, O => f x :: r
  | x :: r, S n' => x :: upd_nth n' f r
  end.

(* RequiresBitmap.malloc: a fresh zeroed array of n+1 words (cap 2(n+1)), the visible words copied *)
Definition bm_grow (b : bm) (i : nat) : bm :=
  if (length (words b) <=? i)%nat
  then {| words := words b ++ repeat 0 (S i - length (words b)); spare := repeat 0 (S i) |}
  else b.

(* Set(id, val): val = true marks (Required / Default requiredness), false clears (Optional) *)
Definition bm_set (b : bm) (id : Z) (val : bool) : bm :=
  let b' := bm_grow b (word_idx id) in
  {| words := upd_nth (word_idx id) (fun w => if val then Z.setbit w (bit_idx id) else Z.clearbit w (bit_idx id)) (words b');
     spare := spare b' |}.

(* IsSet (the Go method panics beyond len; every caller stays inside, the model answers false there) *)
Definition bm_is_set (b : bm) (id : Z) : bool :=
  match nth_error (words b) (word_idx id) with Some w => Z.testbit w (bit_idx id) | None => false end.

(* CopyTo(src -> pooled slice with backing array [pool]): reuse the array when it is large enough (overwriting its
   first len(src) words), allocate otherwise *)
Definition overwrite (src pool : list Z) : list Z := src ++ skipn (length src) pool.
Definition bm_copy_to (src pool : list Z) : bm :=
  if (length pool <? length src)%nat then {| words := src; spare := [] |}
  else {| words := firstn (length src) (overwrite src pool); spare := skipn (length src) (overwrite src pool) |}.

(* ids of the set bits in scan order (word by word, bit 0 first) - the loop of HandleRequires / CheckRequires *)
Fixpoint seqZ_from (base : Z) (n : nat) : list Z := match n with O => [] | S n' => base :: seqZ_from (base + 1) n' end.
Fixpoint scan_words (ws : list Z) (base : Z) : list Z :=
  match ws with
  | [] => []
  | w :: r => map (fun j => base + j) (filter (fun j => Z.testbit w j) (seqZ_from 0 64)) ++ scan_words r (base + 64)
  end.
Definition bm_scan (b : bm) : list Z := scan_words (words b) 0.

(* ---------------- descriptors and options ---------------- *)
(* requiredness: 0 default, 1 required, 2 optional *)
Record fld := { f_id : Z; f_req : Z; f_hasdef : bool }.     (* f_hasdef: the IDL declares a default value *)
Record popts := { p_opt_bitmap : bool; p_use_default : bool }.                          (* parse options *)
Record wopts := { w_require : bool; w_default : bool; w_optional : bool; w_disallow_unknown : bool }.

(* thrift/idl.go convertRequireness: which requiredness value is Set in the descriptor's bitmap = is the bit marked *)
Definition tracked (p : popts) (f : fld) : bool := negb (f_req f =? 2) || p_opt_bitmap p.
Definition parsed_default (p : popts) (f : fld) : bool := p_use_default p && f_hasdef f.

(* the descriptor's bitmap: make(RequiresBitmap, len(fields)) then Set per field *)
Definition desc_bitmap (p : popts) (fs : list fld) : bm :=
  fold_left (fun b f => bm_set b (f_id f) (tracked p f)) fs {| words := repeat 0 (length fs); spare := [] |}.

(* what is done for a field that is still marked at the end of the struct *)
Inductive action := ASkip | AWriteDefault | AWriteZero | AMissing.

Definition write_action (p : popts) (f : fld) : action := if parsed_default p f then AWriteDefault else AWriteZero.

(* THE RULE as the property states it (and as Go's HandleRequires implements it) for a tracked absent field *)
Definition rule (p : popts) (w : wopts) (f : fld) : action :=
  if negb (tracked p f) then ASkip
  else if f_req f =? 1 then (if w_require w then write_action p f else AMissing)
  else if f_req f =? 0 then (if w_default w then write_action p f else ASkip)
  else (if w_optional w || parsed_default p f then write_action p f else ASkip).

(* thrift/utils.go HandleRequires, decision for a marked bit (mirror of the two conditions) *)
Definition handle_requires_decision (p : popts) (w : wopts) (f : fld) : action :=
  if (f_req f =? 1) && negb (w_require w) then AMissing
  else if ((f_req f =? 0) && negb (w_default w)) || ((f_req f =? 2) && negb (w_optional w) && negb (parsed_default p f)) then ASkip
  else write_action p f.

(* native/thrift.c j2t_write_unset_fields, decision for a marked bit *)
Definition native_decision (p : popts) (w : wopts) (f : fld) : action :=
  if negb (w_require w) && (f_req f =? 1) then AMissing
  else if (w_require w && (f_req f =? 1)) || (w_default w && (f_req f =? 0)) || (w_optional w && (f_req f =? 2)) then write_action p f
  else ASkip.

(* thrift/utils.go CheckRequires as used by cutting (handleUnsets writes WriteEmpty: always the zero value) *)
Definition check_requires_decision (write_default : bool) (f : fld) : action :=
  if f_req f =? 1 then AMissing else if negb write_default then ASkip else AWriteZero.

Definition find_fld16 (id : Z) (fs : list fld) : option fld := find (fun f => f_id f =? id) fs.

(* the loop over the marked bits: first missing-required aborts; result = ids written with their action, in scan order.
   HNil: a marked bit without a field (Go dereferences nil; cannot happen, see bitmap_refines_set) *)
Inductive hres := HOk (l : list (Z * action)) | HMissing | HNil.
Fixpoint handle_ids (decide : fld -> action) (fs : list fld) (ids : list Z) : hres :=
  match ids with
  | [] => HOk []
  | id :: r =>
    match find_fld16 id fs with
    | None => HNil
    | Some f =>
      match decide f with
      | AMissing => HMissing
      | ASkip => handle_ids decide fs r
      | a => match handle_ids decide fs r with HOk l => HOk ((id, a) :: l) | e => e end
      end
    end
  end.

(* one struct instance end to end: descriptor bitmap -> CopyTo a pooled (dirty) slice -> clear the bit of every field
   seen in the input -> scan *)
Definition run_struct (decide : fld -> action) (p : popts) (fs : list fld) (present : list Z) (pool : list Z) : hres :=
  let b0 := bm_copy_to (words (desc_bitmap p fs)) pool in
  let b1 := fold_left (fun b id => bm_set b id false) present b0 in
  handle_ids decide fs (bm_scan b1).
