(* Cutting of Protobuf messages (proto/generic Value.MarshalTo): projection by field number.
     wire_fields  generic one-level wire decoder (tag, wire type, raw (L)V bytes)
     pproject     spec: the wire tree of the source restricted to the numbers declared by both schemas, recursively
     pbcut        algorithm level: mirrors marshalTo on bytes (ConsumeTag / Skip / ReadLength / speculative length),
                  with the switch [quirk] = the unrepaired code that ignores the error of the recursive call.
   Model only - proofs in proofs/ProtoCutProofs.v. *)
From Coq Require Import ZArith List Bool.
From DG Require Import ProtoWireRef CaseFormat ThriftCut.
Import ListNotations.
Local Open Scope Z_scope.

(* schema table: message = list of (number, kind, sub); kind = protobuf descriptor kind number (11 = message);
   sub = index of the message a MessageKind field descends into (message field: that message; repeated message: the
   element message; map: the synthesized entry message {1: key, 2: value}), -1 for scalar kinds *)
Definition pfield : Type := Z * Z * Z.
Definition pdefs : Type := list (list pfield).
Definition K_MESSAGE := 11.
Definition pf_num (f : pfield) : Z := fst (fst f).
Definition pf_kind (f : pfield) : Z := snd (fst f).
Definition pf_sub (f : pfield) : Z := snd f.
Definition pmsg_def (d : pdefs) (i : Z) : option (list pfield) := if i <? 0 then None else nth_error d (Z.to_nat i).
Definition pfind (num : Z) (fs : list pfield) : option pfield := find (fun f => pf_num f =? num) fs.

(* ---- generic wire level ---- *)
Inductive wfield := WF (num wt : Z) (raw : list Z).     (* raw = the bytes of the (L)V part that follow the tag *)

Definition take_n (n : Z) (bs : list Z) : option (list Z * list Z) :=
  if (n <? 0) || (n >? Z.of_nat (length bs)) then None else Some (firstn (Z.to_nat n) bs, skipn (Z.to_nat n) bs).

(* the (L)V part for a wire type: (raw bytes, rest) *)
Definition wire_value (wt : Z) (bs : list Z) : option (list Z * list Z) :=
  if wt =? 0 then let '(_, n) := varint_dec bs in if n <? 0 then None else take_n n bs
  else if wt =? 1 then take_n 8 bs
  else if wt =? 5 then take_n 4 bs
  else if wt =? 2 then let '(len, n) := varint_dec bs in if n <? 0 then None else take_n (n + len) bs
  else None.

Fixpoint wire_fields (fuel : nat) (bs : list Z) : option (list wfield) :=
  match fuel with
  | O => None
  | S f =>
    match bs with
    | [] => Some []
    | _ =>
      let '(v, n) := varint_dec bs in
      if n <? 0 then None else
      let num := v / 8 in let wt := v mod 8 in
      if (num <? 1) || (num >? 2147483647) then None else
      match wire_value wt (skipn (Z.to_nat n) bs) with
      | None => None
      | Some (raw, rest) => match wire_fields f rest with Some l => Some (WF num wt raw :: l) | None => None end
      end
    end
  end.

(* payload of a length-delimited raw value *)
Definition payload (raw : list Z) : list Z := let '(_, n) := varint_dec raw in skipn (Z.to_nat n) raw.

(* ---- spec: projection of the wire tree ---- *)
Inductive wtree := TLeaf (num wt : Z) (raw : list Z) | TMsg (num wt : Z) (kids : list wtree).

Section PProj.
  Variable d : pdefs.
  Variable disallow : bool.
  Section Step.
    Variable rec : Z -> Z -> list Z -> cres (list wtree).    (* sub-message: from index, to index, payload bytes *)
    Fixpoint pproj_fields (ffs tfs : list pfield) (fs : list wfield) : cres (list wtree) :=
      match fs with
      | [] => COk []
      | WF num wt raw :: r =>
        match pfind num ffs with
        | None => if disallow then CErr 1 else pproj_fields ffs tfs r
        | Some ff =>
          match pfind num tfs with
          | None => pproj_fields ffs tfs r
          | Some tf =>
            if negb (pf_kind ff =? pf_kind tf) then CErr 2 else
            if pf_kind ff =? K_MESSAGE then
              if negb (wt =? 2) then CErr 4 else
              match rec (pf_sub ff) (pf_sub tf) (payload raw) with
              | CErr c => CErr c
              | COk kids => match pproj_fields ffs tfs r with COk l => COk (TMsg num wt kids :: l) | CErr c => CErr c end
              end
            else match pproj_fields ffs tfs r with COk l => COk (TLeaf num wt raw :: l) | CErr c => CErr c end
          end
        end
      end.
  End Step.

  Fixpoint pproject (fuel : nat) (fi ti : Z) (bs : list Z) {struct fuel} : cres (list wtree) :=
    match fuel with
    | O => CErr 4
    | S f =>
      match pmsg_def d fi, pmsg_def d ti, wire_fields (S (length bs)) bs with
      | Some ffs, Some tfs, Some fs => pproj_fields (pproject f) ffs tfs fs
      | _, _, _ => CErr 4
      end
    end.
End PProj.

Fixpoint enc_tree (t : wtree) : list Z :=
  match t with
  | TLeaf num wt raw => varint_enc (num * 8 + wt) ++ raw
  | TMsg num wt kids =>
    let p := (fix go (l : list wtree) : list Z := match l with [] => [] | k :: r => enc_tree k ++ go r end) kids in
    varint_enc (num * 8 + wt) ++ varint_enc (Z.of_nat (length p)) ++ p
  end.
Definition enc_forest (l : list wtree) : list Z := flat_map enc_tree l.

(* the tree of an output, read along the target schema (message-kind fields are opened recursively) *)
Section ToTree.
  Variable d : pdefs.
  Fixpoint to_tree (fuel : nat) (ti : Z) (bs : list Z) {struct fuel} : option (list wtree) :=
    match fuel with
    | O => None
    | S f =>
      match pmsg_def d ti, wire_fields (S (length bs)) bs with
      | Some tfs, Some fs =>
        (fix go (fs : list wfield) : option (list wtree) :=
           match fs with
           | [] => Some []
           | WF num wt raw :: r =>
             match go r with
             | None => None
             | Some l =>
               match pfind num tfs with
               | Some tf =>
                 if (pf_kind tf =? K_MESSAGE) && (wt =? 2) then
                   match to_tree f (pf_sub tf) (payload raw) with
                   | Some kids => Some (TMsg num wt kids :: l)
                   | None => None
                   end
                 else Some (TLeaf num wt raw :: l)
               | None => Some (TLeaf num wt raw :: l)
               end
             end
           end) fs
      | _, _ => None
      end
    end.
End ToTree.

(* ---- sequential spec: the projection with the order in which errors surface, on FRAMES ----
   A frame is the byte string of one message. [inc] = the frame is incomplete: its declared length exceeded the bytes that
   were left (truncated input), so reaching its end is an error. [be] = "beyond empty": nothing follows the frame in the
   whole buffer. Result codes: 1 unknown field (disallowed), 2 kind mismatch of the two descriptors, 4 malformed /
   truncated input, 5 = the input is OUTSIDE THE DOMAIN the refinement theorem speaks about:
     - group / reserved wire types 3, 4, 6, 7 (Skip does nothing for them),
     - a message-kind field that does not arrive length-delimited (the code reads the next varint as a length),
     - a length >= 2^63 (int(len) is negative: the code writes an empty sub message and goes on),
     - a record or sub message that overruns its frame while other bytes follow the frame in the buffer (the code
       checks bounds against the whole buffer only and reads across the frame end).
   Everything else - in particular every truncation of a well-framed message - is inside. *)
Inductive wtag := TgEnd | TgBad | TgOut | TgOk (num wt : Z) (rest : list Z).
Definition wire_tag (bs : list Z) : wtag :=
  match bs with
  | [] => TgEnd
  | _ =>
    let '(v, n) := varint_dec bs in
    if n <? 0 then TgBad
    else if (v / 8 <? 1) || (v / 8 >? 2147483647) then TgBad
    else let wt := v mod 8 in
         if (wt =? 3) || (wt =? 4) || (wt =? 6) || (wt =? 7) then TgOut
         else TgOk (v / 8) wt (skipn (Z.to_nat n) bs)
  end.

Section PSpec.
  Variable d : pdefs.
  Variable disallow : bool.
  Section Step.
    Variable rec : Z -> Z -> list Z -> bool -> bool -> cres (list wtree).   (* from, to, frame, inc, be *)
    Fixpoint pspec_loop (fuel : nat) (ffs tfs : list pfield) (bs : list Z) (inc be : bool) : cres (list wtree) :=
      match fuel with
      | O => CErr 5
      | S f =>
        let bad : cres (list wtree) := if be then CErr 4 else CErr 5 in
        match wire_tag bs with
        | TgEnd => if inc then CErr 4 else COk []
        | TgBad => bad
        | TgOut => CErr 5
        | TgOk num wt r =>
          let skipv (u : unit) : cres (list wtree) :=
            match wire_value wt r with
            | Some (_, rest) => pspec_loop f ffs tfs rest inc be
            | None => bad
            end in
          match pfind num ffs with
          | None => if disallow then CErr 1 else skipv tt
          | Some ff =>
            match pfind num tfs with
            | None => skipv tt
            | Some tf =>
              if negb (pf_kind ff =? pf_kind tf) then CErr 2 else
              if pf_kind ff =? K_MESSAGE then
                if negb (wt =? 2) then CErr 5 else
                let '(len, n) := varint_dec r in
                if n <? 0 then bad else
                if len >=? 2 ^ 63 then CErr 5 else
                let r2 := skipn (Z.to_nat n) r in
                if len <=? Z.of_nat (length r2) then
                  let after := skipn (Z.to_nat len) r2 in
                  match rec (pf_sub ff) (pf_sub tf) (firstn (Z.to_nat len) r2) false (be && match after with [] => true | _ => false end) with
                  | CErr c => CErr c
                  | COk kids => match pspec_loop f ffs tfs after inc be with COk l => COk (TMsg num wt kids :: l) | CErr c => CErr c end
                  end
                else if be then
                  match rec (pf_sub ff) (pf_sub tf) r2 true true with
                  | CErr c => CErr c
                  | COk _ => CErr 4          (* cannot happen: an incomplete frame never succeeds *)
                  end
                else CErr 5
              else
                match wire_value wt r with
                | Some (raw, rest) => match pspec_loop f ffs tfs rest inc be with COk l => COk (TLeaf num wt raw :: l) | CErr c => CErr c end
                | None => bad
                end
            end
          end
        end
      end.
  End Step.

  Fixpoint pspec (fuel : nat) (fi ti : Z) (bs : list Z) (inc be : bool) {struct fuel} : cres (list wtree) :=
    match fuel with
    | O => CErr 5
    | S f =>
      match pmsg_def d fi, pmsg_def d ti with
      | Some ffs, Some tfs => pspec_loop (pspec f) (S (length bs)) ffs tfs bs inc be
      | _, _ => CErr 5
      end
    end.
End PSpec.

(* ---- algorithm level: marshalTo on bytes ---- *)
(* ConsumeTag: None = its error (invalid varint, field number < 1 or > MaxInt32), which marshalTo returns as a read error *)
Definition ptag (bs : list Z) : option (Z * Z * list Z) :=
  let '(v, n) := varint_dec bs in
  if n <? 0 then None
  else if v / 8 >? 2147483647 then None
  else if v / 8 <? 1 then None
  else Some (v / 8, v mod 8, skipn (Z.to_nat n) bs).

(* BinaryProtocol.Skip (SkipBytesType compares the length with what is left before converting it); wire types 3, 4, 6, 7: nothing *)
Inductive skipres := SkOk (rest : list Z) | SkErr.
Definition pskip (wt : Z) (bs : list Z) : skipres :=
  if wt =? 0 then let '(_, n) := varint_dec bs in if n <? 0 then SkErr else SkOk (skipn (Z.to_nat n) bs)
  else if wt =? 5 then match take_n 4 bs with Some (_, r) => SkOk r | None => SkErr end
  else if wt =? 1 then match take_n 8 bs with Some (_, r) => SkOk r | None => SkErr end
  else if wt =? 2 then
    let '(len, n) := varint_dec bs in
    if n <? 0 then SkErr else
    if len >? Z.of_nat (length bs) - n then SkErr else
    match take_n (len + n) bs with Some (_, r) => SkOk r | None => SkErr end
  else SkOk bs.

(* result of the walker: error class (0 = nil), remaining input, output so far *)
Definition pres : Type := Z * list Z * list Z.

Section PBCut.
  Variable d : pdefs.
  Variable disallow : bool.
  Variable quirk : bool.       (* true: the error of the recursive marshalTo call is ignored (finding 1102, repaired) *)

  Section Loop.
    Variable rec : Z -> Z -> list Z -> Z -> pres.     (* from, to, input, stop (remaining length at the tail) *)
    (* for read.Read < tail: stop = number of input bytes that remain when the tail is reached (may be negative) *)
    Fixpoint pb_loop (fuel : nat) (ffs tfs : list pfield) (bs : list Z) (stop : Z) (out : list Z) : pres :=
      match fuel with
      | O => (4, bs, out)
      | S f =>
        if Z.of_nat (length bs) <=? stop then (0, bs, out) else
        match ptag bs with
        | None => (4, bs, out)
        | Some (num, wt, r) =>
          let skip_on (u : unit) : pres :=     (* a function: the extracted code must not evaluate it eagerly *)
            match pskip wt r with
            | SkOk r' => pb_loop f ffs tfs r' stop out
            | SkErr => (4, r, out)
            end in
          match pfind num ffs with
          | None => if disallow then (1, r, out) else skip_on tt
          | Some ff =>
            match pfind num tfs with
            | None => skip_on tt
            | Some tf =>
              if negb (pf_kind ff =? pf_kind tf) then (2, r, out) else
              if pf_kind ff =? K_MESSAGE then
                let out1 := out ++ varint_enc (num * 8 + wt mod 8) in
                let '(len, n) := varint_dec r in
                if n <? 0 then (4, r, out1) else
                let r2 := skipn (Z.to_nat n) r in
                let '(c, r3, o2) := rec (pf_sub ff) (pf_sub tf) r2 (Z.of_nat (length r2) - to_s 64 len) in
                let out2 := out1 ++ varint_enc (Z.of_nat (length o2)) ++ o2 in
                if negb (c =? 0) && negb quirk then (c, r3, out2)
                else pb_loop f ffs tfs r3 stop out2
              else
                match pskip wt r with
                | SkOk r' => pb_loop f ffs tfs r' stop (out ++ varint_enc (num * 8 + wt mod 8) ++ firstn (length r - length r') r)
                | SkErr => (4, r, out)
                end
            end
          end
        end
      end.
  End Loop.

  Fixpoint pbcut (fuel : nat) (fi ti : Z) (bs : list Z) (stop : Z) {struct fuel} : pres :=
    match fuel with
    | O => (4, bs, [])
    | S f =>
      match pmsg_def d fi, pmsg_def d ti with
      | Some ffs, Some tfs => pb_loop (pbcut f) (S (length bs)) ffs tfs bs stop []
      | _, _ => (4, bs, [])
      end
    end.
End PBCut.
