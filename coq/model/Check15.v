(* Correspondence checks for C15 (Protobuf descriptors mirror the schema).

   Case payload of 1501/1502/1503 (see harness/c15.go):
     SCHEMA  nfiles { path pkg nimports {path} ndecls { kind full [nfields {num name jsonflag json label packopt keykind kind ref}] }
                      nsvcs { name nmethods { name in out cs ss } } }
     MODE    ParseServiceMode (0 last, 1 first, 2 combine)
     TRIAGE  nrefs { fileidx scope ref fqn kind }      what jhump/protoreflect's linker resolved (model-vs-reference triage)
     TRIAGE2 n { msg num json kind list map packed }   field attributes as protobuf-go's protodesc reports them (triage)
     IMPL    err svcname pkg nmethods { name cs ss innode outnode lookupok } nmprobes { key found }
             nnodes { nfields { probe num name json kind ty islist ismap packed keyty elemty tmsg emsg }
                      nnumprobes { n res } nkeyprobes { key resByName resByJSONName } }
   The model parses the schema itself, elaborates it with [pelab] and walks the implementation's
   pointer graph (node = *MessageDescriptor) against the specification table keyed by FULL name. *)
From Coq Require Import ZArith List Bool.
From DG Require Import CaseFormat PIdl.
Import ListNotations.
Local Open Scope Z_scope.

(* ------------------------------------------------------------------------------------------------ *)
(* token parsers *)
Definition P (A : Type) := list field -> option (A * list field).
Definition pz : P Z := fun fs => match fs with FZ z :: r => Some (z, r) | _ => None end.
Definition pb : P bytes := fun fs => match fs with FB b :: r => Some (b, r) | _ => None end.
Definition pbool : P bool := fun fs => match fs with FZ z :: r => Some (negb (z =? 0), r) | _ => None end.
Definition bind {A B} (p : P A) (k : A -> P B) : P B :=
  fun fs => match p fs with Some (a, r) => k a r | None => None end.
Definition ret {A} (a : A) : P A := fun fs => Some (a, fs).
Notation "x <- p ;; k" := (bind p (fun x => k)) (at level 61, p at next level, right associativity).

Fixpoint prep {A} (p : P A) (n : nat) : P (list A) :=
  match n with
  | O => ret []
  | S n' => x <- p ;; xs <- prep p n' ;; ret (x :: xs)
  end.
Definition pmany {A} (p : P A) : P (list A) :=
  n <- pz ;; if (n <? 0) || (100000 <? n) then (fun _ => None) else prep p (Z.to_nat n).

Definition p_fdecl : P fdecl :=
  num <- pz ;; name <- pb ;; jf <- pz ;; js <- pb ;; lab <- pz ;; po <- pz ;; kk <- pz ;; kd <- pz ;; rf <- pb ;;
  ret {| fd_num := num; fd_name := name; fd_json := if jf =? 0 then None else Some js; fd_label := lab;
         fd_packopt := po; fd_keykind := kk; fd_kind := kd; fd_ref := rf |}.

Definition p_decl : P decl :=
  k <- pz ;; full <- pb ;;
  if k =? 0 then (fds <- pmany p_fdecl ;; ret (DMsg (split_dots full) fds)) else ret (DEnum (split_dots full)).

Definition p_method : P mdecl :=
  n <- pb ;; i <- pb ;; o <- pb ;; cs <- pbool ;; ss <- pbool ;;
  ret {| md_name := n; md_in := i; md_out := o; md_cs := cs; md_ss := ss |}.

Definition p_svc : P sdecl := n <- pb ;; ms <- pmany p_method ;; ret {| sd_name := n; sd_methods := ms |}.

Definition p_file : P pfile :=
  path <- pb ;; pkg <- pb ;; imps <- pmany pb ;; ds <- pmany p_decl ;; svs <- pmany p_svc ;;
  ret {| pf_path := path; pf_pkg := split_dots pkg; pf_imports := imps; pf_decls := ds; pf_svcs := svs |}.

Record triage := { tr_file : Z; tr_scope : bytes; tr_ref : bytes; tr_fqn : bytes; tr_kind : Z }.
Definition p_triage : P triage :=
  f <- pz ;; sc <- pb ;; rf <- pb ;; fq <- pb ;; k <- pz ;;
  ret {| tr_file := f; tr_scope := sc; tr_ref := rf; tr_fqn := fq; tr_kind := k |}.

(* attributes of a declared field as protobuf-go (protodesc) reports them *)
Record triage2 := { t2_msg : bytes; t2_num : Z; t2_json : bytes; t2_kind : Z; t2_list : bool; t2_map : bool; t2_packed : bool }.
Definition p_triage2 : P triage2 :=
  m <- pb ;; n <- pz ;; j <- pb ;; k <- pz ;; l <- pbool ;; mp <- pbool ;; pk <- pbool ;;
  ret {| t2_msg := m; t2_num := n; t2_json := j; t2_kind := k; t2_list := l; t2_map := mp; t2_packed := pk |}.

Record imethod := { im_name : bytes; im_cs : bool; im_ss : bool; im_in : Z; im_out : Z; im_lookup : Z }.
Definition p_imethod : P imethod :=
  n <- pb ;; cs <- pbool ;; ss <- pbool ;; i <- pz ;; o <- pz ;; l <- pz ;;
  ret {| im_name := n; im_cs := cs; im_ss := ss; im_in := i; im_out := o; im_lookup := l |}.

Record ifield := {
  if_probe : Z; if_num : Z; if_name : bytes; if_json : bytes; if_kind : Z; if_ty : Z;
  if_list : bool; if_map : bool; if_packed : bool; if_keyty : Z; if_elemty : Z; if_tmsg : Z; if_emsg : Z }.
Definition p_ifield : P ifield :=
  pr <- pz ;; num <- pz ;; name <- pb ;; js <- pb ;; kd <- pz ;; ty <- pz ;; il <- pbool ;; im <- pbool ;; pk <- pbool ;;
  kt <- pz ;; et <- pz ;; tm <- pz ;; em <- pz ;;
  ret {| if_probe := pr; if_num := num; if_name := name; if_json := js; if_kind := kd; if_ty := ty; if_list := il;
         if_map := im; if_packed := pk; if_keyty := kt; if_elemty := et; if_tmsg := tm; if_emsg := em |}.

Record inode := { in_fields : list ifield; in_nums : list (Z * Z); in_keys : list (bytes * Z * Z) }.
Definition p_inode : P inode :=
  fs <- pmany p_ifield ;;
  ns <- pmany (n <- pz ;; r <- pz ;; ret (n, r)) ;;
  ks <- pmany (k <- pb ;; a <- pz ;; b <- pz ;; ret (k, a, b)) ;;
  ret {| in_fields := fs; in_nums := ns; in_keys := ks |}.

Record idump := {
  id_err : Z; id_svc : bytes; id_pkg : bytes; id_methods : list imethod; id_mprobes : list (bytes * Z); id_nodes : list inode }.
Definition p_idump : P idump :=
  e <- pz ;; sv <- pb ;; pk <- pb ;; ms <- pmany p_imethod ;; mp <- pmany (k <- pb ;; f <- pz ;; ret (k, f)) ;; ns <- pmany p_inode ;;
  ret {| id_err := e; id_svc := sv; id_pkg := pk; id_methods := ms; id_mprobes := mp; id_nodes := ns |}.

Record c15case := { cc_schema : schema; cc_mode : Z; cc_triage : list triage; cc_triage2 : list triage2; cc_impl : idump }.
Definition p_case : P c15case :=
  s <- pmany p_file ;; m <- pz ;; t <- pmany p_triage ;; t2 <- pmany p_triage2 ;; i <- p_idump ;;
  ret {| cc_schema := s; cc_mode := m; cc_triage := t; cc_triage2 := t2; cc_impl := i |}.

(* ------------------------------------------------------------------------------------------------ *)
(* validity of the generated schema (a case the model does not accept is skipped, never judged) *)

Fixpoint nodupb {A} (eqb : A -> A -> bool) (l : list A) : bool :=
  match l with
  | [] => true
  | x :: r => negb (existsb (eqb x) r) && nodupb eqb r
  end.

Definition all_syms (s : schema) : list qname := map fst (flat_map (fun f => flat_map decl_syms (pf_decls f)) s).

Definition field_keys_ok (fds : list fdecl) : bool :=
  (* no key (name or JSON name) of one field equals a key of another field *)
  let ks := map (fun fd => (fd_name fd, json_of fd)) fds in
  (fix go (l : list (bytes * bytes)) : bool :=
     match l with
     | [] => true
     | (n, j) :: r =>
       negb (existsb (fun p => bytes_eqb (fst p) n || bytes_eqb (fst p) j || bytes_eqb (snd p) n || bytes_eqb (snd p) j) r) && go r
     end) ks.

Definition fdecl_ok (tab : symtab) (m : qname) (fd : fdecl) : bool :=
  (1 <=? fd_num fd) && (fd_num fd <=? 1048576) && (0 <=? fd_label fd) && (fd_label fd <=? 2) &&
  (if fd_kind fd =? 0 then match resolve tab m (fd_ref fd) with Some _ => true | None => false end
   else packable (fd_kind fd) || (fd_kind fd =? 9) || (fd_kind fd =? 12)) &&
  (if fd_label fd =? 2 then
     (* map: legal key kinds; a map value is not repeated / packed *)
     existsb (Z.eqb (fd_keykind fd)) [3;4;5;6;7;8;9;13;15;16;17;18] && (fd_packopt fd =? 0)
   else true) &&
  (if fd_packopt fd =? 0 then true else (fd_label fd =? 1) && packable (fst (elem_of tab m fd))).

Definition decl_ok (tab : symtab) (d : decl) : bool :=
  match d with
  | DMsg m fds => nodupb Z.eqb (map fd_num fds) && field_keys_ok fds && forallb (fdecl_ok tab m) fds
  | DEnum _ => true
  end.

Definition method_ok (tab : symtab) (pkg : qname) (m : mdecl) : bool :=
  match resolve_msg tab pkg (md_in m), resolve_msg tab pkg (md_out m) with Some _, Some _ => true | _, _ => false end.

Definition schema_ok (mode : Z) (s : schema) : bool :=
  match s with
  | [] => false
  | f :: _ =>
    nodupb qname_eqb (all_syms s) &&
    nodupb bytes_eqb (map pf_path s) &&
    forallb (fun g => forallb (decl_ok (symtab_of s g)) (pf_decls g)) s &&
    negb (match pf_svcs f with [] => true | _ => false end) &&
    forallb (fun sv => forallb (method_ok (symtab_of s f) (pf_pkg f)) (sd_methods sv)) (pf_svcs f) &&
    nodupb bytes_eqb (map md_name (flat_map sd_methods (select_svcs mode (pf_svcs f))))
  end.

(* ------------------------------------------------------------------------------------------------ *)
(* comparison of one implementation node with the model's field list *)

Inductive wres := WOk | WFail (code : Z) (detail : list field).

Definition opt_nil {R} (o : option R) (i : Z) : bool :=
  match o with None => i =? -1 | Some _ => 0 <=? i end.

Section Walk.
  Variable R : Type.
  Variable reqb : R -> R -> bool.
  Variable mlook : R -> option (list (mfield R)).
  Variable inodes : list inode.
  Variable pq : bool.       (* packedness as the implementation computes it (from the element type only) *)
  Variable what : Z.        (* 1 fields + identity, 2 + number probes, 3 + key probes *)

  Definition exp_packed (mf : mfield R) : bool :=
    if pq then mf_list mf && packable (mf_elemty mf) else mf_packed mf.

  Definition field_match (f : ifield) (mf : mfield R) : bool :=
    (if_num f =? mf_num mf) && bytes_eqb (if_name f) (mf_name mf) && bytes_eqb (if_json f) (mf_json mf) &&
    (if_kind f =? mf_kind mf) && (if_ty f =? mf_ty mf) && Bool.eqb (if_list f) (mf_list mf) && Bool.eqb (if_map f) (mf_map mf) &&
    Bool.eqb (if_packed f) (exp_packed mf) && (if_keyty f =? mf_keyty mf) && (if_elemty f =? mf_elemty mf) &&
    opt_nil (mf_tmsg mf) (if_tmsg f) && opt_nil (mf_emsg mf) (if_emsg f).

  Definition pairs_of (f : ifield) (mf : mfield R) : list (Z * R) :=
    (match mf_tmsg mf with Some r => [(if_tmsg f, r)] | None => [] end) ++
    (match mf_emsg mf with Some r => [(if_emsg f, r)] | None => [] end).

  Fixpoint check_fields (prev : Z) (fs : list ifield) (mfs : list (mfield R)) (acc : list (Z * R)) : wres + list (Z * R) :=
    match fs with
    | [] => inr acc
    | f :: r =>
      if if_probe f <=? prev then inl (WFail 14 [FZ (if_probe f)]) else
      match by_number_spec mfs (if_probe f) with
      | LRes (Some mf) =>
        if field_match f mf then check_fields (if_probe f) r mfs (pairs_of f mf ++ acc)
        else inl (WFail 10 [FZ (if_probe f); FZ (mf_num mf); FB (mf_name mf); FB (mf_json mf); FZ (mf_kind mf); FZ (mf_ty mf);
                            FZ (if exp_packed mf then 1 else 0); FZ (mf_keyty mf); FZ (mf_elemty mf)])
      | _ => inl (WFail 11 [FZ (if_probe f)])
      end
    end.

  Definition num_probe_ok (mfs : list (mfield R)) (p : Z * Z) : bool :=
    let '(n, res) := p in
    match by_number_spec mfs n with
    | LRes (Some mf) => res =? mf_num mf
    | LRes None => res =? -1
    | LPanic => true            (* negative numbers are judged by check 1505 *)
    end.

  Definition key_probe_ok (mfs : list (mfield R)) (p : bytes * Z * Z) : bool :=
    let '(k, rn, rj) := p in
    let e := match by_key_spec mfs k with Some mf => mf_num mf | None => -1 end in
    (rn =? e) && (rj =? e).

  Definition check_node (nd : inode) (mfs : list (mfield R)) : wres + list (Z * R) :=
    if negb (Z.of_nat (length (in_fields nd)) =? Z.of_nat (length mfs)) then inl (WFail 12 [FZ (Z.of_nat (length mfs))]) else
    match check_fields (-1) (in_fields nd) mfs [] with
    | inl e => inl e
    | inr ps =>
      if (what =? 2) && negb (forallb (num_probe_ok mfs) (in_nums nd)) then
        inl (WFail 20 (map (fun p => FZ (fst p)) (filter (fun p => negb (num_probe_ok mfs p)) (in_nums nd))))
      else if (what =? 3) && negb (forallb (key_probe_ok mfs) (in_keys nd)) then
        inl (WFail 30 (map (fun p => FB (fst (fst p))) (filter (fun p => negb (key_probe_ok mfs p)) (in_keys nd))))
      else inr ps
    end.

  Definition seen_mem (p : Z * R) (seen : list (Z * R)) : bool :=
    existsb (fun q => (fst q =? fst p) && reqb (snd q) (snd p)) seen.

  (* one iteration of the worklist: Some result when finished *)
  Definition wstep (st : list (Z * R) * list (Z * R)) : (list (Z * R) * list (Z * R)) + wres :=
    let '(work, seen) := st in
    match work with
    | [] => inr WOk
    | (i, r) :: w =>
      if seen_mem (i, r) seen then inl (w, seen) else
      if i <? 0 then inr (WFail 13 [FZ i]) else
      match nth_error inodes (Z.to_nat i), mlook r with
      | Some nd, Some mfs =>
        match check_node nd mfs with
        | inl e => inr e
        | inr ps => inl (ps ++ w, (i, r) :: seen)
        end
      | _, _ => inr (WFail 901 [FZ i])
      end
    end.

  (* up to 2^n iterations (every pair (node, model node) enters [seen] at most once, so the walk ends) *)
  Fixpoint witer (n : nat) (st : list (Z * R) * list (Z * R)) : (list (Z * R) * list (Z * R)) + wres :=
    match n with
    | O => wstep st
    | S n' => match witer n' st with inl st' => witer n' st' | inr r => inr r end
    end.

  Definition walk (work : list (Z * R)) : wres :=
    match witer 48 (work, []) with inr r => r | inl _ => WFail 900 [] end.
End Walk.

(* ------------------------------------------------------------------------------------------------ *)
(* service level *)

Definition opt_qname_eqb (a : option qname) (b : bytes) : bool :=
  match a with Some q => bytes_eqb (join_dots q) b | None => false end.

Definition check_methods (d : pdesc) (im : idump) : wres :=
  if negb (bytes_eqb (id_svc im) (pd_svc d)) then WFail 40 [FB (pd_svc d)] else
  if negb (bytes_eqb (id_pkg im) (join_dots (pd_pkg d))) then WFail 41 [FB (join_dots (pd_pkg d))] else
  if negb (Z.of_nat (length (id_methods im)) =? Z.of_nat (length (pd_methods d))) then WFail 42 [FZ (Z.of_nat (length (pd_methods d)))] else
  if negb (nodupb bytes_eqb (map im_name (id_methods im))) then WFail 43 [] else
  match filter (fun m => negb match method_by_name d (im_name m) with
                               | Some pm => Bool.eqb (im_cs m) (pm_cs pm) && Bool.eqb (im_ss m) (pm_ss pm) && (im_lookup m =? 1)
                                            && (0 <=? im_in m) && (0 <=? im_out m)
                               | None => false end) (id_methods im) with
  | m :: _ => WFail 44 [FB (im_name m)]
  | [] =>
    match filter (fun p => negb (Bool.eqb (negb (snd p =? 0)) match method_by_name d (fst p) with Some _ => true | None => false end)) (id_mprobes im) with
    | p :: _ => WFail 45 [FB (fst p)]
    | [] => WOk
    end
  end.

(* ------------------------------------------------------------------------------------------------ *)
(* the two model graphs *)

Definition spec_roots (d : pdesc) (im : idump) : list (Z * qname) :=
  flat_map (fun m => match method_by_name d (im_name m) with
                     | Some pm => (match pm_in pm with Some q => [(im_in m, q)] | None => [] end) ++
                                  (match pm_out pm with Some q => [(im_out m, q)] | None => [] end)
                     | None => [] end) (id_methods im).

Definition run_spec (what : Z) (pq : bool) (d : pdesc) (im : idump) : wres :=
  let roots := spec_roots d im in
  walk qname qname_eqb (lookup_msg (pd_msgs d)) (id_nodes im) pq what roots.

(* graph built by the memoising traversal of idl.go with memo key [keyf] *)
Definition run_memo (keyf : qname -> bytes) (what : Z) (pq : bool) (d : pdesc) (im : idump) : wres :=
  let '(ms, st) := qmethods keyf (pd_msgs d) (S (length (pd_msgs d))) (pd_methods d) in
  let nodes := q_nodes st in
  let look := fun (i : Z) => if i <? 0 then None else match nth_error nodes (Z.to_nat i) with Some (_, fs) => Some fs | None => None end in
  (* the Go map of methods keeps the LAST method of a name *)
  let tab := map (fun x => (pm_name (fst (fst x)), (snd (fst x), snd x))) ms in
  let roots := flat_map (fun m => match assocb_last (im_name m) tab with
                                  | Some (i, o) => [(im_in m, i); (im_out m, o)]
                                  | None => [] end) (id_methods im) in
  walk Z Z.eqb look (id_nodes im) pq what roots.

(* selectors of the recorded findings *)
Definition has_simple_collision (t : msgtab) : bool :=
  negb (nodupb bytes_eqb (map (fun p => last_comp (fst p)) t)).

Definition has_packed_false (s : schema) : bool :=
  existsb (fun f => existsb (fun d => match d with
                                      | DMsg _ fds => existsb (fun fd => (fd_label fd =? 1) && (fd_packopt fd =? 2)) fds
                                      | DEnum _ => false end) (pf_decls f)) s.

Definition triage_ok (s : schema) (t : triage) : bool :=
  match nth_error s (Z.to_nat (tr_file t)) with
  | Some f =>
    match resolve (symtab_of s f) (split_dots (tr_scope t)) (tr_ref t) with
    | Some (q, k) => bytes_eqb (join_dots q) (tr_fqn t) && (k =? tr_kind t)
    | None => false
    end
  | None => false
  end.

Definition triage2_ok (t : msgtab) (r : triage2) : bool :=
  match lookup_msg t (split_dots (t2_msg r)) with
  | Some mfs =>
    match by_number_spec mfs (t2_num r) with
    | LRes (Some mf) =>
      bytes_eqb (mf_json mf) (t2_json r) && (mf_kind mf =? t2_kind r) && Bool.eqb (mf_list mf) (t2_list r) &&
      Bool.eqb (mf_map mf) (t2_map r) && Bool.eqb (mf_packed mf) (t2_packed r)
    | _ => false
    end
  | None => false
  end.

Definition is_ok (w : wres) : bool := match w with WOk => true | _ => false end.

Definition judge (what : Z) (c : c15case) : verdict :=
  let s := cc_schema c in
  let im := cc_impl c in
  if negb (schema_ok (cc_mode c) s) then VSkip else
  match filter (fun t => negb (triage_ok s t)) (cc_triage c) with
  | t :: _ => VBad 90 [FB (tr_scope t); FB (tr_ref t); FB (tr_fqn t)]     (* model and reference linker disagree: model defect *)
  | [] =>
    let d := pelab (cc_mode c) s in
    match filter (fun r => negb (triage2_ok (pd_msgs d) r)) (cc_triage2 c) with
    | r :: _ => VBad 92 [FB (t2_msg r); FZ (t2_num r)]                    (* model and protobuf-go disagree on a field: model defect *)
    | [] =>
    if negb (id_err im =? 0) then VBad 91 [] else
    match check_methods d im with
    | WFail code det => VBad code det
    | WOk =>
      match run_spec what false d im with
      | WOk => VOk
      | WFail code det =>
        let coll := has_simple_collision (pd_msgs d) in
        let pf := has_packed_false s in
        if coll && is_ok (run_memo key_simple what false d im) then VKnown 1501
        else if pf && is_ok (run_spec what true d im) then VKnown 1502
        else if coll && pf && is_ok (run_memo key_simple what true d im) then VKnown 1501
        else VBad code det
      end
    end
    end
  end.

Definition check_c15 (what : Z) (fs : list field) : verdict :=
  match p_case fs with
  | Some (c, []) => judge what c
  | _ => VBad 99 []
  end.

(* 1501: methods, fields, type identity.  1502: + lookup by number sweeps.  1503: + lookup by name / JSON name sweeps *)
Definition check_1501 (fs : list field) : verdict := check_c15 1 fs.
Definition check_1502 (fs : list field) : verdict := check_c15 2 fs.
Definition check_1503 (fs : list field) : verdict := check_c15 3 fs.

(* 1504: util.FieldIDMap driven directly: nsets {id val} nprobes {id res} size
   res: val of the stored pointer, -1 nil, -2 panic. The algorithm-level model must agree on every id >= 0;
   a negative id must answer "absent" (the code indexes the slice and panics: recorded finding 1503). *)
Definition p_1504 : P (list (Z * Z) * list (Z * Z) * Z) :=
  sets <- pmany (i <- pz ;; v <- pz ;; ret (i, v)) ;; probes <- pmany (i <- pz ;; r <- pz ;; ret (i, r)) ;; sz <- pz ;;
  ret (sets, probes, sz).

Definition check_1504 (fs : list field) : verdict :=
  match p_1504 fs with
  | Some ((sets, probes, sz), []) =>
    if negb (forallb (fun p => (0 <=? fst p) && (0 <=? snd p)) sets) then VSkip else
    (* the slot-list model is run when the ids are small (it is unary in the id); the specification always *)
    let small := forallb (fun p => fst p <=? 5000) sets in
    let m := if small then fid_build sets else [] in
    let expect_of (id : Z) := match assoc_last id sets with Some v => v | None => -1 end in
    let bad := filter (fun p => let '(id, res) := p in
                 if id <? 0 then negb ((res =? -1) || (res =? -2))
                 else negb ((if small && (id <=? 6000)
                             then match fid_get m id with LRes (Some v) => res =? v | LRes None => res =? -1 | LPanic => false end
                             else true)
                            && (res =? expect_of id))) probes in
    match bad with
    | p :: _ => VBad 1 [FZ (fst p); FZ (expect_of (fst p))]
    | [] =>
      if small && negb (sz =? fid_size m) then VDrift 2
      else if existsb (fun p => (fst p <? 0) && (snd p =? -2)) probes then VKnown 1503 else VOk
    end
  | _ => VBad 99 []
  end.

(* 1505: MessageDescriptor.ByNumber on boundary numbers of a parsed message: ndecl {num} nprobes {n res}
   (res = Number() of the returned field, -1 nil, -2 panic) *)
Definition p_1505 : P (list Z * list (Z * Z)) :=
  ds <- pmany pz ;; probes <- pmany (i <- pz ;; r <- pz ;; ret (i, r)) ;; ret (ds, probes).

Definition check_1505 (fs : list field) : verdict :=
  match p_1505 fs with
  | Some ((ds, probes), []) =>
    let exp (n : Z) := if existsb (Z.eqb n) ds then n else -1 in
    match filter (fun p => negb ((snd p =? exp (fst p)) || ((fst p <? 0) && (snd p =? -2)))) probes with
    | p :: _ => VBad 1 [FZ (fst p); FZ (exp (fst p))]
    | [] => if existsb (fun p => (fst p <? 0) && (snd p =? -2)) probes then VKnown 1503 else VOk
    end
  | _ => VBad 99 []
  end.
