(* The case format shared by the Go harness, the OCaml driver and the in-Coq replay:
   a case is a check id and a list of fields; a field is a byte string or an integer. *)
From Coq Require Import ZArith List Bool.
Import ListNotations.
Local Open Scope Z_scope.

Inductive field := FB (bs : list Z) | FZ (z : Z).

Inductive verdict :=
| VOk                                   (* implementation output equals the model / satisfies the property *)
| VSkip                                 (* case outside the property's domain and both sides agree on that *)
| VBad (code : Z) (detail : list field) (* property violated on this case *)
| VKnown (finding : Z)                  (* deviates exactly as a listed known finding does *)
| VDrift (code : Z).                    (* differs on detail the property leaves open: counted, never an alarm *)

Fixpoint list_eqb {A} (eqb : A -> A -> bool) (a b : list A) : bool :=
  match a, b with
  | [], [] => true
  | x :: a', y :: b' => eqb x y && list_eqb eqb a' b'
  | _, _ => false
  end.
Definition bytes_eqb := list_eqb Z.eqb.

Definition field_eqb (a b : field) : bool :=
  match a, b with
  | FB x, FB y => bytes_eqb x y
  | FZ x, FZ y => x =? y
  | _, _ => false
  end.

Definition expect (code : Z) (ok : bool) (detail : list field) : verdict :=
  if ok then VOk else VBad code detail.

(* sequencing of checks: first non-ok verdict wins *)
Definition vand (a b : verdict) : verdict := match a with VOk => b | _ => a end.
