(* C08 - quirk models: what the recorded, unrepaired defects of conv/p2j make the output look like, so that the
   checker can classify EXACTLY those deviations as known findings (everything else stays a violation).

   1. [json_parse_len]: the JSON parser of Json.v, relaxed just enough to read the three malformed shapes p2j emits:
        bare member names   {-2:"neg", true:1}        -> member name  256 :: lexeme          (finding 802)
        doubly quoted names {""-5"":1}                -> member name  257 :: lexeme          (finding 804)
        missing values      {"d":,"x":[,1]}           -> value  JNum []  (empty lexeme)      (finding 803)
      256/257 are not bytes and the empty lexeme is not a number, so none of the three can come out of the strict
      parser: a document the strict parser accepts yields the same AST here.
   2. [pj_match]: kind-directed comparison of the expected tree ([pj], P2J.v) with the parsed output; numbers are
      compared by VALUE (integer lexemes through [lex_eq_int]/[parse_int], floats through [lex2f64]); with [lenient]
      it also accepts exactly what each defect produces and reports which finding ids were needed.
   3. [overrun]: selector of finding 805 (unpacked list / map loops are bounded by the BUFFER, not by the enclosing
      message).
   No proofs are needed about this file: it never produces an expected value for VOk. *)
From Coq Require Import ZArith List Bool.
From DG Require Import CaseFormat ProtoWireRef ProtoMsg Json Num Base64 P2J.
Import ListNotations.
Local Open Scope Z_scope.

Definition BARE := 256.
Definition DQUOTED := 257.
Definition is_close (c : Z) : bool := (c =? 44) || (c =? 93) || (c =? 125).

Section LenLoops.
  Variable pv : list Z -> option (json * list Z).

  Fixpoint len_elems (fuel : nat) (bs : list Z) : option (list json * list Z) :=
    match fuel with
    | O => None
    | S f =>
      match pv bs with
      | None => None
      | Some (x, r) =>
        match skip_ws r with
        | [] => None
        | c :: r2 =>
          if c =? 44 then match len_elems f r2 with Some (xs, r3) => Some (x :: xs, r3) | None => None end
          else if c =? 93 then Some ([x], r2) else None
        end
      end
    end.

  (* member name: a string literal, a doubly quoted number, a bare number or a bare true/false *)
  Definition len_key (fuel : nat) (bs : list Z) : option (list Z * list Z) :=
    match bs with
    | [] => None
    | q :: r =>
      if q =? 34 then
        match parse_str fuel r with
        | None => None
        | Some (k, r2) =>
          match k, skip_ws r2 with
          | [], c :: _ =>
            if c =? 58 then Some (k, r2)
            else match scan_num N0 r2 with
                 | Some (lex, 34 :: 34 :: r3) => Some (DQUOTED :: lex, r3)
                 | _ => None
                 end
          | _, _ => Some (k, r2)
          end
        end
      else if q =? 116 then match match_lit [114; 117; 101] r with Some r' => Some (BARE :: lit_true, r') | None => None end
      else if q =? 102 then match match_lit [97; 108; 115; 101] r with Some r' => Some (BARE :: lit_false, r') | None => None end
      else match scan_num N0 bs with Some (lex, r') => Some (BARE :: lex, r') | None => None end
    end.

  Fixpoint len_members (fuel : nat) (bs : list Z) : option (list (list Z * json) * list Z) :=
    match fuel with
    | O => None
    | S f =>
      match len_key fuel (skip_ws bs) with
      | None => None
      | Some (k, r2) =>
        match skip_ws r2 with
        | [] => None
        | c2 :: r3 =>
          if negb (c2 =? 58) then None else
          match pv r3 with
          | None => None
          | Some (x, r4) =>
            match skip_ws r4 with
            | [] => None
            | c3 :: r5 =>
              if c3 =? 44 then match len_members f r5 with Some (ms, r6) => Some ((k, x) :: ms, r6) | None => None end
              else if c3 =? 125 then Some ([(k, x)], r5) else None
            end
          end
        end
      end
    end.
End LenLoops.

Fixpoint len_value (d : nat) (bs : list Z) {struct d} : option (json * list Z) :=
  match d with
  | O => None
  | S d' =>
    match skip_ws bs with
    | [] => None
    | c :: r =>
      if is_close c then Some (JNum [], c :: r)                      (* missing value *)
      else if c =? 110 then match match_lit [117; 108; 108] r with Some r' => Some (JNull, r') | None => None end
      else if c =? 116 then match match_lit [114; 117; 101] r with Some r' => Some (JBool true, r') | None => None end
      else if c =? 102 then match match_lit [97; 108; 115; 101] r with Some r' => Some (JBool false, r') | None => None end
      else if c =? 34 then match parse_str d' r with Some (s, r') => Some (JStr s, r') | None => None end
      else if c =? 91 then
        match skip_ws r with
        | [] => None
        | c2 :: r2 =>
          if c2 =? 93 then Some (JArr [], r2)
          else match len_elems (len_value d') d' r with Some (xs, r') => Some (JArr xs, r') | None => None end
        end
      else if c =? 123 then
        match skip_ws r with
        | [] => None
        | c2 :: r2 =>
          if c2 =? 125 then Some (JObj [], r2)
          else match len_members (len_value d') d' r with Some (ms, r') => Some (JObj ms, r') | None => None end
        end
      else match scan_num N0 (c :: r) with Some (l, r') => Some (JNum l, r') | None => None end
    end
  end.

Definition json_parse_len (bs : list Z) : option json :=
  match len_value (S (S (length bs))) bs with
  | Some (j, r) => match skip_ws r with [] => Some j | _ => None end
  | None => None
  end.

(* ---------------------------------------------------------------- matching *)
(* finding ids (findings/C08.json) and drift codes *)
Definition F_UNSIGNED_NEG := 801.   (* uint64/fixed64 >= 2^63, fixed32 >= 2^31 printed as value - 2^64 / - 2^32 *)
Definition F_BARE_KEY := 802.       (* map keys of kind sint32/sint64/fixed32/fixed64/sfixed32/sfixed64/bool not quoted *)
Definition F_NONFINITE := 803.      (* NaN/+-Inf: no value emitted, nil error *)
Definition F_I64KEY := 804.         (* Int642String + map<int64,_>: key quoted twice *)
Definition F_OVERRUN := 805.        (* unpacked list / map loop runs past the end of the enclosing message *)
Definition D_NEGZERO := 891.        (* -0.0 printed as 0 (same number, sign of zero not kept) *)
Definition D_ORDER := 892.          (* members in another order than the wire *)

(* Some ids = matches (ids: which findings / drifts had to be invoked);  None = no match *)
Definition mres := option (list Z).
Definition mand (a b : mres) : mres :=
  match a, b with Some x, Some y => Some (x ++ y) | _, _ => None end.
Definition mok (b : bool) : mres := if b then Some [] else None.
Definition mor (a b : mres) : mres := match a with Some _ => a | None => b end.

(* what the unsigned defect prints for v of kind k, if it applies *)
Definition unsigned_neg_image (k v : Z) : option Z :=
  if ((k =? K_UINT64) || (k =? K_FIXED64)) && (2 ^ 63 <=? v) then Some (v - 2 ^ 64)
  else if (k =? K_FIXED32) && (2 ^ 31 <=? v) then Some (v - 2 ^ 32)
  else None.

Definition match_int_lex (lenient : bool) (k v : Z) (l : list Z) : mres :=
  if lex_eq_int l v then Some []
  else if lenient then
    match unsigned_neg_image k v, parse_int l with
    | Some w, Some z => if z =? w then Some [F_UNSIGNED_NEG] else None
    | _, _ => None
    end
  else None.

Definition match_f64 (lenient : bool) (b : Z) (a : json) : mres :=
  match a with
  | JNum l =>
    if f64_is_finite b then
      match lex2f64 l with
      | Some x => if x =? b then Some []
                  else if (b =? 2 ^ 63) && (x =? 0) then Some [D_NEGZERO]
                  else None
      | None => None
      end
    else if lenient then mok (match l with [] => true | _ => false end) else None
  | _ => None
  end.

Definition bare_key_kind (kk : Z) : bool :=
  (kk =? K_SINT32) || (kk =? K_SINT64) || (kk =? K_FIXED32) || (kk =? K_FIXED64) ||
  (kk =? K_SFIXED32) || (kk =? K_SFIXED64) || (kk =? K_BOOL).

(* expected key k (of a map with key kind kk) against the member name the parser returned *)
Definition match_key (lenient i64s : bool) (kk : Z) (k : mkey) (name : list Z) : mres :=
  match k with
  | KStr s => mok (zlist_eqb s name)
  | KInt _ v =>
    if kk =? K_BOOL then
      mor (mok (zlist_eqb (key_str k) name))
          (if lenient then match name with
                           | m :: l => if (m =? BARE) && zlist_eqb (key_str k) l then Some [F_BARE_KEY] else None
                           | [] => None end
           else None)
    else
      match name with
      | m :: l =>
        if m =? BARE then
          if lenient && bare_key_kind kk then
            match parse_int l with
            | Some z => if z =? v then Some [F_BARE_KEY]
                        else match unsigned_neg_image kk v with
                             | Some w => if z =? w then Some [F_BARE_KEY; F_UNSIGNED_NEG] else None
                             | None => None
                             end
            | None => None
            end
          else None
        else if m =? DQUOTED then
          if lenient && i64s && (kk =? K_INT64) then
            match parse_int l with Some z => if z =? v then Some [F_I64KEY] else None | None => None end
          else None
        else
          match parse_int name with
          | Some z => if z =? v then Some []
                      else if lenient then
                        match unsigned_neg_image kk v with
                        | Some w => if z =? w then Some [F_UNSIGNED_NEG] else None
                        | None => None
                        end
                      else None
          | None => None
          end
      | [] => None
      end
  end.

Fixpoint assoc_bytes {B} (k : list Z) (l : list (list Z * B)) : option B :=
  match l with [] => None | (m, x) :: r => if zlist_eqb m k then Some x else assoc_bytes k r end.

Fixpoint pj_match (lenient i64s : bool) (e : pj) (a : json) {struct e} : mres :=
  match e with
  | PJInt k v => match a with JNum l => match_int_lex lenient k v l | _ => None end
  | PJIntS k v => match a with JStr s => mok (match parse_int s with Some z => z =? v | None => false end) | _ => None end
  | PJF _ b => match_f64 lenient b a
  | PJBool b => match a with JBool b' => mok (Bool.eqb b b') | _ => None end
  | PJStr s => match a with JStr s' => mok (zlist_eqb s s') | _ => None end
  | PJB64 bs => match a with
                | JStr s' => mok (match b64_decode s' with Some d => zlist_eqb d bs | None => false end)
                | _ => None
                end
  | PJArr xs =>
    match a with
    | JArr ys =>
      mor ((fix go (l : list pj) (m : list json) {struct l} : mres :=
              match l, m with
              | [], [] => Some []
              | x :: l', y :: m' => mand (pj_match lenient i64s x y) (go l' m')
              | _, _ => None
              end) xs ys)
          (* one non-finite element, nothing emitted: "[]" *)
          (match xs, ys with
           | [PJF _ b], [] => if lenient && negb (f64_is_finite b) then Some [] else None
           | _, _ => None
           end)
    | _ => None
    end
  | PJObj ms =>
    match a with
    | JObj ns =>
      mor ((fix go (l : list (list Z * pj)) (m : list (list Z * json)) {struct l} : mres :=
              match l, m with
              | [], [] => Some []
              | x :: l', y :: m' => mand (mok (zlist_eqb (fst x) (fst y))) (mand (pj_match lenient i64s (snd x) (snd y)) (go l' m'))
              | _, _ => None
              end) ms ns)
          (* same members in another order *)
          (if (length ms =? length ns)%nat then
             mand (Some [D_ORDER])
               ((fix go (l : list (list Z * pj)) {struct l} : mres :=
                   match l with
                   | [] => Some []
                   | x :: l' => match assoc_bytes (fst x) ns with
                                | Some y => mand (pj_match lenient i64s (snd x) y) (go l')
                                | None => None
                                end
                   end) ms)
           else None)
    | _ => None
    end
  | PJMap kk ms =>
    match a with
    | JObj ns =>
      (fix go (l : list (mkey * pj)) (m : list (list Z * json)) {struct l} : mres :=
         match l, m with
         | [], [] => Some []
         | x :: l', y :: m' => mand (match_key lenient i64s kk (fst x) (fst y)) (mand (pj_match lenient i64s (snd x) (snd y)) (go l' m'))
         | _, _ => None
         end) ms ns
    | _ => None
    end
  end.

(* does the expected tree contain a non-finite float at all (selector of 803) *)
Definition has_nonfinite (p : pj) : bool := negb (pj_finite p).

(* ---------------------------------------------------------------- selector of finding 805
   In unmarshalList (unpacked branch) and unmarshalMap the loop condition is  p.Read < len(p.Buf)  and the loop stops
   when the next tag carries another field number.  Inside a NESTED message whose last record belongs to such a field
   (number n) the next tag in the buffer is the record that follows the nested message in an ancestor; if that record
   carries number n too, it is consumed as one more element / entry of the inner field.
   [overrun fs next]: next = number of the record following this message in the buffer (0 = end of buffer). *)
Fixpoint last_fld (fs : list (Z * pval)) : option (Z * pval) :=
  match fs with [] => None | [x] => Some x | _ :: r => last_fld r end.

Definition loops_to_buffer_end (v : pval) : bool :=
  match v with VList false _ => true | VMap _ => true | _ => false end.

Fixpoint overrun_val (n : Z) (v : pval) (next : Z) {struct v} : bool :=
  match v with
  | VMsg fs =>
    (match last_fld fs with
     | Some (m, lv) => loops_to_buffer_end lv && (m =? next)
     | None => false
     end) ||
    (fix go (l : list (Z * pval)) {struct l} : bool :=
       match l with
       | [] => false
       | (m, x) :: r => overrun_val m x (match r with (m', _) :: _ => m' | [] => next end) || go r
       end) fs
  | VList false vs =>
    (fix go (l : list pval) {struct l} : bool :=
       match l with
       | [] => false
       | x :: r => overrun_val n x (match r with _ :: _ => n | [] => next end) || go r
       end) vs
  | VMap kvs =>
    (fix go (l : list (mkey * pval)) {struct l} : bool :=
       match l with
       | [] => false
       | (_, x) :: r => overrun_val n x (match r with _ :: _ => n | [] => next end) || go r
       end) kvs
  | _ => false
  end.

(* the top-level message is followed by the end of the buffer; its own loops are bounded by the buffer correctly *)
Definition overrun (m : pmsg) : bool :=
  (fix go (l : list (Z * pval)) {struct l} : bool :=
     match l with
     | [] => false
     | (n, x) :: r => overrun_val n x (match r with (n', _) :: _ => n' | [] => 0 end) || go r
     end) m.
