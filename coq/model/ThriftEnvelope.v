(* Thrift binary message envelope (WrapBinaryBody / UnwrapBinaryMessage / GetBinaryMessageHeaderAndFooter)
   and canonical forms of values (for comparing encodings of unordered Go maps). *)
From Coq Require Import ZArith List Bool.
From DG Require Import ProtoWireRef ThriftWire CaseFormat.
Import ListNotations.
Local Open Scope Z_scope.

Definition VERSION_1 : Z := 2147549184.      (* 0x80010000 *)
Definition VERSION_MASK : Z := 4294901760.   (* 0xffff0000 *)

(* thrift.Type.Valid *)
Definition type_valid (t : Z) : bool :=
  (t =? 0) || (t =? 1) || (t =? 2) || (t =? 3) || (t =? 4) || (t =? 6) || (t =? 8) || (t =? 10) || (t =? 11) ||
  (t =? 12) || (t =? 13) || (t =? 14) || (t =? 15) || (t =? 16) || (t =? 17).

Definition env_header (name : list Z) (ty id seq : Z) : list Z :=
  enc_int 4 (VERSION_1 + ty) ++ enc_int 4 (zlen name) ++ name ++ enc_int 4 seq ++ [T_STRUCT] ++ enc_int 2 id.
Definition env_footer : list Z := [0].
Definition wrap (body name : list Z) (ty id seq : Z) : list Z := env_header name ty id seq ++ body ++ env_footer.

(* mirrors ReadMessageBegin + UnwrapBody *)
Definition unwrap (bs : list Z) : option (list Z * Z * Z * Z * list Z) :=
  match take 4 bs with
  | None => None
  | Some (vb, r1) =>
    let size := dec_int vb in
    if size >? 0 then None else
    let ty := Z.land size 255 in
    if negb (Z.land (size mod 2 ^ 64) VERSION_MASK =? VERSION_1) then None else
    match take 4 r1 with
    | None => None
    | Some (lb, r2) =>
      let n := dec_int lb in
      if (n <? 0) || (n >? zlen r2) then None else
      match take (Z.to_nat n) r2 with
      | None => None
      | Some (name, r3) =>
        match take 4 r3 with
        | None => None
        | Some (sb, r4) =>
          let seq := dec_int sb in
          match r4 with
          | [] => None
          | ft :: r5 =>
            if negb (type_valid ft) then None else
            if ft =? 0 then Some (name, ty, seq, 0, [])
            else match take 2 r5 with
                 | None => None
                 | Some (idb, r6) =>
                   match r6 with
                   | [] => None
                   | _ => Some (name, ty, seq, dec_int idb, removelast r6)
                   end
                 end
          end
        end
      end
    end
  end.

(* ---- canonical form: struct fields sorted by id, map entries sorted by encoded key ---- *)
Fixpoint bytes_ltb (a b : list Z) : bool :=
  match a, b with
  | [], [] => false
  | [], _ => true
  | _, [] => false
  | x :: a', y :: b' => if x <? y then true else if y <? x then false else bytes_ltb a' b'
  end.

Fixpoint insert_by {A} (lt : A -> A -> bool) (x : A) (l : list A) : list A :=
  match l with
  | [] => [x]
  | y :: r => if lt x y then x :: l else y :: insert_by lt x r
  end.
Definition sort_by {A} (lt : A -> A -> bool) (l : list A) : list A := fold_right (insert_by lt) [] l.

Fixpoint canon (v : tval) : tval :=
  match v with
  | VStruct fs => VStruct (sort_by (fun a b => fst a <? fst b) (map (fun f => (fst f, canon (snd f))) fs))
  | VMap kt vt es => VMap kt vt (sort_by (fun a b => bytes_ltb (encode (fst a)) (encode (fst b)))
                                   (map (fun e => (canon (fst e), canon (snd e))) es))
  | VSet et es => VSet et (map canon es)
  | VList et es => VList et (map canon es)
  | _ => v
  end.
