(* C20: Skip of one wire value (proto/binary Skip / SkipBytesType / SkipFixed32Type / SkipFixed64Type): "decoders report the exact number of
   bytes consumed or an error" — on complete, truncated and over-long inputs. The expectation comes from the reference
   varint decoder of ProtoWireRef (proved equal to the generated ConsumeVarint). *)
From Coq Require Import ZArith List Bool.
From DG Require Import CaseFormat ProtoWireRef.
Import ListNotations.
Local Open Scope Z_scope.

Definition blen (l : list Z) : Z := Z.of_nat (length l).

(* number of bytes a well-formed value of the wire type occupies at the head of bs, or None when it is cut short / malformed *)
Definition wire_value_len (wt : Z) (bs : list Z) : option Z :=
  if wt =? 0 then let '(_, n) := varint_dec bs in if n <? 0 then None else Some n
  else if wt =? 5 then if 4 <=? blen bs then Some 4 else None
  else if wt =? 1 then if 8 <=? blen bs then Some 8 else None
  else if wt =? 2 then
    let '(v, n) := varint_dec bs in
    if n <? 0 then None else if v <=? blen bs - n then Some (n + v) else None
  else None.

(* 2008. fields: wire type, bytes, error flag (0 ok), cursor after the call *)
Definition check_2008 (fs : list field) : verdict :=
  match fs with
  | [FZ wt; FB bs; FZ err; FZ rd] =>
    if negb (bytes_okb bs) then VSkip else
    match wire_value_len wt bs with
    | Some n => vand (expect 1 (err =? 0) [FZ n]) (expect 2 (rd =? n) [FZ n])
    | None => expect 3 (negb (err =? 0)) []
    end
  | _ => VBad 99 []
  end.
